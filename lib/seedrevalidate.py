#!/usr/bin/env python3
"""Developer tool: re-validate every stored seeded mutation against the CURRENT /repo HEAD:
  - the patch still applies;
  - the stored demonstration (seeded/<id>/demo/main.go, public API only) still exits 0 on the
    unchanged tree and non-zero with the patch (a later repair may have neutralised a mutation);
  - the property's check (or the checks named in meta.json 'checks') reports a violation with it.
Usage: python3 lib/seedrevalidate.py [ids...] [--no-checks]"""
import json, os, subprocess, sys, shutil, time

ENV = dict(os.environ, GOFLAGS="-mod=mod", GOPROXY="off")
ENV.pop("GOSUMDB", None)
V = "/verif"
SCR = "/root/scratch/seedreval"


def sh(cmd, cwd=None, timeout=3600):
    p = subprocess.run(cmd, cwd=cwd, shell=True, env=ENV, stdout=subprocess.PIPE, stderr=subprocess.STDOUT, text=True, timeout=timeout)
    return p.returncode, p.stdout


def demo(dirname):
    d = os.path.join(SCR, "demo")
    shutil.rmtree(d, ignore_errors=True)
    os.makedirs(d)
    shutil.copy(os.path.join(V, "seeded", dirname, "demo", "main.go"), d)
    open(os.path.join(d, "go.mod"), "w").write("module seeddemo\ngo 1.25.4\nrequire github.com/coregx/coregex v0.0.0\nreplace github.com/coregx/coregex => /repo\n")
    shutil.copy("/repo/go.sum", d)
    rc, o = sh("go run .", cwd=d, timeout=900)
    return rc, o[-600:]


def main():
    args = [a for a in sys.argv[1:] if not a.startswith("--")]
    nochecks = "--no-checks" in sys.argv
    ids = args or sorted(os.listdir(os.path.join(V, "seeded")))
    rc, o = sh("git -C /repo status --short")
    if o.strip():
        print("/repo not clean"); return 2
    for dn in ids:
        out = os.path.join(V, "seeded", dn)
        patch = os.path.join(out, "patch.diff")
        meta = json.load(open(os.path.join(out, "meta.json")))
        res = {"head": sh("git -C /repo rev-parse --short HEAD")[1].strip()}
        rc, o = sh("git -C /repo apply --check %s" % patch)
        res["applies"] = rc == 0
        if rc != 0:
            print(dn, "PATCH DOES NOT APPLY"); meta["revalidated"] = res
            json.dump(meta, open(os.path.join(out, "meta.json"), "w"), indent=1); continue
        rc0, _ = demo(dn)
        sh("git -C /repo apply %s" % patch)
        try:
            rc1, o1 = demo(dn)
            res["demo_passes_without_change"] = rc0 == 0
            res["demo_fails_with_change"] = rc1 != 0
            if not nochecks:
                checks = meta.get("checks") or [meta.get("property", dn[:3])]
                ran = []
                for c in checks:
                    t0 = time.time()
                    rc, o = sh("./check %s" % c, cwd=V)
                    ran.append({"check": "./check %s" % c, "exit": rc, "seconds": round(time.time() - t0),
                                "violation_lines": sum(1 for l in o.splitlines() if l.startswith("VIOLATION"))})
                res["ran"] = ran
                res["detected"] = any(r["exit"] != 0 for r in ran)
        finally:
            sh("git -C /repo checkout -- .")
        meta["revalidated"] = res
        json.dump(meta, open(os.path.join(out, "meta.json"), "w"), indent=1)
        print(dn, {k: v for k, v in res.items() if k != "ran"}, [(r["check"], r["exit"]) for r in res.get("ran", [])])
    shutil.rmtree(SCR, ignore_errors=True)
    return 0


if __name__ == "__main__":
    sys.exit(main())
