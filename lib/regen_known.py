#!/usr/bin/env python3
"""Developer tool (never run by a check): regenerate the ledger-derived OPEN entries of
KNOWN_FINDINGS.txt for the properties whose findings are identified by exact failing inputs
(hash ledgers under known/).  Hand-written entries and `fixed:` lines are kept as they are."""
import collections
import json
import os
import re

V = os.path.dirname(os.path.dirname(os.path.abspath(__file__)))
KF = os.path.join(V, "KNOWN_FINDINGS.txt")
AUTO = ("C01", "C02", "C03", "C10", "C11", "C12", "C14", "C15", "C19", "C07", "C05", "C20")


def rcs(f):
    """root-cause labels of a ledger: counts from the quick-tier ledger; labels that only the larger corpus of
    the thorough tier produces (known/Cxx.thorough.ledger) are added with their thorough counts."""
    c = collections.Counter()
    ex = {}
    for path, only_new in ((os.path.join(V, f), False), (os.path.join(V, f[:-len(".ledger")] + ".thorough.ledger"), True)):
        if not os.path.exists(path):
            continue
        seen = set(c)
        for l in open(path, errors="replace").read().split("\n"):
            if not l.strip() or l.startswith("#"):
                continue
            parts = l.split(" ", 2)
            if only_new and parts[1] in seen:
                continue
            c[parts[1]] += 1
            if len(parts) > 2 and parts[1] not in ex:
                ex[parts[1]] = parts[2][:170]
    return c, ex


def main():
    keep = []
    for line in open(KF, errors="replace").read().split("\n"):
        if line.startswith("open:"):
            e = json.loads(line[5:])
            if e.get("auto") and e.get("property") in AUTO:
                continue
        if line.strip():
            keep.append(line)
    E = []

    def add(**e):
        e["status"] = "open"
        e["auto"] = True
        E.append(e)

    for prop in ("C01", "C02", "C03"):
        led = "known/%s.ledger" % prop
        c, ex = rcs(led)
        for rc, n in sorted(c.items()):
            if rc == "compiled-nfa-vs-regexp":
                what = ("the NFA produced by the compiler does not denote the pattern (the Coq reference simulation of the compiled NFA "
                        "disagrees with regexp): dot / negated classes / classes containing U+FFFD vs invalid UTF-8 bytes (regexp treats each "
                        "invalid byte as U+FFFD of width 1; a byte automaton without look-ahead cannot) - %d recorded inputs in %s, e.g. %s" % (n, led, ex.get(rc, "")))
            else:
                what = "strategy %s returns a different result than regexp - %d recorded inputs in %s, e.g. %s" % (rc.split("/", 1)[1], n, led, ex.get(rc, ""))
            add(id="%s-%s" % (prop, rc.replace("/", "-")), property=prop, ledger=led, rcs=[rc], what=what)
    # C03: PikeVM capture entry points driven directly (pikecaps-cases) vs regexp
    led = "known/C03pike.ledger"
    c, ex = rcs(led)
    if c:
        add(id="C03-pikevm-captures-vs-regexp", property="C03", ledger=led, rcs=sorted(c),
            what="nfa.PikeVM capture entry points equal the Coq reference on the compiled NFA (lists M, R empty) but differ from regexp: empty "
                 "matches inside a multi-byte rune (`(\\B)` on \"x\u00e9 \"), the compiled-NFA findings of C01/C15 - %d recorded inputs in %s "
                 "(thorough corpus only), e.g. %s" % (sum(c.values()), led, next(iter(ex.values()), "")))
    # C10
    led = "known/C10.ledger"
    c, ex = rcs(led)
    if c:
        add(id="C10-longest", property="C10", ledger=led, rc_prefixes=["longest/", "copy-then-longest/"],
            what="Longest() (also on a Copy) differs from regexp in longest mode: the single-match findings of C02/C03 persist in longest mode and "
                 "the longest-mode sub-match choice differs - %d recorded inputs in %s" % (sum(n for r, n in c.items() if r.startswith(("longest/", "copy-then-longest/"))), led))
        add(id="C10-posix", property="C10", ledger=led, rc_prefixes=["posix/"],
            what="CompilePOSIX values differ from regexp.CompilePOSIX on the same inputs as in longest mode - %d recorded inputs in %s" % (sum(n for r, n in c.items() if r.startswith("posix/")), led))
        for rc, n in sorted(c.items()):
            if not rc.startswith(("longest/", "copy-then-longest/", "posix/")):
                add(id="C10-" + re.sub(r"[^A-Za-z0-9]+", "-", rc), property="C10", ledger=led, rcs=[rc],
                    what="%s: a value searched in default mode before Longest() answers differently from a value on which Longest() was called right after Compile - %d recorded inputs in %s, e.g. %s" % (rc, n, led, ex.get(rc, "")))
    # C11
    led = "known/C11.ledger"
    c, ex = rcs(led)
    for s in sorted(set(r.rsplit("/", 1)[1] for r in c)):
        n = sum(k for r, k in c.items() if r.endswith("/" + s))
        e1 = next((ex[r] for r in ex if r.endswith("/" + s)), "")
        add(id="C11-" + s, property="C11", ledger=led, rc_suffixes=["/" + s],
            what="views of one Regex disagree under strategy %s (the per-strategy dispatchers for boolean / span / span-at-offset / captures are "
                 "not projections of one function) - %d recorded inputs in %s, e.g. %s" % (s, n, led, e1))
    # C12
    led = "known/C12.ledger"
    c, ex = rcs(led)
    if c:
        lit = sorted(r for r in c if r.startswith("config-vs-default/") and ("maxlits" in r or "minlit" in r))
        eng = sorted(r for r in c if r.startswith("config-vs-default/") and r not in lit)
        cpu = sorted(r for r in c if r.startswith("cpu-mask/"))
        if lit:
            add(id="C12-literal-limits", property="C12", ledger=led, rcs=lit,
                what="MaxLiterals / MinLiteralLen change answers: the literal set is truncated to MaxLiterals without being flagged partial, so the "
                     "prefilter gate skips matches (`a|b` with MaxLiterals=1 never finds b) - the C17 finding seen through the configuration; %d recorded inputs in %s" % (sum(c[r] for r in lit), led))
        if eng:
            add(id="C12-engine-selection", property="C12", ledger=led, rcs=eng,
                what="DFA on/off, MaxDFAStates, DeterminizationLimit, prefilter on/off change answers because they select a different strategy/"
                     "engine and the strategies disagree with each other (C02/C14 findings) - %d recorded inputs in %s" % (sum(c[r] for r in eng), led))
        if cpu:
            add(id="C12-cpu-mask", property="C12", ledger=led, rcs=cpu,
                what="results differ when CPU vector extensions are masked - %d recorded inputs in %s" % (sum(c[r] for r in cpu), led))
        dn = sum(n for r, n in c.items() if r.startswith("default-vs-nfa"))
        if dn:
            add(id="C12-default-vs-nfa", property="C12", ledger=led, rc_prefixes=["default-vs-nfa-reference/"],
                what="the default configuration disagrees with the plain NFA simulation (Coq reference on the NFA dumped from the compiler) - the "
                     "strategy-level C02 findings; %d recorded inputs in %s" % (dn, led))
    # C14
    led = "known/C14.ledger"
    c, ex = rcs(led)
    groups = [("lazy-DFA-forward", lambda r: r.startswith("lazy.DFA."),
               "lazy.DFA forward entry points driven directly differ from the reference: SearchFirstAt (earliest-match mode, compared with "
               "the EARLIEST end of any match) returns the leftmost-first end when it falls back to the NFA under a small cache; "
               "look-around patterns (word boundaries are resolved on unordered state sets, start states carry no precomputed \\b flags, "
               "`$` followed by \\b, multiline `$^`: `(?m)^$` on \"\\x00\\n\\n\" returns 3); dot / negated classes on invalid UTF-8"),
              ("lazy-DFA-reverse", lambda r: r.startswith("lazy.DFA(reverse)"),
               "reverse lazy.DFA SearchReverse/IsMatchReverse differ from the reference start (empty spans, look-around)"),
              ("PikeVM-captures", lambda r: r.startswith("PikeVM."),
               "PikeVM capture entry points differ from the reference: the legacy copy-on-write captures report a later iteration (`(a|b)*abb` on "
               "\"aaabb\": group 1 [2 2], reference and regexp [1 2]); the empty-match shortcut at at==len(h) returns no sub-captures (`(a*)*` on \"\")"),
              ("onepass-DFA", lambda r: r.startswith("onepass"), "onepass.DFA.Search/IsMatch differ from the anchored reference"),
              ("BoundedBacktracker", lambda r: r.startswith("Bounded"), "BoundedBacktracker entry points differ from the reference")]
    for gid, pred, txt in groups:
        rl = sorted(r for r in c if pred(r))
        if rl:
            add(id="C14-" + gid, property="C14", ledger=led, rcs=rl, what=txt + " - %d recorded inputs in %s" % (sum(c[r] for r in rl), led))
    # C14: lazy DFA call histories (dfa-cases)
    led = "known/C14dfa.ledger"
    c, ex = rcs(led)
    if c:
        add(id="C14-lazy-DFA-histories", property="C14", ledger=led, rcs=sorted(c),
            what="lazy.DFA entry points on one cache after a history of calls differ from the bounded backtracker (look-around patterns: "
                 "start states without precomputed \\b flags, word boundaries resolved on sorted sets, `$` followed by \\b) - %d recorded "
                 "inputs in %s, e.g. %s" % (sum(c.values()), led, next(iter(ex.values()), "")))
    # C15
    led = "known/C15.ledger"
    c, ex = rcs(led)
    txt15 = {"automaton-vs-regexp/missing-invalid-byte": "dot and classes containing U+FFFD reject a lone invalid byte (regexp decodes it as U+FFFD of width 1): `.` rejects C2, `[\\x{FFFD}]` and `\\P{..}` reject 80",
             "pair-vs-regexp/extra-rune": "two class atoms in a row accept ONE multi-byte rune split in the middle (`\\W\\W`, `[^a][^a]` accept C2 80)",
             "pair-vs-regexp/missing-ill-formed": "`..` rejects 00 C2, `[\\x{FFFD}]{2}` rejects 80 80 (invalid bytes)",
             "pair-vs-regexp/extra-many-runes": "two class atoms accept a longer ill-formed sequence"}
    for rc, n in sorted(c.items()):
        add(id="C15-" + re.sub(r"[^A-Za-z0-9]+", "-", rc), property="C15", ledger=led, rcs=[rc],
            what="%s - a byte automaton without look-ahead cannot reproduce the decoder's invalid-byte rule; %d recorded automata/witnesses in %s, e.g. %s"
                 % (txt15.get(rc, rc), n, led, ex.get(rc, "")))
    # generic per-rc entries for the remaining auto properties
    for prop in ("C19", "C07", "C05", "C20"):
        led = "known/%s.ledger" % prop
        c, ex = rcs(led)
        for rc, n in sorted(c.items()):
            add(id="%s-%s" % (prop, re.sub(r"[^A-Za-z0-9]+", "-", rc)), property=prop, ledger=led, rcs=[rc],
                what="%s - %d recorded inputs in %s, e.g. %s" % (rc, n, led, ex.get(rc, "")))
    with open(KF, "w") as f:
        f.write("\n".join(keep) + "\n")
        for e in E:
            f.write("open: " + json.dumps(e, ensure_ascii=False) + "\n")
    print("kept", len(keep), "lines; regenerated", len(E), "entries")


if __name__ == "__main__":
    main()
