"""Generic shape shared by most property checks:

  1. (re)build the hand-written Coq development (make; no-op when unchanged) and
     re-compile the property's Props_Cxx.v, collecting the theorems and their
     Print Assumptions output  -> proof obligations of kind "generic theorem";
  2. build the Go harness against /repo's working tree (-tags verif) and run the
     property's sub-command: it exercises the implementation, compares with the
     specification side on the Go side (failing-input search), and writes a Coq case
     file with the observed outputs;
  3. evaluate the case file(s) inside Coq (vm_compute): model/spec vs implementation
     -> obligations of kind "correspondence", failing ids mapped back to inputs.
"""
import json
import os
import re

from . import common


def _strip_comments(src):
    out, depth, i, n = [], 0, 0, len(src)
    while i < n:
        if src.startswith("(*", i):
            depth += 1
            i += 2
        elif src.startswith("*)", i) and depth > 0:
            depth -= 1
            i += 2
        else:
            if depth == 0:
                out.append(src[i])
            elif src[i] == "\n":
                out.append("\n")
            i += 1
    return "".join(out)


_FORBIDDEN = [r"^\s*(Local\s+|Global\s+|Polymorphic\s+)*(Axiom|Axioms|Parameter|Parameters|Conjecture|Conjectures)\b", r"\bAdmitted\b", r"\badmit\b",
              r"\bAdmit\s+Obligations\b", r"Unset\s+Guard\s+Checking", r"Unset\s+Positivity\s+Checking", r"Unset\s+Universe\s+Checking",
              r"bypass_check", r"type-in-type", r"impredicative-set"]
_hygiene_done = {}


def hygiene_obligation(ctx):
    """Static obligation on the whole development (every run): no Axiom / Parameter / Conjecture / Admitted / admit / Admit
    Obligations, no Variable / Hypothesis outside a Section, no disabled kernel check, no -type-in-type in _CoqProject."""
    bad = []
    d = os.path.join(common.VERIF, "coq")
    files = sorted(f for f in os.listdir(d) if f.endswith(".v") and not f.startswith("cases"))
    files += sorted(os.path.join("leaf", f) for f in os.listdir(os.path.join(d, "leaf")) if f.endswith(".v"))
    for f in files:
        src = _strip_comments(open(os.path.join(d, f), errors="replace").read())
        depth = 0
        for ln, line in enumerate(src.split("\n"), 1):
            for pat in _FORBIDDEN:
                if re.search(pat, line):
                    bad.append("%s:%d: %s" % (f, ln, line.strip()[:80]))
            if re.match(r"^\s*(Section|Module\s+Type)\s+\w+", line):
                depth += 1
            elif re.match(r"^\s*End\s+\w+\s*\.", line) and depth > 0:
                depth -= 1
            elif depth == 0 and re.match(r"^\s*(Variable|Variables|Hypothesis|Hypotheses|Context)\b", line):
                bad.append("%s:%d: %s outside a Section" % (f, ln, line.strip()[:60]))
    proj = open(os.path.join(d, "_CoqProject")).read()
    for pat in ("type-in-type", "impredicative-set", "-vos", "-vok", "bypass"):
        if pat in proj:
            bad.append("_CoqProject: " + pat)
    ctx.oblige("hygiene: %d .v files free of Axiom/Parameter/Conjecture/Admitted/admit, Variable/Hypothesis outside sections and disabled kernel checks" % len(files),
               not bad, "; ".join(bad[:20]))
    if bad:
        ctx.violations.append({"kind": "coq-hygiene", "static": True, "sig": "coq-hygiene " + bad[0], "detail": {"offending": bad[:50]}})


def coqchk_obligation(ctx, props_names):
    """Thorough tier: re-check the compiled Props modules and everything they depend on with the independent checker
    coqchk, and read the axioms it reports for the whole context."""
    mods = ["CV." + n for n in props_names]
    with common.Lock("coqbuild"):
        p = common.sh(["timeout", "5400", "coqchk", "-silent", "-o", "-Q", common.COQ, "CV"] + mods, cwd=common.COQ, timeout=5500, check=False)
    out = p.stdout or ""
    m = re.search(r"\* Axioms:\s*(.*?)\n\s*\n\s*\* Constants/Inductives relying on type-in-type:\s*(.*?)\n\s*\n\s*\* Constants/Inductives relying on unsafe \(co\)fixpoints:\s*(.*?)\n\s*\n\s*\* Inductives whose positivity is assumed:\s*(.*?)\n", out, re.S)
    ok = p.returncode == 0 and m is not None and all(g.strip() == "<none>" for g in m.groups())
    ctx.oblige("coqchk -o %s: modules re-checked, Axioms / type-in-type / unsafe fixpoints / assumed positivity all <none>" % " ".join(props_names),
               ok, out[-1500:])
    ctx.coverage["coqchk"] = "coqchk -silent -o on %s: %s" % (", ".join(props_names), "no axioms, no unsafe definitions" if ok else "FAILED")
    if not ok:
        ctx.violations.append({"kind": "coqchk", "static": True, "sig": "coqchk " + " ".join(props_names), "detail": {"output_tail": out[-1500:]}})


LEAF_GROUPS = {
    # group -> Go functions covered (the theorems are whatever Props_Leaf<group>.v states)
    "Word": ["nfa.isWordByte", "lazy.isWordByte", "simd.isWordChar", "nfa.checkLookAssertion"],
    "Case": ["nfa.isASCIILetter", "nfa.toUpperASCII", "nfa.toLowerASCII"],
    "Step": ["meta.emptyMatchStep", "coregex.emptyMatchStep"],
    "Line": ["meta.lineStartBefore", "meta.findLineStart"],
    "Rune": ["nfa.runeWidth"],
}


def leaf_obligations(ctx, groups):
    """Translator route: the leaf functions of `groups` are translated from /repo's CURRENT source into Gallina
    (harness go2v -> LeafGen.v) and the theorems of coq/leaf/Leaf<group>.v + Props_Leaf<group>.v are re-checked against
    that translation.  When a theorem no longer checks, LeafSearch.v looks for a concrete input on which the translated
    function differs from the specification side."""
    import hashlib
    import shutil
    hb = common.build_harness()
    src = os.path.join(common.COQ, "leaf")
    d = ctx.path("leaf")
    os.makedirs(d, exist_ok=True)
    gen = os.path.join(d, "LeafGen.v")
    rc, out = common.harness(ctx, hb, "go2v", ["-repo", common.REPO, "-out", gen], timeout=300)
    if rc != 0 or not os.path.exists(gen):
        ctx.oblige("leaf-translation: go2v translates the leaf functions of the current source", False, out[-1500:])
        ctx.violations.append({"kind": "leaf-translation", "static": True, "sig": "leaf-translation " + out[-200:],
                               "detail": {"translator_output": out[-1500:],
                                          "meaning": "a leaf function left the translated fragment (or disappeared): its theorems are no longer shown for the current code"}})
        return
    for f in os.listdir(src):
        if f.endswith(".v") and f != "LeafGen.v":
            shutil.copyfile(os.path.join(src, f), os.path.join(d, f))
    text = open(gen).read()
    snap = os.path.join(src, "LeafGen.v")
    same = os.path.exists(snap) and open(snap).read() == text
    ctx.coverage.setdefault("leaf_translation", {})["LeafGen.v"] = "sha1 %s, %s the committed snapshot" % (
        hashlib.sha1(text.encode()).hexdigest()[:12], "identical to" if same else "DIFFERS from")
    q = ((d, "Leaf"),)
    rc, out = common.coqc("LeafGen.v", d, timeout=300, extra_q=q)
    if rc != 0:
        ctx.oblige("leaf-translation: LeafGen.v type-checks", False, out[-1500:])
        ctx.violations.append({"kind": "leaf-translation", "static": True, "sig": "leaf-translation LeafGen.v does not type-check",
                               "detail": {"output": out[-1500:]}})
        return
    failed = []
    for g in groups:
        rc1, out1 = common.coqc("Leaf%s.v" % g, d, timeout=600, extra_q=q)
        rc2, out2 = (1, "") if rc1 != 0 else common.coqc("Props_Leaf%s.v" % g, d, timeout=300, extra_q=q)
        psrc = open(os.path.join(d, "Props_Leaf%s.v" % g)).read()
        thms = re.findall(r"^Theorem\s+([A-Za-z0-9_']+)", psrc, re.M)
        reports = re.findall(r"(Closed under the global context|Axioms:\n(?:.+\n)+)", out2)
        for i, t in enumerate(thms):
            ok = rc2 == 0 and i < len(reports) and reports[i].startswith("Closed")
            ctx.oblige("Props_Leaf%s.%s (re-checked against the translation of the current source)" % (g, t), ok, (out1 + out2)[-1200:])
        ctx.coverage.setdefault("theorems", []).extend(thms)
        if rc1 != 0 or rc2 != 0:
            failed.append((g, (out1 + out2)[-1500:]))
    ctx.coverage["leaf_translation"]["groups"] = {g: LEAF_GROUPS[g] for g in groups}
    if not failed:
        return
    # failing-input search
    rc, out = common.coqc("LeafSearch.v", d, timeout=900, extra_q=q)
    found = {}
    if rc == 0:
        for m in re.finditer(r"^F_([A-Za-z0-9_]+)\s*=\s*(.*?)\n\s*:\s", out, re.S | re.M):
            body = " ".join(m.group(2).split())
            if body not in ("[]", "nil"):
                found[m.group(1)] = body
    for g, o in failed:
        fns = [f.replace(".", "_") for f in LEAF_GROUPS[g]]
        hit = [(f, found[f]) for f in fns if f in found]
        if hit:
            for f, body in hit:
                ctx.violations.append({"kind": "leaf:" + f, "sig": "leaf %s differs from its specification on %s" % (f, body[:160]),
                                       "detail": {"function": f.replace("_", ".", 1), "group": g,
                                                  "inputs_where_translated_code_differs_from_specification": body[:1500],
                                                  "how_found": "LeafSearch.v evaluated on the translation of the current source (vm_compute)",
                                                  "theorems_no_longer_checking": "Props_Leaf%s.v" % g, "coqc_output": o[-600:]}})
        else:
            ctx.violations.append({"kind": "leaf-theorem:Props_Leaf" + g, "static": True,
                                   "sig": "Props_Leaf%s no longer checks against the translated source" % g,
                                   "detail": {"theorem_file": "coq/leaf/Leaf%s.v / Props_Leaf%s.v" % (g, g), "functions": LEAF_GROUPS[g],
                                              "coqc_output": o, "search": "LeafSearch.v found no differing input" if rc == 0 else "LeafSearch.v did not compile"}})


def props_obligations(ctx, props_name):
    """Obligations: one per theorem in Props_<...>.v, discharged iff the file compiles and
    Print Assumptions reports 'Closed under the global context' for it."""
    thms, closed, out, axioms, rc = common.props_file_obligations(props_name)
    if rc != 0:
        ctx.oblige(props_name + " (compiles)", False, out[-3000:])
        ctx.notes.append("coqc %s.v failed: %s" % (props_name, out[-800:]))
        return
    # pair theorems with their assumption reports in order
    reports = re.findall(r"(Closed under the global context|Axioms:\n(?:.+\n)+)", out)
    for i, t in enumerate(thms):
        rep = reports[i] if i < len(reports) else "missing Print Assumptions"
        ok = rep.startswith("Closed")
        ctx.oblige("%s.%s" % (props_name, t), ok, rep)
        if not ok:
            ctx.assumptions.append("%s depends on: %s" % (t, rep.strip()))
    ctx.coverage.setdefault("print_assumptions", "Closed under the global context for %d/%d theorems of %s" % (closed, len(thms), props_name))
    ctx.coverage.setdefault("theorems", []).extend(thms)


def run_cases(ctx, cases_path, label, expected_ids=None, lists=("M",)):
    """Evaluate a generated case file in Coq. Returns dict name -> list of failing ids (or None)."""
    rc, out = common.coqc(os.path.basename(cases_path), os.path.dirname(cases_path), timeout=2400)
    res = {}
    if rc != 0:
        ctx.oblige("correspondence:%s (case file evaluates)" % label, False, out[-3000:])
        ctx.notes.append("coqc of %s failed: %s" % (label, out[-1200:]))
        return None
    for name in lists:
        m = re.search(r"^%s\s*=\s*(.*?)\n\s*:\s" % re.escape(name), out, re.S | re.M)
        if not m:
            ctx.oblige("correspondence:%s (%s printed)" % (label, name), False, out[-2000:])
            res[name] = None
            continue
        body = m.group(1).strip()
        ids = [] if body in ("[]", "nil") else [int(x) for x in re.findall(r"-?\d+", body)]
        res[name] = ids
    return res


def ledger_file(ctx, ledger):
    """The thorough tier explores a larger fixed corpus than the quick tier, so it has its own
    ledger of recorded failing inputs (known/Cxx.thorough.ledger); the known findings that own
    the inputs are the same (matched by the base name known/Cxx.ledger)."""
    path = os.path.join(common.VERIF, ledger)
    if ctx.tier == "thorough":
        path = path[:-len(".ledger")] + ".thorough.ledger" if path.endswith(".ledger") else path + ".thorough"
    return path


def ledger_env(ctx, ledger):
    """Environment for a harness run in ledger mode (or record mode when the developer asked
    for it with ./check Cxx --record; a check never records)."""
    if not ledger:
        return {}
    path = ledger_file(ctx, ledger)
    if os.environ.get("VERIF_DO_RECORD") == "1":
        if os.path.exists(path + ".new"):
            os.remove(path + ".new")
        return {"VERIF_RECORD": path + ".new"}
    return {"VERIF_LEDGER": path}


def ledger_finish(ctx, ledger, st):
    """After a ledger-mode run: recorded failing inputs that reproduced are attributed to the
    open known findings that own the ledger (per root-cause label)."""
    if not ledger:
        return
    path = ledger_file(ctx, ledger)
    if os.environ.get("VERIF_DO_RECORD") == "1":
        new = path + ".new"
        if os.path.exists(new):
            lines = sorted(set(l for l in open(new, errors="replace").read().split("\n") if l.strip()))
            prev = []
            if os.path.exists(path) and os.environ.get("VERIF_RECORD_MERGE") == "1":
                prev = [l for l in open(path, errors="replace").read().split("\n") if l.strip()]
            allv = sorted(set(lines + prev))
            if len(allv) > 20000:   # large ledger: keep hash + root-cause label only
                allv = sorted(set(" ".join(l.split(" ", 2)[:2]) for l in allv))
            with open(path, "w") as f:
                f.write("\n".join(allv) + "\n")
            os.remove(new)
            common.log("recorded %d failing inputs into %s" % (len(lines), os.path.relpath(path, common.VERIF)))
        return
    known = common.load_known(ctx.prop)
    by_rc = st.get("known_by_rc") or {}
    ctx.coverage.setdefault("known_failing_inputs_reproduced", {}).update(by_rc)
    for rc, n in by_rc.items():
        e = next((e for e in known if e.get("status") == "open" and e.get("ledger") == ledger and
                  (rc in e.get("rcs", []) or any(rc.startswith(pfx) for pfx in e.get("rc_prefixes", [])) or
                   any(rc.endswith(sfx) for sfx in e.get("rc_suffixes", [])))), None)
        if e is None:
            # a ledger line without an owning finding is a bookkeeping error: report it
            ctx.violations.append({"kind": "ledger-without-finding", "sig": "ledger %s rc=%s" % (ledger, rc),
                                   "detail": {"ledger": ledger, "rc": rc, "count": n}})
        elif e not in ctx.known_hits:
            ctx.known_hits.append(e)


def standard(ctx, props, sub, label, extra_args=(), lists=("M",), timeout=3000,
             expected_key=None, harness_env=None, model=False, violation_kind=None, ledger=None, seed=None):
    """props: Props file name or list of names; sub: harness sub-command.
    ledger: relative path of the exact failing-input ledger for this run; such runs use a fixed
    corpus (seed given by `seed`, default 1) so that recorded inputs are identified exactly."""
    common.build_coq()
    if not getattr(ctx, "_hygiene", False):
        ctx._hygiene = True
        hygiene_obligation(ctx)
    plist = [props] if isinstance(props, str) else list(props)
    for p in plist:
        props_obligations(ctx, p)
    if ctx.tier == "thorough" and plist:
        coqchk_obligation(ctx, plist)
    hb = common.build_harness()
    if model:
        common.ensure_driver()
    flabel = re.sub(r"[^A-Za-z0-9_]", "_", label)
    cases = ctx.path("cases_%s.v" % flabel)
    stats = ctx.path("stats_%s.json" % flabel)
    use_seed = ctx.seed if (ledger is None and seed is None) else (seed if seed is not None else 1)
    args = ["-seed", use_seed, "-tier", ctx.tier, "-out", cases, "-stats", stats] + list(extra_args)
    env = dict(harness_env or {})
    env.update(ledger_env(ctx, ledger))
    rc, out = common.harness(ctx, hb, sub, args, timeout=timeout, env=env)
    if rc != 0 or not os.path.exists(stats):
        ctx.oblige("correspondence:%s (harness runs)" % label, False, out[-3000:])
        ctx.notes.append("harness %s failed rc=%s: %s" % (sub, rc, out[-1500:]))
        return None
    st = common.load_stats(stats)
    common.absorb_stats(ctx, st, label)
    ledger_finish(ctx, ledger, st)
    ctx.oblige("correspondence:%s (Go side: implementation vs specification, %d evaluations)" % (label, st.get("evaluations", 0)),
               True)
    expected = set()
    if expected_key:
        expected = set((st.get("extra") or {}).get(expected_key) or [])
    if os.path.exists(cases):
        res = run_cases(ctx, cases, label, lists=lists)
        if res is not None:
            ctx.coverage["coq_cases"] = ctx.coverage.get("coq_cases", 0) + st.get("coq_cases", 0)
            for name, ids in res.items():
                if ids is None:
                    continue
                unexpected = [i for i in ids if i not in expected]
                ok = not unexpected
                ctx.oblige("correspondence:%s (Coq side: %s = %s)" % (label, name, "[]" if not ids else "known-finding cases only"), ok,
                           "failing case ids: %s" % unexpected[:50])
                if unexpected:
                    ctx.violations.append({
                        "kind": violation_kind or ("coq-correspondence:" + label + ":" + name),
                        "static": True,
                        "sig": "%s %s ids=%s seed=%s" % (label, name, unexpected[:20], ctx.seed),
                        "detail": {"case_file": "re-run with --keep to inspect", "failing_case_ids": unexpected[:200],
                                   "list": name, "harness": sub, "seed": ctx.seed,
                                   "how_to_replay": "harness %s %s ; coqc the case file; ids index the `cases` list" % (sub, " ".join(map(str, args)))},
                    })
    return st
