"""Generic shape shared by most property checks:

  1. (re)build the hand-written Coq development (make; no-op when unchanged) and
     re-compile the property's Props_Cxx.v, collecting the theorems and their
     Print Assumptions output  -> proof obligations of kind "generic theorem";
  2. build the Go harness against /repo's working tree (-tags verif) and run the
     property's sub-command: it exercises the implementation, compares with the
     specification side on the Go side (failing-input search), and writes a Coq case
     file with the observed outputs;
  3. evaluate the case file(s) inside Coq (vm_compute): model/spec vs implementation
     -> obligations of kind "correspondence", failing ids mapped back to inputs.
"""
import json
import os
import re

from . import common


def props_obligations(ctx, props_name):
    """Obligations: one per theorem in Props_<...>.v, discharged iff the file compiles and
    Print Assumptions reports 'Closed under the global context' for it."""
    thms, closed, out, axioms, rc = common.props_file_obligations(props_name)
    if rc != 0:
        ctx.oblige(props_name + " (compiles)", False, out[-3000:])
        ctx.notes.append("coqc %s.v failed: %s" % (props_name, out[-800:]))
        return
    # pair theorems with their assumption reports in order
    reports = re.findall(r"(Closed under the global context|Axioms:\n(?:.+\n)+)", out)
    for i, t in enumerate(thms):
        rep = reports[i] if i < len(reports) else "missing Print Assumptions"
        ok = rep.startswith("Closed")
        ctx.oblige("%s.%s" % (props_name, t), ok, rep)
        if not ok:
            ctx.assumptions.append("%s depends on: %s" % (t, rep.strip()))
    ctx.coverage.setdefault("print_assumptions", "Closed under the global context for %d/%d theorems of %s" % (closed, len(thms), props_name))
    ctx.coverage.setdefault("theorems", []).extend(thms)


def run_cases(ctx, cases_path, label, expected_ids=None, lists=("M",)):
    """Evaluate a generated case file in Coq. Returns dict name -> list of failing ids (or None)."""
    rc, out = common.coqc(os.path.basename(cases_path), os.path.dirname(cases_path), timeout=2400)
    res = {}
    if rc != 0:
        ctx.oblige("correspondence:%s (case file evaluates)" % label, False, out[-3000:])
        ctx.notes.append("coqc of %s failed: %s" % (label, out[-1200:]))
        return None
    for name in lists:
        m = re.search(r"^%s\s*=\s*(.*?)\n\s*:\s" % re.escape(name), out, re.S | re.M)
        if not m:
            ctx.oblige("correspondence:%s (%s printed)" % (label, name), False, out[-2000:])
            res[name] = None
            continue
        body = m.group(1).strip()
        ids = [] if body in ("[]", "nil") else [int(x) for x in re.findall(r"-?\d+", body)]
        res[name] = ids
    return res


def standard(ctx, props, sub, label, extra_args=(), lists=("M",), timeout=3000,
             expected_key=None, harness_env=None, model=False, violation_kind=None):
    """props: Props file name or list of names; sub: harness sub-command."""
    common.build_coq()
    for p in ([props] if isinstance(props, str) else props):
        props_obligations(ctx, p)
    hb = common.build_harness()
    cases = ctx.path("cases_%s.v" % label)
    stats = ctx.path("stats_%s.json" % label)
    args = ["-seed", ctx.seed, "-tier", ctx.tier, "-out", cases, "-stats", stats] + list(extra_args)
    rc, out = common.harness(ctx, hb, sub, args, timeout=timeout, env=harness_env)
    if rc != 0 or not os.path.exists(stats):
        ctx.oblige("correspondence:%s (harness runs)" % label, False, out[-3000:])
        ctx.notes.append("harness %s failed rc=%s: %s" % (sub, rc, out[-1500:]))
        return None
    st = common.load_stats(stats)
    common.absorb_stats(ctx, st, label)
    ctx.oblige("correspondence:%s (Go side: implementation vs specification, %d evaluations)" % (label, st.get("evaluations", 0)),
               True)
    expected = set()
    if expected_key:
        expected = set((st.get("extra") or {}).get(expected_key) or [])
    if os.path.exists(cases):
        res = run_cases(ctx, cases, label, lists=lists)
        if res is not None:
            ctx.coverage["coq_cases"] = ctx.coverage.get("coq_cases", 0) + st.get("coq_cases", 0)
            for name, ids in res.items():
                if ids is None:
                    continue
                unexpected = [i for i in ids if i not in expected]
                ok = not unexpected
                ctx.oblige("correspondence:%s (Coq side: %s = %s)" % (label, name, "[]" if not ids else "known-finding cases only"), ok,
                           "failing case ids: %s" % unexpected[:50])
                if unexpected:
                    ctx.violations.append({
                        "kind": violation_kind or ("coq-correspondence:" + label + ":" + name),
                        "sig": "%s %s ids=%s seed=%s" % (label, name, unexpected[:20], ctx.seed),
                        "detail": {"case_file": "re-run with --keep to inspect", "failing_case_ids": unexpected[:200],
                                   "list": name, "harness": sub, "seed": ctx.seed,
                                   "how_to_replay": "harness %s %s ; coqc the case file; ids index the `cases` list" % (sub, " ".join(map(str, args)))},
                    })
    return st
