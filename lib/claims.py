# claim(pid, category, text, note, technique, design_ref) — one call per claimed property.
NOTE_COMMON = ("Trusted: Coq 8.16.1 kernel + vm_compute (no native_compute, no axioms: Print Assumptions is 'Closed under the global "
               "context' for every property theorem); the Go harness (generators, observers, emitters of Gallina terms); Go's regexp/"
               "regexp/syntax/unicode/utf8 as oracle; the python runner. Modelled rather than verified: the Go control skeletons the "
               "models copy by hand (tied by per-run correspondence), assembly kernels (observed only).")

claim("C04", "proof",
      "Coq theorems: every enumeration loop (FindAll*, Count, FindAllSubmatch, AllIndex, AppendAllIndex, streaming searcher) equals regexp's "
      "allMatches for all haystacks, all single-match functions satisfying the stated hypotheses, all n and dst. Per run: observed "
      "single-match tables and enumeration results are re-evaluated inside Coq against the specification and the loop model; Go side: "
      "30 APIs vs regexp on a fixed corpus, differences classified by replay (loop vs single-match layer) with an exact ledger.",
      NOTE_COMMON + " The single-match layer is a parameter of the theorems (C02/C03/C14 are about it).",
      "Coq proof (loop refinement to stdlib's allMatches) + in-Coq evaluation of observed traces + differential replay", "9/C04")
claim("C06", "proof",
      "Coq theorems about the interleaving model of the per-search state hand-out (atomic slot + pool): exclusive ownership, no "
      "conflicting access, concurrent = sequential, for any number of goroutines and any schedule; the protocol is re-extracted from the "
      "source on every run and checked inside Coq. Runtime part observed: -race replay from 2 and 8 goroutines on shared Regex values, "
      "race reports classified by call site, results compared with sequential results. PARTIAL: Go memory model/scheduler not modelled.",
      NOTE_COMMON + " The race detector only sees executed interleavings; the go/ast protocol extractor is trusted.",
      "Coq proof (invariant over interleavings) + protocol extraction + race-detector replay", "9/C06")
claim("C08", "proof",
      "Coq theorems: coregex's expand equals regexp's expand/extract and the declarative template specification; the five replace loops "
      "equal regexp's replaceAll; Split equals regexp's Split - for all inputs. Per run: observed outputs re-evaluated inside Coq; Go side: "
      "nine functions vs regexp byte-for-byte on a fixed corpus with engine-vs-layer attribution by replay and an exact ledger.",
      NOTE_COMMON, "Coq proof (scanner = spec, loop refinement) + in-Coq evaluation of observed outputs + differential replay", "9/C08")
claim("C09", "proof",
      "Coq theorems for the modelled functions: QuoteMeta (= regexp's, round trip, matches exactly s), capture metadata traversal, "
      "SubexpIndex, Copy/Marshal value model, nesting-depth guard. Parser-dependent behaviour (accept/reject, error text, LiteralPrefix, "
      "POSIX mode) is compared with regexp on valid / nearly valid / nested / POSIX-only / Perl-only patterns. PARTIAL: the parser is "
      "regexp/syntax itself (shared with the oracle), not modelled.",
      NOTE_COMMON, "Coq proof (QuoteMeta, metadata) + differential comparison with regexp incl. error text", "9/C09")
claim("C13", "proof",
      "Coq theorems: the bounded backtracker's reusable state (generation-stamped table, re-slicing, both wrap branches) keeps invariant "
      "bt_inv; every result equals the state-free reference search and is independent of any call history; the original wrap code is "
      "refuted. Lazy DFA cache (Dfa.v/DfaCache.v): the empty cache satisfies the cache invariant, lookup / insert / clear preserve it, and "
      "under it every search returns the pure (cache-free) answer or falls back - two histories that do not fall back give the same "
      "answer, for every capacity and clear limit; the two history-dependence defects of the original code (state key of the sorted set, "
      "acceleration on incomplete rows) are refuted variants. Per run: observed histories on one BacktrackerState and on one lazy-DFA "
      "cache replayed on the models inside Coq; API-level call histories (11 APIs, GC, tiny DFA limits, a cache-exhaustion phase with "
      "state-explosive patterns) on one Regex vs a fresh value per call.",
      NOTE_COMMON + " PikeVM scratch is observed through the API histories only.",
      "Coq proof (state invariants + refinement to the state-free search) + in-Coq replay of observed histories + aged-vs-fresh histories", "9/C13")
claim("C16", "proof",
      "Coq theorems: Teddy (slim/fat) Find = least literal occurrence and FindMatch = leftmost-first span for every haystack, given the "
      "certified mask check on the masks/buckets dumped from the current code and the weak contract of the SIMD candidate finder; "
      "wrappers, tracker, digit, memchr/memmem prefilters reduce to their specs. Per run: masks_ok evaluated inside Coq on dumped masks; "
      "every prefilter kind vs the naive definition over structured haystacks; assembly candidate finders checked against the contract.",
      NOTE_COMMON + " Aho-Corasick (another module) by observation only.",
      "Coq proof + certified artifact check (masks_ok on dumped masks) + differential vs naive scan", "9/C16")
claim("C17", "proof",
      "Coq: certified cover checkers (prefix/suffix/inner/complete) with soundness theorems over all haystacks and all matches of the "
      "compiled NFA, evaluated per run on literal sets extracted by the current code under 12 limit configurations; Seq algebra "
      "preservation theorems and refutations of faithful models of extractor steps. Go side: regexp-confirmed members vs literal sets "
      "on a fixed corpus with an exact ledger of recorded failing inputs.",
      NOTE_COMMON + " Look assertions are relaxed in the checkers (only `Covered` verdicts are trusted).",
      "Certified checker in Coq on regenerated artifacts + Coq proofs of the Seq algebra + member sampling", "9/C17")
claim("C18", "proof",
      "Coq theorems: every pure-Go SWAR/scalar primitive (memchr/2/3, pair, digit, word, table, ASCII tests, memmem) equals its scalar "
      "definition for all inputs (has_zero_byte_first over all 2^64 words). Assembly kernels: exhaustive-bounded observation (lengths, "
      "hit positions, alignments, guard pages, AVX2 on/off) against the same definitions; a sample re-evaluated inside Coq.",
      NOTE_COMMON, "Coq proof (SWAR lane induction) + exhaustive-bounded differential for assembly", "9/C18")
_RX = ("Coq theorems about the reference search on the byte-level Thompson NFA (priority DFS with visited set): match reported iff an "
       "accepting path exists, leftmost start, inside the haystack, fuel never exhausted, captures well-formed; the bounded backtracker "
       "equals it from any reusable state. Per run: every corpus pattern's NFA is dumped from the current compiler, checked well-formed "
       "and simulated by the extracted model; the reference result and every top-level API are compared with regexp on a fixed corpus "
       "with an exact ledger of recorded failing inputs. L0 (Regex.v/Compile.v): a Gallina model of the Thompson compiler with a "
       "denotational AST semantics - accepting paths of compile(r) = re_match, reference search on compile(r) decides the pattern language at "
       "the leftmost start, for every pattern of the fragment (100% of the corpus) - whose output is compared for EQUALITY with the NFA "
       "dumped from the real compiler on every run (C01). PikeVM (Pike.v, PikeSpan.v, PikeCaps.v): IsMatch, SearchAt (span) and the capture "
       "entry points (span + slot vector, incl. the copy-on-write store) are proved equal to the reference for every wf NFA and replayed "
       "against the real nfa.PikeVM on every run. That the strategy layer is correct for ALL patterns is not proved (C14/C19 + ledgers).")
claim("C01", "proof", _RX, NOTE_COMMON + " Extraction of the reference uses ExtrOcamlBasic + ExtrOcamlNatInt (nat -> int).",
      "Coq proof (compiler model = pattern language; reference NFA simulation = path semantics; PikeVM IsMatch = reference) + model/implementation "
      "equality of compiled NFAs + extracted model on dumped NFAs + differential vs regexp", "9/C01")
claim("C02", "proof", _RX, NOTE_COMMON + " Extraction of the reference uses ExtrOcamlBasic + ExtrOcamlNatInt (nat -> int).",
      "Coq proof (leftmost start; leftmost-first by priority DFS; PikeVM span = reference, pike_search_is_ref) + extracted model on dumped NFAs + "
      "differential vs regexp", "9/C02")
claim("C03", "proof", _RX, NOTE_COMMON + " Extraction of the reference uses ExtrOcamlBasic + ExtrOcamlNatInt (nat -> int).",
      "Coq proof (capture well-formedness of the reference; PikeVM captures = reference slots, pikecaps_search_is_ref, copy-on-write store) + "
      "in-Coq replay of observed PikeVM captures + extracted model on dumped NFAs + differential vs regexp", "9/C03")
claim("C14", "proof",
      "Coq theorems: the bounded backtracker (all entry points, both modes, any reusable state) equals the reference search and declines "
      "exactly when CanHandle is false; the PikeVM's IsMatch, SearchAt and capture entry points equal the reference (span and slots); the "
      "lazy DFA model (determinisation with match delay, start states, byte-accounted cache with clears, search loops) returns, with ANY "
      "cache satisfying its invariant and any capacity, the pure DFA answer or falls back; for look-free patterns IsMatch = reference, "
      "no-match iff the reference has none, the reported end is an end of the leftmost start (priority among them: partial), anchored "
      "search complete. Per run: every engine entry point (PikeVM, BoundedBacktracker, lazy DFA forward/anchored/earliest/reverse under 5 "
      "cache configurations incl. a one-state cache and a prefilter-equipped DFA, one-pass DFA) is compared with the extracted reference on "
      "the SAME dumped NFA over exhaustive short haystacks and all offsets, with an exact ledger; the Pike and Dfa models replay observed "
      "calls / call histories of the real engines inside Coq. The one-pass DFA is compared only (Onepass.v where present).",
      NOTE_COMMON + " Extraction: ExtrOcamlBasic + ExtrOcamlNatInt.",
      "Coq proof (backtracker, PikeVM = reference; lazy DFA cache transparency + partial correctness) + in-Coq replay of observed engine "
      "histories + extracted reference vs every engine entry point on dumped NFAs", "9/C14")
claim("C10", "proof",
      "Coq theorems: the leftmost-longest reference (exhaustive DFS) returns the leftmost start and the maximal end among accepting paths "
      "(find_at_longest_spec, match_ends_spec); the bounded backtracker in longest mode equals it from any reusable state; the mode flag "
      "belongs to one value and is overwritten on every acquisition of a pooled search state. Per run: Longest(), Copy()+Longest(), "
      "CompilePOSIX vs regexp in the same mode over 11 APIs, original of a copy stays leftmost-first; fixed corpus + exact ledger.",
      NOTE_COMMON + " Longest-mode sub-match choice is compared with regexp only.",
      "Coq proof (leftmost-longest reference spec, mode model) + differential vs regexp in longest/POSIX mode", "9/C10")
claim("C11", "proof",
      "Coq theorems: all enumeration views are derived from one single-match function by loops equal to regexp's allMatches, hence agree "
      "for every haystack, n, dst. Open by design: that the meta engine's five per-strategy dispatchers are projections of one function; "
      "checked oracle-free per run (~35 relations between methods of one compiled value incl. every offset, haystacks to 3 KiB), fixed "
      "corpus + exact ledger.",
      NOTE_COMMON, "Coq proof (views derived from one single-match function) + oracle-free relation checking", "9/C11")
claim("C12", "proof",
      "Coq theorems (Gate.v): Validate accepts exactly the documented ranges; prefilter candidate loops return the reference under the "
      "hypotheses C16/C17/C14, so prefilter on/off and limits only select a branch (config_irrelevant_model). Per run: 23 valid "
      "configurations vs default over 5 APIs, default vs the extracted Coq reference on the dumped NFA, invalid configurations rejected, "
      "GODEBUG cpu masks in child processes; fixed corpus + exact ledger.",
      NOTE_COMMON + " Extraction: ExtrOcamlBasic + ExtrOcamlNatInt.",
      "Coq proof (candidate-loop soundness, config model) + configuration-lattice differential incl. NFA reference", "9/C12")
claim("C15", "proof",
      "Coq: Go's utf8 encode/decode model with round-trip theorems; certified checker class_check with soundness for ALL byte strings of "
      "all lengths (acceptance = exactly one decoded rune in the class, invalid byte = U+FFFD width 1), evaluated by the kernel on "
      "automata dumped from the current compiler (classes, negations, boundary classes, literals, fold-case literals, dot; 3 modes); "
      "every automaton additionally swept on the Go side over all code points and all byte strings of length <= 2 against regexp, with "
      "witnesses in an exact ledger. Range splitter modelled for 1-/2-byte (proved); 3-byte not modelled.",
      NOTE_COMMON, "Certified checker in Coq (vm_compute) on regenerated automata + exhaustive code-point sweep vs regexp", "9/C15")
claim("C05", "proof",
      "Coq theorems: step-count bounds for the PikeVM set simulation (<= 2*|N|*(len+1)), the bounded backtracker (per-start visit bound; "
      "SearchAt's per-start generation bump refuted as quadratic), the lazy DFA (one step per byte + bounded determinisations + one "
      "fallback), the reverse-suffix loop with the minStart barrier (<= 2*len); the composite searcher's recursion refuted as superlinear. "
      "Runtime observed: deterministic coverage work counters per API call over pattern families per strategy and doubling sizes. "
      "PARTIAL: real time, GC, assembly not modelled; the constant K over all patterns rests on measurement.",
      NOTE_COMMON + " Work proxy = executed basic blocks x statements of library code (go tool covdata).",
      "Coq proof (step-count bounds on engine models) + deterministic work-counter measurement", "9/C05")
claim("C07", "proof",
      "Coq theorems: well-formedness checkers with specifications; the reference search's spans/captures and the specification loop's "
      "enumerations are well-formed; in-bounds access logs for the reference step function, SWAR primitives and the backtracker table; "
      "modelled loops never run out of fuel. Runtime observed: all APIs on guard-page/read-only haystacks in child processes with hang "
      "detection, hostile patterns, aliasing and immutability checks; observed results re-checked by the Coq predicates. PARTIAL: "
      "memory safety of assembly and termination of the real code are observed only.",
      NOTE_COMMON, "Coq proof (well-formedness, in-bounds access logs) + guard-page/timeout worker processes", "9/C07")
claim("C19", "proof",
      "Coq theorems: for each directly modelled fast path (char-class searcher, composite searcher, composite DFA with minimum 1, branch "
      "dispatcher, anchored-literal matcher, first-byte filter, digit-run skipping) the applicability predicate as the Go code decides it "
      "implies exactness against the backtracking reference for EVERY accepted pattern, haystack and offset; original predicates "
      "refuted. Per run: predicates and construction data dumped from the current code are compared with the models inside Coq; the "
      "reference is validated against regexp; searchers driven directly on exhaustive short haystacks; reverse-* searchers are "
      "differential only (exact ledger).",
      NOTE_COMMON + " Reverse-anchored/suffix/suffix-set/inner/multiline searchers are not modelled.",
      "Coq proof (predicate => exactness) + dumped predicate/table correspondence + differential vs regexp", "9/C19")
claim("C20", "proof",
      "Coq theorems: lazy DFA cache accounting over arbitrary operation sequences (memory < capacity + one state + reserved slot + lazily "
      "attached acceleration bytes; clear count bounded), backtracker visited table <= cap over any history. Per run: MemoryUsage/Size/"
      "ClearCount after every search on real caches vs bound and model (inside Coq); heap per Regex flat from 100 to 10000 searches; "
      "AllocsPerRun == 0 for the documented calls. PARTIAL: Go's allocator observed, not modelled.",
      NOTE_COMMON, "Coq proof (accounting invariant over op sequences) + MemoryUsage/MemStats/AllocsPerRun observation", "9/C20")
