# claim(pid, category, text, note, technique, design_ref) — one call per claimed property.
