# claim(pid, category, text, note, technique, design_ref) — one call per claimed property.
NOTE_COMMON = ("Trusted: Coq 8.16.1 kernel + vm_compute (no native_compute, no axioms: Print Assumptions is 'Closed under the global "
               "context' for every property theorem); the Go harness (generators, observers, emitters of Gallina terms); Go's regexp/"
               "regexp/syntax/unicode/utf8 as oracle; the python runner. Modelled rather than verified: the Go control skeletons the "
               "models copy by hand (tied by per-run correspondence), assembly kernels (observed only).")

claim("C04", "proof",
      "Coq theorems: every enumeration loop (FindAll*, Count, FindAllSubmatch, AllIndex, AppendAllIndex, streaming searcher) equals regexp's "
      "allMatches for all haystacks, all single-match functions satisfying the stated hypotheses, all n and dst. Per run: observed "
      "single-match tables and enumeration results are re-evaluated inside Coq against the specification and the loop model; Go side: "
      "30 APIs vs regexp on a fixed corpus, differences classified by replay (loop vs single-match layer) with an exact ledger.",
      NOTE_COMMON + " The single-match layer is a parameter of the theorems (C02/C03/C14 are about it).",
      "Coq proof (loop refinement to stdlib's allMatches) + in-Coq evaluation of observed traces + differential replay", "9/C04")
claim("C06", "proof",
      "Coq theorems about the interleaving model of the per-search state hand-out (atomic slot + pool): exclusive ownership, no "
      "conflicting access, concurrent = sequential, for any number of goroutines and any schedule; the protocol is re-extracted from the "
      "source on every run and checked inside Coq. Runtime part observed: -race replay from 2 and 8 goroutines on shared Regex values, "
      "race reports classified by call site, results compared with sequential results. PARTIAL: Go memory model/scheduler not modelled.",
      NOTE_COMMON + " The race detector only sees executed interleavings; the go/ast protocol extractor is trusted.",
      "Coq proof (invariant over interleavings) + protocol extraction + race-detector replay", "9/C06")
claim("C08", "proof",
      "Coq theorems: coregex's expand equals regexp's expand/extract and the declarative template specification; the five replace loops "
      "equal regexp's replaceAll; Split equals regexp's Split - for all inputs. Per run: observed outputs re-evaluated inside Coq; Go side: "
      "nine functions vs regexp byte-for-byte on a fixed corpus with engine-vs-layer attribution by replay and an exact ledger.",
      NOTE_COMMON, "Coq proof (scanner = spec, loop refinement) + in-Coq evaluation of observed outputs + differential replay", "9/C08")
claim("C09", "proof",
      "Coq theorems for the modelled functions: QuoteMeta (= regexp's, round trip, matches exactly s), capture metadata traversal, "
      "SubexpIndex, Copy/Marshal value model, nesting-depth guard. Parser-dependent behaviour (accept/reject, error text, LiteralPrefix, "
      "POSIX mode) is compared with regexp on valid / nearly valid / nested / POSIX-only / Perl-only patterns. PARTIAL: the parser is "
      "regexp/syntax itself (shared with the oracle), not modelled.",
      NOTE_COMMON, "Coq proof (QuoteMeta, metadata) + differential comparison with regexp incl. error text", "9/C09")
claim("C13", "proof",
      "Coq theorems: the bounded backtracker's reusable state (generation-stamped table, re-slicing, both wrap branches) keeps invariant "
      "bt_inv; every result equals the state-free reference search and is independent of any call history; the original wrap code is "
      "refuted. Per run: observed histories on one BacktrackerState replayed on the model inside Coq; API-level call histories (11 APIs, "
      "GC, tiny DFA limits) on one Regex vs a fresh value per call.",
      NOTE_COMMON + " PikeVM scratch and lazy-DFA cache contents are observed through the API histories only.",
      "Coq proof (state invariant + refinement to reference DFS) + in-Coq replay of observed histories + aged-vs-fresh histories", "9/C13")
claim("C16", "proof",
      "Coq theorems: Teddy (slim/fat) Find = least literal occurrence and FindMatch = leftmost-first span for every haystack, given the "
      "certified mask check on the masks/buckets dumped from the current code and the weak contract of the SIMD candidate finder; "
      "wrappers, tracker, digit, memchr/memmem prefilters reduce to their specs. Per run: masks_ok evaluated inside Coq on dumped masks; "
      "every prefilter kind vs the naive definition over structured haystacks; assembly candidate finders checked against the contract.",
      NOTE_COMMON + " Aho-Corasick (another module) by observation only.",
      "Coq proof + certified artifact check (masks_ok on dumped masks) + differential vs naive scan", "9/C16")
claim("C17", "proof",
      "Coq: certified cover checkers (prefix/suffix/inner/complete) with soundness theorems over all haystacks and all matches of the "
      "compiled NFA, evaluated per run on literal sets extracted by the current code under 12 limit configurations; Seq algebra "
      "preservation theorems and refutations of faithful models of extractor steps. Go side: regexp-confirmed members vs literal sets "
      "on a fixed corpus with an exact ledger of recorded failing inputs.",
      NOTE_COMMON + " Look assertions are relaxed in the checkers (only `Covered` verdicts are trusted).",
      "Certified checker in Coq on regenerated artifacts + Coq proofs of the Seq algebra + member sampling", "9/C17")
claim("C18", "proof",
      "Coq theorems: every pure-Go SWAR/scalar primitive (memchr/2/3, pair, digit, word, table, ASCII tests, memmem) equals its scalar "
      "definition for all inputs (has_zero_byte_first over all 2^64 words). Assembly kernels: exhaustive-bounded observation (lengths, "
      "hit positions, alignments, guard pages, AVX2 on/off) against the same definitions; a sample re-evaluated inside Coq.",
      NOTE_COMMON, "Coq proof (SWAR lane induction) + exhaustive-bounded differential for assembly", "9/C18")
_RX = ("Coq theorems about the reference search on the byte-level Thompson NFA (priority DFS with visited set): match reported iff an "
       "accepting path exists, leftmost start, inside the haystack, fuel never exhausted, captures well-formed; the bounded backtracker "
       "equals it from any reusable state. Per run: every corpus pattern's NFA is dumped from the current compiler, checked well-formed "
       "and simulated by the extracted model; the reference result and every top-level API are compared with regexp on a fixed corpus "
       "with an exact ledger of recorded failing inputs. That the compiler/strategy layer is correct for ALL patterns is not proved "
       "(per-pattern check + C14/C15/C19).")
claim("C01", "proof", _RX, NOTE_COMMON + " Extraction of the reference uses ExtrOcamlBasic + ExtrOcamlNatInt (nat -> int).",
      "Coq proof (reference NFA simulation = path semantics) + extracted model on dumped NFAs + differential vs regexp", "9/C01")
claim("C02", "proof", _RX, NOTE_COMMON + " Extraction of the reference uses ExtrOcamlBasic + ExtrOcamlNatInt (nat -> int).",
      "Coq proof (leftmost start, leftmost-first by priority DFS) + extracted model on dumped NFAs + differential vs regexp", "9/C02")
claim("C03", "proof", _RX, NOTE_COMMON + " Extraction of the reference uses ExtrOcamlBasic + ExtrOcamlNatInt (nat -> int).",
      "Coq proof (capture well-formedness of the reference) + extracted model on dumped NFAs + differential vs regexp", "9/C03")
claim("C14", "proof",
      "Coq theorems: the bounded backtracker (all entry points, both modes, any reusable state) equals the reference search and declines "
      "exactly when CanHandle is false. Per run: every engine entry point (PikeVM, BoundedBacktracker, lazy DFA forward/anchored/earliest/"
      "reverse under 5 cache configurations incl. a one-state cache, one-pass DFA) is compared with the extracted reference on the SAME "
      "dumped NFA over exhaustive short haystacks and all offsets, with an exact ledger. PikeVM/lazy DFA/one-pass are not modelled in Coq.",
      NOTE_COMMON + " Extraction: ExtrOcamlBasic + ExtrOcamlNatInt.",
      "Coq proof (backtracker = reference) + extracted reference vs every engine entry point on dumped NFAs", "9/C14")
