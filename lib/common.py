"""Shared machinery for the /verif checks (Python stdlib only).

A check for property Cxx is a module lib/props/cxx.py exposing run(ctx).  This file
provides: building (Go harness with -tags verif from /repo's working tree, Coq
development with make), evaluating generated .v files with coqc, the evidence
writer, the known-findings matcher and the replay writer.
"""
import fcntl
import hashlib
import json
import os
import re
import shutil
import subprocess
import sys
import time

VERIF = os.path.dirname(os.path.dirname(os.path.abspath(__file__)))
REPO = os.environ.get("VERIF_REPO", "/repo")
COQ = os.path.join(VERIF, "coq")
WORK = os.path.join(VERIF, ".work")
BIN = os.path.join(WORK, "bin")
HARNESS_SRC = os.path.join(VERIF, "go", "harness")
EVID = os.path.join(VERIF, "evidence")
REPLAYS = os.path.join(VERIF, "replays")
KNOWN = os.path.join(VERIF, "KNOWN_FINDINGS.txt")

GOENV = dict(os.environ)
GOENV.update({"GOFLAGS": "-mod=mod", "GOPROXY": "off", "GOTOOLCHAIN": GOENV.get("GOTOOLCHAIN", "auto")})
# Never inherit GOSUMDB=off / GOTOOLCHAIN=local: the repo needs the cached go1.25.4 toolchain.
GOENV.pop("GOSUMDB", None)
if GOENV.get("GOTOOLCHAIN") == "local":
    GOENV["GOTOOLCHAIN"] = "auto"

TRUSTED_BASE = [
    "Coq 8.16.1 kernel incl. vm_compute (no native_compute)",
    "axioms: none (Print Assumptions under every property theorem; see evidence 'assumptions_output')",
    "Go harness /verif/go/harness (generators, observers, emitters of Gallina case terms) and the Go toolchain",
    "Go stdlib regexp, regexp/syntax, unicode/utf8 as oracle where named",
    "python runner /verif/lib (classification, known-findings matching)",
]


def log(*a):
    print(*a, file=sys.stderr, flush=True)


def sh(cmd, cwd=None, env=None, timeout=None, check=True, capture=True):
    t0 = time.time()
    p = subprocess.run(cmd, cwd=cwd, env=env, timeout=timeout, shell=isinstance(cmd, str),
                       stdout=subprocess.PIPE if capture else None,
                       stderr=subprocess.STDOUT if capture else None, text=True)
    if check and p.returncode != 0:
        raise RuntimeError("command failed (%s): %s\n%s" % (p.returncode, cmd, (p.stdout or "")[-4000:]))
    p.wall = time.time() - t0
    return p


class Lock:
    def __init__(self, name):
        os.makedirs(WORK, exist_ok=True)
        self.path = os.path.join(WORK, name + ".lock")

    def __enter__(self):
        self.f = open(self.path, "w")
        fcntl.flock(self.f, fcntl.LOCK_EX)
        return self

    def __exit__(self, *a):
        fcntl.flock(self.f, fcntl.LOCK_UN)
        self.f.close()


# --------------------------------------------------------------------------- builds

def build_harness(tags="verif", race=False, cover=False, name=None):
    """go build of the harness against /repo's *current working tree*."""
    os.makedirs(BIN, exist_ok=True)
    name = name or ("harness" + ("-race" if race else "") + ("-cover" if cover else ""))
    out = os.path.join(BIN, name)
    with Lock("gobuild"):
        # keep go.sum in step with the repo
        try:
            shutil.copyfile(os.path.join(REPO, "go.sum"), os.path.join(HARNESS_SRC, "go.sum"))
        except OSError:
            pass
        cmd = ["go", "build", "-tags", tags]
        if race:
            cmd.append("-race")
        if cover:
            cmd += ["-cover", "-covermode=atomic", "-coverpkg=verifharness,github.com/coregx/coregex/..."]
        cmd += ["-o", out, "."]
        p = sh(cmd, cwd=HARNESS_SRC, env=GOENV, timeout=900, check=False)
        if p.returncode != 0:
            raise BuildError("go build of the harness against %s failed:\n%s" % (REPO, p.stdout[-6000:]))
    return out


class BuildError(Exception):
    pass


def build_coq(jobs=16):
    """Full .vo build of the hand-written development (no -vos)."""
    with Lock("coqbuild"):
        if not os.path.exists(os.path.join(COQ, "Makefile")):
            sh(["coq_makefile", "-f", "_CoqProject", "-o", "Makefile"], cwd=COQ, timeout=120)
        # -k: a file that no longer compiles must only affect the properties that depend on it
        # (each check re-compiles its own Props file and reports that obligation as failed)
        p = sh(["timeout", "3000", "make", "-k", "-j%d" % jobs], cwd=COQ, timeout=3100, check=False)
        if p.returncode != 0:
            log("coq build: some files failed to compile:\n" + "\n".join(l for l in p.stdout.splitlines() if "Error" in l or l.startswith("File "))[-3000:])
    return p.stdout


def ensure_driver():
    """The extracted-model driver (built by setup); rebuilt here when missing or older than Nfa.vo."""
    drv = os.path.join(BIN, "driver")
    src = os.path.join(COQ, "Nfa.vo")
    with Lock("ocamlbuild"):
        if not os.path.exists(drv) or (os.path.exists(src) and os.path.getmtime(src) > os.path.getmtime(drv)):
            p = sh(["sh", os.path.join(VERIF, "ocaml", "build.sh")], timeout=1200, check=False)
            if p.returncode != 0:
                raise BuildError("extraction / OCaml driver build failed:\n" + p.stdout[-3000:])
    return drv


def coqc(vfile, cwd, timeout=1200, extra_q=()):
    """Compile one generated .v file (full check, produces .vo). Returns (rc, output)."""
    cmd = ["timeout", str(timeout), "coqc", "-Q", COQ, "CV"]
    for d, n in extra_q:
        cmd += ["-Q", d, n]
    cmd.append(vfile)
    p = sh(cmd, cwd=cwd, timeout=timeout + 30, check=False)
    return p.returncode, p.stdout


_ASSUME_RE = re.compile(r"^(Closed under the global context|Axioms:)", re.M)


def props_file_obligations(name):
    """Re-compile coq/<name>.v (a Props file: theorem statements closed by `exact`,
    each followed by Print Assumptions) and return (theorems, closed, output)."""
    src = open(os.path.join(COQ, name + ".v")).read()
    thms = re.findall(r"^(?:Theorem|Corollary)\s+([A-Za-z0-9_']+)", src, re.M)
    with Lock("coqbuild"):
        rc, out = coqc(name + ".v", COQ, timeout=900)
    closed = out.count("Closed under the global context")
    axioms = re.findall(r"^Axioms:\n((?:.+\n)+?)(?=\n|\Z)", out, re.M)
    return thms, closed if rc == 0 else 0, out, axioms, rc


# --------------------------------------------------------------------------- work dirs

class Ctx:
    def __init__(self, prop, tier, seed, replay=None):
        self.prop = prop
        self.tier = tier
        self.seed = seed
        self.replay = replay
        self.t0 = time.time()
        self.dir = os.path.join(WORK, "%s-%d" % (prop, os.getpid()))
        os.makedirs(self.dir, exist_ok=True)
        self.violations = []      # list of dicts (new violations)
        self.known_hits = []      # list of (entry, detail)
        self.notes = []
        self.coverage = {}
        self.assumptions = []
        self.obligations = []     # (name, ok:bool)
        self.level = "proof"

    def path(self, name):
        return os.path.join(self.dir, name)

    def cleanup(self):
        shutil.rmtree(self.dir, ignore_errors=True)

    def quick(self):
        return self.tier == "quick"

    def oblige(self, name, ok, detail=None):
        self.obligations.append((name, bool(ok)))
        if not ok:
            log("OBLIGATION FAILED:", name, (detail or "")[:2000])


# --------------------------------------------------------------------------- known findings

def load_known(prop):
    out = []
    if not os.path.exists(KNOWN):
        return out
    for line in open(KNOWN):
        line = line.strip()
        if not line or line.startswith("#") or line.startswith("fixed:"):
            continue  # a fixed entry suppresses nothing
        if line.startswith("open:"):
            line = line[5:].strip()
        e = json.loads(line)
        if e.get("property") == prop or prop in e.get("also", []):
            out.append(e)
    return out


_LEDGERS = {}


def sig_hash(sig):
    return hashlib.sha1(sig.encode("utf-8", "replace")).hexdigest()[:20]


def load_ledger(relpath):
    """A ledger lists, one per line, the exact failing inputs (hash of the violation
    signature = API + pattern + haystack + wrong result) recorded for an open finding:
    `<hash> <root-cause id> <human readable>`."""
    if relpath in _LEDGERS:
        return _LEDGERS[relpath]
    d = {}
    path = os.path.join(VERIF, relpath)
    if os.path.exists(path):
        for line in open(path, errors="replace"):
            parts = line.rstrip("\n").split(" ", 2)
            if len(parts) >= 2 and not line.startswith("#"):
                d[parts[0]] = parts[1]
    _LEDGERS[relpath] = d
    return d


def match_known(entries, v):
    """A violation v (dict with 'sig', 'kind', and 'detail') is attributed to an *open*
    entry only if the entry's signature matches exactly what failed.  An entry matches by
      - 'sig'   : exact equality with v['sig'] (a specific input / call site / history), or
      - 'sig_re': a regular expression on v['sig'] (a narrow syntactic signature of one
                  root cause, used only where one defect yields unboundedly many inputs).
    'fixed' entries never match."""
    for e in entries:
        if e.get("status") != "open":
            continue
        if "kind" in e and e["kind"] != v.get("kind"):
            continue
        if "ledger" in e and v.get("sig") is not None:
            led = load_ledger(e["ledger"])
            rc = led.get(sig_hash(v["sig"]))
            if rc is None and e["ledger"].endswith(".ledger"):
                # inputs recorded from the larger corpus of the thorough tier
                rc = load_ledger(e["ledger"][:-len(".ledger")] + ".thorough.ledger").get(sig_hash(v["sig"]))
            if rc is not None and ("rc" not in e or e["rc"] == rc):
                return e
        if "sig" in e and e["sig"] == v.get("sig"):
            return e
        if "sig_re" in e and v.get("sig") is not None and re.search(e["sig_re"], v["sig"]):
            return e
    return None


# --------------------------------------------------------------------------- verdict

def write_replay(ctx, v, idx):
    os.makedirs(REPLAYS, exist_ok=True)
    path = os.path.join(REPLAYS, "%s-%d.json" % (ctx.prop, idx))
    body = {"property": ctx.prop, "seed": ctx.seed, "tier": ctx.tier}
    body.update(v)
    with open(path, "w") as f:
        json.dump(body, f, indent=1, sort_keys=True, default=str)
    return path


def finish(ctx, manifest_level="proof"):
    """Classify, print KNOWN-FINDING / VIOLATION lines, write evidence, return exit code."""
    known = load_known(ctx.prop)
    new = []
    seen_known = {}
    for v in ctx.violations:
        e = match_known(known, v)
        if e is not None:
            seen_known.setdefault(e["id"], (e, v))
        else:
            new.append(v)
    for e in ctx.known_hits:
        seen_known.setdefault(e["id"], (e, None))
    for eid, (e, v) in sorted(seen_known.items()):
        print("KNOWN-FINDING: property=%s %s" % (ctx.prop, e["what"]), flush=True)
    # open entries that no longer reproduce: informational only
    for e in known:
        if e.get("status") == "open" and e["id"] not in seen_known and e.get("expect_reproduce", False):
            ctx.notes.append("open finding %s did not reproduce in this run" % e["id"])
    # failed obligations without any concrete failing input => no-failing-input-found
    failed_obl = [n for n, ok in ctx.obligations if not ok]
    rc = 0
    # de-duplicate by sig, report at most 10.  Violations that carry a concrete failing input /
    # history / schedule of the PROPERTY come first; a broken regenerated obligation or a
    # model-vs-implementation disagreement without such an input ("static") is reported with
    # the words no-failing-input-found, and only when no concrete one was found.
    reported = 0
    seen = set()
    concrete = [v for v in new if not v.get("static")]
    static = [v for v in new if v.get("static")]
    for v in concrete:
        key = v.get("sig") or json.dumps(v.get("detail", {}), sort_keys=True, default=str)
        if key in seen:
            continue
        seen.add(key)
        if reported < 10:
            path = write_replay(ctx, v, reported)
            print("VIOLATION property=%s replay=%s" % (ctx.prop, path), flush=True)
        reported += 1
        rc = 1
    if not concrete:
        for v in static:
            key = v.get("sig") or json.dumps(v.get("detail", {}), sort_keys=True, default=str)
            if key in seen:
                continue
            seen.add(key)
            if reported < 10:
                v = dict(v)
                v["no_longer_checks"] = v.get("kind")
                path = write_replay(ctx, v, reported)
                print("VIOLATION property=%s replay=%s no-failing-input-found" % (ctx.prop, path), flush=True)
            reported += 1
            rc = 1
    if failed_obl and rc == 0:
        # is every failed obligation explained by a known finding? only if declared so
        unexplained = [n for n in failed_obl if not any(n in e.get("explains_obligations", []) and e["id"] in seen_known for e in known)]
        if unexplained:
            path = write_replay(ctx, {"kind": "proof", "no_longer_checks": unexplained,
                                      "detail": {"obligations": unexplained, "notes": ctx.notes[-5:]}}, 0)
            print("VIOLATION property=%s replay=%s no-failing-input-found" % (ctx.prop, path), flush=True)
            rc = 1
    cov = dict(ctx.coverage)
    nobl = len(ctx.obligations)
    ndis = sum(1 for _, ok in ctx.obligations if ok)
    cov.setdefault("obligations", nobl)
    cov.setdefault("discharged", ndis)
    cov.setdefault("checker_cmd", "coqc -Q /verif/coq CV <file>.v (hand-written development via make; regenerated files per run)")
    cov.setdefault("trusted_base", TRUSTED_BASE)
    cov["obligation_names"] = [n for n, _ in ctx.obligations][:400]
    cov["known_findings_hit"] = sorted(seen_known.keys())
    cov["notes"] = ctx.notes[:100]
    ev = {
        "property_id": ctx.prop,
        "tier": ctx.tier,
        "seed": ctx.seed,
        "level": manifest_level,
        "coverage": cov,
        "assumptions": ctx.assumptions,
        "wall_s": round(time.time() - ctx.t0, 2),
        "violations": reported,
    }
    os.makedirs(EVID, exist_ok=True)
    tmp = os.path.join(EVID, ".%s.json.%d" % (ctx.prop, os.getpid()))
    with open(tmp, "w") as f:
        json.dump(ev, f, indent=1, default=str)
    os.replace(tmp, os.path.join(EVID, "%s.json" % ctx.prop))
    return rc


# --------------------------------------------------------------------------- coq case files

def eval_cases(ctx, vfile, expect="M"):
    """Compile a generated cases file that ends with `Print <expect>.` where <expect> is a
    list of failing case ids computed by vm_compute.  Returns (ok, failing_ids, output)."""
    rc, out = coqc(os.path.basename(vfile), os.path.dirname(vfile))
    if rc != 0:
        return False, None, out
    m = re.search(r"^%s\s*=\s*(.*?)\n\s*:\s" % re.escape(expect), out, re.S | re.M)
    if not m:
        return False, None, out
    body = m.group(1).strip()
    if body in ("[]", "nil"):
        return True, [], out
    ids = [int(x) for x in re.findall(r"-?\d+", body)]
    return True, ids, out


def harness(ctx, binpath, sub, args, timeout=3000, env=None):
    e = dict(GOENV)
    if env:
        e.update(env)
    p = sh([binpath, sub] + [str(a) for a in args], cwd=ctx.dir, env=e, timeout=timeout, check=False)
    return p.returncode, p.stdout


def load_stats(path):
    with open(path) as f:
        return json.load(f)


def absorb_stats(ctx, st, corr_name):
    """Fold a harness stats file into the context: coverage counts and Go-side violations."""
    c = ctx.coverage
    c["evaluations"] = c.get("evaluations", 0) + st.get("evaluations", 0)
    c["distinct_nontrivial"] = c.get("distinct_nontrivial", 0) + st.get("distinct_nontrivial", 0)
    c.setdefault("rule", st.get("rule", ""))
    c.setdefault("samples", [])
    c["samples"] += st.get("samples", [])[:6]
    h = c.setdefault("histogram", {})
    for k, v in (st.get("histogram") or {}).items():
        h[k] = h.get(k, 0) + v
    for k, v in (st.get("extra") or {}).items():
        c.setdefault("extra", {})[k] = v
    for n in st.get("notes") or []:
        ctx.notes.append(n)
    for v in st.get("violations", []):
        v = dict(v)
        v.setdefault("correspondence", corr_name)
        ctx.violations.append(v)
