#!/bin/bash
# Developer tool: after a behavioural change of /repo re-record every ledger, regenerate the
# ledger-derived entries of KNOWN_FINDINGS.txt and run all checks.
#   lib/rerecord.sh            quick tier (known/Cxx.ledger)
#   lib/rerecord.sh thorough   thorough tier (known/Cxx.thorough.ledger)
cd "$(dirname "$0")/.."
TIER=${1:-quick}
for P in C01 C02 C03 C04 C05 C07 C08 C09 C10 C11 C12 C14 C15 C17 C19 C20; do
  s=$(date +%s)
  ./check $P --tier $TIER --record 2>&1 | grep -E "^recorded|Traceback|Error" | head -3
  echo "  ($P $TIER record: $(( $(date +%s) - s )) s)"
done
python3 lib/regen_known.py
lib/runall.sh $TIER
