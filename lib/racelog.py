"""Parse Go race-detector logs into call-site signatures (function names, no line numbers)."""
import glob
import re


def parse(prefix):
    """Returns list of dicts {sig, stacks:[[frames..],[..]], raw}."""
    out = []
    for path in sorted(glob.glob(prefix + ".*")):
        txt = open(path, errors="replace").read()
        for block in txt.split("WARNING: DATA RACE")[1:]:
            block = block.split("==================")[0]
            stacks = []
            cur = None
            for line in block.splitlines():
                if re.match(r"^(Read|Write|Previous read|Previous write|Atomic|Previous atomic)", line.strip()):
                    cur = []
                    stacks.append(cur)
                    continue
                if line.startswith("Goroutine ") or line.strip() == "":
                    if line.startswith("Goroutine "):
                        cur = None
                    continue
                m = re.match(r"^\s{2}([A-Za-z0-9_./()*\[\]\-·]+)\(\)$", line)
                if m and cur is not None:
                    cur.append(m.group(1))
            stacks = stacks[:2]
            sides = []
            for s in stacks:
                lib = [f for f in s if "github.com/coregx/coregex" in f]
                top = lib[0] if lib else (s[0] if s else "?")
                # the nearest frame of the meta/regex layer (the call site the finding is identified by)
                site = next((f for f in lib if "/meta." in f or "coregex.(*Regex)" in f), top)
                sides.append((short(top), short(site)))
            sides.sort()
            sig = "race " + " || ".join("%s <- %s" % (t, s) for t, s in sides)
            out.append({"sig": sig, "stacks": [s[:12] for s in stacks]})
    return out


def short(f):
    return f.replace("github.com/coregx/coregex/", "").replace("github.com/coregx/coregex.", "coregex.")
