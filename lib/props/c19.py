"""C19 — specialised fast paths are exact on every pattern they accept."""
from .. import generic

LEVEL = "proof"


def run(ctx):
    # leaf translator: theorems re-checked against the Gallina translation of the current Go source
    generic.leaf_obligations(ctx, ['Line'])
    generic.standard(ctx, "Props_C19", "c19", "fast-paths", lists=("M", "PM", "SM"), ledger="known/C19.ledger")
    ctx.coverage["explanation"] = (
        "Coq (FastPath.v): a byte-level regex AST with a backtracking reference (validated per run against regexp: SM = []); for each "
        "fast path a model of the applicability predicate exactly as the Go code decides it and of the searcher; exactness theorems for "
        "EVERY accepted pattern, haystack and offset: charclass_exact, composite_exact, branch_dispatch_exact, anchored_literal_exact, "
        "first_bytes_sound, digit_skip_sound, composite_dfa_exact (parts with minimum 1); the original predicates are refuted with "
        "witnesses (15 lemmas). Per run: predicates and construction data (membership tables, parts, dispatch tables) are dumped from the "
        "Go objects built by the current code and compared with the models inside Coq (PM, M); every searcher is driven directly on "
        "exhaustive short haystacks and all offsets vs regexp, on ASTs mutated around each whitelist; end-to-end with the selected "
        "strategy recorded. The reverse-* searchers are NOT modelled: differential only, recorded failing inputs in an exact ledger.")
