"""C18 — vectorised byte-search primitives equal their scalar definitions."""
from .. import generic

LEVEL = "proof"


def run(ctx):
    # leaf translator: theorems re-checked against the Gallina translation of the current Go source
    generic.leaf_obligations(ctx, ['Word'])
    generic.standard(ctx, "Props_C18", "c18", "simd")
    ctx.coverage["explanation"] = (
        "Proved in Coq for all haystacks/needles: the pure-Go SWAR code paths (memchr, memchr2/3, pair incl. "
        "candidate re-verification, digit/word/table loops, ASCII tests, memmem with rare-byte selection) equal their scalar "
        "specifications (key lemma has_zero_byte_first over all 2^64 words by lane induction). The AVX2/SSE assembly is not "
        "modelled: it is tied by exhaustive-bounded observation (every length 0..200+, every hit index, alignments 0..63, "
        "guard pages before/after the slice in a child process, AVX2 on and masked off) against the same scalar definitions, "
        "and a sample of the observed outputs is re-evaluated against spec and model inside Coq (vm_compute).")
