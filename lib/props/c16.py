"""C16 — prefilters never skip a match; complete prefilters are exact."""
from .. import generic

LEVEL = "proof"


def run(ctx):
    generic.standard(ctx, "Props_C16", "c16", "prefilter", lists=("M", "MM", "MS"),
                     expected_key="coq_cases_expected_in_M")
    ctx.coverage["explanation"] = (
        "Coq: pf_find specification; slim/fat Teddy scalar model incl. buildMasks; certified checker masks_ok on the masks and "
        "buckets DUMPED from the current code (soundness: no false negatives for any haystack); teddy_find_is_min and FindMatch "
        "theorems under the weak contract of the SIMD candidate finder; wrappers, tracker, digit, memchr/memmem prefilters reduce to "
        "their specs. Go side: every prefilter kind x haystack lengths 0..130 x all offsets vs the naive definition and vs stdlib for "
        "complete prefilters; the assembly candidate finders are checked against the weak contract. Aho-Corasick lives in another "
        "module (coregx/ahocorasick) and is tied by observation only.")
