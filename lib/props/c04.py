"""C04 — successive-match enumeration equals stdlib's FindAll sequence."""
from .. import generic

LEVEL = "proof"


def run(ctx):
    # leaf translator: theorems re-checked against the Gallina translation of the current Go source
    generic.leaf_obligations(ctx, ['Step'])
    generic.standard(ctx, "Props_C04", "c04", "findall", lists=("M", "MM", "MH"), ledger="known/C04.ledger")
    ctx.coverage["explanation"] = (
        "Coq (FindAll.v): regexp's allMatches (std_all) and every coregex enumeration loop (findAllIndicesLoop incl. the anchored "
        "shortcut, Count, FindAllSubmatch, AllIndex, AppendAllIndex, the streaming char-class searcher) modelled parametrically in the "
        "single-match function find_at; loop_eq_std & co. prove each loop equal to std_all for every haystack, every find_at satisfying "
        "find_ok and find_empty_stable, every n and dst; structural facts (sorted, disjoint, prefix, head) and the C11 relations follow. "
        "The original code is refuted (one-byte step, dst dropped, iterator duplicate). Correspondence: for sampled (pattern, haystack) "
        "the whole table p -> FindIndicesAt(h,p) observed from the implementation is fed to std_all inside Coq and compared with what "
        "each enumeration API returned (M), with the loop model (MM) and with the hypotheses (MH). Go side: all 30 enumeration APIs x n "
        "x dst vs regexp on a fixed corpus; each difference is classified by replaying regexp's loop over coregex's own single-match "
        "table: cause=loop is a C04 violation; cause=single-match / captures / entry-point / views are the recorded inputs of the C02/C03/"
        "C11 findings (exact ledger).")
