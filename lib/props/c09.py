"""C09 — Compile accepts stdlib's language and reports stdlib's metadata."""
from .. import generic

LEVEL = "proof"


def run(ctx):
    generic.standard(ctx, "Props_C09", "c09", "compile-metadata", lists=("M",), ledger="known/C09.ledger")
    ctx.coverage["explanation"] = (
        "Coq (Quote.v): QuoteMeta (two-pass model = regexp's, quote_unquote, quote_matches_exactly, length, injectivity), capture "
        "metadata (the NFA compiler's traversal = regexp's MaxCap/CapNames, SubexpIndex = least index), value model (Copy independent, "
        "MarshalText round-trip), nesting-depth guard (accepts_equiv_config_1000; the original bound 100 refuted). The parser itself "
        "(regexp/syntax, shared with the oracle), error texts and LiteralPrefix are not modelled: they are compared with regexp on "
        "valid / nearly valid / deeply nested / POSIX-only / Perl-only patterns. PARTIAL for those parts.")
