"""C13 — results do not depend on what the Regex was used for before."""
import os
from .. import common, generic

LEVEL = "proof"


def run(ctx):
    # theorems + backtracker-state correspondence (model replays the observed histories)
    generic.standard(ctx, ["Props_C13", "Props_Dfa"], "c13bt", "backtracker-histories", lists=("M",))
    # `bt-vs-stdlib` differences are compile-level findings (C15/C01: case folding, invalid UTF-8) seen through the
    # backtracker; C13's verdict is aged-vs-fresh only, so they are kept as a note here and judged by C14/C15.
    other = [v for v in ctx.violations if v.get("kind") == "bt-vs-stdlib"]
    ctx.violations = [v for v in ctx.violations if v.get("kind") != "bt-vs-stdlib"]
    if other:
        ctx.notes.append("%d bt-vs-stdlib differences (compile-level findings, judged by C14/C15), e.g. %s" % (len(other), other[0].get("sig", "")[:160]))
    # API-level histories: aged value vs fresh value (oracle-free)
    hb = common.build_harness()
    stats = ctx.path("stats_api.json")
    rc, out = common.harness(ctx, hb, "c13-api", ["-seed", ctx.seed, "-tier", ctx.tier, "-stats", stats], timeout=3000)
    if rc != 0 or not os.path.exists(stats):
        ctx.oblige("correspondence:api-histories (harness runs)", False, out[-3000:])
        return
    st = common.load_stats(stats)
    common.absorb_stats(ctx, st, "api-histories")
    ctx.oblige("correspondence:api-histories (%d calls: aged value = fresh value)" % st.get("evaluations", 0), True)
    ctx.coverage["explanation"] = (
        "Coq (Backtrack.v, on Nfa.v): the bounded backtracker's reusable state (uint16 generation-stamped visited table with "
        "re-slicing within capacity and both wrap branches) is modelled exactly; invariant bt_inv is preserved by every entry point; "
        "under it the table satisfies the visited-set laws of the reference DFS, hence every result equals the state-free reference "
        "(bt_search_at_is_ref, bt_is_match_correct) and is independent of any call history (bt_history_independent) - for all NFAs, "
        "haystacks, offsets, histories. The original wrap code is refuted (bt_wrap_refuted_original_16). Correspondence: observed "
        "histories on one BacktrackerState are replayed on the model inside Coq (results, Generation, len/cap); API level: call "
        "histories (11 APIs, long-then-short haystacks, GC, tiny DFA limits forcing cache clears) on one Regex vs a fresh value per "
        "call. Lazy DFA cache (Dfa.v, DfaCache.v; theorems in Props_Dfa.v, correspondence run by C14): for every "
        "cache satisfying the invariant - the empty cache does, lookup / insert / clear preserve it - the search returns the pure "
        "DFA answer or falls back, so two histories that do not fall back give the same answer (dfa_search_history_independent); "
        "the two history-dependence defects this model exposed in the original code (state key of the sorted set, acceleration "
        "on incomplete rows) are kept as `_original_refuted` theorems. Not modelled: PikeVM scratch.")
