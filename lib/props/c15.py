"""C15 — compiled byte automata recognise exactly the UTF-8 of the intended runes."""
import concurrent.futures
import glob
import os
import re
from .. import common, generic

LEVEL = "proof"


def run(ctx):
    # leaf translator: theorems re-checked against the Gallina translation of the current Go source
    generic.leaf_obligations(ctx, ['Case'])
    common.build_coq()
    generic.props_obligations(ctx, "Props_C15")
    hb = common.build_harness()
    shards = 2 if ctx.quick() else 8
    out = ctx.path("cases.v")
    stats = ctx.path("stats.json")
    env = generic.ledger_env(ctx, "known/C15.ledger")
    rc, txt = common.harness(ctx, hb, "c15", ["-seed", 1, "-tier", ctx.tier, "-out", out, "-stats", stats, "-shards", shards],
                             timeout=3000, env=env)
    if rc != 0 or not os.path.exists(stats):
        ctx.oblige("correspondence:class-automata (harness runs)", False, txt[-3000:])
        return
    st = common.load_stats(stats)
    common.absorb_stats(ctx, st, "class-automata")
    generic.ledger_finish(ctx, "known/C15.ledger", st)
    ctx.oblige("correspondence:class-automata (Go side: %d automata x all code points + all byte strings <= 2 (+ samples) vs regexp)"
               % len((st.get("extra") or {}).get("automata", [])), True)
    # which coq ids belong to automata that fail on the Go side (those are judged through the ledger)
    go_failing = set()
    n_coq = 0
    for a in (st.get("extra") or {}).get("automata", []):
        if a.get("coq_id") is not None and a.get("coq_id", -1) >= 0 and a.get("shard", -1) is not None:
            if "coq_id" in a and a.get("shard", -1) >= 0:
                n_coq += 1
                if a.get("go_fail"):
                    go_failing.add(int(a["coq_id"]))
    files = sorted(glob.glob(ctx.path("cases_*.v")))

    def one(f):
        return f, common.coqc(os.path.basename(f), os.path.dirname(f), timeout=2400)

    with concurrent.futures.ThreadPoolExecutor(max_workers=8) as ex:
        results = list(ex.map(one, files))
    checked = 0
    for f, (rc, outp) in results:
        name = os.path.basename(f)
        if rc != 0:
            ctx.oblige("regenerated:%s (class_check evaluates)" % name, False, outp[-2000:])
            continue
        m = re.search(r"^M\s*=\s*(.*?)\n\s*:\s", outp, re.S | re.M)
        ids = [] if not m or m.group(1).strip() in ("[]", "nil") else [int(x) for x in re.findall(r"\d+", m.group(1))]
        r = re.search(r"^R\s*=\s*(.*?)\n\s*:\s", outp, re.S | re.M)
        checked += len(re.findall(r"\(\d+,\s*(?:true|false)", r.group(1))) if r else 0
        unexpected = [i for i in ids if i not in go_failing]
        ctx.oblige("regenerated:%s class_check (all byte strings, all lengths) on the dumped automata; failing ones have a confirmed witness" % name,
                   not unexpected, "automata %s fail only inside Coq" % unexpected)
        if unexpected:
            w = re.search(r"^W\s*=\s*(.*?)\n\s*:\s", outp, re.S | re.M)
            ctx.violations.append({"kind": "class_check", "static": True, "sig": "class_check fails for automata %s (%s)" % (unexpected, name),
                                   "detail": {"automata_ids": unexpected, "witnesses": (w.group(1)[:1500] if w else "")}})
    ctx.coverage["programs"] = n_coq
    ctx.coverage["automata_checked_in_coq"] = checked
    ctx.coverage["explanation"] = (
        "Coq (Utf8.v, ClassAuto.v on Nfa.v): encode/decode model of Go's utf8 with round-trip theorems; `accepts` (anchored whole-string "
        "state-set simulation) proved equal to the path semantics; certified checker class_check with class_check_sound: if it returns "
        "true on a dumped automaton and a range list then for ALL byte strings of all lengths acceptance = regexp's view (exactly one "
        "decoded rune, invalid byte = U+FFFD width 1, member of the class). Per run: automata compiled by the current code from "
        "single-node ASTs (Perl/POSIX/Unicode classes, negations, boundary classes, literals, fold-case literals, dot) in each "
        "compilation mode are dumped; a subset is checked inside Coq (kernel, vm_compute), all are swept on the Go side over every code "
        "point and every byte string of length <= 2 (+ 3-byte samples) against regexp; failing automata are recorded with witnesses in an "
        "exact ledger. The range splitter is modelled for 1- and 2-byte ranges (proved) and 4-byte (refuted); 3-byte not modelled.")
