"""C20 — memory per Regex stays bounded; steady-state searches do not allocate."""
from .. import generic

LEVEL = "proof"


def run(ctx):
    generic.standard(ctx, "Props_C20", "c20", "memory", lists=("M",), ledger="known/C20.ledger")
    ctx.coverage["explanation"] = (
        "Coq (Cache.v, Backtrack.v): the lazy DFA cache accounting (MemoryUsage coefficients, Insert guard, register, clear protocol as in "
        "the current code) over arbitrary operation sequences: memory < capacity + one state + the reserved slot 0 (+ 3 bytes of lazily "
        "attached acceleration data per state - the literal 'capacity + one state' is refuted with a witness), clear count <= "
        "MaxCacheClears; the backtracker's visited table never exceeds its cap over any call history. Per run: MemoryUsage/Size/ClearCount "
        "observed after every search on real DFACaches (several capacities and clear limits) checked against the bound and the model "
        "inside Coq; cap(Visited) <= MaxVisitedSize; heap per Regex after 100 vs 10000 searches; testing.AllocsPerRun == 0 for the "
        "documented zero-allocation calls over a strategy-covering corpus. PARTIAL: Go's allocator is observed, not modelled.")
