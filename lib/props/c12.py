"""C12 — optimisation settings never change answers."""
import os
from .. import generic, common

LEVEL = "proof"


def run(ctx):
    props = "Props_C12" if os.path.exists(os.path.join(common.COQ, "Props_C12.v")) else "Props_C14"
    generic.standard(ctx, props, "c12", "config-lattice", lists=(), model=True, ledger="known/C12.ledger")
    ctx.coverage["explanation"] = (
        "Coq (Gate.v): Validate accepts exactly the documented ranges; the prefilter candidate loops return the reference result under "
        "the hypotheses C16 (Find = least occurrence), C17 (literals necessary) and C14 (engine = reference), so prefilter on/off and "
        "the limits only select a branch (config_irrelevant_model). Per run: 23 valid configurations (pairwise rotating) vs the default "
        "over 5 APIs; default vs the extracted Coq reference on the dumped NFA (the 'plain NFA simulation'); invalid configurations "
        "rejected; GODEBUG cpu.avx2/ssse3/all=off child processes vs unmasked; fixed corpus + exact ledger.")
