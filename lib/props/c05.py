"""C05 — every single search runs in time linear in the haystack."""
import os
from .. import common, generic

LEVEL = "proof"


def run(ctx):
    common.build_coq()
    generic.props_obligations(ctx, "Props_C05")
    hb = common.build_harness(cover=True)
    cases = ctx.path("cases_cost.v")
    stats = ctx.path("stats_cost.json")
    env = generic.ledger_env(ctx, "known/C05.ledger")
    rc, out = common.harness(ctx, hb, "c05", ["-seed", 1, "-tier", ctx.tier, "-out", cases, "-stats", stats], timeout=3000, env=env)
    if not os.path.exists(stats):
        ctx.oblige("correspondence:work-counters (harness runs)", False, out[-3000:])
        return
    st = common.load_stats(stats)
    common.absorb_stats(ctx, st, "work-counters")
    generic.ledger_finish(ctx, "known/C05.ledger", st)
    ctx.oblige("correspondence:work-counters (%d measured series: doubling ratio and K*states*(n+1) bound)" % st.get("evaluations", 0), True)
    if os.path.exists(cases):
        res = generic.run_cases(ctx, cases, "work-verdicts", lists=("M",))
        if res is not None and res.get("M") is not None:
            ctx.oblige("correspondence:work-verdicts recomputed inside Coq (M = [])", not res["M"], str(res["M"][:30]))
            if res["M"]:
                ctx.violations.append({"kind": "coq-work-verdict", "static": True, "sig": "c05 verdict cases %s" % res["M"][:20], "detail": {"ids": res["M"][:100]}})
    ctx.coverage["explanation"] = (
        "Coq (Cost.v, Backtrack.v, Cache.v): step-counting models with bounds proved for all NFAs and haystacks: the set-simulating PikeVM "
        "performs <= 2*|N|*(len+1) thread insertions; the bounded backtracker writes each visited cell at most once per start "
        "(<= |N|*(len+1) for IsMatch; per start position for SearchAt, whose per-start generation bump makes the whole call quadratic - "
        "proved witness); lazy DFA: one table step per byte plus a bounded number of determinisations ((clears+1)*(cap/48+2)) then one NFA "
        "fallback; reverse-suffix candidate loop with the minStart barrier scans <= 2*len bytes; the composite searcher's recursion is "
        "refuted (superlinear). Runtime: deterministic work counters (coverage block counts x statements, library code only) around "
        "single API calls for pattern families per strategy, sizes 2^8..2^12: doubling ratio <= 2.6 and work <= K*states*(n+1). PARTIAL: "
        "real time, allocator, GC and the assembly inner loops are not modelled; K over all patterns is supported by measurement only.")
