"""C10 — leftmost-longest mode matches regexp's Longest/POSIX semantics."""
import os
from .. import generic, common

LEVEL = "proof"


def run(ctx):
    props = "Props_C10" if os.path.exists(os.path.join(common.COQ, "Props_C10.v")) else "Props_C14"
    generic.standard(ctx, props, "c10", "longest-mode", lists=(), ledger="known/C10.ledger")
    ctx.coverage["explanation"] = (
        "Coq (NfaLongest.v, Backtrack.v): the leftmost-longest reference (exhaustive DFS, maximal end) is characterised against the path "
        "semantics (leftmost start, maximal end among accepting paths); the bounded backtracker in longest mode equals it from any "
        "reusable state; the mode flag is per value and overwritten on every acquisition of a pooled search state. Per run: Longest(), "
        "Copy()+Longest() on the copy, CompilePOSIX vs regexp in the same mode over 11 APIs; the original of a copy must stay "
        "leftmost-first; fixed corpus + exact ledger. Longest-mode sub-match choice is compared with regexp only (not modelled).")
