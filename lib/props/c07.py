"""C07 — total and memory-safe; results well-formed."""
from .. import generic

LEVEL = "proof"


def run(ctx):
    # leaf translator: theorems re-checked against the Gallina translation of the current Go source
    generic.leaf_obligations(ctx, ['Rune'])
    generic.standard(ctx, "Props_C07", "c07", "safety", lists=("M",), ledger="known/C07.ledger",
                     expected_key="coq_expected_mismatches", timeout=3400, extra_args=["-hang", 150])
    ctx.coverage["explanation"] = (
        "Coq (Wf.v on Nfa/NfaRef/FindAll/Swar/Backtrack): boolean well-formedness checkers with specifications (spans, captures, "
        "enumerations, split); the reference search's results are well-formed; the specification loop's enumerations are ordered and "
        "non-overlapping; access-logging variants of the reference step function read only h[p], h[p-1] inside the haystack; SWAR reads "
        "and backtracker table indices are in bounds; the modelled loops never run out of fuel. Runtime (observed, not proved): every "
        "exported search/enumeration/replace method x haystacks placed between PROT_NONE guard pages and mapped read-only, in child "
        "processes with hang detection; hostile byte strings offered as patterns; well-formedness predicates, aliasing of returned "
        "slices, unchanged haystack. A sample of observed results is re-checked by the Coq predicates. PARTIAL: memory safety of the "
        "assembly and termination of the real code are observed, not proved.")
