"""C03 — top-level API vs regexp, and the Coq reference on the compiled NFA vs regexp."""
from .. import generic

LEVEL = "proof"


def run(ctx):
    npat = 900 if ctx.quick() else 6000
    generic.standard(ctx, ["Props_C03", "Props_PikeCaps", "Props_Onepass"], "rx", "api-vs-regexp", lists=(), model=True, ledger="known/C03.ledger",
                     extra_args=["-prop", "C03", "-patterns", npat, "-haystacks", 24])
    # the PikeVM model with capture vectors (PikeCaps.v) vs the real nfa.PikeVM capture entry points (M: model =
    # implementation, R: implementation = reference slots)
    generic.standard(ctx, [], "pikecaps-cases", "pikevm-captures-model-vs-implementation", lists=("M", "R"), seed=1,
                     ledger="known/C03pike.ledger")
    ctx.coverage["PikeVM captures (PikeCaps.v): the model of SearchWithCapturesAt / SearchWithCapturesInSpan with per-thread capture vectors is proved to return exactly the reference's span AND slot vector for every well-formed NFA, haystack and offset (pikecaps_search_is_ref); the copy-on-write store with the repaired reference order implements value semantics (cow_search_is_ref), the original order is refuted (cow_original_refuted_search: `(a*)+$` on aa); replayed against the real PikeVM on every check. "
        "explanation"] = (
        "Coq (Nfa.v, NfaRef.v, Backtrack.v): the reference search on the byte-level Thompson NFA is a priority-ordered DFS with a visited "
        "set; proved for every well-formed NFA, haystack and offset: it reports a match iff an accepting path exists, at the leftmost "
        "start, inside the haystack, never runs out of fuel, captures well-formed; the bounded backtracker equals it from any reusable "
        "state. Tie to the code per run: every pattern's NFA is dumped from the current compiler, wf_nfa is evaluated by the extracted "
        "model, the reference result is compared with regexp (kind compiled-nfa-vs-regexp: the NFA does not denote the pattern) and "
        "every top-level API with regexp (kind api/<strategy>), on a fixed corpus (curated strategy triggers + harvested corpus + "
        "templates + grammar; 12 AST-derived haystack shapes) with an exact ledger of the recorded failing inputs. NOT proved: that the "
        "compiler maps every AST to a correct NFA (checked per pattern), the PikeVM / lazy DFA / strategy dispatch (C14, C19).")
