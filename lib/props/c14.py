"""C14 — each matching engine agrees with the reference on everything it accepts."""
from .. import generic

LEVEL = "proof"


def run(ctx):
    npat = 150 if ctx.quick() else 1500
    generic.standard(ctx, "Props_C14", "c14", "engines-vs-reference", lists=(), model=True, ledger="known/C14.ledger",
                     extra_args=["-patterns", npat])
    ctx.coverage["explanation"] = (
        "Coq: the bounded backtracker (all entry points, both modes, any reusable state) equals the reference search; declines exactly "
        "when CanHandle is false. Per run: every engine entry point (PikeVM x 12, BoundedBacktracker x 4, lazy.DFA x 7 forward under 5 "
        "capacity/clear/determinisation configurations incl. a one-state cache, reverse DFA, one-pass DFA) is compared with the "
        "extracted reference evaluated on the SAME NFA dumped from the current compiler, over exhaustive short haystacks on the NFA's "
        "byte-class representatives and all start offsets; recorded failing inputs in an exact ledger. PikeVM / lazy DFA / one-pass "
        "are not modelled in Coq: PARTIAL for those engines.")
