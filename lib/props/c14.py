"""C14 — each matching engine agrees with the reference on everything it accepts."""
from .. import generic

LEVEL = "proof"


def run(ctx):
    npat = 150 if ctx.quick() else 1500
    generic.standard(ctx, ["Props_C14", "Props_Pike", "Props_PikeSpan"], "c14", "engines-vs-reference", lists=(), model=True,
                     ledger="known/C14.ledger", extra_args=["-patterns", npat])
    # the PikeVM model of Pike.v vs the real nfa.PikeVM (M), and the real PikeVM vs the reference (R)
    generic.standard(ctx, [], "pike-cases", "pikevm-model-vs-implementation", lists=("M", "R"), seed=1)
    ctx.coverage["explanation"] = (
        "Coq: the bounded backtracker (all entry points, both modes, any reusable state) equals the reference search; declines exactly "
        "when CanHandle is false. Per run: every engine entry point (PikeVM x 12, BoundedBacktracker x 4, lazy.DFA x 7 forward under 5 "
        "capacity/clear/determinisation configurations incl. a one-state cache, reverse DFA, one-pass DFA) is compared with the "
        "extracted reference evaluated on the SAME NFA dumped from the current compiler, over exhaustive short haystacks on the NFA's "
        "byte-class representatives and all start offsets; recorded failing inputs in an exact ledger. PikeVM (Pike.v, PikeSpan.v): the "
        "model of IsMatch / SearchAt (priority-ordered thread lists, sparse-set visited, leftmost-first cut) is proved to return exactly "
        "the reference span for every well-formed NFA, haystack and offset (pike_search_is_ref), and is run against the real nfa.PikeVM "
        "on every check (lists M: model = implementation, R: implementation = reference). Lazy DFA and one-pass DFA: see the Dfa module "
        "if present in this tree; otherwise compared with the reference only.")
