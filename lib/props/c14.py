"""C14 — each matching engine agrees with the reference on everything it accepts."""
from .. import generic

LEVEL = "proof"


def run(ctx):
    # leaf translator: theorems re-checked against the Gallina translation of the current Go source
    generic.leaf_obligations(ctx, ['Word'])
    npat = 150 if ctx.quick() else 1500
    generic.standard(ctx, ["Props_C14", "Props_Pike", "Props_PikeSpan"], "c14", "engines-vs-reference", lists=(), model=True,
                     ledger="known/C14.ledger", extra_args=["-patterns", npat])
    # the PikeVM model of Pike.v vs the real nfa.PikeVM (M), and the real PikeVM vs the reference (R)
    generic.standard(ctx, [], "pike-cases", "pikevm-model-vs-implementation", lists=("M", "R"), seed=1)
    # the lazy DFA model of Dfa.v (determinisation, start states, byte-accounted cache with clears, search loops) replays
    # observed call HISTORIES on one cache (M: model = implementation); unanchored results are also compared with the
    # bounded backtracker on the Go side (recorded failing inputs in known/C14dfa.ledger)
    # the one-pass DFA model (Onepass.v: builder + Search/IsMatch) vs the real onepass.DFA (M: model = implementation incl. whether
    # Build succeeds, R: implementation = anchored reference with captures, H: the theorems' side conditions hold on every dumped NFA)
    generic.standard(ctx, ["Props_Onepass"], "onepass-cases", "onepass-model-vs-implementation", lists=("M", "R", "H"), seed=1)
    # the reverse-NFA construction (Reverse.v = nfa/reverse.go): the model must build the SAME automaton as nfa.Reverse /
    # nfa.ReverseAnchored (nfa_eqb); Go side: forward accepting paths vs reverse paths / lazy reverse DFA on short haystacks
    generic.standard(ctx, ["Props_Reverse"], "reverse-cases", "reverse-nfa-model-vs-implementation", lists=("M",), seed=1)
    generic.standard(ctx, ["Props_Dfa", "Props_DfaPrio", "Props_DfaRev"], "dfa-cases", "lazydfa-model-vs-implementation", lists=("M", "PS"), seed=1,
                     ledger="known/C14dfa.ledger", timeout=3000)
    ctx.coverage["explanation"] = (
        "Coq: the bounded backtracker (all entry points, both modes, any reusable state) equals the reference search; declines exactly "
        "when CanHandle is false. Per run: every engine entry point (PikeVM x 12, BoundedBacktracker x 4, lazy.DFA x 7 forward under 5 "
        "capacity/clear/determinisation configurations incl. a one-state cache, reverse DFA, one-pass DFA) is compared with the "
        "extracted reference evaluated on the SAME NFA dumped from the current compiler, over exhaustive short haystacks on the NFA's "
        "byte-class representatives and all start offsets; recorded failing inputs in an exact ledger. PikeVM (Pike.v, PikeSpan.v): the "
        "model of IsMatch / SearchAt (priority-ordered thread lists, sparse-set visited, leftmost-first cut) is proved to return exactly "
        "the reference span for every well-formed NFA, haystack and offset (pike_search_is_ref), and is run against the real nfa.PikeVM "
        "on every check (lists M: model = implementation, R: implementation = reference). Lazy DFA (Dfa.v, DfaRef.v, DfaCache.v, DfaTop.v): "
        "determinisation with 1-byte match delay, look-behind start states, the byte-accounted cache with clears and the search "
        "loops are modelled; proved for all NFAs without look-around, haystacks, offsets and caches: the cached search returns the "
        "pure DFA answer or falls back (cache transparency, capacity irrelevance, history independence), IsMatch = reference, "
        "no-match iff the reference has none, and the reported END IS THE REFERENCE'S END (DfaPrio.v: the DFA state list is the erasure "
        "of the PikeVM's thread list, so pike_search_is_ref applies; side condition prefix_sep - nothing but the unanchored prefix refers "
        "to its two states - is true by construction of the compiler and re-checked on every dumped NFA, list PS), anchored search complete; the model replays observed call histories of the real lazy.DFA on every check. "
        "One-pass DFA (Onepass.v, OnepassProofs.v): builder (priority-ordered closure, one-pass checks, look handling, dead state 0) and "
        "Search / IsMatch are modelled; proved for every wf NFA on which the build succeeds and every haystack: Search = the anchored "
        "reference INCLUDING all capture slots, IsMatch = reference (onepass_search_is_ref, onepass_is_match_is_ref); five original "
        "behaviours refuted; replayed against the real onepass.DFA on every check. "
        "Reversed NFA (Reverse.v): a Gallina copy of nfa/reverse.go (both Reverse and ReverseAnchored) builds the same automaton as "
        "the code on every case; proved for every wf look-free NFA with the compiler's prefix shape: forward accepting path over "
        "h[i..j) iff reverse path read backwards from j reaches Match at i, leftmost start, no overrun through the unanchored prefix; "
        "look-around refuted (reverse_look_refuted: the construction turns assertions into epsilons), the original start-loop handling "
        "refuted.")
