"""C11 — all views of one Regex tell the same story."""
from .. import generic

LEVEL = "proof"


def run(ctx):
    generic.standard(ctx, "Props_C11", "c11", "views", lists=(), ledger="known/C11.ledger")
    ctx.coverage["explanation"] = (
        "Coq (FindAll.v): every enumeration view (FindAll with limit = prefix, head = single match, Count, iterators, AppendAllIndex, "
        "group 0 of FindAllSubmatch) is derived from ONE single-match function by loops proved equal to regexp's allMatches, hence the "
        "views agree for every haystack, n and dst. Open by design: that the meta engine's five per-strategy dispatchers are "
        "projections of one function (views_coherent). That is checked oracle-free per run: ~35 relations between methods of one "
        "compiled value incl. every offset, haystacks to 3 KiB with invalid UTF-8 and NULs, fixed corpus + exact ledger of recorded "
        "failing inputs.")
