"""C06 — a compiled Regex is safe for concurrent use."""
import os
from .. import common, generic, racelog

LEVEL = "proof"


def run(ctx):
    st = generic.standard(ctx, "Props_C06", "c06-protocol", "pool-protocol", lists=("M",))
    # call-site discipline assumed by the ownership theorem, re-extracted from the source
    hb0 = common.build_harness()
    stats0 = ctx.path("stats_scope.json")
    rc0, out0 = common.harness(ctx, hb0, "c06-scope", ["-stats", stats0], timeout=600)
    if rc0 != 0 or not os.path.exists(stats0):
        ctx.oblige("regenerated:acquire/release scope discipline (extractor runs)", False, out0[-2000:])
    else:
        st0 = common.load_stats(stats0)
        for v in st0.get("violations", []):
            v["static"] = True   # a call site, not an execution
        common.absorb_stats(ctx, st0, "scope-discipline")
        ctx.oblige("regenerated:every putSearchState lies within the block that acquired the state (%d puts in %d functions)"
                   % (st0.get("evaluations", 0), st0.get("distinct_nontrivial", 0)), not st0.get("violations"))
    # race-detector replay (runtime part: observed, not modelled)
    hb = common.build_harness(race=True)
    stats = ctx.path("stats_race.json")
    rc, out = common.harness(ctx, hb, "c06-race", ["-seed", ctx.seed, "-tier", ctx.tier, "-stats", stats], timeout=3000,
                             env={"GORACE": "halt_on_error=0 log_path=" + ctx.path("race")})
    # exit status 66 = the race detector saw at least one race (reports are in the log files)
    if not os.path.exists(stats):
        ctx.oblige("correspondence:race-replay (harness runs)", False, out[-3000:])
        return
    st2 = common.load_stats(stats)
    # result differences under concurrency are consequences of the racy sites: attribute them to the
    # same findings only if the strategy of the pattern has a known racy site; otherwise violation
    known = common.load_known("C06")
    known_sites = {}
    racy_strategies = set()
    for e in known:
        if e.get("status") == "open" and e.get("kind") == "data-race":
            for site in e.get("sites", []):
                known_sites[site] = e
            racy_strategies.update(e.get("strategies", []))
    diffs = st2.get("violations", [])
    st2["violations"] = []
    common.absorb_stats(ctx, st2, "race-replay")
    races = racelog.parse(ctx.path("race"))
    ctx.coverage["race_reports"] = len(races)
    sites_seen = {}
    for r in races:
        sites = [side.split(" <- ")[1] for side in r["sig"][5:].split(" || ")]
        unknown = [s for s in sites if s not in known_sites]
        for s in sites:
            sites_seen[s] = sites_seen.get(s, 0) + 1
        if unknown:
            ctx.violations.append({"kind": "data-race", "sig": r["sig"], "detail": {"stacks": r["stacks"], "unknown_sites": unknown}})
        else:
            for s in sites:
                if known_sites[s] not in ctx.known_hits:
                    ctx.known_hits.append(known_sites[s])
    ctx.coverage["race_sites_seen"] = sites_seen
    for v in diffs:
        strat = (v.get("detail") or {}).get("strategy")
        if strat in racy_strategies:
            e = next(e for e in known if e.get("kind") == "data-race" and strat in e.get("strategies", []))
            if e not in ctx.known_hits:
                ctx.known_hits.append(e)
        else:
            ctx.violations.append(v)
    ctx.oblige("correspondence:race-replay (%d concurrent calls compared with sequential results, %d race reports classified by call site)"
               % (st2.get("evaluations", 0), len(races)), True)
    ctx.coverage["explanation"] = (
        "Coq: interleaving model of getSearchState/putSearchState (atomic slot Swap/CAS + pool with non-deterministic Get and GC "
        "drops); exclusive ownership, no conflicting access, concurrent = sequential (given C13), atomic counters commute - for any "
        "number of goroutines and any schedule. The protocol the theorems are about is re-extracted from meta/engine.go and "
        "meta/search_state.go on every run (go/ast) and checked by protocol_ok inside Coq; the extractor also lists every search-path "
        "call of a state-carrying method on the Engine-level (shared) simulators - each one is a potential race and must be a known "
        "finding. Runtime: the harness built with -race replays a strategy-covering corpus from N goroutines on shared Regex values "
        "and compares every result with the sequential result. PARTIAL: Go's memory model, sync.Pool internals and the scheduler are "
        "not modelled; the race detector only sees executed interleavings.")
