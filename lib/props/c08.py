"""C08 — Replace, Expand and Split produce stdlib's output."""
from .. import generic

LEVEL = "proof"


def run(ctx):
    # leaf translator: theorems re-checked against the Gallina translation of the current Go source
    generic.leaf_obligations(ctx, ['Step'])
    generic.standard(ctx, "Props_C08", "c08", "replace", lists=("M", "MM", "ILL"), ledger="known/C08.ledger")
    ctx.coverage["explanation"] = (
        "Coq (Replace.v): template language specification, regexp's expand/extract scanner, coregex's expand (expand_cx_eq_std for all "
        "templates/sources/matches/names), the five replace loops (replace_eq_std under find_at_ok/stable/aligned), Split (split_eq_std), "
        "no-match copy, literal-no-dollar; the original code is refuted with witnesses. Correspondence: observed outputs of the nine "
        "functions vs regexp's algorithm applied to coregex's own match lists, evaluated inside Coq. Go side: nine functions x template "
        "grammar x n vs regexp byte-for-byte on a fixed corpus; a difference is cause=engine only if regexp's algorithm replayed over "
        "coregex's own single-match results reproduces coregex's output exactly (recorded inputs of the C02/C03 findings), otherwise "
        "cause=c08-layer, a violation.")
