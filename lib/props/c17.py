"""C17 — extracted literals are necessary for every match."""
import os
from .. import common, generic

LEVEL = "proof"


def run(ctx):
    st = generic.standard(ctx, "Props_C17", "c17", "literals", lists=(), ledger="known/C17.ledger")
    # the case file prints F / FC / U / M; M lists cases whose Coq verdict disagrees with the Go-side expectation
    cases = ctx.path("cases_literals.v")
    if os.path.exists(cases):
        res = generic.run_cases(ctx, cases, "literals-cover", lists=("M", "U"))
        if res is not None:
            m = res.get("M")
            if m is not None:
                # artifacts whose literal set is not a cover (witness found inside Coq).  Each must be one on
                # which the Go-side search confirmed a failing member (those are judged through the ledger);
                # a Coq-side failure without a confirmed Go-side input is reported on its own.
                expected = set(((st or {}).get("extra") or {}).get("coq_cases_with_go_side_violation") or [])
                extra_ids = [i for i in m if i not in expected]
                ctx.oblige("regenerated:cover checkers on %d dumped (NFA, literal set) artifacts: every uncovered artifact has a confirmed failing member" % (st or {}).get("coq_cases", 0),
                           not extra_ids, "cases %s" % extra_ids[:40])
                ctx.coverage["artifacts_not_covered"] = len(m)
                if extra_ids:
                    ctx.violations.append({"kind": "coq-cover-check", "static": True, "sig": "literal cover cases %s" % extra_ids[:20],
                                           "detail": {"failing_case_ids": extra_ids[:200]}})
            ctx.coverage["cover_unknown"] = len(res.get("U") or [])
    ctx.coverage["explanation"] = (
        "Coq (Literal.v on Nfa.v): certified checkers prefix_cover / suffix_cover / inner_cover / complete_ok with soundness theorems "
        "quantifying over all haystacks and all matches of the NFA that /repo's compiler produced for the pattern (Look states relaxed "
        "to epsilon, so only `Covered` is trusted; witnesses are confirmed on the Go side); the Seq algebra (minimize, dedup, "
        "keep_first_bytes, cross_forward, lcp/lcs) preserves coverage; seven refutations of faithful models of extractor steps. Per run: "
        "literal sets extracted by the current code under 12 limit configurations are dumped with their NFAs and checked inside Coq; "
        "Go side: members of the pattern's language confirmed by regexp vs the literal sets, on a fixed corpus with an exact ledger of "
        "the recorded failing inputs.")
