"""C01 — top-level API vs regexp, and the Coq reference on the compiled NFA vs regexp."""
from .. import generic

LEVEL = "proof"


def run(ctx):
    # leaf translator: theorems re-checked against the Gallina translation of the current Go source
    generic.leaf_obligations(ctx, ['Word'])
    npat = 900 if ctx.quick() else 6000
    generic.standard(ctx, ["Props_C01", "Props_Pike"], "rx", "api-vs-regexp", lists=(), model=True, ledger="known/C01.ledger",
                     extra_args=["-prop", "C01", "-patterns", npat, "-haystacks", 24])
    # L0: the Gallina model of the Thompson compiler (Compile.v) applied to the pattern's AST must be the SAME automaton as the
    # NFA dumped from the real compiler (nfa_eqb), and the observed search results must equal find_at on it (list M)
    generic.standard(ctx, ["Props_Compile"], "compile-cases", "compiler-model-vs-implementation", lists=("M",), seed=1)
    ctx.coverage["explanation"] = (
        "Coq (Nfa.v, NfaRef.v, Backtrack.v): the reference search on the byte-level Thompson NFA is a priority-ordered DFS with a visited "
        "set; proved for every well-formed NFA, haystack and offset: it reports a match iff an accepting path exists, at the leftmost "
        "start, inside the haystack, never runs out of fuel, captures well-formed; the bounded backtracker equals it from any reusable "
        "state. Tie to the code per run: every pattern's NFA is dumped from the current compiler, wf_nfa is evaluated by the extracted "
        "model, the reference result is compared with regexp (kind compiled-nfa-vs-regexp: the NFA does not denote the pattern) and "
        "every top-level API with regexp (kind api/<strategy>), on a fixed corpus (curated strategy triggers + harvested corpus + "
        "templates + grammar; 12 AST-derived haystack shapes) with an exact ledger of the recorded failing inputs. L0 (Regex.v, Compile.v): a Gallina model of "
        "nfa/compile.go on the raw regexp/syntax AST with a denotational semantics re_match; proved for every pattern of the fragment "
        "(100% of the corpus) and every haystack: compile r is well-formed, accepting paths = re_match (sound and complete), "
        "is_match_ref / find_at on compile r = the pattern language / leftmost start; per run the model's compile(ast) is compared "
        "for EQUALITY with the NFA dumped from the real compiler. Against well-formed-UTF-8 semantics the as-built atoms are proved "
        "complete, and sound for dot-free patterns with ASCII/small classes; refuted in general (`[^a][^a]` matches the two bytes of "
        "one rune - the recorded C15 finding). NOT proved: the strategy dispatch (C19), priority of the match END at the AST level.")
