#!/bin/sh
# developer helper: run every claimed check (quick tier, or the tier given), print verdict + time
cd /verif
TIER=${1:-quick}
for P in $(python3 -c "import json;print(' '.join(c['property_id'] for c in json.load(open('MANIFEST.json'))['checks']))"); do
  s=$(date +%s); out=$(./check $P --tier $TIER 2>&1); rc=$?; e=$(date +%s)
  echo "$P rc=$rc $(($e-$s))s viol=$(echo "$out" | grep -c '^VIOLATION') known=$(echo "$out" | grep -c '^KNOWN-FINDING')"
  echo "$out" | grep '^VIOLATION\|OBLIGATION FAILED' | head -3
done
