#!/usr/bin/env python3
"""Developer tool: confirm a seeded mutation delivered by a sub-agent in /tmp/mut-<ID> and run
the checks against it.

  python3 lib/seedtest.py C08 [--checks C08,C04] [--name label]

1. the patch applies to /repo's HEAD, the library builds and the existing test suite passes
   with it (in the agent's worktree);
2. the demonstration fails with the change and passes without it;
3. the patch is applied to /repo, the named checks (default: the property's own) are run, and
   the patch is reverted straight afterwards (git checkout -- .);
4. everything is stored under /verif/seeded/<ID>[-label]/ (patch.diff, demo/, meta.json).
"""
import argparse
import json
import os
import shutil
import subprocess
import sys
import time

ENV = dict(os.environ, GOFLAGS="-mod=mod", GOPROXY="off")
ENV.pop("GOSUMDB", None)


def sh(cmd, cwd=None, timeout=1800):
    p = subprocess.run(cmd, cwd=cwd, shell=True, env=ENV, stdout=subprocess.PIPE, stderr=subprocess.STDOUT, text=True, timeout=timeout)
    return p.returncode, p.stdout


def recheck(pid, out, checks):
    """The scratch worktree is gone: re-run the checks against the stored patch only."""
    patch = os.path.join(out, "patch.diff")
    meta = json.load(open(os.path.join(out, "meta.json")))
    rc, o = sh("git -C /repo status --short")
    if o.strip():
        print("/repo is not clean:", o); return 2
    rc, o = sh("git -C /repo apply --check %s" % patch)
    if rc != 0:
        print("patch does not apply to /repo:", o); return 2
    sh("git -C /repo apply %s" % patch)
    ran = []
    try:
        for c in checks:
            t0 = time.time()
            rc, o = sh("./check %s" % c, cwd="/verif", timeout=3600)
            lines = [l for l in o.splitlines() if l.startswith("VIOLATION") or "OBLIGATION FAILED" in l]
            ran.append({"check": "./check %s" % c, "exit": rc, "seconds": round(time.time() - t0), "lines": lines[:6]})
            print(c, "exit", rc, "VIOLATION lines:", sum(1 for l in lines if l.startswith("VIOLATION")))
    finally:
        sh("git -C /repo checkout -- .")
    meta["reran"] = ran
    meta["detected"] = any(r["exit"] != 0 for r in ran)
    json.dump(meta, open(os.path.join(out, "meta.json"), "w"), indent=1)
    print("re-checked", out, "detected =", meta["detected"])
    return 0


def main():
    ap = argparse.ArgumentParser()
    ap.add_argument("pid")
    ap.add_argument("--checks")
    ap.add_argument("--name", default="")
    ap.add_argument("--wt")
    ap.add_argument("--r3", help="round-3 layout: directory with patch.diff, demo/demo_test.go (package coregex_test, copied to the worktree root as zz_demo_test.go), notes.md")
    ap.add_argument("--demo", help="demo command relative to the worktree (default: go run ./mutdemo or go test ./mutdemo)")
    a = ap.parse_args()
    pid = a.pid
    wt = a.wt or "/tmp/mut-%s" % pid
    out = "/verif/seeded/%s%s" % (pid, ("-" + a.name) if a.name else "")
    meta = {"property": pid, "worktree": wt, "ran": []}
    if not os.path.isdir(wt):
        return recheck(pid, out, (a.checks.split(",") if a.checks else [pid]))
    patch = os.path.join(wt, "mutation.patch")
    if a.r3:
        shutil.copyfile(os.path.join(a.r3, "patch.diff"), patch)
    if not os.path.exists(patch) or not open(patch).read().strip():
        rc, diff = sh("git diff -- . ':!mutdemo' ':!mutation.patch' ':!MUTATION.md'", cwd=wt)
        open(patch, "w").write(diff)
    if not open(patch).read().strip():
        print("no patch"); return 2
    # make the worktree contain exactly the agent's patch (the agents' shared `git stash` mixed some worktrees up)
    sh("git checkout -- .", cwd=wt)
    rc, o = sh("git apply %s" % patch, cwd=wt)
    if rc != 0:
        print("patch does not apply in its own worktree:", o); return 2
    if a.r3:
        os.remove(patch)
        patch = os.path.join(a.r3, "patch.diff")
    # 1. suite
    rc, o = sh("go build ./... && go test -vet=off -count=1 ./... 2>&1 | grep -v 'no test files' | grep -v '^ok' | grep -v mutdemo", cwd=wt)
    suite_ok = (o.strip() == "")
    meta["suite_passes_with_change"] = suite_ok
    meta["suite_output_non_ok"] = o[-1500:]
    # 2. demo both ways
    demo = a.demo
    if a.r3 and not demo:
        demo = "cp %s/demo/demo_test.go zz_demo_test.go && go test -vet=off -run TestSeededDemo -count=1 . ; rc=$?; rm -f zz_demo_test.go; exit $rc" % a.r3
    if not demo:
        demo = "go test -count=1 ./mutdemo/..." if any(f.endswith("_test.go") for f in os.listdir(os.path.join(wt, "mutdemo"))) else "go run ./mutdemo"
    rc1, o1 = sh(demo, cwd=wt, timeout=900)
    # (no git stash: the stash stack is shared by all worktrees of /repo)
    sh("git apply -R %s" % patch, cwd=wt)
    try:
        rc0, o0 = sh(demo, cwd=wt, timeout=900)
    finally:
        sh("git apply %s" % patch, cwd=wt)
    meta["demo_cmd"] = demo
    meta["demo_fails_with_change"] = rc1 != 0
    meta["demo_passes_without_change"] = rc0 == 0
    meta["demo_output_with_change"] = o1[-1500:]
    print("suite_ok=%s demo_with=%s demo_without=%s" % (suite_ok, rc1, rc0))
    # 3. checks against /repo
    rc, o = sh("git -C /repo status --short")
    if o.strip():
        print("/repo is not clean:", o); return 2
    rc, o = sh("git -C /repo apply --check %s" % patch)
    if rc != 0:
        print("patch does not apply to /repo:", o); return 2
    checks = (a.checks.split(",") if a.checks else [pid])
    sh("git -C /repo apply %s" % patch)
    try:
        for c in checks:
            t0 = time.time()
            rc, o = sh("./check %s" % c, cwd="/verif", timeout=3600)
            lines = [l for l in o.splitlines() if l.startswith("VIOLATION") or "OBLIGATION FAILED" in l]
            rep = None
            for l in lines:
                if l.startswith("VIOLATION") and "replay=" in l:
                    rp = l.split("replay=")[1].split()[0]
                    try:
                        rep = json.load(open(rp))
                    except Exception:
                        pass
                    break
            meta["ran"].append({"check": "./check %s" % c, "exit": rc, "seconds": round(time.time() - t0), "lines": lines[:6],
                                "first_replay": (json.dumps(rep)[:1200] if rep else None)})
            print(c, "exit", rc, "VIOLATION lines:", sum(1 for l in lines if l.startswith("VIOLATION")))
            for l in lines[:3]:
                print("   ", l[:220])
            if rep:
                print("    replay:", json.dumps(rep.get("detail", rep))[:400])
    finally:
        sh("git -C /repo checkout -- .")
        rc, o = sh("git -C /repo status --short")
        if o.strip():
            print("WARNING /repo not clean after revert:", o)
    # 4. store
    os.makedirs(out, exist_ok=True)
    shutil.copyfile(patch, os.path.join(out, "patch.diff"))
    if a.r3:
        shutil.rmtree(os.path.join(out, "demo"), ignore_errors=True)
        shutil.copytree(os.path.join(a.r3, "demo"), os.path.join(out, "demo"))
        if os.path.exists(os.path.join(a.r3, "notes.md")):
            shutil.copyfile(os.path.join(a.r3, "notes.md"), os.path.join(out, "MUTATION.md"))
    if os.path.isdir(os.path.join(wt, "mutdemo")):
        shutil.rmtree(os.path.join(out, "demo"), ignore_errors=True)
        shutil.copytree(os.path.join(wt, "mutdemo"), os.path.join(out, "demo"))
    if os.path.exists(os.path.join(wt, "MUTATION.md")):
        shutil.copyfile(os.path.join(wt, "MUTATION.md"), os.path.join(out, "MUTATION.md"))
    meta["detected"] = any(r["exit"] != 0 for r in meta["ran"])
    json.dump(meta, open(os.path.join(out, "meta.json"), "w"), indent=1)
    print("stored in", out, "detected =", meta["detected"])
    return 0


if __name__ == "__main__":
    sys.exit(main())
