"""./check setup : build everything from files on disk (offline)."""
import os
from . import common


def run():
    common.log("setup: building Go harness against", common.REPO)
    common.build_harness()
    common.log("setup: building Coq development")
    out = common.build_coq()
    common.log(out[-2000:])
    common.log("setup: extracting the Coq models and building the OCaml driver")
    p = common.sh(["sh", os.path.join(common.VERIF, "ocaml", "build.sh")], timeout=1200, check=False)
    if p.returncode != 0:
        common.log(p.stdout[-3000:])
        return 1
    return 0
