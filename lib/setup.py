"""./check setup : build everything from files on disk (offline)."""
import os
from . import common


def run():
    common.log("setup: building Go harness against", common.REPO)
    common.build_harness()
    common.log("setup: building Coq development")
    out = common.build_coq()
    common.log(out[-2000:])
    return 0
