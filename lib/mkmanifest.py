#!/usr/bin/env python3
"""Regenerates /verif/MANIFEST.json from the table below (run by hand after editing)."""
import json
import os

VERIF = os.path.dirname(os.path.dirname(os.path.abspath(__file__)))

BASELINE_OFF = ("cd /repo && export GOFLAGS=-mod=mod GOPROXY=off && "
                "go build ./... && go test -json -vet=off -count=1 -timeout 25m ./...")

# id -> dict(category, text, note, technique, design_ref)   (claimed properties)
CLAIMED = {}
# id -> reason   (not claimed)
NOT_APPLICABLE = {}

ALL = ["C%02d" % i for i in range(1, 21)]


def claim(pid, category, text, note, technique, design_ref):
    CLAIMED[pid] = dict(category=category, text=text, note=note, technique=technique, design_ref=design_ref)


# ---------------------------------------------------------------------------
# filled in as the machinery for each property lands
exec(open(os.path.join(VERIF, "lib", "claims.py")).read())
# ---------------------------------------------------------------------------


LEAF_COMMON = ("Translator route: on every run `harness go2v` translates the current Go source of the leaf functions below into Gallina "
               "and the theorems of coq/leaf are re-checked against that translation (a failing theorem triggers LeafSearch.v, a kernel-evaluated "
               "search for an input on which the translated function differs from its specification): ")
LEAF = {
    "C01": LEAF_COMMON + "nfa.isWordByte / nfa.checkLookAssertion = Nfa.is_word_byte / Nfa.look_ok (the assertion semantics of the reference), never out of range.",
    "C14": LEAF_COMMON + "nfa.isWordByte, lazy.isWordByte = Nfa.is_word_byte on all bytes; nfa.checkLookAssertion = Nfa.look_ok for every kind, haystack, position.",
    "C18": LEAF_COMMON + "simd.isWordChar (the scalar definition MemchrWord / MemchrNotWord are compared with) = Nfa.is_word_byte on all bytes.",
    "C04": LEAF_COMMON + "meta.emptyMatchStep and regex.go's emptyMatchStep = FindAll.empty_match_step (the step loop_eq_std is stated with), never out of range.",
    "C08": LEAF_COMMON + "regex.go's emptyMatchStep (used by the Replace loops) = FindAll.empty_match_step, never out of range.",
    "C07": LEAF_COMMON + "nfa.runeWidth in 1..4 and within the slice, and the _safe predicates (no index / slice out of range) of the translated leaves.",
    "C15": LEAF_COMMON + "nfa.isASCIILetter / toUpperASCII / toLowerASCII (the ASCII case orbit used by compileFoldCaseRune).",
    "C19": LEAF_COMMON + "meta.lineStartBefore / meta.findLineStart return the start of the line (reverse-suffix searchers).",
}


def main():
    checks = []
    for pid in ALL:
        if pid not in CLAIMED:
            NOT_APPLICABLE.setdefault(pid, "machinery for this property is not built yet (work in progress; see DESIGN.md section 9)")
            continue
        c = dict(CLAIMED[pid])
        if pid in LEAF:
            c["text"] += " " + LEAF[pid]
            c["technique"] += " + leaf translator (go2v: Go source -> Gallina, theorems re-checked against the translation of the current source)"
        checks.append({
            "property_id": pid,
            "quick_cmd": "./check %s --tier quick" % pid,
            "thorough_cmd": "./check %s --tier thorough" % pid,
            "evidence_file": "/verif/evidence/%s.json" % pid,
            "replay_cmd_template": "./check %s --replay {path}" % pid,
            "engine": "coq-model+correspondence",
            "level_claimed": {"category": c["category"], "text": c["text"], "design_ref": c["design_ref"]},
            "level_note": c["note"],
            "technique": c["technique"],
        })
    m = {
        "version": 1,
        "setup_cmd": "./check setup",
        "hooks": {
            "guard": "verif",
            "enable": "go build -tags verif (the harness module /verif/go/harness replaces github.com/coregx/coregex by /repo)",
            "baseline_off_cmd": BASELINE_OFF,
            "source_commits": [l.split()[0] for l in open(os.path.join(VERIF, "MANIFEST.hooks")) if l.strip() and not l.startswith("#")] if os.path.exists(os.path.join(VERIF, "MANIFEST.hooks")) else [],
            "add_only": True,
        },
        "engines": [
            {"name": "coq-model+correspondence", "path": "/verif/coq, /verif/go/harness, /verif/lib",
             "serves_properties": sorted(CLAIMED.keys()),
             "kind_free_text": "Rocq/Coq 8.16 models and theorems; per-run regenerated obligations evaluated by the kernel (vm_compute); correspondence of the executable models with the Go implementation"},
        ],
        "checks": checks,
        "notes": "See DESIGN.md. Every check rebuilds the Go harness against /repo's working tree (-tags verif).",
        "not_applicable": [{"property_id": k, "reason": v} for k, v in sorted(NOT_APPLICABLE.items()) if k not in CLAIMED],
    }
    with open(os.path.join(VERIF, "MANIFEST.json"), "w") as f:
        json.dump(m, f, indent=1)
        f.write("\n")


if __name__ == "__main__":
    main()
