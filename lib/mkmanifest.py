#!/usr/bin/env python3
"""Regenerates /verif/MANIFEST.json from the table below (run by hand after editing)."""
import json
import os

VERIF = os.path.dirname(os.path.dirname(os.path.abspath(__file__)))

BASELINE_OFF = ("cd /repo && export GOFLAGS=-mod=mod GOPROXY=off && "
                "go build ./... && go test -json -vet=off -count=1 -timeout 25m ./...")

# id -> dict(category, text, note, technique, design_ref)   (claimed properties)
CLAIMED = {}
# id -> reason   (not claimed)
NOT_APPLICABLE = {}

ALL = ["C%02d" % i for i in range(1, 21)]


def claim(pid, category, text, note, technique, design_ref):
    CLAIMED[pid] = dict(category=category, text=text, note=note, technique=technique, design_ref=design_ref)


# ---------------------------------------------------------------------------
# filled in as the machinery for each property lands
exec(open(os.path.join(VERIF, "lib", "claims.py")).read())
# ---------------------------------------------------------------------------


def main():
    checks = []
    for pid in ALL:
        if pid not in CLAIMED:
            NOT_APPLICABLE.setdefault(pid, "machinery for this property is not built yet (work in progress; see DESIGN.md section 9)")
            continue
        c = CLAIMED[pid]
        checks.append({
            "property_id": pid,
            "quick_cmd": "./check %s --tier quick" % pid,
            "thorough_cmd": "./check %s --tier thorough" % pid,
            "evidence_file": "/verif/evidence/%s.json" % pid,
            "replay_cmd_template": "./check %s --replay {path}" % pid,
            "engine": "coq-model+correspondence",
            "level_claimed": {"category": c["category"], "text": c["text"], "design_ref": c["design_ref"]},
            "level_note": c["note"],
            "technique": c["technique"],
        })
    m = {
        "version": 1,
        "setup_cmd": "./check setup",
        "hooks": {
            "guard": "verif",
            "enable": "go build -tags verif (the harness module /verif/go/harness replaces github.com/coregx/coregex by /repo)",
            "baseline_off_cmd": BASELINE_OFF,
            "source_commits": [l.split()[0] for l in open(os.path.join(VERIF, "MANIFEST.hooks")) if l.strip() and not l.startswith("#")] if os.path.exists(os.path.join(VERIF, "MANIFEST.hooks")) else [],
            "add_only": True,
        },
        "engines": [
            {"name": "coq-model+correspondence", "path": "/verif/coq, /verif/go/harness, /verif/lib",
             "serves_properties": sorted(CLAIMED.keys()),
             "kind_free_text": "Rocq/Coq 8.16 models and theorems; per-run regenerated obligations evaluated by the kernel (vm_compute); correspondence of the executable models with the Go implementation"},
        ],
        "checks": checks,
        "notes": "See DESIGN.md. Every check rebuilds the Go harness against /repo's working tree (-tags verif).",
        "not_applicable": [{"property_id": k, "reason": v} for k, v in sorted(NOT_APPLICABLE.items()) if k not in CLAIMED],
    }
    with open(os.path.join(VERIF, "MANIFEST.json"), "w") as f:
        json.dump(m, f, indent=1)
        f.write("\n")


if __name__ == "__main__":
    main()
