#!/usr/bin/env python3
"""Validate MANIFEST.json and evidence/*.json against the schemas (uses the tooling venv)."""
import glob, json, sys
import jsonschema
ok = True
def v(path, schema):
    global ok
    try:
        jsonschema.validate(json.load(open(path)), json.load(open(schema)))
        print("ok  ", path)
    except Exception as e:
        ok = False
        print("FAIL", path, str(e)[:300])
v("/verif/MANIFEST.json", "/root/.vp/MANIFEST.schema.json")
for p in sorted(glob.glob("/verif/evidence/*.json")):
    v(p, "/root/.vp/EVIDENCE.schema.json")
sys.exit(0 if ok else 1)
