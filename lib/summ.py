#!/usr/bin/env python3
import json,collections,sys
st=json.load(open(sys.argv[1]))
print(st['property'], 'evals',st['evaluations'], 'nontriv',st['distinct_nontrivial'], 'viol',len(st['violations']), st.get('extra'))
c=collections.Counter(); ex={}
for v in st['violations']:
    k=(v['detail'].get('pattern'), v['kind'])
    c[k]+=1; ex.setdefault(k, v)
for (p,k),n in sorted(c.items(), key=lambda x:(str(x[0][0]),x[0][1])):
    v=ex[(p,k)]
    print("  %3d %-40s %-28r hay=%r want=%s got=%s strat=%s"%(n,k,p,v['detail'].get('haystack','')[:40],v.get('expected'),v.get('got'),v['detail'].get('strategy')))
print({k:v for k,v in st['histogram'].items() if k.startswith('strategy') or k.startswith('coregex') or k.startswith('src')})
for n in st.get('notes',[])[:10]: print('note:',n)
