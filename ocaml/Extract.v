(* Extraction of the executable models for the correspondence driver (ocaml/driver.ml).
   Directives: those of ExtrOcamlBasic (bool, option, unit, prod, list, sumbool, sumor ->
   OCaml's own types) and ExtrOcamlNatInt (nat -> OCaml int with its arithmetic; sound
   only while values stay below 2^62 — here: positions, state ids, fuel <= 10^8).
   N, Z, positive stay the extracted inductives.  A sample of every run's model answers
   is re-evaluated inside Coq with vm_compute (no extraction) as a cross-check. *)
From Coq Require Import Extraction ExtrOcamlBasic ExtrOcamlNatInt.
From CV Require Import Nfa.
Extraction Language OCaml.
Extraction "model.ml" find_at is_match_ref search_from wf_nfa caps_of fuel_for find_at_longest match_ends.
