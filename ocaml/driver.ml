(* Line-oriented runner for the extracted Coq models (model.ml).  Protocol (stdin):
     nfa <nstates> <start_anch> <start_unanch> <ncaps>      start a new NFA definition
     st M | st F | st B lo hi nx | st P k (lo hi nx)*k | st S l r | st E nx
        | st C idx isstart nx | st L look nx                  one per state, in order
     end                                                     NFA complete -> "ok wf=<bool>"
     find <at> <hex>        -> "none" | "fuel" | "m s e c0 c1 ..."   (caps incl. group 0)
     ismatch <hex>          -> "true" | "false" | "fuel"
     anch <s> <hex>         -> anchored search from position s: "none"|"fuel"|"m s e caps.."
     longest <at> <hex>     -> leftmost-longest span: "none"|"fuel"|"m s e"
     ends <s> <hex>         -> all match ends of anchored paths from s: "e e1 e2 ..."|"fuel"
   One answer line per query; flushed after each. *)
open Model

(* nat is extracted to OCaml int (ExtrOcamlNatInt) *)
let nat_of_int (n : int) : int = if n < 0 then 0 else n
let int_of_nat (n : int) : int = n
let rec pos_of_int n = if n <= 1 then XH else if n land 1 = 0 then XO (pos_of_int (n lsr 1)) else XI (pos_of_int (n lsr 1))
let n_of_int n = if n = 0 then N0 else Npos (pos_of_int n)
let rec int_of_pos = function XH -> 1 | XO p -> 2 * int_of_pos p | XI p -> 2 * int_of_pos p + 1
let int_of_z = function Z0 -> 0 | Zpos p -> int_of_pos p | Zneg p -> - (int_of_pos p)

let hex_to_hay s =
  let n = String.length s / 2 in
  List.init n (fun i -> n_of_int (int_of_string ("0x" ^ String.sub s (2 * i) 2)))

let look_of_int = function
  | 0 -> LStartText | 1 -> LEndText | 2 -> LStartLine | 3 -> LEndLine | 4 -> LWordB | _ -> LNoWordB

let cur : nfa option ref = ref None
let pending : nstate list ref = ref []
let hdr = ref (0, 0, 0, 0)

let split s = List.filter (fun x -> x <> "") (String.split_on_char ' ' s)
let ios = int_of_string

let show_match s e sl =
  let caps = caps_of s e sl in
  "m " ^ string_of_int (int_of_nat s) ^ " " ^ string_of_int (int_of_nat e) ^
  String.concat "" (List.map (fun z -> " " ^ string_of_int (int_of_z z)) caps)

let get_nfa () = match !cur with Some a -> a | None -> failwith "no nfa"

let handle line =
  match split line with
  | "nfa" :: n :: sa :: su :: nc :: _ -> hdr := (ios n, ios sa, ios su, ios nc); pending := []; None
  | "st" :: "M" :: _ -> pending := SMatch :: !pending; None
  | "st" :: "F" :: _ -> pending := SFail :: !pending; None
  | "st" :: "B" :: lo :: hi :: nx :: _ ->
      pending := SByteRange (n_of_int (ios lo), n_of_int (ios hi), nat_of_int (ios nx)) :: !pending; None
  | "st" :: "P" :: _k :: rest ->
      let rec go = function
        | lo :: hi :: nx :: t -> ((n_of_int (ios lo), n_of_int (ios hi)), nat_of_int (ios nx)) :: go t
        | _ -> [] in
      pending := SSparse (go rest) :: !pending; None
  | "st" :: "S" :: l :: r :: _ -> pending := SSplit (nat_of_int (ios l), nat_of_int (ios r)) :: !pending; None
  | "st" :: "E" :: nx :: _ -> pending := SEpsilon (nat_of_int (ios nx)) :: !pending; None
  | "st" :: "C" :: idx :: st :: nx :: _ ->
      pending := SCapture (nat_of_int (ios idx), (ios st <> 0), nat_of_int (ios nx)) :: !pending; None
  | "st" :: "L" :: lk :: nx :: _ -> pending := SLook (look_of_int (ios lk), nat_of_int (ios nx)) :: !pending; None
  | "end" :: _ ->
      let (_, sa, su, nc) = !hdr in
      let a = { states = List.rev !pending; start_anch = nat_of_int sa; start_unanch = nat_of_int su; ncaps = nat_of_int nc } in
      cur := Some a;
      Some ("ok wf=" ^ string_of_bool (wf_nfa a))
  | "find" :: at :: rest ->
      let h = hex_to_hay (match rest with x :: _ -> x | [] -> "") in
      (match find_at (get_nfa ()) h (nat_of_int (ios at)) with
       | OutOfFuel -> Some "fuel"
       | Done None -> Some "none"
       | Done (Some ((s, e), sl)) -> Some (show_match s e sl))
  | "ismatch" :: rest ->
      let h = hex_to_hay (match rest with x :: _ -> x | [] -> "") in
      (match is_match_ref (get_nfa ()) h with
       | OutOfFuel -> Some "fuel" | Done b -> Some (string_of_bool b))
  | "anch" :: s :: rest ->
      let h = hex_to_hay (match rest with x :: _ -> x | [] -> "") in
      let s' = nat_of_int (ios s) in
      (match search_from (get_nfa ()) h s' with
       | OutOfFuel -> Some "fuel"
       | Done None -> Some "none"
       | Done (Some (e, sl)) -> Some (show_match s' e sl))
  | "longest" :: at :: rest ->
      let h = hex_to_hay (match rest with x :: _ -> x | [] -> "") in
      (match find_at_longest (get_nfa ()) h (nat_of_int (ios at)) with
       | OutOfFuel -> Some "fuel"
       | Done None -> Some "none"
       | Done (Some (s, e)) -> Some ("m " ^ string_of_int (int_of_nat s) ^ " " ^ string_of_int (int_of_nat e)))
  | "ends" :: s :: rest ->
      let h = hex_to_hay (match rest with x :: _ -> x | [] -> "") in
      (match match_ends (get_nfa ()) h (nat_of_int (ios s)) with
       | OutOfFuel -> Some "fuel"
       | Done l -> Some ("e" ^ String.concat "" (List.map (fun e -> " " ^ string_of_int (int_of_nat e)) l)))
  | [] -> None
  | _ -> Some ("error unknown command: " ^ line)

let () =
  try
    while true do
      let line = input_line stdin in
      (match (try handle line with e -> Some ("error " ^ Printexc.to_string e)) with
       | Some out -> print_string out; print_newline ()
       | None -> ())
    done
  with End_of_file -> ()
