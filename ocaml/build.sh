#!/bin/sh
# Extract the Coq models and build the OCaml driver into /verif/.work/ocaml/driver
set -e
V=/verif
mkdir -p $V/.work/ocaml $V/.work/bin
cd $V/.work/ocaml
cp $V/ocaml/Extract.v $V/ocaml/driver.ml .
timeout 900 coqc -Q $V/coq CV Extract.v
ocamlfind ocamlopt -O3 -unboxed-types 2>/dev/null -package str -linkpkg model.mli model.ml driver.ml -o $V/.work/bin/driver 2>/dev/null || \
ocamlfind ocamlopt -w -a model.mli model.ml driver.ml -o $V/.work/bin/driver
