(* C12 — statements only.  Configuration validity is exactly the documented ranges; the
   prefilter candidate loops of the meta engine return the reference answer whenever the
   prefilter reports the minimal literal occurrence (C16), the literals are necessary (C17)
   and the engine run from a candidate answers like the reference (C14); whichever branch
   the configuration limits, CanHandle, the ASCII test, the DFA giving up or the CPU
   extensions select, the dispatcher model returns the reference answer, hence the same
   answer under every valid configuration.  (That the components satisfy these hypotheses
   for a given pattern and haystack is what the C14/C16/C17 checks and the configuration
   sweep of the correspondence run observe.) *)
From Coq Require Import List NArith ZArith.
From CV Require Import Nfa NfaRef Gate.
Import ListNotations.

(* ------------------------------------------------------------------ configuration leaf *)
Theorem C12_validate_spec :
  forall c : config,
  validate c = true <->
  ((enable_dfa c = true ->
      (1 <= max_dfa_states c <= 1000000)%N /\ (10 <= determinization_limit c <= 100000)%Z) /\
   (enable_prefilter c = true ->
      (1 <= min_literal_len c <= 64)%Z /\ (1 <= max_literals c <= 1000)%Z) /\
   (10 <= max_recursion_depth c <= 1000)%Z).
Proof. exact validate_spec. Qed.
Print Assumptions C12_validate_spec.

Theorem C12_default_valid : validate default_config = true.
Proof. exact default_valid. Qed.
Print Assumptions C12_default_valid.

Theorem C12_validate_err_first :
  forall c f, validate_err c = Some f ->
  match f with
  | FMaxDFAStates => enable_dfa c = true /\ ~ (1 <= max_dfa_states c <= 1000000)%N
  | FDeterminizationLimit => enable_dfa c = true /\ ~ (10 <= determinization_limit c <= 100000)%Z
  | FMinLiteralLen => enable_prefilter c = true /\ ~ (1 <= min_literal_len c <= 64)%Z
  | FMaxLiterals => enable_prefilter c = true /\ ~ (1 <= max_literals c <= 1000)%Z
  | FMaxRecursionDepth => ~ (10 <= max_recursion_depth c <= 1000)%Z
  end.
Proof. exact validate_err_first. Qed.
Print Assumptions C12_validate_err_first.

Theorem C12_lazy_validate_spec :
  forall c : lazy_config,
  lazy_validate c = true <->
  ~ (cache_capacity_bytes c = 0%Z /\ lz_max_states c = 0%N) /\
  (0 <= max_cache_clears c)%Z /\
  f_lt0 (cache_hit_threshold c) = false /\ f_gt1 (cache_hit_threshold c) = false /\
  (0 <= min_prefilter_len c)%Z /\ (0 < lz_determinization_limit c)%Z.
Proof. exact lazy_validate_spec. Qed.
Print Assumptions C12_lazy_validate_spec.

Theorem C12_lazy_default_valid : lazy_validate lazy_default_config = true.
Proof. exact lazy_default_valid. Qed.
Print Assumptions C12_lazy_default_valid.

Theorem C12_effective_capacity_pos : forall c, (0 < effective_capacity_bytes c)%Z.
Proof. exact effective_capacity_pos. Qed.
Print Assumptions C12_effective_capacity_pos.

Theorem C12_dfa_config_of_valid :
  forall c, validate c = true -> enable_dfa c = true -> lazy_validate (dfa_config_of c) = true.
Proof. exact dfa_config_of_valid. Qed.
Print Assumptions C12_dfa_config_of_valid.

Theorem C12_meta_max_dfa_states_ignored :
  forall c, effective_capacity_bytes (dfa_config_of c) = default_cache_capacity.
Proof. exact meta_max_dfa_states_ignored. Qed.
Print Assumptions C12_meta_max_dfa_states_ignored.

(* ------------------------------------------------------------------ candidate loops *)
Theorem C12_gate_sound :
  forall (hlen : nat) (mstart : nat -> bool) (mend : nat -> nat)
         (verify : nat -> option (nat * nat)) (pf_find : nat -> option nat) (cand : nat -> bool)
         (use_pf : bool) (at_ : nat),
  (use_pf = true ->
     (* literals are non-empty *)
     (forall c, cand c = true -> c < hlen) /\
     (* H1 (C16): Find returns the minimal candidate position >= its argument *)
     (forall a, a <= hlen ->
        match pf_find a with
        | Some c => a <= c /\ cand c = true /\ forall c', a <= c' < c -> cand c' = false
        | None => forall c', a <= c' -> cand c' = false
        end) /\
     (* H2 (C17): every match start is a candidate position *)
     (forall s, s <= hlen -> mstart s = true -> cand s = true)) ->
  (* C14: the engine run from c answers like the reference search from c *)
  (forall c, c <= hlen -> verify c = ref_find hlen mstart mend c) ->
  at_ <= hlen ->
  find_indices_nfa_at hlen verify pf_find use_pf at_ = Done (ref_find hlen mstart mend at_).
Proof. exact gate_sound. Qed.
Print Assumptions C12_gate_sound.

Theorem C12_span_loop_sound :
  forall hlen mstart mend verify pf_find cand,
  pf_H0 hlen cand -> pf_H1 hlen pf_find cand -> pf_H2 hlen mstart cand ->
  engine_ok hlen mstart mend verify ->
  forall fuel at_, hlen - at_ < fuel ->
  span_loop hlen verify pf_find fuel at_ = Done (ref_find hlen mstart mend at_).
Proof. exact span_loop_sound. Qed.
Print Assumptions C12_span_loop_sound.

Theorem C12_gate_bool_sound :
  forall hlen mstart mend verify pf_find cand (has_pf engine_is_match : bool),
  (has_pf = true -> pf_H0 hlen cand /\ pf_H1 hlen pf_find cand /\ pf_H2 hlen mstart cand) ->
  engine_ok hlen mstart mend verify ->
  engine_is_match = ref_is_match hlen mstart mend ->
  is_match_nfa hlen verify pf_find has_pf engine_is_match = Done (ref_is_match hlen mstart mend) /\
  (is_match_nfa hlen verify pf_find has_pf engine_is_match = Done true <->
   exists s, s <= hlen /\ mstart s = true).
Proof. exact gate_bool_sound. Qed.
Print Assumptions C12_gate_bool_sound.

Theorem C12_prefilter_on_off_agree :
  forall hlen mstart mend verify pf_find cand at_ (engine_is_match : bool),
  pf_H0 hlen cand -> pf_H1 hlen pf_find cand -> pf_H2 hlen mstart cand ->
  engine_ok hlen mstart mend verify ->
  engine_is_match = ref_is_match hlen mstart mend -> at_ <= hlen ->
  find_indices_nfa_at hlen verify pf_find true at_ = find_indices_nfa_at hlen verify pf_find false at_ /\
  is_match_nfa hlen verify pf_find true engine_is_match = is_match_nfa hlen verify pf_find false engine_is_match.
Proof. exact prefilter_on_off_agree. Qed.
Print Assumptions C12_prefilter_on_off_agree.

Theorem C12_complete_shortcut_sound :
  forall hlen mstart mend verify pf_find cand
         (has_pf pf_complete has_dfa dfa_matched cache_nearly_full engine_is_match : bool),
  (has_pf = true -> pf_H0 hlen cand /\ pf_H1 hlen pf_find cand /\ pf_H2 hlen mstart cand) ->
  (has_pf = true -> pf_complete = true -> forall c, cand c = true -> mstart c = true) ->
  engine_ok hlen mstart mend verify ->
  engine_is_match = ref_is_match hlen mstart mend ->
  (has_dfa = true ->
     (dfa_matched = true -> ref_is_match hlen mstart mend = true) /\
     (dfa_matched = false -> cache_nearly_full = false -> ref_is_match hlen mstart mend = false)) ->
  is_match_adaptive hlen verify pf_find has_pf pf_complete has_dfa dfa_matched cache_nearly_full engine_is_match
  = Done (ref_is_match hlen mstart mend).
Proof. exact complete_shortcut_sound. Qed.
Print Assumptions C12_complete_shortcut_sound.

Theorem C12_complete_span_sound :
  forall hlen mstart mend pf_find cand lit_len pike_search,
  pf_H0 hlen cand -> pf_H1 hlen pf_find cand -> pf_H2 hlen mstart cand ->
  (0 < lit_len -> forall c, cand c = true -> mstart c = true /\ mend c = c + lit_len) ->
  (lit_len = 0 -> pike_search = ref_find hlen mstart mend 0) ->
  find_indices_dfa_complete pf_find lit_len pike_search = ref_find hlen mstart mend 0.
Proof. exact complete_span_sound. Qed.
Print Assumptions C12_complete_span_sound.

Theorem C12_ref_is_match_spec :
  forall hlen mstart mend,
  ref_is_match hlen mstart mend = true <-> exists s, s <= hlen /\ mstart s = true.
Proof. exact ref_is_match_spec. Qed.
Print Assumptions C12_ref_is_match_spec.

Theorem C12_scan_prefilter_satisfies_H1 :
  forall hlen cand, pf_H0 hlen cand -> pf_H1 hlen (scan_find hlen cand) cand.
Proof. exact scan_find_H1. Qed.
Print Assumptions C12_scan_prefilter_satisfies_H1.

Theorem C12_gate_unsound_without_H2_refuted :
  exists hlen mstart mend cand pf,
    let verify := ref_find hlen mstart mend in
    pf_H0 hlen cand /\ pf_H1 hlen pf cand /\ engine_ok hlen mstart mend verify /\
    ~ pf_H2 hlen mstart cand /\
    ref_find hlen mstart mend 0 = Some (0, 1) /\
    find_indices_nfa_at hlen verify pf true 0 = Done None /\
    is_match_nfa hlen verify pf true true = Done false.
Proof. exact gate_unsound_without_H2_refuted. Qed.
Print Assumptions C12_gate_unsound_without_H2_refuted.

(* ------------------------------------------------------------------ dispatcher *)
Theorem C12_limits_only_select_branch :
  forall hlen mstart mend ft engine_pike engine_bt engine_ascii_bt engine_bidir engine_dfa engine_special
         bt_built ascii_applicable bidir_built pf_built partial_cov nstates_of ascii_nstates_of
         max_visited is_ascii pf_find cand (s : strategy) (c : config) (cpu : bool) (at_ : nat),
  engines_ok hlen mstart mend engine_pike engine_bt engine_ascii_bt engine_bidir engine_dfa engine_special is_ascii ->
  prefilters_ok hlen mstart pf_built partial_cov pf_find cand ->
  validate c = true -> at_ <= hlen ->
  run hlen ft engine_pike engine_bt engine_ascii_bt engine_bidir engine_dfa engine_special
      bt_built ascii_applicable bidir_built pf_built partial_cov nstates_of ascii_nstates_of
      max_visited is_ascii pf_find s c cpu at_
  = Done (ref_find hlen mstart mend at_).
Proof. exact limits_only_select_branch. Qed.
Print Assumptions C12_limits_only_select_branch.

Theorem C12_config_irrelevant_model :
  forall hlen mstart mend ft reverse_strategy good_literals teddy_literals literal_strategy all_complete
         dfa_compile_ok engine_pike engine_bt engine_ascii_bt engine_bidir engine_dfa engine_special
         bt_built ascii_applicable bidir_built pf_built partial_cov nstates_of ascii_nstates_of
         max_visited is_ascii pf_find cand (c1 c2 : config) (cpu1 cpu2 : bool) (at_ : nat),
  engines_ok hlen mstart mend engine_pike engine_bt engine_ascii_bt engine_bidir engine_dfa engine_special is_ascii ->
  prefilters_ok hlen mstart pf_built partial_cov pf_find cand ->
  validate c1 = true -> validate c2 = true -> at_ <= hlen ->
  let meta := meta_find hlen ft reverse_strategy good_literals teddy_literals literal_strategy all_complete
                dfa_compile_ok engine_pike engine_bt engine_ascii_bt engine_bidir engine_dfa engine_special
                bt_built ascii_applicable bidir_built pf_built partial_cov nstates_of ascii_nstates_of
                max_visited is_ascii pf_find in
  meta c1 cpu1 at_ = meta c2 cpu2 at_ /\ meta c1 cpu1 at_ = Done (ref_find hlen mstart mend at_).
Proof. exact config_irrelevant_model. Qed.
Print Assumptions C12_config_irrelevant_model.

(* ------------------------------------------------------------------ against the plain NFA simulation *)
Theorem C12_ref_find_is_find_at :
  forall A h, wf_nfa A = true -> forall at_,
  span_of' (find_at A h at_) = Done (ref_find (length h) (nfa_mstart A h) (nfa_mend A h) at_).
Proof. exact ref_find_is_find_at. Qed.
Print Assumptions C12_ref_find_is_find_at.

Theorem C12_gate_sound_nfa :
  forall A h, wf_nfa A = true ->
  forall (verify : nat -> option (nat * nat)) (pf : nat -> option nat) (cand : nat -> bool) use_pf at_,
  (use_pf = true ->
     pf_H0 (length h) cand /\ pf_H1 (length h) pf cand /\
     (forall s, s <= length h -> (exists e, nfa_path A h (start_anch A) s e) -> cand s = true)) ->
  (forall c, c <= length h -> Done (verify c) = span_of' (find_at A h c)) ->
  at_ <= length h ->
  find_indices_nfa_at (length h) verify pf use_pf at_ = span_of' (find_at A h at_).
Proof. exact gate_sound_nfa. Qed.
Print Assumptions C12_gate_sound_nfa.
