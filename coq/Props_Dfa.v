(* Props_Dfa.v — the lazy DFA (dfa/lazy): statements only.
   Model: Dfa.v (current code; the variant flags of dconfig select the ORIGINAL variants of the
   functions repaired by 33a0339, fd804d1, bde2710, ce6ce59, edee2be).  Cache transparency (C13):
   DfaCache.v.  Pure layer = reference (C01/C02/C14): DfaRef.v.  End to end: DfaTop.v.
   Every theorem below is closed under the global context. *)
From Coq Require Import List NArith ZArith Bool Arith.
From CV Require Import Nfa NfaRef Dfa DfaRef DfaCache DfaTop.
Import ListNotations.

Theorem Dfa_cinv_new :
  forall (A : nfa) (cfg : dconfig), cinv A cfg new_cache.
Proof. exact cinv_new. Qed.
Print Assumptions Dfa_cinv_new.

Theorem Dfa_accel_sound_new :
  forall (A : nfa) (cfg : dconfig), accel_sound A cfg new_cache.
Proof. exact accel_sound_new. Qed.
Print Assumptions Dfa_accel_sound_new.

Theorem Dfa_dz_spec :
  forall (A : nfa) (cfg : dconfig),
  has_wb A = false ->
  (forall (ids : list nat) (b b' : N),
  class_of cfg b = class_of cfg b' -> cdet A cfg ids b = cdet A cfg ids b') ->
  cfg_sorted_key cfg = false ->
  forall (c : cache) (cur : nat) (b : N) (cs : cstate) (c' : cache) (z : zres),
  cinv A cfg c ->
  slot c cur = Some cs ->
  dz A cfg c cur b = (c', z) -> cinv A cfg c' /\ z_ok A cfg c' (d_ids (cs_d cs)) b z.
Proof. exact dz_spec. Qed.
Print Assumptions Dfa_dz_spec.

Theorem Dfa_dz_asound :
  forall (A : nfa) (cfg : dconfig) (c : cache) (cur : nat) (b : N) (c' : cache) (z : zres),
  accel_sound A cfg c -> dz A cfg c cur b = (c', z) -> accel_sound A cfg c'.
Proof. exact dz_asound. Qed.
Print Assumptions Dfa_dz_asound.

Theorem Dfa_get_start_spec :
  forall (A : nfa) (cfg : dconfig),
  has_wb A = false ->
  cfg_sorted_key cfg = false ->
  cfg_old_entry cfg = false ->
  forall (c : cache) (k : skind) (anch : bool) (c' : cache) (o : option tid),
  cinv A cfg c ->
  get_start_k A cfg c k anch = (c', o) ->
  cinv A cfg c' /\ (forall t : tid, o = Some t -> rep c' t (d_ids (pstart A k anch))).
Proof. exact get_start_spec. Qed.
Print Assumptions Dfa_get_start_spec.

Theorem Dfa_detect_sound_spec :
  forall (A : nfa) (cfg : dconfig),
  has_wb A = false ->
  (forall (ids : list nat) (b b' : N),
  class_of cfg b = class_of cfg b' -> cdet A cfg ids b = cdet A cfg ids b') ->
  cfg_sorted_key cfg = false ->
  cfg_old_entry cfg = false ->
  cfg_loose_accel cfg = false ->
  cfg_accel_no_eoi cfg = false ->
  has_endline A = false ->
  runs_ok 0 (cfg_classes cfg) (stride cfg) = true ->
  forall (c : cache) (i : nat) (s : cstate),
  cinv A cfg c ->
  slot c i = Some s ->
  detect_accel_sound cfg c i <> [] ->
  forall b : N,
  (b <= 255)%N ->
  existsb (N.eqb b) (detect_accel_sound cfg c i) = false ->
  cdet A cfg (d_ids (cs_d s)) b = CNext (d_ids (cs_d s)) (d_match (cs_d s)).
Proof. exact detect_sound_spec. Qed.
Print Assumptions Dfa_detect_sound_spec.

Theorem Dfa_run_calls_inv :
  forall (A : nfa) (cfg : dconfig),
  has_wb A = false ->
  (forall (ids : list nat) (b b' : N),
  class_of cfg b = class_of cfg b' -> cdet A cfg ids b = cdet A cfg ids b') ->
  cfg_sorted_key cfg = false ->
  cfg_old_entry cfg = false ->
  cfg_loose_accel cfg = false ->
  cfg_accel_no_eoi cfg = false ->
  has_endline A = false ->
  runs_ok 0 (cfg_classes cfg) (stride cfg) = true ->
  (contains_match A (d_ids (pstart A KText false)) = true -> ref_bool A [] 0 = true) ->
  forall (ks : list call) (c : cache),
  Forall fwd_call ks ->
  cinv A cfg c ->
  accel_sound A cfg c -> cinv A cfg (run_calls A cfg c ks) /\ accel_sound A cfg (run_calls A cfg c ks).
Proof. exact run_calls_inv. Qed.
Print Assumptions Dfa_run_calls_inv.

Theorem Dfa_c_search_anchored_eq_pure :
  forall (A : nfa) (cfg : dconfig),
  has_wb A = false ->
  (forall (ids : list nat) (b b' : N),
  class_of cfg b = class_of cfg b' -> cdet A cfg ids b = cdet A cfg ids b') ->
  cfg_sorted_key cfg = false ->
  cfg_old_entry cfg = false ->
  (contains_match A (d_ids (pstart A KText false)) = true -> ref_bool A [] 0 = true) ->
  forall (h : hay) (c : cache) (at_ : nat) (c' : cache) (o : out (option nat)),
  cinv A cfg c ->
  c_search_anchored A cfg h c at_ = (c', o) ->
  cinv A cfg c' /\ (o = RFallback \/ o = p_search_anchored A cfg h at_).
Proof. exact c_search_anchored_eq_pure. Qed.
Print Assumptions Dfa_c_search_anchored_eq_pure.

Theorem Dfa_c_search_first_eq_pure :
  forall (A : nfa) (cfg : dconfig),
  has_wb A = false ->
  (forall (ids : list nat) (b b' : N),
  class_of cfg b = class_of cfg b' -> cdet A cfg ids b = cdet A cfg ids b') ->
  cfg_sorted_key cfg = false ->
  cfg_old_entry cfg = false ->
  (contains_match A (d_ids (pstart A KText false)) = true -> ref_bool A [] 0 = true) ->
  forall (h : hay) (c : cache) (at_ : nat) (c' : cache) (o : out (option nat)),
  cinv A cfg c ->
  c_search_first A cfg h c at_ = (c', o) ->
  cinv A cfg c' /\ (o = RFallback \/ o = p_search_first A cfg h at_).
Proof. exact c_search_first_eq_pure. Qed.
Print Assumptions Dfa_c_search_first_eq_pure.

Theorem Dfa_c_search_at_eq_pure :
  forall (A : nfa) (cfg : dconfig),
  has_wb A = false ->
  (forall (ids : list nat) (b b' : N),
  class_of cfg b = class_of cfg b' -> cdet A cfg ids b = cdet A cfg ids b') ->
  cfg_sorted_key cfg = false ->
  cfg_old_entry cfg = false ->
  cfg_loose_accel cfg = false ->
  cfg_accel_no_eoi cfg = false ->
  has_endline A = false ->
  runs_ok 0 (cfg_classes cfg) (stride cfg) = true ->
  (contains_match A (d_ids (pstart A KText false)) = true -> ref_bool A [] 0 = true) ->
  forall (h : hay) (c : cache) (at_ : nat) (c' : cache) (o : out (option nat)),
  bytes255 h ->
  cinv A cfg c ->
  accel_sound A cfg c ->
  c_search_at A cfg h c at_ = (c', o) ->
  cinv A cfg c' /\ accel_sound A cfg c' /\ (o = RFallback \/ o = p_search_at A cfg h at_).
Proof. exact c_search_at_eq_pure. Qed.
Print Assumptions Dfa_c_search_at_eq_pure.

Theorem Dfa_c_is_match_at_eq_pure :
  forall (A : nfa) (cfg : dconfig),
  has_wb A = false ->
  (forall (ids : list nat) (b b' : N),
  class_of cfg b = class_of cfg b' -> cdet A cfg ids b = cdet A cfg ids b') ->
  cfg_sorted_key cfg = false ->
  cfg_old_entry cfg = false ->
  cfg_loose_accel cfg = false ->
  cfg_accel_no_eoi cfg = false ->
  has_endline A = false ->
  runs_ok 0 (cfg_classes cfg) (stride cfg) = true ->
  (contains_match A (d_ids (pstart A KText false)) = true -> ref_bool A [] 0 = true) ->
  forall (h : hay) (c : cache) (at_ : nat) (c' : cache) (o : out bool),
  bytes255 h ->
  cinv A cfg c ->
  accel_sound A cfg c ->
  c_is_match_at A cfg h c at_ = (c', o) ->
  cinv A cfg c' /\ accel_sound A cfg c' /\ (o = RFallback \/ o = p_is_match_at A cfg h at_).
Proof. exact c_is_match_at_eq_pure. Qed.
Print Assumptions Dfa_c_is_match_at_eq_pure.

Theorem Dfa_dfa_search_cached_eq_pure :
  forall (A : nfa) (cfg : dconfig),
  has_wb A = false ->
  (forall (ids : list nat) (b b' : N),
  class_of cfg b = class_of cfg b' -> cdet A cfg ids b = cdet A cfg ids b') ->
  cfg_sorted_key cfg = false ->
  cfg_old_entry cfg = false ->
  cfg_loose_accel cfg = false ->
  cfg_accel_no_eoi cfg = false ->
  has_endline A = false ->
  runs_ok 0 (cfg_classes cfg) (stride cfg) = true ->
  (contains_match A (d_ids (pstart A KText false)) = true -> ref_bool A [] 0 = true) ->
  forall (ks : list call) (h : hay) (at_ : nat),
  Forall fwd_call ks ->
  bytes255 h ->
  let c := run_calls A cfg new_cache ks in
  snd (dfa_search_at A cfg c h at_) = fin_end A h at_ (p_search_at A cfg h at_) \/
  snd (dfa_search_at A cfg c h at_) = ref_end A h at_.
Proof. exact dfa_search_cached_eq_pure. Qed.
Print Assumptions Dfa_dfa_search_cached_eq_pure.

Theorem Dfa_dfa_is_match_cached_eq_pure :
  forall (A : nfa) (cfg : dconfig),
  has_wb A = false ->
  (forall (ids : list nat) (b b' : N),
  class_of cfg b = class_of cfg b' -> cdet A cfg ids b = cdet A cfg ids b') ->
  cfg_sorted_key cfg = false ->
  cfg_old_entry cfg = false ->
  cfg_loose_accel cfg = false ->
  cfg_accel_no_eoi cfg = false ->
  has_endline A = false ->
  runs_ok 0 (cfg_classes cfg) (stride cfg) = true ->
  (contains_match A (d_ids (pstart A KText false)) = true -> ref_bool A [] 0 = true) ->
  forall (ks : list call) (h : hay) (at_ : nat),
  Forall fwd_call ks ->
  bytes255 h ->
  let c := run_calls A cfg new_cache ks in
  snd (dfa_is_match_at A cfg c h at_) = fin_bool A h at_ (p_is_match_at A cfg h at_) \/
  snd (dfa_is_match_at A cfg c h at_) = ref_bool A h at_.
Proof. exact dfa_is_match_cached_eq_pure. Qed.
Print Assumptions Dfa_dfa_is_match_cached_eq_pure.

Theorem Dfa_dfa_search_history_independent :
  forall (A : nfa) (cfg : dconfig),
  has_wb A = false ->
  (forall (ids : list nat) (b b' : N),
  class_of cfg b = class_of cfg b' -> cdet A cfg ids b = cdet A cfg ids b') ->
  cfg_sorted_key cfg = false ->
  cfg_old_entry cfg = false ->
  cfg_loose_accel cfg = false ->
  cfg_accel_no_eoi cfg = false ->
  has_endline A = false ->
  runs_ok 0 (cfg_classes cfg) (stride cfg) = true ->
  (contains_match A (d_ids (pstart A KText false)) = true -> ref_bool A [] 0 = true) ->
  forall (ks1 ks2 : list call) (h : hay) (at_ : nat) (c1' c2' : cache) (r1 r2 : option nat),
  Forall fwd_call ks1 ->
  Forall fwd_call ks2 ->
  bytes255 h ->
  c_search_at A cfg h (run_calls A cfg new_cache ks1) at_ = (c1', RDfa r1) ->
  c_search_at A cfg h (run_calls A cfg new_cache ks2) at_ = (c2', RDfa r2) -> r1 = r2.
Proof. exact dfa_search_history_independent. Qed.
Print Assumptions Dfa_dfa_search_history_independent.

Theorem Dfa_dfa_anchored_history_independent :
  forall (A : nfa) (cfg : dconfig),
  has_wb A = false ->
  (forall (ids : list nat) (b b' : N),
  class_of cfg b = class_of cfg b' -> cdet A cfg ids b = cdet A cfg ids b') ->
  cfg_sorted_key cfg = false ->
  cfg_old_entry cfg = false ->
  (contains_match A (d_ids (pstart A KText false)) = true -> ref_bool A [] 0 = true) ->
  forall (h : hay) (at_ : nat) (c1 c2 c1' c2' : cache) (r1 r2 : option nat),
  cinv A cfg c1 ->
  cinv A cfg c2 ->
  c_search_anchored A cfg h c1 at_ = (c1', RDfa r1) ->
  c_search_anchored A cfg h c2 at_ = (c2', RDfa r2) -> r1 = r2.
Proof. exact dfa_anchored_history_independent. Qed.
Print Assumptions Dfa_dfa_anchored_history_independent.

Theorem Dfa_c_search_at_eq_pure_accel_ok :
  forall (A : nfa) (cfg : dconfig),
  has_wb A = false ->
  (forall (ids : list nat) (b b' : N),
  class_of cfg b = class_of cfg b' -> cdet A cfg ids b = cdet A cfg ids b') ->
  cfg_sorted_key cfg = false ->
  cfg_old_entry cfg = false ->
  2 <= stride cfg ->
  cfg_loose_accel cfg = false ->
  cfg_accel_no_eoi cfg = false ->
  has_endline A = false ->
  runs_ok 0 (cfg_classes cfg) (stride cfg) = true ->
  (contains_match A (d_ids (pstart A KText false)) = true -> ref_bool A [] 0 = true) ->
  forall (h : hay) (c : cache) (at_ : nat) (c' : cache) (o : out (option nat)),
  cinv A cfg c ->
  accel_ok c ->
  c_search_at A cfg h c at_ = (c', o) ->
  cinv A cfg c' /\ accel_ok c' /\ (o = RFallback \/ o = p_search_at A cfg h at_).
Proof. exact c_search_at_eq_pure_accel_ok. Qed.
Print Assumptions Dfa_c_search_at_eq_pure_accel_ok.

Theorem Dfa_c_is_match_at_eq_pure_accel_ok :
  forall (A : nfa) (cfg : dconfig),
  has_wb A = false ->
  (forall (ids : list nat) (b b' : N),
  class_of cfg b = class_of cfg b' -> cdet A cfg ids b = cdet A cfg ids b') ->
  cfg_sorted_key cfg = false ->
  cfg_old_entry cfg = false ->
  2 <= stride cfg ->
  cfg_loose_accel cfg = false ->
  cfg_accel_no_eoi cfg = false ->
  has_endline A = false ->
  runs_ok 0 (cfg_classes cfg) (stride cfg) = true ->
  (contains_match A (d_ids (pstart A KText false)) = true -> ref_bool A [] 0 = true) ->
  forall (h : hay) (c : cache) (at_ : nat) (c' : cache) (o : out bool),
  cinv A cfg c ->
  accel_ok c ->
  c_is_match_at A cfg h c at_ = (c', o) ->
  cinv A cfg c' /\ accel_ok c' /\ (o = RFallback \/ o = p_is_match_at A cfg h at_).
Proof. exact c_is_match_at_eq_pure_accel_ok. Qed.
Print Assumptions Dfa_c_is_match_at_eq_pure_accel_ok.

Theorem Dfa_p_search_at_cap_irrel :
  forall (A : nfa) (cap1 mc1 cap2 mc2 dl : nat) (br : bool) (st : nat) (cl : list (N * nat))
  (k1 k2 k3 k4 : bool) (h : hay) (at_ : nat),
  p_search_at A
  {|
  cfg_cap := cap1;
  cfg_max_clears := mc1;
  cfg_det_limit := dl;
  cfg_break := br;
  cfg_stride := st;
  cfg_classes := cl;
  cfg_sorted_key := k1;
  cfg_loose_accel := k2;
  cfg_old_entry := k3;
  cfg_accel_no_eoi := k4
  |} h at_ =
  p_search_at A
  {|
  cfg_cap := cap2;
  cfg_max_clears := mc2;
  cfg_det_limit := dl;
  cfg_break := br;
  cfg_stride := st;
  cfg_classes := cl;
  cfg_sorted_key := k1;
  cfg_loose_accel := k2;
  cfg_old_entry := k3;
  cfg_accel_no_eoi := k4
  |} h at_.
Proof. exact p_search_at_cap_irrel. Qed.
Print Assumptions Dfa_p_search_at_cap_irrel.

Theorem Dfa_p_search_anchored_cap_irrel :
  forall (A : nfa) (cap1 mc1 cap2 mc2 dl : nat) (br : bool) (st : nat) (cl : list (N * nat))
  (k1 k2 k3 k4 : bool) (h : hay) (at_ : nat),
  p_search_anchored A
  {|
  cfg_cap := cap1;
  cfg_max_clears := mc1;
  cfg_det_limit := dl;
  cfg_break := br;
  cfg_stride := st;
  cfg_classes := cl;
  cfg_sorted_key := k1;
  cfg_loose_accel := k2;
  cfg_old_entry := k3;
  cfg_accel_no_eoi := k4
  |} h at_ =
  p_search_anchored A
  {|
  cfg_cap := cap2;
  cfg_max_clears := mc2;
  cfg_det_limit := dl;
  cfg_break := br;
  cfg_stride := st;
  cfg_classes := cl;
  cfg_sorted_key := k1;
  cfg_loose_accel := k2;
  cfg_old_entry := k3;
  cfg_accel_no_eoi := k4
  |} h at_.
Proof. exact p_search_anchored_cap_irrel. Qed.
Print Assumptions Dfa_p_search_anchored_cap_irrel.

Theorem Dfa_p_search_first_cap_irrel :
  forall (A : nfa) (cap1 mc1 cap2 mc2 dl : nat) (br : bool) (st : nat) (cl : list (N * nat))
  (k1 k2 k3 k4 : bool) (h : hay) (at_ : nat),
  p_search_first A
  {|
  cfg_cap := cap1;
  cfg_max_clears := mc1;
  cfg_det_limit := dl;
  cfg_break := br;
  cfg_stride := st;
  cfg_classes := cl;
  cfg_sorted_key := k1;
  cfg_loose_accel := k2;
  cfg_old_entry := k3;
  cfg_accel_no_eoi := k4
  |} h at_ =
  p_search_first A
  {|
  cfg_cap := cap2;
  cfg_max_clears := mc2;
  cfg_det_limit := dl;
  cfg_break := br;
  cfg_stride := st;
  cfg_classes := cl;
  cfg_sorted_key := k1;
  cfg_loose_accel := k2;
  cfg_old_entry := k3;
  cfg_accel_no_eoi := k4
  |} h at_.
Proof. exact p_search_first_cap_irrel. Qed.
Print Assumptions Dfa_p_search_first_cap_irrel.

Theorem Dfa_p_is_match_at_cap_irrel :
  forall (A : nfa) (cap1 mc1 cap2 mc2 dl : nat) (br : bool) (st : nat) (cl : list (N * nat))
  (k1 k2 k3 k4 : bool) (h : hay) (at_ : nat),
  p_is_match_at A
  {|
  cfg_cap := cap1;
  cfg_max_clears := mc1;
  cfg_det_limit := dl;
  cfg_break := br;
  cfg_stride := st;
  cfg_classes := cl;
  cfg_sorted_key := k1;
  cfg_loose_accel := k2;
  cfg_old_entry := k3;
  cfg_accel_no_eoi := k4
  |} h at_ =
  p_is_match_at A
  {|
  cfg_cap := cap2;
  cfg_max_clears := mc2;
  cfg_det_limit := dl;
  cfg_break := br;
  cfg_stride := st;
  cfg_classes := cl;
  cfg_sorted_key := k1;
  cfg_loose_accel := k2;
  cfg_old_entry := k3;
  cfg_accel_no_eoi := k4
  |} h at_.
Proof. exact p_is_match_at_cap_irrel. Qed.
Print Assumptions Dfa_p_is_match_at_cap_irrel.

Theorem Dfa_search_first_is_earliest_refuted :
  exists (A : nfa) (cfg : dconfig) (h : hay),
  p_search_first A cfg h 0 = RDfa (Some 1) /\
  ref_end A h 0 = Some 2 /\ p_search_at A cfg h 0 = RDfa (Some 2).
Proof. exact search_first_is_earliest_refuted. Qed.
Print Assumptions Dfa_search_first_is_earliest_refuted.

Theorem Dfa_key_collapse_original_refuted :
  exists (A : nfa) (cfg : dconfig) (h0 h : hay),
  cfg_sorted_key cfg = true /\
  snd (dfa_search_at A cfg new_cache h 0) = Some 2 /\
  ref_end A h 0 = Some 2 /\
  snd (dfa_search_at A cfg (fst (dfa_search_at A cfg new_cache h0 0)) h 0) = Some 3.
Proof. exact key_collapse_original_refuted. Qed.
Print Assumptions Dfa_key_collapse_original_refuted.

Theorem Dfa_key_collapse_current_ok :
  let A := ex_dotdot in
  let cfg := ex_dotdot_cfg false in
  snd
  (dfa_search_at A cfg (fst (dfa_search_at A cfg new_cache [226%N; 130%N; 172%N] 0))
  [45%N; 45%N; 97%N] 0) = Some 2.
Proof. exact key_collapse_current_ok. Qed.
Print Assumptions Dfa_key_collapse_current_ok.

Theorem Dfa_accel_history_original_refuted :
  exists (A : nfa) (cfg : dconfig) (hist : list call) (h : hay),
  cfg_loose_accel cfg = true /\
  (let aged := run_calls A cfg new_cache hist in
  snd (dfa_search_at A cfg new_cache h 0) = None /\
  ref_end A h 0 = None /\
  snd (dfa_search_at A cfg aged h 0) = Some 3 /\
  snd (dfa_is_match_at A cfg new_cache h 0) = false /\ snd (dfa_is_match_at A cfg aged h 0) = true).
Proof. exact accel_history_original_refuted. Qed.
Print Assumptions Dfa_accel_history_original_refuted.

Theorem Dfa_accel_history_current_ok :
  let A := ex_abcd in
  let cfg := ex_abcd_cfg false in
  let h := [97%N; 120%N; 100%N] in
  let aged := run_calls A cfg new_cache ex_abcd_hist in
  snd (dfa_search_at A cfg aged h 0) = None /\ snd (dfa_is_match_at A cfg aged h 0) = false.
Proof. exact accel_history_current_ok. Qed.
Print Assumptions Dfa_accel_history_current_ok.

Theorem Dfa_accel_eoi_original_refuted :
  exists (A : nfa) (cfg : dconfig) (hist : list call) (h : hay),
  cfg_sorted_key cfg = false /\
  cfg_loose_accel cfg = false /\
  cfg_old_entry cfg = false /\
  cfg_accel_no_eoi cfg = true /\
  (let aged := run_calls A cfg new_cache hist in
  snd (dfa_search_at A cfg new_cache h 0) = Some 2 /\
  ref_end A h 0 = Some 2 /\
  snd (dfa_search_at A cfg aged h 0) = None /\
  snd (dfa_is_match_at A cfg new_cache h 0) = true /\ snd (dfa_is_match_at A cfg aged h 0) = false).
Proof. exact accel_eoi_original_refuted. Qed.
Print Assumptions Dfa_accel_eoi_original_refuted.

Theorem Dfa_accel_eoi_current_ok :
  let A := ex_x_or_end in
  let cfg := ex_x_or_end_cfg false in
  let h := [97%N; 98%N] in
  let aged := run_calls A cfg new_cache ex_x_or_end_hist in
  snd (dfa_search_at A cfg aged h 0) = Some 2 /\
  snd (dfa_is_match_at A cfg aged h 0) = true /\
  existsb
  (fun o : option cstate =>
  match o with
  | Some s => match cs_accel s with
  | Some (_ :: _) => true
  | _ => false
  end
  | None => false
  end) (c_slots (fst (dfa_search_at A cfg aged h 0))) = true.
Proof. exact accel_eoi_current_ok. Qed.
Print Assumptions Dfa_accel_eoi_current_ok.

Theorem Dfa_anchored_fallback_original_refuted :
  exists (A : nfa) (cfg : dconfig) (h : hay),
  cfg_old_entry cfg = true /\
  snd (dfa_search_anchored A cfg new_cache h 0) = Some 3 /\
  ref_anch_end A h 0 = None /\ p_search_anchored A cfg h 0 = RDfa None.
Proof. exact anchored_fallback_original_refuted. Qed.
Print Assumptions Dfa_anchored_fallback_original_refuted.

Theorem Dfa_anchored_fallback_current_ok :
  snd (dfa_search_anchored ex_ab (ex_ab_cfg false) new_cache [97%N; 97%N; 98%N] 0) = None.
Proof. exact anchored_fallback_current_ok. Qed.
Print Assumptions Dfa_anchored_fallback_current_ok.

Theorem Dfa_at_len_context_original_refuted :
  exists (A : nfa) (cfg : dconfig) (h : hay) (at_ : nat),
  cfg_old_entry cfg = true /\
  snd (dfa_search_at A cfg new_cache h at_) = Some 1 /\
  ref_end A h at_ = None /\ p_search_at A cfg h at_ = RDfa (Some 1).
Proof. exact at_len_context_original_refuted. Qed.
Print Assumptions Dfa_at_len_context_original_refuted.

Theorem Dfa_at_len_context_current_ok :
  snd (dfa_search_at ex_empty_line (ex_empty_line_cfg false) new_cache [0%N] 1) = None.
Proof. exact at_len_context_current_ok. Qed.
Print Assumptions Dfa_at_len_context_current_ok.

Theorem Dfa_p_is_match_correct :
  forall (A : nfa) (cfg : dconfig) (h : hay) (at_ : nat) (r : bool),
  wf_nfa A = true ->
  no_look A = true ->
  prefix_ok A = true ->
  bytes_ok h -> at_ <= length h -> p_is_match_at A cfg h at_ = RDfa r -> r = ref_bool A h at_.
Proof. exact p_is_match_correct. Qed.
Print Assumptions Dfa_p_is_match_correct.

Theorem Dfa_p_is_match_is_ref :
  forall (A : nfa) (cfg : dconfig) (h : hay) (r : bool),
  wf_nfa A = true ->
  no_look A = true ->
  prefix_ok A = true -> bytes_ok h -> p_is_match_at A cfg h 0 = RDfa r -> is_match_ref A h = Done r.
Proof. exact p_is_match_is_ref. Qed.
Print Assumptions Dfa_p_is_match_is_ref.

Theorem Dfa_p_search_at_none_iff :
  forall (A : nfa) (cfg : dconfig) (h : hay) (at_ : nat) (o : option nat),
  wf_nfa A = true ->
  no_look A = true ->
  prefix_ok A = true ->
  bytes_ok h -> p_search_at A cfg h at_ = RDfa o -> o = None <-> find_at A h at_ = Done None.
Proof. exact p_search_at_none_iff. Qed.
Print Assumptions Dfa_p_search_at_none_iff.

Theorem Dfa_p_search_at_end_sound :
  forall (A : nfa) (cfg : dconfig) (h : hay) (at_ e : nat),
  wf_nfa A = true ->
  no_look A = true ->
  prefix_ok A = true ->
  bytes_ok h ->
  p_search_at A cfg h at_ = RDfa (Some e) ->
  exists s : nat, at_ <= s /\ s <= e /\ e <= length h /\ nfa_path A h (start_anch A) s e.
Proof. exact p_search_at_end_sound. Qed.
Print Assumptions Dfa_p_search_at_end_sound.

Theorem Dfa_p_search_at_leftmost_partial :
  forall (A : nfa) (cfg : dconfig) (h : hay) (at_ e s0 e0 : nat) (sl : slots),
  wf_nfa A = true ->
  no_look A = true ->
  prefix_ok A = true ->
  bytes_ok h ->
  cfg_break cfg = true ->
  p_search_at A cfg h at_ = RDfa (Some e) ->
  find_at A h at_ = Done (Some (s0, e0, sl)) -> nfa_path A h (start_anch A) s0 e.
Proof. exact p_search_at_leftmost_partial. Qed.
Print Assumptions Dfa_p_search_at_leftmost_partial.

Theorem Dfa_p_search_anchored_none_iff :
  forall (A : nfa) (cfg : dconfig) (h : hay) (at_ : nat) (o : option nat),
  wf_nfa A = true ->
  no_look A = true ->
  at_ <= length h ->
  p_search_anchored A cfg h at_ = RDfa o ->
  o = None <-> (forall e : nat, ~ nfa_path A h (start_anch A) at_ e).
Proof. exact p_search_anchored_none_iff. Qed.
Print Assumptions Dfa_p_search_anchored_none_iff.

Theorem Dfa_p_search_anchored_end_sound :
  forall (A : nfa) (cfg : dconfig) (h : hay) (at_ e : nat),
  wf_nfa A = true ->
  no_look A = true ->
  p_search_anchored A cfg h at_ = RDfa (Some e) ->
  at_ <= e /\ e <= length h /\ nfa_path A h (start_anch A) at_ e.
Proof. exact p_search_anchored_end_sound. Qed.
Print Assumptions Dfa_p_search_anchored_end_sound.

Theorem Dfa_anch_fallback_none_iff :
  forall (A : nfa) (h : hay) (at_ : nat),
  wf_nfa A = true ->
  at_ <= length h ->
  anch_fallback A h at_ = None <-> (forall e : nat, ~ nfa_path A h (start_anch A) at_ e).
Proof. exact anch_fallback_none_iff. Qed.
Print Assumptions Dfa_anch_fallback_none_iff.

Theorem Dfa_anch_fallback_end_sound :
  forall (A : nfa) (h : hay) (at_ e : nat),
  wf_nfa A = true ->
  anch_fallback A h at_ = Some e -> at_ <= e /\ e <= length h /\ nfa_path A h (start_anch A) at_ e.
Proof. exact anch_fallback_end_sound. Qed.
Print Assumptions Dfa_anch_fallback_end_sound.

Theorem Dfa_start_match_empty :
  forall A : nfa,
  wf_nfa A = true ->
  no_look A = true ->
  prefix_ok A = true -> contains_match A (d_ids (pstart A KText false)) = true -> ref_bool A [] 0 = true.
Proof. exact start_match_empty. Qed.
Print Assumptions Dfa_start_match_empty.

Theorem Dfa_p_search_at_nobreak_not_leftmost :
  wf_nfa nb_nfa = true /\
  no_look nb_nfa = true /\
  prefix_ok nb_nfa = true /\
  p_search_at nb_nfa (nb_cfg false) [97%N; 98%N; 99%N; 100%N] 0 = RDfa (Some 4) /\
  p_search_at nb_nfa (nb_cfg true) [97%N; 98%N; 99%N; 100%N] 0 = RDfa (Some 2) /\
  ref_end nb_nfa [97%N; 98%N; 99%N; 100%N] 0 = Some 2.
Proof. exact p_search_at_nobreak_not_leftmost. Qed.
Print Assumptions Dfa_p_search_at_nobreak_not_leftmost.

Theorem Dfa_dfa_is_match_cached_correct :
  forall (A : nfa) (cfg : dconfig),
  wf_nfa A = true ->
  no_look A = true ->
  prefix_ok A = true ->
  (forall (ids : list nat) (b b' : N),
  class_of cfg b = class_of cfg b' -> cdet A cfg ids b = cdet A cfg ids b') ->
  runs_ok 0 (cfg_classes cfg) (stride cfg) = true ->
  cfg_sorted_key cfg = false ->
  cfg_loose_accel cfg = false ->
  cfg_old_entry cfg = false ->
  cfg_accel_no_eoi cfg = false ->
  forall (h : hay) (c : cache) (at_ : nat),
  bytes_ok h ->
  at_ <= length h ->
  cinv A cfg c -> accel_sound A cfg c -> snd (dfa_is_match_at A cfg c h at_) = ref_bool A h at_.
Proof. exact dfa_is_match_cached_correct. Qed.
Print Assumptions Dfa_dfa_is_match_cached_correct.

Theorem Dfa_dfa_search_at_cached_none_iff :
  forall (A : nfa) (cfg : dconfig),
  wf_nfa A = true ->
  no_look A = true ->
  prefix_ok A = true ->
  (forall (ids : list nat) (b b' : N),
  class_of cfg b = class_of cfg b' -> cdet A cfg ids b = cdet A cfg ids b') ->
  runs_ok 0 (cfg_classes cfg) (stride cfg) = true ->
  cfg_sorted_key cfg = false ->
  cfg_loose_accel cfg = false ->
  cfg_old_entry cfg = false ->
  cfg_accel_no_eoi cfg = false ->
  forall (h : hay) (c : cache) (at_ : nat),
  bytes_ok h ->
  cinv A cfg c ->
  accel_sound A cfg c -> snd (dfa_search_at A cfg c h at_) = None <-> find_at A h at_ = Done None.
Proof. exact dfa_search_at_cached_none_iff. Qed.
Print Assumptions Dfa_dfa_search_at_cached_none_iff.

Theorem Dfa_dfa_search_at_cached_leftmost_partial :
  forall (A : nfa) (cfg : dconfig),
  wf_nfa A = true ->
  no_look A = true ->
  prefix_ok A = true ->
  (forall (ids : list nat) (b b' : N),
  class_of cfg b = class_of cfg b' -> cdet A cfg ids b = cdet A cfg ids b') ->
  runs_ok 0 (cfg_classes cfg) (stride cfg) = true ->
  cfg_sorted_key cfg = false ->
  cfg_loose_accel cfg = false ->
  cfg_old_entry cfg = false ->
  cfg_accel_no_eoi cfg = false ->
  forall (h : hay) (c : cache) (at_ e s0 e0 : nat) (sl : slots),
  bytes_ok h ->
  cfg_break cfg = true ->
  cinv A cfg c ->
  accel_sound A cfg c ->
  snd (dfa_search_at A cfg c h at_) = Some e ->
  find_at A h at_ = Done (Some (s0, e0, sl)) -> nfa_path A h (start_anch A) s0 e.
Proof. exact dfa_search_at_cached_leftmost_partial. Qed.
Print Assumptions Dfa_dfa_search_at_cached_leftmost_partial.

Theorem Dfa_dfa_search_anchored_cached_correct :
  forall (A : nfa) (cfg : dconfig),
  wf_nfa A = true ->
  no_look A = true ->
  prefix_ok A = true ->
  (forall (ids : list nat) (b b' : N),
  class_of cfg b = class_of cfg b' -> cdet A cfg ids b = cdet A cfg ids b') ->
  cfg_sorted_key cfg = false ->
  cfg_old_entry cfg = false ->
  forall (h : list N) (c : cache) (at_ : nat),
  at_ <= length h ->
  cinv A cfg c ->
  (snd (dfa_search_anchored A cfg c h at_) = None <->
  (forall e : nat, ~ nfa_path A h (start_anch A) at_ e)) /\
  (forall e : nat,
  snd (dfa_search_anchored A cfg c h at_) = Some e ->
  at_ <= e /\ e <= length h /\ nfa_path A h (start_anch A) at_ e).
Proof. exact dfa_search_anchored_cached_correct. Qed.
Print Assumptions Dfa_dfa_search_anchored_cached_correct.

Theorem Dfa_dfa_is_match_any_history :
  forall (A : nfa) (cfg : dconfig),
  wf_nfa A = true ->
  no_look A = true ->
  prefix_ok A = true ->
  (forall (ids : list nat) (b b' : N),
  class_of cfg b = class_of cfg b' -> cdet A cfg ids b = cdet A cfg ids b') ->
  runs_ok 0 (cfg_classes cfg) (stride cfg) = true ->
  cfg_sorted_key cfg = false ->
  cfg_loose_accel cfg = false ->
  cfg_old_entry cfg = false ->
  cfg_accel_no_eoi cfg = false ->
  forall (ks : list call) (h : hay) (at_ : nat),
  fwd_hist ks ->
  bytes_ok h ->
  at_ <= length h -> snd (dfa_is_match_at A cfg (run_calls A cfg new_cache ks) h at_) = ref_bool A h at_.
Proof. exact dfa_is_match_any_history. Qed.
Print Assumptions Dfa_dfa_is_match_any_history.

Theorem Dfa_dfa_search_at_any_history_none_iff :
  forall (A : nfa) (cfg : dconfig),
  wf_nfa A = true ->
  no_look A = true ->
  prefix_ok A = true ->
  (forall (ids : list nat) (b b' : N),
  class_of cfg b = class_of cfg b' -> cdet A cfg ids b = cdet A cfg ids b') ->
  runs_ok 0 (cfg_classes cfg) (stride cfg) = true ->
  cfg_sorted_key cfg = false ->
  cfg_loose_accel cfg = false ->
  cfg_old_entry cfg = false ->
  cfg_accel_no_eoi cfg = false ->
  forall (ks : list call) (h : hay) (at_ : nat),
  fwd_hist ks ->
  bytes_ok h ->
  snd (dfa_search_at A cfg (run_calls A cfg new_cache ks) h at_) = None <-> find_at A h at_ = Done None.
Proof. exact dfa_search_at_any_history_none_iff. Qed.
Print Assumptions Dfa_dfa_search_at_any_history_none_iff.

Theorem Dfa_dfa_search_at_any_history_leftmost_partial :
  forall (A : nfa) (cfg : dconfig),
  wf_nfa A = true ->
  no_look A = true ->
  prefix_ok A = true ->
  (forall (ids : list nat) (b b' : N),
  class_of cfg b = class_of cfg b' -> cdet A cfg ids b = cdet A cfg ids b') ->
  runs_ok 0 (cfg_classes cfg) (stride cfg) = true ->
  cfg_sorted_key cfg = false ->
  cfg_loose_accel cfg = false ->
  cfg_old_entry cfg = false ->
  cfg_accel_no_eoi cfg = false ->
  forall (ks : list call) (h : hay) (at_ e s0 e0 : nat) (sl : slots),
  fwd_hist ks ->
  bytes_ok h ->
  cfg_break cfg = true ->
  snd (dfa_search_at A cfg (run_calls A cfg new_cache ks) h at_) = Some e ->
  find_at A h at_ = Done (Some (s0, e0, sl)) -> nfa_path A h (start_anch A) s0 e.
Proof. exact dfa_search_at_any_history_leftmost_partial. Qed.
Print Assumptions Dfa_dfa_search_at_any_history_leftmost_partial.

Theorem Dfa_dfa_search_anchored_any_history :
  forall (A : nfa) (cfg : dconfig),
  wf_nfa A = true ->
  no_look A = true ->
  prefix_ok A = true ->
  (forall (ids : list nat) (b b' : N),
  class_of cfg b = class_of cfg b' -> cdet A cfg ids b = cdet A cfg ids b') ->
  runs_ok 0 (cfg_classes cfg) (stride cfg) = true ->
  cfg_sorted_key cfg = false ->
  cfg_loose_accel cfg = false ->
  cfg_old_entry cfg = false ->
  cfg_accel_no_eoi cfg = false ->
  forall (ks : list call) (h : list N) (at_ : nat),
  fwd_hist ks ->
  at_ <= length h ->
  let r := snd (dfa_search_anchored A cfg (run_calls A cfg new_cache ks) h at_) in
  (r = None <-> (forall e : nat, ~ nfa_path A h (start_anch A) at_ e)) /\
  (forall e : nat, r = Some e -> at_ <= e /\ e <= length h /\ nfa_path A h (start_anch A) at_ e).
Proof. exact dfa_search_anchored_any_history. Qed.
Print Assumptions Dfa_dfa_search_anchored_any_history.

