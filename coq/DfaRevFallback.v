(* DfaRevFallback.v — the NFA fallback of the lazy DFA's reverse searches (lazy.go:
   nfaFallbackReverse).  Before fix f6a852a the PikeVM of the REVERSED automaton was run forwards
   over haystack[start:end] (Dfa.rev_fallback_original); the repaired fallback reads a reversed
   copy in longest mode (Dfa.rev_fallback).  Witness: `ab|bcd` (DfaRef.nb_nfa, the compiler's
   shape), its reverse automaton as built by the model of nfa/reverse.go, haystack "xab": the
   reference finds [1,3); the repaired fallback returns start 1, the original none. *)
From Coq Require Import List NArith.
From CV Require Import Nfa NfaRef Dfa DfaRef Reverse.
Import ListNotations.

Definition rf_hay : hay := [120; 97; 98]%N.
Definition rf_rev : nfa := reverse_nfa true nb_nfa.

Lemma rev_fallback_original_refuted :
  wf_nfa nb_nfa = true /\ Dfa.no_look nb_nfa = true /\
  (exists sl, find_at nb_nfa rf_hay 0 = Done (Some (1, 3, sl))) /\
  rev_fallback rf_rev rf_hay 0 3 = Some 1 /\
  rev_fallback_bool rf_rev rf_hay 0 3 = true /\
  rev_fallback_original rf_rev rf_hay 0 3 = None.
Proof.
  split; [vm_compute; reflexivity|]. split; [vm_compute; reflexivity|].
  split; [eexists; vm_compute; reflexivity|].
  split; [vm_compute; reflexivity|]. split; vm_compute; reflexivity.
Qed.
