(* Wf.v — C07: well-formedness of everything a search returns, and the memory accesses /
   termination of the modelled loops.

   Part 1  boolean checkers over the integer lists Go returns, with specification lemmas:
             wf_span len s e      0 <= s <= e <= len
             wf_caps len l        []int of FindSubmatchIndex: even length >= 2, group 0 is a span
                                  of the haystack, every other pair is (-1,-1) or ordered and
                                  inside group 0
             wf_all len ms        [][]int of FindAll*Index: each wf_caps; ordered and disjoint;
                                  an empty match never touches the end of the preceding match
                                  (regexp's rule; hence no two empty matches at one position)
             wf_split len n l     offsets of the pieces of Split
   Part 2  the reference search of Nfa.v returns well-formed values (ref_result_wf), the
           specification loop of FindAll.v returns well-formed lists (std_all_wf,
           std_all_caps_wf)
   Part 3  access log of the reference step function: every haystack index read by `succs`
           (byte transitions and look-around) is < length h and is p or p-1
           (look_reads_in_bounds, succs_reads_in_bounds, search_reads_in_bounds);
           re-exported: Swar.swar_reads_in_bounds, Backtrack.bt_idx_in_bounds,
           Backtrack.bt_total, NfaRef.find_at_total
   Part 4  case checker for the values observed from the Go implementation. *)
From Coq Require Import List NArith ZArith Lia Bool Arith PeanoNat.
From Coq Require Import ZifyBool ZifyNat ZifyN.
From Coq Require Import FSets.FSetPositive.
From CV Require Import Nfa.
From CV Require Backtrack NfaRef FindAll Swar.
Import ListNotations.
Local Open Scope Z_scope.

(* ========================================================================= *)
(** * Part 1: the predicates                                                   *)
(* ========================================================================= *)

(* a span of a haystack of length len *)
Definition wf_span (len s e : Z) : bool := (0 <=? s) && (s <=? e) && (e <=? len).

Lemma wf_span_spec len s e : wf_span len s e = true <-> 0 <= s <= e /\ e <= len.
Proof. unfold wf_span. lia. Qed.

(* one capture group relative to the overall match [s0,e0] *)
Definition group_ok (s0 e0 s e : Z) : Prop := (s = -1 /\ e = -1) \/ (s0 <= s <= e /\ e <= e0).
Definition wf_group (s0 e0 s e : Z) : bool :=
  ((s =? -1) && (e =? -1)) || ((s0 <=? s) && (s <=? e) && (e <=? e0)).

Lemma wf_group_spec s0 e0 s e : wf_group s0 e0 s e = true <-> group_ok s0 e0 s e.
Proof. unfold wf_group, group_ok. lia. Qed.

Fixpoint wf_groups (s0 e0 : Z) (l : list Z) : bool :=
  match l with
  | [] => true
  | [_] => false
  | s :: e :: t => wf_group s0 e0 s e && wf_groups s0 e0 t
  end.

Definition groups_ok (s0 e0 : Z) (l : list Z) : Prop :=
  exists k, length l = (2 * k)%nat /\
    forall i, (i < k)%nat -> group_ok s0 e0 (nth (2 * i) l 0) (nth (2 * i + 1) l 0).

Lemma pair_ind (P : list Z -> Prop) :
  P [] -> (forall a, P [a]) -> (forall a b t, P t -> P (a :: b :: t)) -> forall l, P l.
Proof. intros H0 H1 H2. fix IH 1. intros [|a [|b t]]; [exact H0|apply H1|apply H2, IH]. Qed.

Lemma nth_SS {T} (a b : T) t i d : nth (S (S i)) (a :: b :: t) d = nth i t d.
Proof. reflexivity. Qed.

Lemma wf_groups_spec s0 e0 l : wf_groups s0 e0 l = true <-> groups_ok s0 e0 l.
Proof.
  induction l as [|a|a b t IH] using pair_ind.
  - split; [|reflexivity]. intros _. exists 0%nat. split; [reflexivity|]. intros i Hi. lia.
  - split; [discriminate|]. intros [k [Hk _]]. cbn in Hk. lia.
  - cbn [wf_groups]. rewrite andb_true_iff, wf_group_spec, IH. split.
    + intros [Hg [k [Hk Hall]]]. exists (S k). split; [cbn [length]; lia|].
      intros [|i] Hi; [exact Hg|].
      replace (2 * S i)%nat with (S (S (2 * i))) by lia.
      replace (S (S (2 * i)) + 1)%nat with (S (S (2 * i + 1))) by lia.
      rewrite !nth_SS. apply Hall. lia.
    + intros [k [Hk Hall]]. cbn [length] in Hk. destruct k as [|k]; [lia|]. split.
      * apply (Hall 0%nat). lia.
      * exists k. split; [lia|]. intros i Hi. specialize (Hall (S i) ltac:(lia)).
        replace (2 * S i)%nat with (S (S (2 * i))) in Hall by lia.
        replace (S (S (2 * i)) + 1)%nat with (S (S (2 * i + 1))) in Hall by lia.
        rewrite !nth_SS in Hall. exact Hall.
Qed.

(* what FindSubmatchIndex returns for a haystack of length len *)
Definition wf_caps (len : Z) (l : list Z) : bool :=
  match l with
  | s0 :: e0 :: t => wf_span len s0 e0 && wf_groups s0 e0 t
  | _ => false
  end.

Definition caps_ok (len : Z) (l : list Z) : Prop :=
  exists k, length l = (2 * S k)%nat /\
    let s0 := nth 0 l 0 in
    let e0 := nth 1 l 0 in
    0 <= s0 <= e0 /\ e0 <= len /\
    forall i, (1 <= i <= k)%nat -> group_ok s0 e0 (nth (2 * i) l 0) (nth (2 * i + 1) l 0).

Theorem wf_caps_spec len l : wf_caps len l = true <-> caps_ok len l.
Proof.
  unfold caps_ok. destruct l as [|s0 [|e0 t]].
  - split; [discriminate|]. intros [k [Hk _]]. cbn in Hk. lia.
  - split; [discriminate|]. intros [k [Hk _]]. cbn in Hk. lia.
  - cbn [wf_caps]. change (nth 0 (s0 :: e0 :: t) 0) with s0. change (nth 1 (s0 :: e0 :: t) 0) with e0.
    cbv zeta. rewrite andb_true_iff, wf_span_spec, wf_groups_spec. split.
    + intros [[H1 H2] [k [Hk Hall]]]. exists k. split; [cbn [length]; lia|].
      split; [exact H1|]. split; [exact H2|]. intros i Hi.
      destruct i as [|i]; [lia|].
      replace (2 * S i)%nat with (S (S (2 * i))) by lia.
      replace (S (S (2 * i)) + 1)%nat with (S (S (2 * i + 1))) by lia.
      rewrite !nth_SS. apply Hall. lia.
    + intros [k [Hk [H1 [H2 Hall]]]]. cbn [length] in Hk. split; [split; assumption|].
      exists k. split; [lia|]. intros i Hi. specialize (Hall (S i) ltac:(lia)).
      replace (2 * S i)%nat with (S (S (2 * i))) in Hall by lia.
      replace (S (S (2 * i)) + 1)%nat with (S (S (2 * i + 1))) in Hall by lia.
      rewrite !nth_SS in Hall. exact Hall.
Qed.

Definition m_start (m : list Z) : Z := nth 0 m 0.
Definition m_end (m : list Z) : Z := nth 1 m 0.

Lemma wf_caps_span len m : wf_caps len m = true -> 0 <= m_start m <= m_end m /\ m_end m <= len.
Proof.
  intros H. apply wf_caps_spec in H. destruct H as [k [_ [H1 [H2 _]]]].
  unfold m_start, m_end. lia.
Qed.

(* the weaker per-slot statement (what NfaRef.caps_wf gives for an arbitrary NFA): group 0 is a
   span, every other slot is -1 or a position inside group 0 *)
Definition wf_slot (s0 e0 z : Z) : bool := (z =? -1) || ((s0 <=? z) && (z <=? e0)).
Definition wf_slots (len : Z) (l : list Z) : bool :=
  match l with
  | s0 :: e0 :: t => wf_span len s0 e0 && forallb (wf_slot s0 e0) t && Nat.even (length t)
  | _ => false
  end.

Lemma wf_groups_slots s0 e0 l : wf_groups s0 e0 l = true -> forallb (wf_slot s0 e0) l = true /\ Nat.even (length l) = true.
Proof.
  induction l as [|a|a b t IH] using pair_ind; [split; reflexivity|discriminate|].
  cbn [wf_groups forallb length Nat.even]. rewrite andb_true_iff. intros [Hg Ht].
  destruct (IH Ht) as [H1 H2]. rewrite H1, H2. unfold wf_group in Hg. unfold wf_slot. split; [lia|reflexivity].
Qed.

Lemma wf_caps_slots len l : wf_caps len l = true -> wf_slots len l = true.
Proof.
  destruct l as [|s0 [|e0 t]]; try discriminate. cbn [wf_caps wf_slots].
  rewrite andb_true_iff. intros [H1 H2]. destruct (wf_groups_slots _ _ _ H2) as [H3 H4].
  rewrite H1, H3, H4. reflexivity.
Qed.

(* the list of matches of FindAll*Index: prev = end of the preceding match (-1 before the
   first one).  regexp.allMatches: a match is accepted unless it is empty and its start equals
   the end of the preceding match. *)
Fixpoint wf_all_from (len prev : Z) (ms : list (list Z)) : bool :=
  match ms with
  | [] => true
  | m :: t =>
      wf_caps len m && (prev <=? m_start m) &&
      (negb (m_start m =? m_end m) || (prev <? m_start m)) &&
      wf_all_from len (m_end m) t
  end.

Definition wf_all (len : Z) (ms : list (list Z)) : bool := wf_all_from len (-1) ms.

Fixpoint all_ok_from (len prev : Z) (ms : list (list Z)) : Prop :=
  match ms with
  | [] => True
  | m :: t =>
      caps_ok len m /\ prev <= m_start m /\ (m_start m = m_end m -> prev < m_start m) /\
      all_ok_from len (m_end m) t
  end.

Theorem wf_all_from_spec len : forall ms prev, wf_all_from len prev ms = true <-> all_ok_from len prev ms.
Proof.
  induction ms as [|m t IH]; intros prev; cbn [wf_all_from all_ok_from]; [tauto|].
  rewrite !andb_true_iff, wf_caps_spec, IH. split.
  - intros [[[H1 H2] H3] H4]. repeat split; try assumption; lia.
  - intros [H1 [H2 [H3 H4]]]. repeat split; try assumption; lia.
Qed.

Theorem wf_all_spec len ms : wf_all len ms = true <-> all_ok_from len (-1) ms.
Proof. apply wf_all_from_spec. Qed.

(* consequences stated by index: every element is a well-formed capture list; elements are
   ordered and do not overlap; two empty matches never sit at the same position; an empty match
   never starts where the preceding match ends *)
Lemma all_ok_from_later len : forall ms prev j,
  all_ok_from len prev ms -> (j < length ms)%nat ->
  caps_ok len (nth j ms []) /\ prev <= m_start (nth j ms []) /\
  (m_start (nth j ms []) = m_end (nth j ms []) -> prev < m_start (nth j ms [])).
Proof.
  induction ms as [|m t IH]; intros prev j H Hj; [cbn in Hj; lia|].
  cbn [all_ok_from] in H. destruct H as [H1 [H2 [H3 H4]]].
  destruct j as [|j]; cbn [nth]; [auto|].
  cbn [length] in Hj. destruct (IH (m_end m) j H4 ltac:(lia)) as [G1 [G2 G3]].
  assert (Hm : m_start m <= m_end m).
  { destruct H1 as [k [_ [Ha _]]]. unfold m_start, m_end. lia. }
  split; [exact G1|]. split; [lia|]. intros He. specialize (G3 He). lia.
Qed.

Theorem wf_all_elem len ms j : wf_all len ms = true -> (j < length ms)%nat -> wf_caps len (nth j ms []) = true.
Proof.
  intros H Hj. apply wf_all_spec in H. apply wf_caps_spec.
  now destruct (all_ok_from_later len ms (-1) j H Hj).
Qed.

Theorem wf_all_ordered len : forall ms i j, wf_all len ms = true -> (i < j < length ms)%nat ->
  m_end (nth i ms []) <= m_start (nth j ms []) /\
  (m_start (nth j ms []) = m_end (nth j ms []) -> m_end (nth i ms []) < m_start (nth j ms [])).
Proof.
  unfold wf_all. generalize (-1). intros prev ms. revert prev.
  induction ms as [|m t IH]; intros prev i j H Hij; [cbn in Hij; lia|].
  apply wf_all_from_spec in H. cbn [all_ok_from] in H. destruct H as [H1 [H2 [H3 H4]]].
  destruct j as [|j]; [lia|]. cbn [length] in Hij. destruct i as [|i]; cbn [nth].
  - destruct (all_ok_from_later len t (m_end m) j H4 ltac:(lia)) as [_ [G2 G3]]. split; assumption.
  - apply (IH (m_end m)); [apply wf_all_from_spec; exact H4|lia].
Qed.

(* pieces of Split as flat offsets [s1;e1;s2;e2;...] into the input string; an empty piece,
   whose address Go does not preserve, is rendered (-1,-1).  prev = end of the preceding
   non-empty piece *)
Fixpoint wf_pieces (len prev : Z) (l : list Z) : bool :=
  match l with
  | [] => true
  | [_] => false
  | s :: e :: t =>
      if (s =? -1) && (e =? -1) then wf_pieces len prev t
      else (prev <=? s) && (s <? e) && (e <=? len) && wf_pieces len e t
  end.

Definition is_nil {T} (l : list T) : bool := match l with [] => true | _ => false end.

(* regexp.Split(s, n): n = 0 gives nil; n > 0 gives at most n pieces; a non-empty input always
   gives at least one piece; the pieces are substrings of the input in order *)
Definition wf_split (len n : Z) (l : list Z) : bool :=
  if n =? 0 then is_nil l
  else wf_pieces len 0 l &&
       ((n <? 0) || (Z.of_nat (length l) <=? 2 * n)) &&
       ((len =? 0) || negb (is_nil l)).

Lemma wf_pieces_bounds len : forall l prev, 0 <= prev -> wf_pieces len prev l = true ->
  exists k, length l = (2 * k)%nat /\
    forall i, (i < k)%nat ->
      let s := nth (2 * i) l 0 in let e := nth (2 * i + 1) l 0 in
      (s = -1 /\ e = -1) \/ (prev <= s < e /\ e <= len).
Proof.
  induction l as [|a|a b t IH] using pair_ind; intros prev Hp H.
  - exists 0%nat. split; [reflexivity|]. intros; lia.
  - discriminate.
  - cbn [wf_pieces] in H.
    destruct ((a =? -1) && (b =? -1)) eqn:Hm.
    + destruct (IH prev Hp H) as [k [Hk Hall]]. exists (S k). split; [cbn [length]; lia|].
      intros [|i] Hi; [cbn; left; lia|].
      replace (2 * S i)%nat with (S (S (2 * i))) by lia.
      replace (S (S (2 * i)) + 1)%nat with (S (S (2 * i + 1))) by lia.
      rewrite !nth_SS. apply Hall. lia.
    + rewrite !andb_true_iff in H. destruct H as [[[H1 H2] H3] H4].
      destruct (IH b ltac:(lia) H4) as [k [Hk Hall]]. exists (S k). split; [cbn [length]; lia|].
      intros [|i] Hi; [cbn; right; lia|].
      replace (2 * S i)%nat with (S (S (2 * i))) by lia.
      replace (S (S (2 * i)) + 1)%nat with (S (S (2 * i + 1))) by lia.
      rewrite !nth_SS. specialize (Hall i ltac:(lia)). cbv zeta in *. lia.
Qed.

Theorem wf_split_spec len n l : wf_split len n l = true ->
  (n = 0 -> l = []) /\
  (0 < n -> Z.of_nat (length l) <= 2 * n) /\
  (n <> 0 -> 0 < len -> l <> []) /\
  (n <> 0 -> exists k, length l = (2 * k)%nat /\
     forall i, (i < k)%nat ->
       let s := nth (2 * i) l 0 in let e := nth (2 * i + 1) l 0 in
       (s = -1 /\ e = -1) \/ (0 <= s < e /\ e <= len)).
Proof.
  unfold wf_split. destruct (Z.eqb_spec n 0) as [Hn|Hn].
  - intros H. destruct l; [|discriminate]. repeat split; try (intros; lia); intros; congruence.
  - rewrite !andb_true_iff. intros [[H1 H2] H3]. split; [lia|]. split; [lia|]. split.
    + intros _ Hl ->. cbn in H3. lia.
    + intros _. apply (wf_pieces_bounds len l 0 ltac:(lia) H1).
Qed.

(* ========================================================================= *)
(** * Part 2: the reference search and the specification loop are well-formed  *)
(* ========================================================================= *)

Lemma set_nth_0 {T} (a : T) t v : set_nth (a :: t) 0 v = v :: t.
Proof. reflexivity. Qed.

Lemma caps_of_cons s e a b t : caps_of s e (a :: b :: t) = Z.of_nat s :: Z.of_nat e :: t.
Proof. reflexivity. Qed.

(* for every well-formed NFA with at least group 0: group 0 of the reference result is a span
   of the haystack at or after `at`, the slot list has 2*ncaps entries, every slot is -1 or
   inside group 0 *)
Theorem ref_result_slots_wf A h at_ s e sl :
  wf_nfa A = true -> (1 <= ncaps A)%nat ->
  find_at A h at_ = Done (Some (s, e, sl)) ->
  wf_slots (Z.of_nat (length h)) (caps_of s e sl) = true /\
  length (caps_of s e sl) = (2 * ncaps A)%nat /\ (at_ <= s)%nat.
Proof.
  intros Hwf Hn H.
  destruct (NfaRef.find_at_some A h Hwf at_ s e sl H) as [H1 [H2 [H3 _]]].
  destruct (NfaRef.caps_wf A h at_ s e sl H ltac:(lia)) as [Hlen [Hin _]].
  split; [|split; [exact Hlen|exact H1]].
  assert (Hl : length sl = (2 * ncaps A)%nat).
  { unfold caps_of in Hlen. now rewrite !NfaRef.set_nth_length' in Hlen. }
  destruct sl as [|a [|b t]]; cbn [length] in Hl; try lia.
  rewrite caps_of_cons. cbn [wf_slots].
  unfold NfaRef.slots_in in Hin. inversion Hin as [|? ? _ Hin1]; subst.
  inversion Hin1 as [|? ? _ Hin2]; subst.
  assert (Hs : wf_span (Z.of_nat (length h)) (Z.of_nat s) (Z.of_nat e) = true) by (unfold wf_span; lia).
  rewrite Hs. cbn [andb]. apply andb_true_iff. split.
  - apply forallb_forall. intros z Hz. rewrite Forall_forall in Hin2. specialize (Hin2 z Hz).
    unfold wf_slot. lia.
  - assert (length t = (2 * (ncaps A - 1))%nat) as -> by lia.
    clear. induction (ncaps A - 1)%nat as [|k IH]; [reflexivity|].
    replace (2 * S k)%nat with (S (S (2 * k))) by lia. exact IH.
Qed.

(* ------------------------------------------------------------------------- *)
(* Pairing of capture slots.  For an arbitrary state graph the two slots of a group need not
   be paired (a CaptureEnd state may precede the CaptureStart state): ref_pairs_need_nesting
   below is a witness.  The compiler's programs bracket every group: there is a labelling
   of the states by the set of groups that are open (start recorded, end not yet) such that
   every edge respects it.  `nested A lab` checks a given labelling; with it, every group of
   the reference result is (-1,-1) or an ordered pair inside the overall match.            *)
(* ------------------------------------------------------------------------- *)

Fixpoint lbeq (a b : list bool) : bool :=
  match a, b with
  | [], [] => true
  | x :: a', y :: b' => Bool.eqb x y && lbeq a' b'
  | _, _ => false
  end.

Lemma lbeq_eq a : forall b, lbeq a b = true -> a = b.
Proof.
  induction a as [|x a IH]; intros [|y b]; cbn [lbeq]; try discriminate; [reflexivity|].
  rewrite andb_true_iff. intros [H1 H2]. apply eqb_prop in H1. f_equal; auto.
Qed.

(* lab : one optional label per state; None = state claimed unreachable (not constrained) *)
Definition lab_of (lab : list (option (list bool))) (q : nat) : option (list bool) :=
  nth q lab None.

Definition lab_is (lab : list (option (list bool))) (q : nat) (o : list bool) : bool :=
  match lab_of lab q with Some o' => lbeq o' o | None => false end.

Definition nested_state (ncap : nat) (lab : list (option (list bool))) (q : nat) (st : nstate) : bool :=
  match lab_of lab q with
  | None => true
  | Some o =>
      (length o =? ncap)%nat &&
      match st with
      | SMatch => forallb negb o
      | SFail => true
      | SByteRange _ _ nx => lab_is lab nx o
      | SSparse trs => forallb (fun t : N * N * nat => lab_is lab (snd t) o) trs
      | SSplit l r => lab_is lab l o && lab_is lab r o
      | SEpsilon nx => lab_is lab nx o
      | SLook _ nx => lab_is lab nx o
      | SCapture i true nx => negb (nth i o false) && lab_is lab nx (set_nth o i true)
      | SCapture i false nx => nth i o false && lab_is lab nx (set_nth o i false)
      end
  end.

Fixpoint nested_states (ncap : nat) lab (q : nat) (sts : list nstate) : bool :=
  match sts with
  | [] => true
  | st :: t => nested_state ncap lab q st && nested_states ncap lab (S q) t
  end.

Definition nested (A : nfa) (lab : list (option (list bool))) : bool :=
  nested_states (ncaps A) lab 0 (states A) &&
  match lab_of lab (start_anch A) with Some o => forallb negb o && (length o =? ncaps A)%nat | None => false end.

Lemma nested_states_nth ncap lab : forall sts q0 q st,
  nested_states ncap lab q0 sts = true -> nth_error sts q = Some st ->
  nested_state ncap lab (q0 + q) st = true.
Proof.
  induction sts as [|s t IH]; intros q0 q st H Hq; [destruct q; discriminate|].
  cbn [nested_states] in H. apply andb_true_iff in H as [H1 H2].
  destruct q as [|q]; cbn [nth_error] in Hq.
  - inversion Hq; subst. now rewrite Nat.add_0_r.
  - replace (q0 + S q)%nat with (S q0 + q)%nat by lia. eapply IH; eauto.
Qed.

Lemma sparse_next_in trs b nx : sparse_next trs b = Some nx -> exists lo hi, In (lo, hi, nx) trs.
Proof.
  induction trs as [|[[lo hi] x] t IH]; cbn [sparse_next]; [discriminate|].
  destruct (in_range lo hi b).
  - intros H. inversion H; subst. exists lo, hi. now left.
  - intros H. destruct (IH H) as [l [u Hin]]. exists l, u. now right.
Qed.

(* invariant of the slots at a configuration labelled o, for a search started at lo, now at p *)
Definition pair_inv (lo p : nat) (opn : bool) (s e : Z) : Prop :=
  if opn then Z.of_nat lo <= s <= Z.of_nat p
  else (s = -1 /\ e = -1) \/ (Z.of_nat lo <= s <= e /\ e <= Z.of_nat p).

Definition slots_inv (lo p : nat) (o : list bool) (sl : slots) : Prop :=
  length sl = (2 * length o)%nat /\
  forall i, (i < length o)%nat -> pair_inv lo p (nth i o false) (nth (2 * i) sl 0) (nth (2 * i + 1) sl 0).

Lemma pair_inv_mono lo p p' b s e : (p <= p')%nat -> pair_inv lo p b s e -> pair_inv lo p' b s e.
Proof. unfold pair_inv. destruct b; lia. Qed.

Lemma slots_inv_mono lo p p' o sl : (p <= p')%nat -> slots_inv lo p o sl -> slots_inv lo p' o sl.
Proof. intros Hp [H1 H2]. split; [exact H1|]. intros i Hi. eapply pair_inv_mono; eauto. Qed.

Lemma set_nth_len {T} (l : list T) i v : length (set_nth l i v) = length l.
Proof. apply NfaRef.set_nth_length'. Qed.

Lemma nth_set_nth_eq {T} (l : list T) i j v d :
  nth j (set_nth l i v) d = if (i =? j)%nat then (if (i <? length l)%nat then v else d) else nth j l d.
Proof.
  destruct (Nat.eqb_spec i j) as [->|Hne].
  - destruct (Nat.ltb_spec j (length l)) as [Hl|Hl].
    + now apply Backtrack.nth_set_nth_same.
    + apply nth_overflow. rewrite set_nth_len. lia.
  - now apply Backtrack.nth_set_nth_other.
Qed.

Section Nesting.
  Variable A : nfa.
  Variable h : hay.
  Variable lab : list (option (list bool)).
  Hypothesis Hnest : nested A lab = true.
  Variable VS : Type.
  Variable vmem : nat -> nat -> VS -> bool.
  Variable vadd : nat -> nat -> VS -> VS.

  Lemma nested_at q st : nth_error (states A) q = Some st -> nested_state (ncaps A) lab q st = true.
  Proof.
    intros Hq. unfold nested in Hnest. apply andb_true_iff in Hnest as [H _].
    exact (nested_states_nth _ _ _ 0%nat q st H Hq).
  Qed.

  (* one step preserves the invariant *)
  Lemma succs_nested q st p sl o q' p' sl' lo :
    nth_error (states A) q = Some st -> lab_of lab q = Some o ->
    In (q', p', sl') (succs h st p sl) -> (lo <= p)%nat -> (p <= length h)%nat ->
    slots_inv lo p o sl ->
    exists o', lab_of lab q' = Some o' /\ slots_inv lo p' o' sl' /\ (p <= p')%nat.
  Proof.
    intros Hst Hlab Hin Hlo Hp Hinv.
    pose proof (nested_at q st Hst) as Hn. unfold nested_state in Hn. rewrite Hlab in Hn.
    apply andb_true_iff in Hn as [Hlen Hn]. apply Nat.eqb_eq in Hlen.
    pose proof (succs_pos h st p sl q' p' sl' Hin Hp) as Hpp.
    assert (Hsame : forall nx, lab_is lab nx o = true -> lab_of lab nx = Some o).
    { intros nx H. unfold lab_is in H. destruct (lab_of lab nx) as [o'|]; [|discriminate].
      apply lbeq_eq in H. now subst. }
    destruct st; cbn [succs] in Hin; try (now destruct Hin).
    - destruct (nth_error h p); [|now destruct Hin]. destruct (in_range lo0 hi n); [|now destruct Hin].
      destruct Hin as [H|[]]. inversion H; subst. exists o.
      split; [now apply Hsame|]. split; [eapply slots_inv_mono; [|exact Hinv]; lia|lia].
    - destruct (nth_error h p); [|now destruct Hin]. destruct (sparse_next trs n) eqn:E; [|now destruct Hin].
      destruct Hin as [H|[]]. inversion H; subst. exists o.
      destruct (sparse_next_in _ _ _ E) as [l [u Hmem]].
      rewrite forallb_forall in Hn. specialize (Hn _ Hmem). cbn [snd] in Hn.
      split; [now apply Hsame|]. split; [eapply slots_inv_mono; [|exact Hinv]; lia|lia].
    - apply andb_true_iff in Hn as [Hl Hr].
      destruct Hin as [H|[H|[]]]; inversion H; subst; exists o; (split; [now apply Hsame|split; [exact Hinv|lia]]).
    - destruct Hin as [H|[]]. inversion H; subst. exists o. split; [now apply Hsame|split; [exact Hinv|lia]].
    - destruct Hin as [H|[]]. inversion H; subst. destruct Hinv as [Hl Hall].
      destruct is_start.
      + apply andb_true_iff in Hn as [Hclosed Hnx]. exists (set_nth o idx true).
        split.
        { unfold lab_is in Hnx. destruct (lab_of lab q') as [o'|]; [|discriminate].
          apply lbeq_eq in Hnx. now subst. }
        split; [|lia]. split; [rewrite !set_nth_len; exact Hl|].
        rewrite set_nth_len. intros i Hi. specialize (Hall i Hi).
        unfold slot_of. rewrite !nth_set_nth_eq.
        destruct (Nat.eqb_spec idx i) as [->|Hne].
        * assert ((i <? length o)%nat = true) as -> by (apply Nat.ltb_lt; lia).
          assert ((2 * i + 0 =? 2 * i)%nat = true) as -> by (apply Nat.eqb_eq; lia).
          assert ((2 * i + 0 <? length sl)%nat = true) as -> by (apply Nat.ltb_lt; lia).
          unfold pair_inv. lia.
        * assert ((2 * idx + 0 =? 2 * i)%nat = false) as -> by (apply Nat.eqb_neq; lia).
          assert ((2 * idx + 0 =? 2 * i + 1)%nat = false) as -> by (apply Nat.eqb_neq; lia).
          exact Hall.
      + apply andb_true_iff in Hn as [Hopen Hnx]. exists (set_nth o idx false).
        split.
        { unfold lab_is in Hnx. destruct (lab_of lab q') as [o'|]; [|discriminate].
          apply lbeq_eq in Hnx. now subst. }
        split; [|lia]. split; [rewrite !set_nth_len; exact Hl|].
        rewrite set_nth_len. intros i Hi. specialize (Hall i Hi).
        unfold slot_of. rewrite !nth_set_nth_eq.
        destruct (Nat.eqb_spec idx i) as [->|Hne].
        * assert ((i <? length o)%nat = true) as -> by (apply Nat.ltb_lt; lia).
          assert ((2 * i + 1 =? 2 * i)%nat = false) as -> by (apply Nat.eqb_neq; lia).
          assert ((2 * i + 1 =? 2 * i + 1)%nat = true) as -> by (apply Nat.eqb_eq; lia).
          assert ((2 * i + 1 <? length sl)%nat = true) as -> by (apply Nat.ltb_lt; lia).
          rewrite Hopen in Hall. unfold pair_inv in *. lia.
        * assert ((2 * idx + 1 =? 2 * i)%nat = false) as -> by (apply Nat.eqb_neq; lia).
          assert ((2 * idx + 1 =? 2 * i + 1)%nat = false) as -> by (apply Nat.eqb_neq; lia).
          exact Hall.
    - destruct (look_ok lk h p); [|now destruct Hin]. destruct Hin as [H|[]]. inversion H; subst.
      exists o. split; [now apply Hsame|split; [exact Hinv|lia]].
  Qed.

  (* the search: a successful result carries slots in which no group is open *)
  Lemma dfs_nested f : forall q p sl V e sl' V' lo o,
    (lo <= p)%nat -> (p <= length h)%nat -> lab_of lab q = Some o -> slots_inv lo p o sl ->
    dfs A h VS vmem vadd f q p sl V = (Done (Some (e, sl')), V') ->
    exists o', forallb negb o' = true /\ slots_inv lo e o' sl'.
  Proof.
    induction f as [|f IH]; intros q p sl V e sl' V' lo o Hlo Hp Hlab Hinv H; [discriminate|].
    rewrite dfs_unfold in H.
    destruct (nth_error (states A) q) as [st|] eqn:Hst; [|discriminate].
    destruct (vmem q p V); [discriminate|].
    destruct (is_match_state st) eqn:Hm.
    - inversion H; subst. destruct st; try discriminate.
      pose proof (nested_at q SMatch Hst) as Hn. unfold nested_state in Hn. rewrite Hlab in Hn.
      apply andb_true_iff in Hn as [_ Hn]. exists o. split; assumption.
    - remember (succs h st p sl) as cs eqn:Hcs.
      assert (Hsub : forall x, In x cs -> In x (succs h st p sl)) by (subst; auto).
      clear Hcs. revert H. generalize (vadd q p V).
      induction cs as [|[[q1 p1] sl1] cs IHcs]; intros V0 H; [discriminate|].
      cbn [dfs_list] in H.
      destruct (dfs A h VS vmem vadd f q1 p1 sl1 V0) as [[|[[e1 s1]|]] V1] eqn:E1.
      + discriminate.
      + inversion H; subst.
        destruct (succs_nested q st p sl o q1 p1 sl1 lo Hst Hlab (Hsub _ (or_introl eq_refl)) Hlo Hp Hinv)
          as [o1 [Hl1 [Hi1 Hpp]]].
        pose proof (succs_pos h st p sl q1 p1 sl1 (Hsub _ (or_introl eq_refl)) Hp) as Hp1.
        eapply (IH q1 p1 sl1 V0 e sl' V' lo o1); try eassumption; lia.
      + apply (IHcs (fun x Hx => Hsub x (or_intror Hx)) V1 H).
  Qed.
End Nesting.

Lemma init_slots_inv A lo p o :
  forallb negb o = true -> length o = ncaps A -> slots_inv lo p o (init_slots A).
Proof.
  intros Ho Hl. unfold init_slots. split; [rewrite repeat_length; lia|].
  intros i Hi. rewrite forallb_forall in Ho.
  assert (nth i o false = false) as ->.
  { specialize (Ho (nth i o false) (nth_In _ _ Hi)). now destruct (nth i o false). }
  unfold pair_inv. left.
  assert (Hr : forall j, (j < 2 * ncaps A)%nat -> nth j (repeat (-1) (2 * ncaps A)) 0 = -1).
  { generalize (2 * ncaps A)%nat. intros m. induction m as [|m IHm]; intros j Hj; [lia|].
    destruct j as [|j]; cbn [repeat nth]; [reflexivity|apply IHm; lia]. }
  split; apply Hr; lia.
Qed.

Lemma find_loop_nested A h lab : nested A lab = true -> forall k at_ s e sl,
  (at_ + k <= length h)%nat ->
  find_loop (fuel_for A h) A h k at_ = Done (Some (s, e, sl)) ->
  exists o, forallb negb o = true /\ length o = ncaps A /\ slots_inv s e o sl.
Proof.
  intros Hnest.
  assert (Hstart : exists o, lab_of lab (start_anch A) = Some o /\ forallb negb o = true /\ length o = ncaps A).
  { unfold nested in Hnest. apply andb_true_iff in Hnest as [_ H].
    destruct (lab_of lab (start_anch A)) as [o|]; [|discriminate].
    apply andb_true_iff in H as [H1 H2]. apply Nat.eqb_eq in H2. exists o. auto. }
  destruct Hstart as [o0 [Hl0 [Hc0 Hn0]]].
  assert (Hone : forall at_ e sl, (at_ <= length h)%nat ->
            search_with (fuel_for A h) A h at_ = Done (Some (e, sl)) ->
            exists o, forallb negb o = true /\ length o = ncaps A /\ slots_inv at_ e o sl).
  { intros at_ e sl Hat H. unfold search_with in H.
    destruct (dfs A h PositiveSet.t (pmem (nstates A)) (padd (nstates A)) (fuel_for A h) (start_anch A) at_
                (init_slots A) PositiveSet.empty) as [r V'] eqn:E. cbn [fst] in H. subst r.
    destruct (dfs_nested A h lab Hnest _ _ _ _ _ _ _ _ _ _ _ at_ o0 (le_n at_) Hat Hl0
                (init_slots_inv A at_ at_ o0 Hc0 Hn0) E) as [o' [Hc' Hi']].
    exists o'. split; [exact Hc'|]. split; [|exact Hi'].
    destruct Hi' as [Hlen _].
    pose proof (NfaRef.dfs_slots A h _ _ _ _ _ _ _ _ _ _ _ at_ (le_n at_) Hat (NfaRef.repeat_slots_in at_ at_ _) E) as [_ [_ Hl]].
    unfold init_slots in Hl. rewrite repeat_length in Hl. lia. }
  induction k as [|k IH]; intros at_ s e sl Hk H; cbn [find_loop] in H.
  - destruct (search_with (fuel_for A h) A h at_) as [|[[e0 sl0]|]] eqn:E; try discriminate.
    inversion H; subst. apply Hone; [lia|exact E].
  - destruct (search_with (fuel_for A h) A h at_) as [|[[e0 sl0]|]] eqn:E; try discriminate.
    + inversion H; subst. apply Hone; [lia|exact E].
    + apply (IH (S at_) s e sl); [lia|exact H].
Qed.

(* slots with every group closed, group 0 overwritten with the overall span: wf_groups *)
Lemma closed_groups_wf s e : forall (o : list bool) (t : list Z),
  forallb negb o = true -> length t = (2 * length o)%nat ->
  (forall i, (i < length o)%nat -> pair_inv s e false (nth (2 * i) t 0) (nth (2 * i + 1) t 0)) ->
  wf_groups (Z.of_nat s) (Z.of_nat e) t = true.
Proof.
  induction o as [|b o IH]; intros t Ho Hl Hall.
  - destruct t; [reflexivity|discriminate].
  - cbn [length] in Hl. destruct t as [|x [|y t]]; cbn [length] in Hl; try lia.
    cbn [forallb] in Ho. apply andb_true_iff in Ho as [_ Ho].
    cbn [wf_groups]. apply andb_true_iff. split.
    + specialize (Hall 0%nat ltac:(cbn [length]; lia)). cbn in Hall. unfold wf_group. lia.
    + apply IH; [exact Ho|lia|]. intros i Hi. specialize (Hall (S i) ltac:(cbn [length]; lia)).
      replace (2 * S i)%nat with (S (S (2 * i))) in Hall by lia.
      replace (S (S (2 * i)) + 1)%nat with (S (S (2 * i + 1))) in Hall by lia.
      rewrite !nth_SS in Hall. exact Hall.
Qed.

(* C07 for the reference search: what it reports is a well-formed capture list *)
Theorem ref_result_wf A h lab at_ s e sl :
  wf_nfa A = true -> (1 <= ncaps A)%nat -> nested A lab = true ->
  find_at A h at_ = Done (Some (s, e, sl)) ->
  wf_caps (Z.of_nat (length h)) (caps_of s e sl) = true.
Proof.
  intros Hwf Hn Hnest H.
  destruct (NfaRef.find_at_some A h Hwf at_ s e sl H) as [H1 [H2 [H3 _]]].
  unfold find_at in H. destruct (Nat.ltb_spec (length h) at_) as [Hlt|Hle]; [discriminate|].
  destruct (find_loop_nested A h lab Hnest (length h - at_)%nat at_ s e sl ltac:(lia) H)
    as [o [Hc [Hlo [Hlen Hall]]]].
  destruct o as [|b o]; [cbn in Hlo; lia|].
  destruct sl as [|x [|y t]]; cbn [length] in Hlen; try lia.
  rewrite caps_of_cons. cbn [wf_caps]. apply andb_true_iff. split; [unfold wf_span; lia|].
  cbn [forallb] in Hc. apply andb_true_iff in Hc as [Hb Hc].
  apply (closed_groups_wf s e o t Hc ltac:(lia)).
  intros i Hi. specialize (Hall (S i) ltac:(cbn [length]; lia)).
  replace (2 * S i)%nat with (S (S (2 * i))) in Hall by lia.
  replace (S (S (2 * i)) + 1)%nat with (S (S (2 * i + 1))) in Hall by lia.
  rewrite !nth_SS in Hall. cbn [nth] in Hall.
  rewrite forallb_forall in Hc.
  assert (nth i o false = false) as Hf.
  { specialize (Hc (nth i o false) (nth_In _ _ Hi)). now destruct (nth i o false). }
  rewrite Hf in Hall. exact Hall.
Qed.

(* the hypothesis is satisfiable by programs of the shape the compiler emits: `(a)*` with
   group 0 = Capture 0 ... Capture 0, a loop over group 1 *)
Definition nested_example_nfa : nfa :=
  mkNfa [SCapture 0 true 1; SSplit 2 5; SCapture 1 true 3; SByteRange 97 97 4; SCapture 1 false 1;
         SCapture 0 false 6; SMatch] 0 0 2.
Definition nested_example_lab : list (option (list bool)) :=
  [Some [false; false]; Some [true; false]; Some [true; false]; Some [true; true]; Some [true; true];
   Some [true; false]; Some [false; false]].

Example nested_example :
  wf_nfa nested_example_nfa = true /\ nested nested_example_nfa nested_example_lab = true /\
  find_at nested_example_nfa [97%N; 97%N; 98%N] 0 = Done (Some (0%nat, 2%nat, [0; 2; 1; 2])).
Proof. vm_compute. repeat split; reflexivity. Qed.

(* without the nesting hypothesis the pairing fails: CaptureEnd 1, byte, CaptureStart 1 *)
Definition unnested_nfa : nfa :=
  mkNfa [SCapture 1 false 1; SByteRange 97 97 2; SCapture 1 true 3; SMatch] 0 0 2.

Theorem ref_pairs_need_nesting :
  wf_nfa unnested_nfa = true /\
  exists s e sl, find_at unnested_nfa [97%N] 0 = Done (Some (s, e, sl)) /\
                 wf_slots 1 (caps_of s e sl) = true /\ wf_caps 1 (caps_of s e sl) = false.
Proof.
  split; [reflexivity|]. exists 0%nat, 1%nat, [-1; -1; 1; 0].
  split; [vm_compute; reflexivity|]. split; reflexivity.
Qed.

(* ------------------------------------------------------------------------- *)
(* the specification loop (regexp's allMatches) over a well-formed single-match function     *)
(* ------------------------------------------------------------------------- *)

Definition span_caps (m : nat * nat) : list Z := [Z.of_nat (fst m); Z.of_nat (snd m)].

Lemma chain_wf_all h : forall l lo,
  FindAll.chain_from h lo l -> wf_all_from (Z.of_nat (length h)) lo (map span_caps l) = true.
Proof.
  induction l as [|[s e] t IH]; intros lo H; [reflexivity|].
  cbn [FindAll.chain_from] in H. destruct H as [H1 [H2 [H3 [H4 H5]]]].
  cbn [map wf_all_from].
  unfold span_caps at 1 2 3 4 5 6, m_start, m_end, wf_caps, wf_span. cbn [fst snd nth wf_groups].
  rewrite (IH _ H5).
  destruct (Z.eqb_spec (Z.of_nat s) (Z.of_nat e)) as [He|He]; cbn [negb orb].
  - assert (s = e) by lia. specialize (H4 ltac:(assumption)). lia.
  - lia.
Qed.

Theorem std_all_wf h find_at n :
  FindAll.find_ok FindAll.pair_id h find_at ->
  wf_all (Z.of_nat (length h)) (map span_caps (FindAll.std_all find_at h n)) = true.
Proof.
  intros Hok. apply chain_wf_all. apply FindAll.std_all_sorted_disjoint. exact Hok.
Qed.

(* the same loop over capture lists (FindAllSubmatchIndex): every element is a value the
   single-match function returned *)
Lemma std_loop_from {T} (span : T -> nat * nat) h (find_at : nat -> option T) :
  forall g pos prev k r,
    FindAll.std_loop span h find_at g pos prev k = Some r ->
    Forall (fun a => exists p, find_at p = Some a) r.
Proof.
  induction g as [|g IH]; intros pos prev k r Hr.
  - destruct ((k =? 0)%nat || (length h <? pos)%nat) eqn:Hc.
    + rewrite FindAll.std_loop_stop in Hr by exact Hc. inversion Hr. constructor.
    + rewrite FindAll.std_loop_0 in Hr by exact Hc. discriminate.
  - destruct ((k =? 0)%nat || (length h <? pos)%nat) eqn:Hc.
    + rewrite FindAll.std_loop_stop in Hr by exact Hc. inversion Hr. constructor.
    + rewrite FindAll.std_loop_S in Hr by exact Hc.
      destruct (find_at pos) as [a|] eqn:Hf; [|inversion Hr; constructor].
      destruct (span a) as [s e]. cbv zeta in Hr.
      match type of Hr with option_map _ ?x = _ => destruct x as [r'|] eqn:Hx end; [|discriminate].
      cbn [option_map] in Hr. inversion Hr as [Hr']. clear Hr.
      pose proof (IH _ _ _ _ Hx) as Hall.
      destruct (negb ((e =? pos)%nat && (Z.of_nat s =? prev))); [|exact Hall].
      constructor; [exists pos; exact Hf|exact Hall].
Qed.

Definition caps_span (m : list Z) : nat * nat := (Z.to_nat (m_start m), Z.to_nat (m_end m)).

Lemma chain_wf_all_caps h : forall (l : list (list Z)) lo,
  Forall (fun m => wf_caps (Z.of_nat (length h)) m = true) l ->
  FindAll.chain_from h lo (map caps_span l) ->
  wf_all_from (Z.of_nat (length h)) lo l = true.
Proof.
  induction l as [|m t IH]; intros lo Hall H; [reflexivity|].
  inversion Hall as [|? ? Hm Ht]; subst.
  cbn [map FindAll.chain_from] in H. unfold caps_span at 1 in H.
  destruct H as [H1 [H2 [H3 [H4 H5]]]].
  pose proof (wf_caps_span _ _ Hm) as Hs.
  cbn [wf_all_from]. rewrite Hm. rewrite Z2Nat.id in * by lia.
  rewrite (IH _ Ht H5). cbn [andb].
  destruct (Z.eqb_spec (m_start m) (m_end m)) as [He|He]; cbn [negb orb].
  - assert (Z.to_nat (m_start m) = Z.to_nat (m_end m)) as He' by lia. specialize (H4 He'). lia.
  - lia.
Qed.

Theorem std_all_caps_wf h (submatch_at : nat -> option (list Z)) n :
  (forall p m, submatch_at p = Some m ->
     wf_caps (Z.of_nat (length h)) m = true /\ Z.of_nat p <= m_start m) ->
  wf_all (Z.of_nat (length h)) (FindAll.std_all_gen caps_span h submatch_at n) = true.
Proof.
  intros Hsub.
  assert (Hok : FindAll.find_ok caps_span h submatch_at).
  { intros p a Ha. destruct (Hsub p a Ha) as [Hw Hp]. pose proof (wf_caps_span _ _ Hw).
    unfold caps_span. cbn [fst snd]. lia. }
  apply chain_wf_all_caps; [|apply (FindAll.std_all_gen_sorted_disjoint Hok)].
  pose proof (FindAll.std_all_opt_eq caps_span h submatch_at Hok n) as Heq.
  unfold FindAll.std_all_opt in Heq. apply std_loop_from in Heq.
  eapply Forall_impl; [|exact Heq]. cbn. intros a [p Hp]. now destruct (Hsub p a Hp).
Qed.

(* ========================================================================= *)
(** * Part 3: memory accesses and termination of the modelled loops            *)
(* ========================================================================= *)

(* A Go index expression haystack[i]: the value (None = run-time panic, index out of range)
   and the index that was read. *)
Definition rd (h : hay) (i : nat) : option N * list nat := (nth_error h i, [i]).

(* nfa/pikevm.go: checkLookAssertion, with every haystack access logged and the guards of the
   Go source (pos > 0 && …, pos < len(haystack) && …) made explicit *)
Definition word_at_log (h : hay) (guard : bool) (i : nat) : option bool * list nat :=
  if guard then
    match rd h i with (Some b, l) => (Some (is_word_byte b), l) | (None, l) => (None, l) end
  else (Some false, []).

Definition nl_at_log (h : hay) (i : nat) : option bool * list nat :=
  match rd h i with (Some b, l) => (Some (b =? 10)%N, l) | (None, l) => (None, l) end.

Definition look_log (lk : look) (h : hay) (p : nat) : option bool * list nat :=
  match lk with
  | LStartText => (Some (p =? 0)%nat, [])
  | LEndText => (Some (p =? length h)%nat, [])
  | LStartLine =>
      if (p =? 0)%nat then (Some true, [])
      else if (0 <? p)%nat then nl_at_log h (p - 1) else (Some false, [])
  | LEndLine =>
      if (p =? length h)%nat then (Some true, [])
      else if (p <? length h)%nat then nl_at_log h p else (Some false, [])
  | LWordB =>
      let '(wb, l1) := word_at_log h (0 <? p)%nat (p - 1) in
      let '(wa, l2) := word_at_log h (p <? length h)%nat p in
      (match wb, wa with Some x, Some y => Some (negb (eqb x y)) | _, _ => None end, l1 ++ l2)
  | LNoWordB =>
      let '(wb, l1) := word_at_log h (0 <? p)%nat (p - 1) in
      let '(wa, l2) := word_at_log h (p <? length h)%nat p in
      (match wb, wa with Some x, Some y => Some (eqb x y) | _, _ => None end, l1 ++ l2)
  end.

Definition read_ok (h : hay) (p : nat) (i : nat) : Prop := (i < length h)%nat /\ (i = p \/ i = (p - 1)%nat /\ (0 < p)%nat).

Lemma word_before_log h p : (p <= length h)%nat ->
  fst (word_at_log h (0 <? p)%nat (p - 1)) = Some (word_before h p) /\
  Forall (read_ok h p) (snd (word_at_log h (0 <? p)%nat (p - 1))).
Proof.
  intros Hp. unfold word_at_log, rd, word_before. destruct p as [|p']; cbn [Nat.ltb Nat.leb].
  - split; [reflexivity|constructor].
  - replace (S p' - 1)%nat with p' by lia.
    destruct (nth_error h p') as [b|] eqn:E.
    + cbn [fst snd]. split; [reflexivity|]. constructor; [|constructor]. unfold read_ok. lia.
    + apply nth_error_None in E. lia.
Qed.

Lemma word_after_log h p :
  fst (word_at_log h (p <? length h)%nat p) = Some (word_after h p) /\
  Forall (read_ok h p) (snd (word_at_log h (p <? length h)%nat p)).
Proof.
  unfold word_at_log, rd, word_after. destruct (Nat.ltb_spec p (length h)) as [Hl|Hl].
  - destruct (nth_error h p) as [b|] eqn:E.
    + cbn [fst snd]. split; [reflexivity|]. constructor; [|constructor]. unfold read_ok. lia.
    + apply nth_error_None in E. lia.
  - assert (nth_error h p = None) as -> by (apply nth_error_None; lia).
    split; [reflexivity|constructor].
Qed.

(* look-around never panics, computes look_ok, and reads only h[p-1] and h[p], both inside
   the haystack *)
Theorem look_reads_in_bounds lk h p : (p <= length h)%nat ->
  fst (look_log lk h p) = Some (look_ok lk h p) /\ Forall (read_ok h p) (snd (look_log lk h p)).
Proof.
  intros Hp. destruct lk; cbn [look_log look_ok].
  - split; [reflexivity|constructor].
  - split; [reflexivity|constructor].
  - destruct p as [|p']; [split; [reflexivity|constructor]|].
    cbn [Nat.eqb Nat.ltb Nat.leb orb]. replace (S p' - 1)%nat with p' by lia.
    unfold nl_at_log, rd, is_nl. destruct (nth_error h p') as [b|] eqn:E.
    + cbn [fst snd]. split; [reflexivity|]. constructor; [|constructor]. unfold read_ok. lia.
    + apply nth_error_None in E. lia.
  - destruct (Nat.eqb_spec p (length h)) as [He|He]; [split; [reflexivity|constructor]|].
    assert ((p <? length h)%nat = true) as -> by (apply Nat.ltb_lt; lia).
    unfold nl_at_log, rd, is_nl. cbn [orb]. destruct (nth_error h p) as [b|] eqn:E.
    + cbn [fst snd]. split; [reflexivity|]. constructor; [|constructor]. unfold read_ok. lia.
    + apply nth_error_None in E. lia.
  - destruct (word_before_log h p Hp) as [B1 B2]. destruct (word_after_log h p) as [A1 A2].
    destruct (word_at_log h (0 <? p)%nat (p - 1)) as [wb l1].
    destruct (word_at_log h (p <? length h)%nat p) as [wa l2]. cbn [fst snd] in *. subst wb wa.
    split; [reflexivity|]. apply Forall_app. split; assumption.
  - destruct (word_before_log h p Hp) as [B1 B2]. destruct (word_after_log h p) as [A1 A2].
    destruct (word_at_log h (0 <? p)%nat (p - 1)) as [wb l1].
    destruct (word_at_log h (p <? length h)%nat p) as [wa l2]. cbn [fst snd] in *. subst wb wa.
    split; [reflexivity|]. apply Forall_app. split; assumption.
Qed.

(* the step function with its access log.  nfa/backtrack.go / nfa/pikevm.go test
   `pos < len(haystack)` before reading haystack[pos]. *)
Definition succs_log (h : hay) (st : nstate) (p : nat) (sl : slots)
  : option (list (nat * nat * slots)) * list nat :=
  match st with
  | SMatch | SFail => (Some [], [])
  | SByteRange lo hi nx =>
      if (p <? length h)%nat then
        match rd h p with
        | (Some b, l) => (Some (if in_range lo hi b then [(nx, S p, sl)] else []), l)
        | (None, l) => (None, l)
        end
      else (Some [], [])
  | SSparse trs =>
      if (p <? length h)%nat then
        match rd h p with
        | (Some b, l) => (Some (match sparse_next trs b with Some nx => [(nx, S p, sl)] | None => [] end), l)
        | (None, l) => (None, l)
        end
      else (Some [], [])
  | SSplit l r => (Some [(l, p, sl); (r, p, sl)], [])
  | SEpsilon nx => (Some [(nx, p, sl)], [])
  | SCapture idx st nx => (Some [(nx, p, set_nth sl (slot_of idx st) (Z.of_nat p))], [])
  | SLook lk nx =>
      match look_log lk h p with
      | (Some b, l) => (Some (if b then [(nx, p, sl)] else []), l)
      | (None, l) => (None, l)
      end
  end.

(* the logged step never panics, equals succs, and reads only h[p] / h[p-1] inside h *)
Theorem succs_reads_in_bounds h st p sl : (p <= length h)%nat ->
  fst (succs_log h st p sl) = Some (succs h st p sl) /\ Forall (read_ok h p) (snd (succs_log h st p sl)).
Proof.
  intros Hp. destruct st; cbn [succs_log succs]; try (split; [reflexivity|constructor]).
  - destruct (Nat.ltb_spec p (length h)) as [Hl|Hl].
    + unfold rd. destruct (nth_error h p) as [b|] eqn:E.
      * cbn [fst snd]. split; [reflexivity|]. constructor; [|constructor]. unfold read_ok. lia.
      * apply nth_error_None in E. lia.
    + assert (nth_error h p = None) as -> by (apply nth_error_None; lia). split; [reflexivity|constructor].
  - destruct (Nat.ltb_spec p (length h)) as [Hl|Hl].
    + unfold rd. destruct (nth_error h p) as [b|] eqn:E.
      * cbn [fst snd]. split; [reflexivity|]. constructor; [|constructor]. unfold read_ok. lia.
      * apply nth_error_None in E. lia.
    + assert (nth_error h p = None) as -> by (apply nth_error_None; lia). split; [reflexivity|constructor].
  - destruct (look_reads_in_bounds lk h p Hp) as [L1 L2].
    destruct (look_log lk h p) as [ob l]. cbn [fst snd] in *. subst ob. split; [reflexivity|exact L2].
Qed.

(* every configuration the reference search can reach from a start position inside the
   haystack reads inside the haystack *)
Theorem search_reads_in_bounds A h s q p st sl :
  wf_nfa A = true -> (s <= length h)%nat ->
  reach A h (start_anch A, s) (q, p) -> nth_error (states A) q = Some st ->
  fst (succs_log h st p sl) = Some (succs h st p sl) /\
  Forall (fun i => (i < length h)%nat) (snd (succs_log h st p sl)).
Proof.
  intros Hwf Hs Hr Hst.
  pose proof (NfaRef.reach_pos A h Hwf _ _ Hr Hs) as Hp. cbn [snd] in Hp.
  destruct (succs_reads_in_bounds h st p sl ltac:(lia)) as [H1 H2]. split; [exact H1|].
  eapply Forall_impl; [|exact H2]. intros i [Hi _]. exact Hi.
Qed.

(* re-exported statements about the modelled implementation loops *)
Theorem swar_reads_in_bounds : forall h b1 b2 offset, (b1 < 256)%N -> (b2 < 256)%N -> Swar.bytes h ->
  Swar.memchr_pair_swar h b1 b2 offset <> Swar.PANIC /\ Swar.memchr_pair_swar h b1 b2 offset <> Swar.OUT_OF_FUEL.
Proof. exact Swar.swar_reads_in_bounds. Qed.

Theorem bt_idx_in_bounds : forall (W : N), (2 <= W)%N -> forall (A : nfa) (h : hay) (lo : nat) (st : Backtrack.bstate) (q p : nat),
  Backtrack.bt_ok A h lo st -> dom A h lo (q, p) -> (Backtrack.idx st q p < Backtrack.vlen st)%nat.
Proof. exact Backtrack.bt_idx_in_bounds. Qed.

Theorem bt_total : forall (W : N), (2 <= W)%N -> forall (A : nfa) (max_visited : nat), wf_nfa A = true ->
  forall (st : Backtrack.bstate) (h : hay) (at_ : nat), Backtrack.bt_inv W st ->
  fst (Backtrack.bt_is_match W A max_visited st h) <> OutOfFuel /\
  fst (Backtrack.bt_is_match_anchored W A max_visited st h) <> OutOfFuel /\
  fst (Backtrack.bt_search_at W A max_visited st h at_) <> OutOfFuel.
Proof. exact Backtrack.bt_total. Qed.

Theorem find_at_total : forall (A : nfa) (h : hay), wf_nfa A = true -> forall at_, find_at A h at_ <> OutOfFuel.
Proof. exact NfaRef.find_at_total. Qed.

(* the reference search is total and returns "no match" for an offset past the end *)
Theorem find_at_past_end A h at_ : (length h < at_)%nat -> find_at A h at_ = Done None.
Proof. intros H. unfold find_at. apply Nat.ltb_lt in H. now rewrite H. Qed.

(* ========================================================================= *)
(** * Part 4: case checker                                                     *)
(* ========================================================================= *)

(* kind: 0 = span [s;e] (FindIndex & co), 1 = capture list (FindSubmatchIndex),
   2 = list of matches (FindAll*Index; obs = the lists concatenated, width = entries per match),
   3 = Split pieces (arg = n).  The expected verdict is `true` for every value the
   implementation returns. *)
Record case := mkCase {
  c_id : N;
  c_len : Z;
  c_kind : N;
  c_width : nat;      (* kind 2: entries per match (2 * (NumSubexp+1) or 2) *)
  c_arg : Z;          (* kind 3: n *)
  c_obs : list Z
}.

Fixpoint chunks (fuel width : nat) (l : list Z) : list (list Z) :=
  match fuel with
  | O => []
  | S f => match l with [] => [] | _ => firstn width l :: chunks f width (skipn width l) end
  end.

Definition check_case (c : case) : bool :=
  match c_kind c with
  | 0%N => match c_obs c with [s; e] => wf_span (c_len c) s e | _ => false end
  | 1%N => wf_caps (c_len c) (c_obs c)
  | 2%N => (2 <=? c_width c)%nat && (length (c_obs c) mod c_width c =? 0)%nat &&
           wf_all (c_len c) (chunks (length (c_obs c)) (c_width c) (c_obs c))
  | 3%N => wf_split (c_len c) (c_arg c) (c_obs c)
  | _ => false
  end.

Definition mismatches (cs : list case) : list N :=
  map c_id (filter (fun c => negb (check_case c)) cs).

(* sanity of the checker on hand-written values *)
Example check_examples :
  map check_case
    [ mkCase 0 5 0 0 0 [1; 3]; mkCase 1 5 0 0 0 [4; 6]; mkCase 2 5 0 0 0 [3; 2];
      mkCase 3 44 1 0 0 [0; 44; -1; -1; 38; 44; 38; 40];
      mkCase 4 44 1 0 0 [0; 44; -1; -1; 44; 44; 44; 40];
      mkCase 5 3 2 2 0 [0; 0; 1; 1; 2; 2; 3; 3]; mkCase 6 3 2 2 0 [0; 1; 1; 1];
      mkCase 7 3 2 2 0 [3; 3; 3; 3]; mkCase 8 3 2 4 0 [0; 2; 0; 1; 2; 3; -1; -1];
      mkCase 9 3 2 2 0 [0; 2; 1; 3]; mkCase 10 5 3 0 (-1) [0; 2; -1; -1; 3; 5];
      mkCase 11 5 3 0 1 [0; 2; 3; 5]; mkCase 12 5 3 0 0 [] ]
  = [true; false; false; true; false; true; false; false; true; false; true; false; true].
Proof. vm_compute. reflexivity. Qed.
