(* The lazy DFA's SearchAt (break-at-match, look-free NFA, compiler-shaped unanchored prefix)
   returns exactly the end of the leftmost-first reference match — statements only.
   Proofs: DfaPrio.v. *)
From Coq Require Import List NArith Arith.
From CV Require Import Nfa NfaRef Dfa DfaRef DfaCache DfaTop DfaPrio.
Import ListNotations.

Theorem DfaPrio_p_search_at_is_ref :
  forall (A : nfa) (cfg : dconfig) (h : hay) (at_ : nat) (o : option nat),
  wf_nfa A = true -> no_look A = true -> prefix_ok A = true -> prefix_sep A = true -> bytes_ok h ->
  cfg_break cfg = true ->
  p_search_at A cfg h at_ = RDfa o -> o = ref_end A h at_.
Proof. exact p_search_at_is_ref. Qed.
Print Assumptions DfaPrio_p_search_at_is_ref.

Theorem DfaPrio_p_search_at_is_ref' :
  forall (A : nfa) (cfg : dconfig) (h : hay) (at_ : nat),
  wf_nfa A = true -> no_look A = true -> prefix_ok A = true -> prefix_sep A = true -> bytes_ok h ->
  cfg_break cfg = true -> p_search_at A cfg h at_ <> RFallback ->
  p_search_at A cfg h at_ =
    RDfa (match find_at A h at_ with Done (Some (_, e, _)) => Some e | _ => None end).
Proof. exact p_search_at_is_ref'. Qed.
Print Assumptions DfaPrio_p_search_at_is_ref'.

Theorem DfaPrio_fin_end_search_at_is_ref :
  forall (A : nfa) (cfg : dconfig) (h : hay) (at_ : nat),
  wf_nfa A = true -> no_look A = true -> prefix_ok A = true -> prefix_sep A = true -> bytes_ok h ->
  cfg_break cfg = true ->
  fin_end A h at_ (p_search_at A cfg h at_) = ref_end A h at_.
Proof. exact fin_end_search_at_is_ref. Qed.
Print Assumptions DfaPrio_fin_end_search_at_is_ref.

Theorem DfaPrio_dfa_search_at_cached_is_ref :
  forall (A : nfa) (cfg : dconfig),
  wf_nfa A = true -> no_look A = true -> prefix_ok A = true -> prefix_sep A = true ->
  (forall (ids : list nat) (b b' : N),
   class_of cfg b = class_of cfg b' -> cdet A cfg ids b = cdet A cfg ids b') ->
  runs_ok 0 (cfg_classes cfg) (stride cfg) = true ->
  cfg_sorted_key cfg = false -> cfg_loose_accel cfg = false ->
  cfg_old_entry cfg = false -> cfg_accel_no_eoi cfg = false ->
  cfg_break cfg = true ->
  forall (h : hay) (c : cache) (at_ : nat),
  bytes_ok h -> cinv A cfg c -> accel_sound A cfg c ->
  snd (dfa_search_at A cfg c h at_) = ref_end A h at_.
Proof. exact dfa_search_at_cached_is_ref. Qed.
Print Assumptions DfaPrio_dfa_search_at_cached_is_ref.

Theorem DfaPrio_dfa_search_at_any_history_is_ref :
  forall (A : nfa) (cfg : dconfig),
  wf_nfa A = true -> no_look A = true -> prefix_ok A = true -> prefix_sep A = true ->
  (forall (ids : list nat) (b b' : N),
   class_of cfg b = class_of cfg b' -> cdet A cfg ids b = cdet A cfg ids b') ->
  runs_ok 0 (cfg_classes cfg) (stride cfg) = true ->
  cfg_sorted_key cfg = false -> cfg_loose_accel cfg = false ->
  cfg_old_entry cfg = false -> cfg_accel_no_eoi cfg = false ->
  cfg_break cfg = true ->
  forall (ks : list call) (h : hay) (at_ : nat),
  fwd_hist ks -> bytes_ok h ->
  snd (dfa_search_at A cfg (run_calls A cfg new_cache ks) h at_) = ref_end A h at_.
Proof. exact dfa_search_at_any_history_is_ref. Qed.
Print Assumptions DfaPrio_dfa_search_at_any_history_is_ref.

Theorem DfaPrio_p_search_at_without_sep_refuted :
  wf_nfa sep_nfa = true /\ no_look sep_nfa = true /\ prefix_ok sep_nfa = true /\ prefix_sep sep_nfa = false /\
  p_search_at sep_nfa (nb_cfg true) [97; 97]%N 0 = RDfa (Some 1) /\
  ref_end sep_nfa [97; 97]%N 0 = Some 2.
Proof. exact p_search_at_without_sep_refuted. Qed.
Print Assumptions DfaPrio_p_search_at_without_sep_refuted.
