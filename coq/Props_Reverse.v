(* Props_Reverse.v — property theorems about the reverse-NFA construction nfa/reverse.go
   (property C14); proofs in Reverse.v. *)
From Coq Require Import List NArith.
From CV Require Import Nfa Reverse.
Import ListNotations.

Theorem C14_reverse_sound : forall anchored A h i j,
  wf_nfa A = true -> no_look A = true -> prefix_shape A = true ->
  rpath (reverse_nfa anchored A) h (start_anch (reverse_nfa anchored A)) j i ->
  nfa_path A h (start_anch A) i j.
Proof. exact reverse_sound. Qed.
Print Assumptions C14_reverse_sound.

Theorem C14_reverse_complete : forall anchored A h i j,
  wf_nfa A = true -> no_look A = true -> prefix_shape A = true ->
  nfa_path A h (start_anch A) i j ->
  rpath (reverse_nfa anchored A) h (start_anch (reverse_nfa anchored A)) j i.
Proof. exact reverse_complete. Qed.
Print Assumptions C14_reverse_complete.

Theorem C14_reverse_leftmost_start : forall anchored A h i j,
  wf_nfa A = true -> no_look A = true -> prefix_shape A = true ->
  (leftmost_rstart (reverse_nfa anchored A) h j i <-> leftmost_fstart A h j i).
Proof. exact reverse_leftmost_start. Qed.
Print Assumptions C14_reverse_leftmost_start.

Theorem C14_reverse_unanchored_no_overrun : forall A h i j,
  wf_nfa A = true -> no_look A = true -> prefix_shape A = true ->
  ~ nfa_path A h (start_anch A) i j ->
  ~ rpath (reverse_nfa false A) h (start_anch (reverse_nfa false A)) j i.
Proof. exact reverse_unanchored_no_overrun. Qed.
Print Assumptions C14_reverse_unanchored_no_overrun.

Theorem C14_reverse_case_sound : forall c, check_case c = true -> no_look (c_fwd c) = true ->
  forall h i j,
    (nfa_path (c_fwd c) h (start_anch (c_fwd c)) i j <->
     rpath (c_rev_anch c) h (start_anch (c_rev_anch c)) j i) /\
    (nfa_path (c_fwd c) h (start_anch (c_fwd c)) i j <->
     rpath (c_rev_unanch c) h (start_anch (c_rev_unanch c)) j i).
Proof. exact check_case_sound. Qed.
Print Assumptions C14_reverse_case_sound.

Theorem C14_reverse_look_refuted :
  exists A h i j, wf_nfa A = true /\ prefix_shape A = true /\ no_look A = false /\
    rpath (reverse_nfa true A) h (start_anch (reverse_nfa true A)) j i /\
    rpath (reverse_nfa false A) h (start_anch (reverse_nfa false A)) j i /\
    ~ nfa_path A h (start_anch A) i j.
Proof. exact reverse_look_refuted. Qed.
Print Assumptions C14_reverse_look_refuted.

Theorem C14_reverse_start_loop_original_refuted :
  wf_nfa loop_nfa = true /\ no_look loop_nfa = true /\ prefix_shape loop_nfa = true /\
  nfa_path loop_nfa loop_hay (start_anch loop_nfa) 0 7 /\
  rpath (reverse_nfa true loop_nfa) loop_hay (start_anch (reverse_nfa true loop_nfa)) 7 0 /\
  ~ rpath (reverse_nfa_original true loop_nfa) loop_hay (start_anch (reverse_nfa_original true loop_nfa)) 7 0 /\
  ~ rpath (reverse_nfa_original false loop_nfa) loop_hay (start_anch (reverse_nfa_original false loop_nfa)) 7 0.
Proof. exact reverse_start_loop_original_refuted. Qed.
Print Assumptions C14_reverse_start_loop_original_refuted.
