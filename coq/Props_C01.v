(* C01 — statements only.  The boolean decision of the reference simulation on the NFA that
   /repo's compiler produced for the pattern is exactly "some position has an accepting
   path"; the bounded backtracker's boolean entry point computes the same from any reusable
   state.  (That the compiled NFA denotes the pattern is checked per pattern: C15 + the
   correspondence with regexp.) *)
From Coq Require Import List NArith.
From CV Require Import Nfa NfaRef Backtrack.

Theorem C01_is_match_ref_true :
  forall A h, wf_nfa A = true ->
  (is_match_ref A h = Done true <-> exists s e, s <= length h /\ nfa_path A h (start_anch A) s e).
Proof. exact is_match_ref_true. Qed.
Print Assumptions C01_is_match_ref_true.

Theorem C01_is_match_ref_total : forall A h, wf_nfa A = true -> is_match_ref A h <> OutOfFuel.
Proof. exact is_match_ref_total. Qed.
Print Assumptions C01_is_match_ref_total.

Theorem C01_no_match_means_no_path :
  forall A h, wf_nfa A = true -> forall at_, find_at A h at_ = Done None ->
  forall s, at_ <= s <= length h -> forall e, ~ nfa_path A h (start_anch A) s e.
Proof. exact find_at_none. Qed.
Print Assumptions C01_no_match_means_no_path.

Theorem C01_backtracker_bool_correct :
  forall W, (2 <= W)%N -> forall A max_visited, wf_nfa A = true ->
  forall st h, bt_inv W st -> can_handle A max_visited (length h) = true ->
  (fst (bt_is_match W A max_visited st h) = Done true <->
   exists s e, s <= length h /\ nfa_path A h (start_anch A) s e).
Proof. exact bt_is_match_correct. Qed.
Print Assumptions C01_backtracker_bool_correct.
