(* DfaCache.v — cache transparency of the lazy DFA model (property C13 for dfa/lazy: "results
   do not depend on history"): the cache machine of Dfa.v (layer C) computes what the
   cache-free searches (layer P) compute, for ANY cache satisfying the invariant `cinv`
   ("every cached transition equals the pure determinisation"), ANY capacity and ANY number of
   clears — or it gives up and the caller runs the NFA fallback.

   The statement is FALSE for the faithful model without guards; the guards are exact:
     Hwb    has_wb A = false      word-boundary patterns: the start-state fast transition of
                                   searchAt / searchEarliestMatch skips the \b shortcut, start
                                   states carry no precomputed \b flags, resolveWordBoundaries
                                   sorts the set (priority order lost)
     Hcls   class_sound           the byte classes separate what determinisation distinguishes
     Hkey   cfg_sorted_key = false   the CURRENT key is the id list in order (33a0339); with the
                                   original sorted key the statement is false
                                   (key_collapse_original_refuted)
     accel_ok (searchAt, searchEarliestMatch only)   no state has acceleration bytes and every
                                   unchecked state has an empty row: preserved by these two loops,
                                   NOT by SearchFirstAt / SearchAtAnchored (refuted below:
                                   accel_history_refuted, the real code reproduces the witness)
     start state cached           an id-less start state (cache full) reads row 0 *)
From Coq Require Import List NArith ZArith Lia Bool Arith PeanoNat.
From CV Require Import Nfa Dfa.
Import ListNotations.

(* ------------------------------------------------------------------ small list facts *)
Lemma list_eqb_eq a : forall b, list_eqb a b = true -> a = b.
Proof.
  induction a as [|x a IH]; intros [|y b] H; cbn in H; try discriminate; auto.
  apply andb_prop in H as [H1 H2]. apply Nat.eqb_eq in H1. subst. f_equal. auto.
Qed.

Lemma key_eqb_true k1 k2 : key_eqb k1 k2 = true -> fst (fst k1) = fst (fst k2) /\ snd k1 = snd k2.
Proof.
  unfold key_eqb. intros H. apply andb_prop in H as [H H3]. apply andb_prop in H as [H1 H2].
  split; [now apply list_eqb_eq|now apply eqb_prop].
Qed.

Lemma nth_set_nth_tid l : forall i j v,
  nth j (set_nth_tid l i v) TInvalid = if (j =? i) && (i <? length l) then v else nth j l TInvalid.
Proof.
  induction l as [|x l IH]; intros i j v.
  - cbn. destruct i, j; cbn; try reflexivity; now rewrite andb_false_r.
  - destruct i as [|i], j as [|j]; cbn [set_nth_tid nth length]; try reflexivity.
    rewrite IH. cbn [Nat.eqb]. replace (S i <? S (length l)) with (i <? length l); [reflexivity|].
    destruct (Nat.ltb_spec i (length l)), (Nat.ltb_spec (S i) (S (length l))); auto; lia.
Qed.

Lemma set_nth_tid_length l : forall i v, length (set_nth_tid l i v) = length l.
Proof. induction l as [|x l IH]; intros [|i] v; cbn; auto. Qed.

(* ------------------------------------------------------------------ slots *)
Lemma upd_nth_length l : forall i f, length (upd_nth l i f) = length l.
Proof. induction l as [|o l IH]; intros [|i] f; cbn; auto. Qed.

Lemma nth_error_upd_nth l : forall i j f,
  nth_error (upd_nth l i f) j = if j =? i then option_map (option_map f) (nth_error l j) else nth_error l j.
Proof.
  induction l as [|o l IH]; intros i j f.
  - assert (H : upd_nth [] i f = []) by (destruct i; reflexivity). rewrite H.
    assert (Hn : nth_error (@nil (option cstate)) j = None) by (destruct j; reflexivity).
    rewrite Hn. destruct (j =? i); reflexivity.
  - destruct i as [|i], j as [|j]; cbn [upd_nth nth_error Nat.eqb]; auto.
Qed.

Lemma slot_upd c i f j :
  slot (upd_slot c i f) j = if j =? i then option_map f (slot c j) else slot c j.
Proof.
  unfold slot, upd_slot. cbn [c_slots]. rewrite nth_error_upd_nth.
  destruct (j =? i); [|reflexivity].
  destruct (nth_error (c_slots c) j) as [[s|]|]; reflexivity.
Qed.


Lemma slot_push cfg c d c' j :
  push cfg c d = (c', j) ->
  slot c' j = Some (mkCS d false None (blank_row cfg)) /\
  (forall i, i <> j -> slot c' i = slot c i) /\ slot c j = None /\
  c_stab c' = c_stab c /\ c_clears c' = c_clears c /\ 1 <= j.
Proof.
  unfold push. destruct (c_slots c) as [|o l] eqn:E.
  - intros H; inversion H; subst; clear H.
    unfold slot; cbn [c_slots c_stab c_clears nth_error]. rewrite E. repeat split; auto.
    intros [|[|i]] Hi; cbn; auto; try lia. now destruct i.
  - remember (o :: l) as sl eqn:Esl. assert (Hpos : 0 < length sl) by (subst; cbn; lia).
    clear Esl. intros H; inversion H; subst c' j; clear H.
    unfold slot; cbn [c_slots c_stab c_clears]. rewrite E.
    rewrite nth_error_app2 by lia. rewrite Nat.sub_diag. cbn [nth_error].
    repeat split; auto.
    + intros i Hi. destruct (Nat.lt_ge_cases i (length sl)) as [Hl|Hl].
      * now rewrite nth_error_app1.
      * rewrite nth_error_app2 by lia. assert (Hn : nth_error sl i = None) by (apply nth_error_None; lia).
        rewrite Hn. destruct (i - length sl) as [|k] eqn:Ek; [lia|]. cbn. now destruct k.
    + assert (Hn : nth_error sl (length sl) = None) by (apply nth_error_None; lia).
      now rewrite Hn.
Qed.

Lemma find_key_from_some cfg k l : forall i j,
  find_key_from cfg k l i = Some j ->
  exists s, nth_error l (j - i) = Some (Some s) /\ i <= j /\ key_eqb (key_of cfg (cs_d s)) k = true.
Proof.
  induction l as [|o l IH]; intros i j H; cbn in H; [discriminate|].
  destruct o as [s|].
  - destruct (key_eqb (key_of cfg (cs_d s)) k) eqn:E.
    + inversion H; subst. rewrite Nat.sub_diag. exists s. cbn. auto.
    + destruct (IH _ _ H) as [s' [H1 [H2 H3]]]. exists s'. split; [|split; [lia|auto]].
      replace (j - i) with (S (j - S i)) by lia. exact H1.
  - destruct (IH _ _ H) as [s' [H1 [H2 H3]]]. exists s'. split; [|split; [lia|auto]].
    replace (j - i) with (S (j - S i)) by lia. exact H1.
Qed.

Lemma find_key_some cfg c k j :
  find_key cfg c k = Some j -> exists s, slot c j = Some s /\ key_eqb (key_of cfg (cs_d s)) k = true.
Proof.
  unfold find_key. intros H. destruct (find_key_from_some _ _ _ _ _ H) as [s [H1 [_ H3]]].
  rewrite Nat.sub_0_r in H1. exists s. unfold slot. now rewrite H1.
Qed.

Lemma stab_idx_inj k a k' a' : stab_idx k a = stab_idx k' a' -> k = k' /\ a = a'.
Proof. destruct k, a, k', a'; cbn; intros H; try discriminate; auto. Qed.

Lemma stab_idx_lt k a : stab_idx k a < 10.
Proof. destruct k, a; cbn; lia. Qed.

Lemma nth_repeat_tid n i : nth i (repeat TInvalid n) TInvalid = TInvalid.
Proof. revert i. induction n; intros [|i]; cbn; auto. Qed.


(* lia on the arithmetic hypotheses only: zify scans every hypothesis, and the loop lemmas carry
   very large ones *)
Ltac keep_arith :=
  repeat match goal with
  | H : ?T |- _ =>
      lazymatch T with
      | @eq nat _ _ => fail
      | ~ (@eq nat _ _) => fail
      | le _ _ => fail
      | lt _ _ => fail
      | _ /\ _ => fail
      | _ => lazymatch type of T with Prop => clear H | _ => fail end
      end
  end.
Ltac clia := keep_arith; lia.

(* a history of calls on one cache *)
Fixpoint run_calls (A : nfa) (cfg : dconfig) (c : cache) (ks : list call) : cache :=
  match ks with [] => c | k :: t => run_calls A cfg (fst (run_call A cfg c k)) t end.

(* ------------------------------------------------------------------ transparency *)
Section Transparency.
  Variable A : nfa.
  Variable cfg : dconfig.
  Hypothesis Hwb : has_wb A = false.

  (* determinisation on the id list alone (without word boundaries nothing else matters) *)
  Inductive cres := CDead | CLimit | CNext (ids : list nat) (m : bool).

  Definition cdet (ids : list nat) (b : N) : cres :=
    match pdet A cfg (mkD ids false false false false) b with
    | DDead => CDead | DLimit => CLimit | DNext s => CNext (d_ids s) (d_match s)
    end.

  Lemma pdet_cdet d b :
    pdet A cfg d b =
    match cdet (d_ids d) b with
    | CDead => DDead | CLimit => DLimit
    | CNext ids m => DNext (mkD ids (is_word_byte b) m false false)
    end.
  Proof.
    unfold cdet, pdet, move_break. rewrite Hwb. cbn [d_ids d_fw andb].
    destruct ((length _ =? 0) && _); [reflexivity|].
    destruct (cfg_det_limit cfg <? _); reflexivity.
  Qed.

  Lemma resolve_wb_id ids sat : resolve_wb A ids sat = ids.
  Proof.
    unfold resolve_wb.
    assert (Hn : forall q, wb_next A sat q = None).
    { intros q. unfold wb_next. destruct (st_at A q) as [st|] eqn:E; [|reflexivity].
      destruct st; try reflexivity. destruct lk; try reflexivity.
      - exfalso. unfold has_wb in Hwb. apply Bool.not_true_iff_false in Hwb. apply Hwb.
        apply existsb_exists. exists (SLook LWordB next). split; [eapply nth_error_In; exact E|reflexivity].
      - exfalso. unfold has_wb in Hwb. apply Bool.not_true_iff_false in Hwb. apply Hwb.
        apply existsb_exists. exists (SLook LNoWordB next). split; [eapply nth_error_In; exact E|reflexivity]. }
    assert (Hs : forall l cr, wb_seed A sat l cr = cr).
    { induction l as [|q l IH]; intros cr; cbn; [reflexivity|]. rewrite Hn. apply IH. }
    now rewrite Hs.
  Qed.

  Lemma eoi_match_ids d d' : d_ids d = d_ids d' -> eoi_match A d = eoi_match A d'.
  Proof. unfold eoi_match. intros H. now rewrite !resolve_wb_id, H. Qed.

  (* the byte classes separate what determinisation distinguishes *)
  Hypothesis Hcls : forall ids b b', class_of cfg b = class_of cfg b' -> cdet ids b = cdet ids b'.

  (* id lists the DFA can build *)
  Inductive ids_reach : list nat -> Prop :=
  | IR_start k anch : ids_reach (d_ids (pstart A k anch))
  | IR_step ids b ids' m : ids_reach ids -> cdet ids b = CNext ids' m -> ids_reach ids'.

  (* the current, order-preserving cache key (33a0339) *)
  Hypothesis Hkey : cfg_sorted_key cfg = false.

  (* ---------------- the invariant *)
  Definition tid_ok (c : cache) (ids : list nat) (cls : nat) (t : tid) : Prop :=
    match t with
    | TInvalid => True
    | TDead => forall b, class_of cfg b = cls -> cdet ids b = CDead
    | TId j m st => exists s', slot c j = Some s' /\ m = d_match (cs_d s') /\
                     forall b, class_of cfg b = cls -> cdet ids b = CNext (d_ids (cs_d s')) (d_match (cs_d s'))
    end.

  Definition row_ok (c : cache) (s : cstate) : Prop :=
    forall cls, tid_ok c (d_ids (cs_d s)) cls (nth cls (cs_row s) TInvalid).

  Definition stab_ok (c : cache) : Prop :=
    forall k anch,
      match nth (stab_idx k anch) (c_stab c) TInvalid with
      | TInvalid => True
      | TDead => False
      | TId j m st => exists s, slot c j = Some s /\ d_ids (cs_d s) = d_ids (pstart A k anch) /\ d_match (cs_d s) = false
      end.

  Definition cinv (c : cache) : Prop :=
    (forall i s, slot c i = Some s -> ids_reach (d_ids (cs_d s)) /\ row_ok c s) /\
    stab_ok c /\ length (c_stab c) = 10 /\
    (forall s, slot c 0 = Some s -> d_ids (cs_d s) = d_ids (pstart A KText false)).

  Definition ext (c c' : cache) : Prop :=
    forall j s, slot c j = Some s -> exists s', slot c' j = Some s' /\ cs_d s' = cs_d s.

  Lemma tid_ok_ext c c' ids cls t : ext c c' -> tid_ok c ids cls t -> tid_ok c' ids cls t.
  Proof.
    intros He. destruct t as [| |j m st]; cbn; auto.
    intros [s' [H1 [H2 H3]]]. destruct (He _ _ H1) as [s'' [H4 H5]].
    exists s''. rewrite H5. auto.
  Qed.

  Lemma row_ok_ext c c' s : ext c c' -> row_ok c s -> row_ok c' s.
  Proof. intros He H cls. eapply tid_ok_ext; eauto. Qed.

  Lemma cinv_new : cinv new_cache.
  Proof.
    split; [|split; [|split]].
    - intros i s H. unfold slot, new_cache in H. cbn in H. destruct i; discriminate.
    - intros k anch. unfold new_cache. cbn [c_stab]. now rewrite nth_repeat_tid.
    - reflexivity.
    - intros s H. discriminate.
  Qed.

  (* changing only the start tag / acceleration of a slot *)
  Lemma cinv_upd_meta c i f :
    (forall s, cs_d (f s) = cs_d s /\ cs_row (f s) = cs_row s) -> cinv c -> cinv (upd_slot c i f).
  Proof.
    intros Hf [H1 [H2 [H3 H4]]].
    assert (He : ext c (upd_slot c i f)).
    { intros j s Hs. rewrite slot_upd. destruct (j =? i); rewrite Hs; cbn; eexists; split; eauto. apply Hf. }
    split; [|split; [|split]].
    - intros j s Hs. rewrite slot_upd in Hs. destruct (j =? i).
      + destruct (slot c j) as [s0|] eqn:E; [|discriminate]. cbn in Hs. inversion Hs; subst.
        destruct (H1 _ _ E) as [Ha Hb]. destruct (Hf s0) as [Hd Hr]. split; [now rewrite Hd|].
        intros cls. rewrite Hr, Hd. eapply tid_ok_ext; [exact He|apply Hb].
      + destruct (H1 _ _ Hs) as [Ha Hb]. split; [exact Ha|]. eapply row_ok_ext; eauto.
    - intros k anch. specialize (H2 k anch). cbn [upd_slot c_stab].
      destruct (nth (stab_idx k anch) (c_stab c) TInvalid) as [| |j m st]; auto.
      destruct H2 as [s [Ha [Hb Hc]]]. destruct (He _ _ Ha) as [s' [Hd Hx]]. exists s'. rewrite Hx. auto.
    - exact H3.
    - intros s Hs. rewrite slot_upd in Hs. destruct (0 =? i).
      + destruct (slot c 0) as [s0|] eqn:E; [|discriminate]. cbn in Hs. inversion Hs; subst.
        rewrite (proj1 (Hf s0)). now apply H4.
      + now apply H4.
  Qed.

  Lemma ext_upd_meta c i f : (forall s, cs_d (f s) = cs_d s) -> ext c (upd_slot c i f).
  Proof.
    intros Hf j s Hs. rewrite slot_upd. destruct (j =? i); rewrite Hs; cbn; eexists; split; eauto.
  Qed.

  Lemma ext_refl c : ext c c.
  Proof. intros j s H. eauto. Qed.

  Lemma ext_trans c1 c2 c3 : ext c1 c2 -> ext c2 c3 -> ext c1 c3.
  Proof.
    intros H1 H2 j s Hs. destruct (H1 _ _ Hs) as [s' [Ha Hb]]. destruct (H2 _ _ Ha) as [s'' [Hc Hd]].
    exists s''. split; [exact Hc|congruence].
  Qed.

  (* writing one transition *)
  Lemma cinv_set_row c i cls t s :
    cinv c -> slot c i = Some s -> tid_ok c (d_ids (cs_d s)) cls t ->
    cinv (set_row c i cls t) /\ ext c (set_row c i cls t).
  Proof.
    intros [H1 [H2 [H3 H4]]] Hs Ht. unfold set_row.
    set (f := fun s0 => mkCS (cs_d s0) (cs_stag s0) (cs_accel s0) (set_nth_tid (cs_row s0) cls t)).
    assert (He : ext c (upd_slot c i f)) by (apply ext_upd_meta; reflexivity).
    split; [|exact He]. split; [|split; [|split]].
    - intros j s1 Hs1. rewrite slot_upd in Hs1. destruct (Nat.eqb_spec j i) as [->|Hne].
      + rewrite Hs in Hs1. cbn in Hs1. inversion Hs1; subst s1. unfold f. cbn [cs_d cs_row].
        destruct (H1 _ _ Hs) as [Ha Hb]. split; [exact Ha|].
        intros cls'. unfold row_ok in Hb. cbn [cs_row cs_d]. rewrite nth_set_nth_tid.
        destruct ((cls' =? cls) && (cls <? length (cs_row s))) eqn:E.
        * apply andb_prop in E as [E _]. apply Nat.eqb_eq in E. subst. eapply tid_ok_ext; eauto.
        * eapply tid_ok_ext; [exact He|apply Hb].
      + destruct (H1 _ _ Hs1) as [Ha Hb]. split; [exact Ha|]. eapply row_ok_ext; eauto.
    - intros k anch. specialize (H2 k anch). cbn [upd_slot c_stab].
      destruct (nth (stab_idx k anch) (c_stab c) TInvalid) as [| |j m st]; auto.
      destruct H2 as [s0 [Ha [Hb Hc]]]. destruct (He _ _ Ha) as [s' [Hd Hx]]. exists s'. rewrite Hx. auto.
    - exact H3.
    - intros s1 Hs1. rewrite slot_upd in Hs1. destruct (0 =? i).
      + destruct (slot c 0) as [s0|] eqn:E; [|discriminate]. cbn in Hs1. inversion Hs1; subst.
        unfold f. cbn [cs_d]. now apply H4.
      + now apply H4.
  Qed.

  (* inserting a new state *)
  Lemma cinv_push c d c' j :
    cinv c -> ids_reach (d_ids d) -> push cfg c d = (c', j) ->
    cinv c' /\ ext c c' /\ slot c' j = Some (mkCS d false None (blank_row cfg)).
  Proof.
    intros [H1 [H2 [H3 H4]]] Hd Hp. destruct (slot_push _ _ _ _ _ Hp) as [Ha [Hb [Hc [Hd' [He' Hj0]]]]].
    assert (He : ext c c').
    { intros i s Hs. exists s. split; [|reflexivity]. rewrite Hb; [exact Hs|]. intros ->. congruence. }
    split; [|split; [exact He|exact Ha]]. split; [|split; [|split]].
    - intros i s Hs. destruct (Nat.eq_dec i j) as [->|Hne].
      + rewrite Ha in Hs. inversion Hs; subst s. cbn [cs_d]. split; [exact Hd|].
        intros cls. cbn [cs_row]. unfold blank_row. rewrite nth_repeat_tid. exact I.
      + rewrite Hb in Hs by exact Hne. destruct (H1 _ _ Hs) as [Hx Hy]. split; [exact Hx|].
        eapply row_ok_ext; eauto.
    - intros k anch. specialize (H2 k anch). rewrite Hd'.
      destruct (nth (stab_idx k anch) (c_stab c) TInvalid) as [| |i m st]; auto.
      destruct H2 as [s0 [Hx [Hy Hz]]]. destruct (He _ _ Hx) as [s' [Hu Hv]]. exists s'. rewrite Hv. auto.
    - now rewrite Hd'.
    - intros s Hs. rewrite Hb in Hs by lia. now apply H4.
  Qed.

  (* ---------------- determinize *)
  Definition rep (c : cache) (t : tid) (ids : list nat) : Prop :=
    exists s, get_state c t = Some s /\ d_ids (cs_d s) = ids /\ mtag t = d_match (cs_d s).

  Definition z_ok (c' : cache) (ids : list nat) (b : N) (z : zres) : Prop :=
    match z with
    | ZErr => True
    | ZDead => cdet ids b = CDead
    | ZNext t => exists ids' m, cdet ids b = CNext ids' m /\ rep c' t ids' /\ mtag t = m
    end.

  Lemma sid_of_some c j s : slot c j = Some s -> sid_of c j = TId j (d_match (cs_d s)) (cs_stag s).
  Proof. unfold sid_of. now intros ->. Qed.

  Lemma cinv_clear c : cinv (clear_cache A cfg c).
  Proof.
    unfold clear_cache. split; [|split; [|split]].
    - intros i s Hs. unfold slot in Hs. cbn [c_slots] in Hs. destruct i as [|i]; cbn in Hs.
      + inversion Hs; subst s. cbn [cs_d cs_row]. split; [constructor|].
        intros cls. cbn [cs_row]. unfold blank_row. rewrite nth_repeat_tid. exact I.
      + destruct i; discriminate.
    - intros k anch. cbn [c_stab]. rewrite nth_set_nth_tid. rewrite repeat_length.
      destruct ((stab_idx k anch =? stab_idx KText false) && (stab_idx KText false <? 10)) eqn:E.
      + apply andb_prop in E as [E _]. apply Nat.eqb_eq in E. apply stab_idx_inj in E as [-> ->].
        eexists. split; [reflexivity|]. cbn. auto.
      + now rewrite nth_repeat_tid.
    - cbn [c_stab]. now rewrite set_nth_tid_length, repeat_length.
    - intros s Hs. unfold slot in Hs. cbn in Hs. inversion Hs; subst. reflexivity.
  Qed.

  (* linking state j0 to state j on the class of b *)
  Lemma link_spec c j0 s0 j sj b ids' m :
    cinv c -> slot c j0 = Some s0 -> cdet (d_ids (cs_d s0)) b = CNext ids' m ->
    slot c j = Some sj -> d_ids (cs_d sj) = ids' -> d_match (cs_d sj) = m ->
    cinv (set_row c j0 (class_of cfg b) (sid_of c j)) /\
    z_ok (set_row c j0 (class_of cfg b) (sid_of c j)) (d_ids (cs_d s0)) b (ZNext (sid_of c j)).
  Proof.
    intros Hc H0 Hd Hj Hi Hm. rewrite (sid_of_some _ _ _ Hj).
    assert (Ht : tid_ok c (d_ids (cs_d s0)) (class_of cfg b) (TId j (d_match (cs_d sj)) (cs_stag sj))).
    { exists sj. split; [exact Hj|]. split; [reflexivity|]. intros b' Hb'.
      rewrite (Hcls _ b' b Hb'). rewrite Hd. now rewrite Hi, Hm. }
    destruct (cinv_set_row c j0 _ _ s0 Hc H0 Ht) as [Hc' He]. split; [exact Hc'|].
    exists ids', m. split; [exact Hd|]. split; [|exact Hm].
    destruct (He _ _ Hj) as [s' [Hs' Hd']]. exists s'. cbn [get_state mtag]. rewrite Hd'. auto.
  Qed.

  (* a key hit identifies the state *)
  Lemma key_hit c ids fw m x y j :
    cinv c -> ids_reach ids -> find_key cfg c (key_of cfg (mkD ids fw m x y)) = Some j ->
    exists sj, slot c j = Some sj /\ d_ids (cs_d sj) = ids /\ d_match (cs_d sj) = m.
  Proof.
    intros [H1 _] Hr Hf. destruct (find_key_some _ _ _ _ Hf) as [sj [Hs Hk]].
    apply key_eqb_true in Hk as [Hk1 Hk2]. unfold key_of in Hk1, Hk2. rewrite Hkey in Hk1. cbn in Hk1, Hk2.
    exists sj. split; [exact Hs|]. split; [exact Hk1|exact Hk2].
  Qed.

  (* find the state of a key or insert it *)
  Lemma find_or_push_spec c d :
    cinv c -> ids_reach (d_ids d) ->
    match find_key cfg c (key_of cfg d) with
    | Some j => exists sj, slot c j = Some sj /\ d_ids (cs_d sj) = d_ids d /\ d_match (cs_d sj) = d_match d
    | None => forall c' j, push cfg c d = (c', j) ->
                cinv c' /\ ext c c' /\ exists sj, slot c' j = Some sj /\ d_ids (cs_d sj) = d_ids d /\ d_match (cs_d sj) = d_match d
    end.
  Proof.
    intros Hc Hr. destruct (find_key cfg c (key_of cfg d)) as [j|] eqn:E.
    - destruct d as [ids fw m x y]. eapply key_hit; eauto.
    - intros c' j Hp. destruct (cinv_push _ _ _ _ Hc Hr Hp) as [H1 [H2 H3]].
      split; [exact H1|]. split; [exact H2|]. eexists. split; [exact H3|]. cbn. auto.
  Qed.

  Lemma dz_spec c cur b cs c' z :
    cinv c -> slot c cur = Some cs -> dz A cfg c cur b = (c', z) ->
    cinv c' /\ z_ok c' (d_ids (cs_d cs)) b z.
  Proof.
    intros Hc Hcur. unfold dz. rewrite Hcur. rewrite pdet_cdet.
    pose proof (proj1 (proj1 Hc _ _ Hcur)) as Hreach.
    destruct (cdet (d_ids (cs_d cs)) b) as [| |ids' m] eqn:Ec.
    - intros H; inversion H; subst; clear H.
      assert (Ht : tid_ok c (d_ids (cs_d cs)) (class_of cfg b) TDead).
      { intros b' Hb'. now rewrite (Hcls _ b' b Hb'). }
      destruct (cinv_set_row c cur _ _ cs Hc Hcur Ht) as [Hc' _]. split; [exact Hc'|exact Ec].
    - intros H; inversion H; subst. split; [exact Hc|exact I].
    - set (ns := mkD ids' (is_word_byte b) m false false).
      assert (Hr' : ids_reach (d_ids ns)) by (eapply IR_step; eauto).
      pose proof (find_or_push_spec c ns Hc Hr') as Hfp.
      destruct (find_key cfg c (key_of cfg ns)) as [j|] eqn:Ef.
      + destruct Hfp as [sj [Hj [Hi Hm]]]. intros H; inversion H; subst; clear H.
        eapply link_spec; eauto.
      + destruct (is_full cfg c) eqn:Efull.
        * destruct (cfg_max_clears cfg <=? c_clears c).
          { intros H; inversion H; subst. split; [exact Hc|exact I]. }
          pose proof (cinv_clear c) as Hc1. set (c1 := clear_cache A cfg c) in *.
          pose proof (find_or_push_spec c1 (cs_d cs) Hc1 Hreach) as Hfp1.
          (* the pair (c2, j0) *)
          assert (Hstep2 : forall c2 j0, cinv c2 ->
                     (exists s0, slot c2 j0 = Some s0 /\ d_ids (cs_d s0) = d_ids (cs_d cs)) ->
                     forall c' z,
                     match find_key cfg c2 (key_of cfg ns) with
                     | Some j => (set_row c2 j0 (class_of cfg b) (sid_of c2 j), ZNext (sid_of c2 j))
                     | None => if is_full cfg c2 then (c2, ZErr)
                               else let '(c3, j) := push cfg c2 ns in
                                    (set_row c3 j0 (class_of cfg b) (sid_of c3 j), ZNext (sid_of c3 j))
                     end = (c', z) -> cinv c' /\ z_ok c' (d_ids (cs_d cs)) b z).
          { intros c2 j0 Hc2 [s0 [Hs0 Hi0]] c'' z'.
            pose proof (find_or_push_spec c2 ns Hc2 Hr') as Hfp2.
            destruct (find_key cfg c2 (key_of cfg ns)) as [j|].
            - destruct Hfp2 as [sj [Hj [Hi Hm]]]. intros H; inversion H; subst; clear H.
              rewrite <- Hi0. eapply link_spec; eauto. now rewrite Hi0.
            - destruct (is_full cfg c2).
              + intros H; inversion H; subst. split; [exact Hc2|exact I].
              + destruct (push cfg c2 ns) as [c3 j] eqn:Ep.
                destruct (Hfp2 _ _ eq_refl) as [Hc3 [He3 [sj [Hj [Hi Hm]]]]].
                intros H; inversion H; subst; clear H.
                destruct (He3 _ _ Hs0) as [s0' [Hs0' Hd0']].
                rewrite <- Hi0, <- Hd0'. eapply link_spec; eauto. rewrite Hd0', Hi0. exact Ec. }
          destruct (find_key cfg c1 (key_of cfg (cs_d cs))) as [j0|].
          { destruct Hfp1 as [s0 [Hs0 [Hi0 _]]]. intros H. eapply Hstep2; eauto. }
          destruct (is_full cfg c1).
          { intros H; inversion H; subst. split; [exact Hc1|exact I]. }
          destruct (push cfg c1 (cs_d cs)) as [c2 j0] eqn:Ep.
          destruct (Hfp1 _ _ eq_refl) as [Hc2 [_ [s0 [Hs0 [Hi0 _]]]]].
          intros H. eapply Hstep2; eauto.
        * destruct (push cfg c ns) as [c1 j] eqn:Ep.
          destruct (Hfp _ _ eq_refl) as [Hc1 [He1 [sj [Hj [Hi Hm]]]]].
          intros H; inversion H; subst; clear H.
          destruct (He1 _ _ Hcur) as [cs' [Hcs' Hd']].
          rewrite <- Hd'. eapply link_spec; eauto. rewrite Hd'. exact Ec.
  Qed.

  (* ---------------- start states *)
  Lemma cinv_mark_start c j sj k anch :
    cinv c -> slot c j = Some sj -> d_ids (cs_d sj) = d_ids (pstart A k anch) -> d_match (cs_d sj) = false ->
    cinv (mark_start c j k anch) /\ rep (mark_start c j k anch) (sid_of (mark_start c j k anch) j) (d_ids (pstart A k anch)).
  Proof.
    intros Hc Hj Hi Hm. unfold mark_start.
    set (f := fun s => mkCS (cs_d s) true (cs_accel s) (cs_row s)).
    set (c1 := upd_slot c j f).
    assert (Hc1 : cinv c1) by (apply cinv_upd_meta; [intros s; split; reflexivity|exact Hc]).
    assert (Hj1 : slot c1 j = Some (f sj)).
    { unfold c1. rewrite slot_upd, Nat.eqb_refl, Hj. reflexivity. }
    set (c2 := mkCache (c_slots c1) (c_clears c1) (set_nth_tid (c_stab c1) (stab_idx k anch) (sid_of c1 j))).
    assert (Hsl : forall i, slot c2 i = slot c1 i) by reflexivity.
    assert (Hsid : sid_of c2 j = sid_of c1 j) by reflexivity.
    destruct Hc1 as [H1 [H2 [H3 H4]]].
    split.
    - split; [|split; [|split]].
      + intros i s Hs. rewrite Hsl in Hs. destruct (H1 _ _ Hs) as [Ha Hb]. split; [exact Ha|].
        intros cls. specialize (Hb cls). destruct (nth cls (cs_row s) TInvalid); cbn in *; auto.
      + intros k' anch'. cbn [c2 c_stab]. rewrite nth_set_nth_tid.
        destruct ((stab_idx k' anch' =? stab_idx k anch) && (stab_idx k anch <? length (c_stab c1))) eqn:E.
        * apply andb_prop in E as [E _]. apply Nat.eqb_eq in E. apply stab_idx_inj in E as [-> ->].
          rewrite (sid_of_some _ _ _ Hj1). exists (f sj). rewrite Hsl. split; [exact Hj1|]. cbn. auto.
        * specialize (H2 k' anch'). destruct (nth (stab_idx k' anch') (c_stab c1) TInvalid); auto.
      + cbn [c2 c_stab]. now rewrite set_nth_tid_length.
      + intros s Hs. rewrite Hsl in Hs. now apply H4.
    - rewrite Hsid, (sid_of_some _ _ _ Hj1). exists (f sj). cbn [get_state mtag]. rewrite Hsl.
      split; [exact Hj1|]. cbn. auto.
  Qed.

  (* the current entry-point code (bde2710, ce6ce59) *)
  Hypothesis Hentry : cfg_old_entry cfg = false.

  Lemma insert_start_spec c k anch c1 t :
    cinv c -> insert_start cfg c (pstart A k anch) k anch = Some (c1, t) ->
    cinv c1 /\ rep c1 t (d_ids (pstart A k anch)).
  Proof.
    intros Hc. unfold insert_start.
    assert (Hr : ids_reach (d_ids (pstart A k anch))) by constructor.
    pose proof (find_or_push_spec c (pstart A k anch) Hc Hr) as Hfp.
    destruct (find_key cfg c (key_of cfg (pstart A k anch))) as [j|].
    - destruct Hfp as [sj [Hj [Hi Hm]]]. intros H; inversion H; subst; clear H.
      apply (cinv_mark_start c j sj k anch Hc Hj Hi Hm).
    - destruct (is_full cfg c); [discriminate|].
      destruct (push cfg c (pstart A k anch)) as [c2 j] eqn:Ep.
      destruct (Hfp _ _ eq_refl) as [Hc2 [_ [sj [Hj [Hi Hm]]]]].
      intros H; inversion H; subst; clear H.
      apply (cinv_mark_start c2 j sj k anch Hc2 Hj Hi Hm).
  Qed.

  (* getStartState never hands out an id-less state any more: a represented state, or nil *)
  Lemma get_start_spec c k anch c' o :
    cinv c -> get_start_k A cfg c k anch = (c', o) ->
    cinv c' /\ forall t, o = Some t -> rep c' t (d_ids (pstart A k anch)).
  Proof.
    intros Hc. unfold get_start_k.
    pose proof (proj1 (proj2 Hc) k anch) as Hst.
    destruct (nth (stab_idx k anch) (c_stab c) TInvalid) as [| |j m st] eqn:Et.
    - destruct (insert_start cfg c (pstart A k anch) k anch) as [[c1 t]|] eqn:Ei.
      + intros H; inversion H; subst; clear H.
        destruct (insert_start_spec _ _ _ _ _ Hc Ei) as [Ha Hb]. split; [exact Ha|].
        intros t0 Ht. inversion Ht; subst. exact Hb.
      + rewrite Hentry. destruct (cfg_max_clears cfg <=? c_clears c).
        * intros H; inversion H; subst. split; [exact Hc|]. intros t Ht. discriminate.
        * pose proof (cinv_clear c) as Hc1.
          destruct (insert_start cfg (clear_cache A cfg c) (pstart A k anch) k anch) as [[c2 t]|] eqn:Ei2.
          -- intros H; inversion H; subst; clear H.
             destruct (insert_start_spec _ _ _ _ _ Hc1 Ei2) as [Ha Hb]. split; [exact Ha|].
             intros t0 Ht. inversion Ht; subst. exact Hb.
          -- intros H; inversion H; subst. split; [exact Hc1|]. intros t Ht. discriminate.
    - destruct Hst.
    - destruct Hst as [s [Hs [Hi Hm]]]. cbn [get_state tidx]. rewrite Hs.
      intros H; inversion H; subst; clear H. split; [exact Hc|].
      intros t Ht. inversion Ht; subst. rewrite (sid_of_some _ _ _ Hs).
      exists s. cbn [get_state mtag]. auto.
  Qed.

  (* ---------------- one transition through the cache *)
  Lemma rep_slot c t ids : rep c t ids -> exists i m st s, t = TId i m st /\ slot c i = Some s /\ d_ids (cs_d s) = ids /\ m = d_match (cs_d s).
  Proof.
    intros [s [H1 [H2 H3]]]. destruct t as [| |i m st]; cbn in H1; try discriminate.
    exists i, m, st, s. cbn in H3. auto.
  Qed.

  Lemma take_spec c sid ids b c' z :
    cinv c -> rep c sid ids -> take A cfg c sid b = (c', z) -> cinv c' /\ z_ok c' ids b z.
  Proof.
    intros Hc Hr. destruct (rep_slot _ _ _ Hr) as [i [m [st [s [-> [Hs [Hi Hm]]]]]]].
    unfold take, lookup, row_get. cbn [tidx get_state]. rewrite Hs.
    assert (Hn : nth_error (c_slots c) i = Some (Some s)).
    { unfold slot in Hs. destruct (nth_error (c_slots c) i) as [[s0|]|]; congruence. }
    rewrite Hn.
    pose proof (proj2 (proj1 Hc _ _ Hs) (class_of cfg b)) as Hrow. rewrite Hi in Hrow.
    destruct (nth (class_of cfg b) (cs_row s) TInvalid) as [| |j m' st'] eqn:En.
    - intros H. rewrite <- Hi. eapply dz_spec; eauto.
    - intros H; inversion H; subst. split; [exact Hc|]. cbn. now apply Hrow.
    - intros H; inversion H; subst; clear H. split; [exact Hc|].
      destruct Hrow as [s' [Hs' [Hm' Hd]]]. exists (d_ids (cs_d s')), (d_match (cs_d s')).
      split; [now apply Hd|]. split; [|exact Hm']. exists s'. cbn [get_state mtag]. auto.
  Qed.

  (* ---------------- the loops *)
  Section LoopsT.
    Variable h : hay.

    Lemma byte_at_nth pos : pos < length h -> nth_error h pos = Some (byte_at h pos).
    Proof. intros H. unfold byte_at. now apply nth_error_nth'. Qed.

    Lemma eoi_of_rep c sid s : rep c sid (d_ids s) -> eoi_of A c sid = eoi_match A s.
    Proof.
      intros [s0 [H1 [H2 H3]]]. unfold eoi_of. rewrite H1. now apply eoi_match_ids.
    Qed.

    (* the pure loop does not look at anything but the ids *)
    Lemma p_loop_ids w : forall f s s' pos last,
      d_ids s = d_ids s' -> p_loop A cfg h w f s pos last = p_loop A cfg h w f s' pos last.
    Proof.
      induction f as [|f IH]; intros s s' pos last Hi; [reflexivity|].
      cbn [p_loop]. destruct (nth_error h pos) as [b|]; [|now rewrite (eoi_match_ids _ _ Hi)].
      rewrite Hwb. cbn [andb]. now rewrite !pdet_cdet, Hi.
    Qed.

    Lemma p_loop_step w f s pos last b :
      nth_error h pos = Some b ->
      p_loop A cfg h w (S f) s pos last =
      match cdet (d_ids s) b with
      | CDead => RDfa last
      | CLimit => RFallback
      | CNext ids m => p_loop A cfg h w f (mkD ids (is_word_byte b) m false false) (S pos) (if m then Some pos else last)
      end.
    Proof.
      intros Hb. cbn [p_loop]. rewrite Hb, Hwb. cbn [andb]. rewrite pdet_cdet.
      destruct (cdet (d_ids s) b); reflexivity.
    Qed.

    Lemma p_loop_eoi w f s pos last :
      length h <= pos -> p_loop A cfg h w (S f) s pos last = RDfa (if eoi_match A s then Some (length h) else last).
    Proof. intros H. cbn [p_loop]. apply nth_error_None in H. now rewrite H. Qed.

    (* SearchAtAnchored: the cached loop is the pure loop, or it gives up *)
    Lemma anch_loop_spec : forall fuel c sid pos last s c' o,
      cinv c -> rep c sid (d_ids s) -> length h - pos < fuel ->
      drive None (anch_step A cfg h) fuel c (sid, pos, last) = (c', o) ->
      cinv c' /\ (o = RFallback \/ o = p_loop A cfg h false fuel s pos last).
    Proof.
      induction fuel as [|f IH]; intros c sid pos last s c' o Hc Hr Hf; [lia|].
      cbn [drive]. unfold anch_step at 1.
      destruct (Nat.leb_spec (length h) pos) as [Hle|Hlt].
      - intros H; inversion H; subst; clear H. split; [exact Hc|]. right.
        rewrite p_loop_eoi by exact Hle. now rewrite (eoi_of_rep _ _ _ Hr).
      - rewrite Hwb. cbn [andb].
        destruct (take A cfg c sid (byte_at h pos)) as [c1 z] eqn:Et.
        destruct (take_spec _ _ _ _ _ _ Hc Hr Et) as [Hc1 Hz].
        rewrite (p_loop_step false f s pos last _ (byte_at_nth pos Hlt)).
        destruct z as [| |t]; cbn in Hz.
        + intros H; inversion H; subst. split; [exact Hc1|]. right. now rewrite Hz.
        + intros H; inversion H; subst. split; [exact Hc1|]. now left.
        + destruct Hz as [ids' [m [Hd [Hr' Hm]]]]. rewrite Hd, Hm.
          intros H. eapply IH; [exact Hc1| |lia|exact H]. exact Hr'.
    Qed.

    (* ---------------- the unrolled block *)
    Lemma lookup_ok c sid ids b : cinv c -> rep c sid ids -> tid_ok c ids (class_of cfg b) (lookup cfg c sid b).
    Proof.
      intros Hc Hr. destruct (rep_slot _ _ _ Hr) as [i [m [st [s [-> [Hs [Hi Hm]]]]]]].
      unfold lookup, row_get. cbn [tidx].
      assert (Hn : nth_error (c_slots c) i = Some (Some s)).
      { unfold slot in Hs. destruct (nth_error (c_slots c) i) as [[s0|]|]; congruence. }
      rewrite Hn. rewrite <- Hi. apply (proj2 (proj1 Hc _ _ Hs)).
    Qed.

    (* steps of the pure DFA that report no match *)
    Inductive psteps : list nat -> nat -> list nat -> nat -> Prop :=
    | PS_refl ids pos : psteps ids pos ids pos
    | PS_step ids pos ids1 ids' pos' :
        pos < length h -> cdet ids (byte_at h pos) = CNext ids1 false ->
        psteps ids1 (S pos) ids' pos' -> psteps ids pos ids' pos'.

    Lemma psteps_snoc ids pos ids1 pos1 ids2 :
      psteps ids pos ids1 pos1 -> pos1 < length h -> cdet ids1 (byte_at h pos1) = CNext ids2 false ->
      psteps ids pos ids2 (S pos1).
    Proof.
      induction 1 as [ids pos|ids pos idsa idsb posb Hl Hd Hs IH]; intros Hlt Hc.
      - econstructor; eauto. constructor.
      - econstructor; eauto.
    Qed.

    Lemma psteps_le ids pos ids' pos' : psteps ids pos ids' pos' -> pos <= pos'.
    Proof. induction 1; lia. Qed.

    Lemma untagged_step c sid ids pos :
      cinv c -> rep c sid ids -> tagged (lookup cfg c sid (byte_at h pos)) = false ->
      exists ids1, cdet ids (byte_at h pos) = CNext ids1 false /\ rep c (lookup cfg c sid (byte_at h pos)) ids1.
    Proof.
      intros Hc Hr Ht. pose proof (lookup_ok c sid ids (byte_at h pos) Hc Hr) as Hok.
      destruct (lookup cfg c sid (byte_at h pos)) as [| |j m st]; cbn in Ht; try discriminate.
      apply orb_false_elim in Ht as [-> ->]. destruct Hok as [s' [Hs' [Hm Hd]]].
      exists (d_ids (cs_d s')). rewrite <- Hm in Hd. split; [now apply Hd|].
      exists s'. cbn [get_state mtag]. auto.
    Qed.

    Lemma match_tagged c sid ids pos :
      cinv c -> rep c sid ids -> mtag (lookup cfg c sid (byte_at h pos)) = true ->
      exists ids1, cdet ids (byte_at h pos) = CNext ids1 true.
    Proof.
      intros Hc Hr Ht. pose proof (lookup_ok c sid ids (byte_at h pos) Hc Hr) as Hok.
      destruct (lookup cfg c sid (byte_at h pos)) as [| |j m st]; cbn in Ht; try discriminate.
      subst m. destruct Hok as [s' [Hs' [Hm Hd]]]. exists (d_ids (cs_d s')). rewrite <- Hm in Hd. now apply Hd.
    Qed.

    Definition ustop_ok (c : cache) (ids' : list nat) (sid' : tid) (pos' : nat) (u : ustop) : Prop :=
      match u with
      | UCont => True
      | USlow => pos' < length h
      | UMatch => pos' < length h /\ exists ids2, cdet ids' (byte_at h pos') = CNext ids2 true
      end.

    Lemma stop_ok c sid ids pos :
      cinv c -> rep c sid ids -> pos < length h ->
      ustop_ok c ids sid pos (if mtag (lookup cfg c sid (byte_at h pos)) then UMatch else USlow).
    Proof.
      intros Hc Hr Hp. destruct (mtag _) eqn:E; cbn; [split; [exact Hp|]|exact Hp].
      eapply match_tagged; eauto.
    Qed.

    Lemma unroll4_spec c sid ids pos sid' pos' u :
      cinv c -> rep c sid ids -> pos + 3 < length h ->
      unroll4 cfg c h sid pos = (sid', pos', u) ->
      exists ids', psteps ids pos ids' pos' /\ rep c sid' ids' /\ pos' <= length h /\
                   (u = UCont -> pos < pos') /\ ustop_ok c ids' sid' pos' u.
    Proof.
      intros Hc Hr Hp. unfold unroll4.
      destruct (tagged (lookup cfg c sid (byte_at h pos))) eqn:T1.
      { intros H; inversion H; subst; clear H. exists ids. split; [constructor|]. split; [exact Hr|].
        split; [lia|]. split; [destruct (mtag _); discriminate|]. apply stop_ok; auto; lia. }
      destruct (untagged_step c sid ids pos Hc Hr T1) as [ids1 [Hd1 Hr1]].
      set (n1 := lookup cfg c sid (byte_at h pos)) in *.
      assert (P1 : psteps ids pos ids1 (S pos)) by (econstructor; [lia|exact Hd1|constructor]).
      destruct (length h <=? S pos + 2) eqn:L1.
      { intros H; inversion H; subst; clear H. exists ids1. split; [exact P1|]. split; [exact Hr1|].
        split; [lia|]. split; [discriminate|]. cbn. lia. }
      destruct (tagged (lookup cfg c n1 (byte_at h (S pos)))) eqn:T2.
      { intros H; inversion H; subst; clear H. exists ids1. split; [exact P1|]. split; [exact Hr1|].
        split; [lia|]. split; [destruct (mtag _); discriminate|]. apply stop_ok; auto; lia. }
      destruct (untagged_step c n1 ids1 (S pos) Hc Hr1 T2) as [ids2 [Hd2 Hr2]].
      set (n2 := lookup cfg c n1 (byte_at h (S pos))) in *.
      assert (P2 : psteps ids pos ids2 (S (S pos))) by (eapply psteps_snoc; [exact P1|lia|exact Hd2]).
      destruct (length h <=? S (S pos) + 1) eqn:L2.
      { intros H; inversion H; subst; clear H. exists ids2. split; [exact P2|]. split; [exact Hr2|].
        split; [lia|]. split; [discriminate|]. cbn. lia. }
      destruct (tagged (lookup cfg c n2 (byte_at h (S (S pos))))) eqn:T3.
      { intros H; inversion H; subst; clear H. exists ids2. split; [exact P2|]. split; [exact Hr2|].
        split; [lia|]. split; [destruct (mtag _); discriminate|]. apply stop_ok; auto; lia. }
      destruct (untagged_step c n2 ids2 (S (S pos)) Hc Hr2 T3) as [ids3 [Hd3 Hr3]].
      set (n3 := lookup cfg c n2 (byte_at h (S (S pos)))) in *.
      assert (P3 : psteps ids pos ids3 (S (S (S pos)))) by (eapply psteps_snoc; [exact P2|lia|exact Hd3]).
      destruct (tagged (lookup cfg c n3 (byte_at h (S (S (S pos)))))) eqn:T4.
      { intros H; inversion H; subst; clear H. exists ids3. split; [exact P3|]. split; [exact Hr3|].
        split; [lia|]. split; [destruct (mtag _); discriminate|]. apply stop_ok; auto; lia. }
      destruct (untagged_step c n3 ids3 (S (S (S pos))) Hc Hr3 T4) as [ids4 [Hd4 Hr4]].
      intros H; inversion H; subst; clear H. exists ids4.
      split; [eapply psteps_snoc; [exact P3|lia|exact Hd4]|]. split; [exact Hr4|].
      split; [lia|]. split; [lia|exact I].
    Qed.

    (* ---------------- searchFirstAt *)
    Lemma pf_step f s pos b :
      nth_error h pos = Some b ->
      p_first_loop A cfg h (S f) s pos =
      match cdet (d_ids s) b with
      | CDead => RDfa None
      | CLimit => RFallback
      | CNext ids m => if m then RDfa (Some pos)
                       else p_first_loop A cfg h f (mkD ids (is_word_byte b) m false false) (S pos)
      end.
    Proof.
      intros Hb. cbn [p_first_loop]. rewrite Hb, Hwb. cbn [andb]. rewrite pdet_cdet.
      destruct (cdet (d_ids s) b) as [| |ids m]; try reflexivity.
    Qed.

    Lemma pf_eoi f s pos :
      length h <= pos -> p_first_loop A cfg h (S f) s pos = RDfa (if eoi_match A s then Some (length h) else None).
    Proof. intros H. cbn [p_first_loop]. apply nth_error_None in H. now rewrite H. Qed.

    Lemma pf_ids : forall f s s' pos, d_ids s = d_ids s' -> p_first_loop A cfg h f s pos = p_first_loop A cfg h f s' pos.
    Proof.
      induction f as [|f IH]; intros s s' pos Hi; [reflexivity|].
      cbn [p_first_loop]. destruct (nth_error h pos) as [b|]; [|now rewrite (eoi_match_ids _ _ Hi)].
      rewrite Hwb. cbn [andb]. now rewrite !pdet_cdet, Hi.
    Qed.

    Lemma pf_fuel : forall f1 f2 s pos, length h - pos < f1 -> length h - pos < f2 ->
      p_first_loop A cfg h f1 s pos = p_first_loop A cfg h f2 s pos.
    Proof.
      induction f1 as [|f1 IH]; intros f2 s pos H1 H2; [lia|]. destruct f2 as [|f2]; [lia|].
      destruct (Nat.leb_spec (length h) pos) as [Hle|Hlt].
      - now rewrite !pf_eoi.
      - rewrite !(pf_step _ s pos _ (byte_at_nth pos Hlt)).
        destruct (cdet (d_ids s) (byte_at h pos)) as [| |ids m]; try reflexivity.
        destruct m; [reflexivity|]. apply IH; lia.
    Qed.

    Definition PF (s : dstate) (pos : nat) := p_first_loop A cfg h (S (length h)) s pos.

    Lemma pf_psteps ids pos ids' pos' :
      psteps ids pos ids' pos' -> forall s s', d_ids s = ids -> d_ids s' = ids' -> PF s pos = PF s' pos'.
    Proof.
      induction 1 as [ids pos|ids pos ids1 ids' pos' Hl Hd Hs IH]; intros s s' Hi Hi'.
      - apply pf_ids. congruence.
      - unfold PF. rewrite (pf_step _ s pos _ (byte_at_nth pos Hl)). rewrite Hi, Hd.
        rewrite (pf_fuel (length h) (S (length h))) by lia.
        apply (IH (mkD ids1 (is_word_byte (byte_at h pos)) false false false) s'); auto.
    Qed.

    Lemma first_loop_spec : forall fuel c sid pos s c' o,
      cinv c -> rep c sid (d_ids s) -> length h - pos < fuel ->
      drive None (first_step A cfg h) fuel c (sid, pos, None) = (c', o) ->
      cinv c' /\ (o = RFallback \/ o = PF s pos).
    Proof.
      induction fuel as [|f IH]; intros c sid pos s c' o Hc Hr Hf; [clia|].
      cbn [drive]. unfold first_step at 1.
      destruct (Nat.leb_spec (length h) pos) as [Hle|Hlt].
      { intros H; inversion H; subst; clear H. split; [exact Hc|]. right.
        unfold PF. rewrite pf_eoi by exact Hle. now rewrite (eoi_of_rep _ _ _ Hr). }
      (* the slow part, from any represented state *)
      assert (Hslow : forall sid1 pos1 s1 c' o,
                 rep c sid1 (d_ids s1) -> pos <= pos1 -> pos1 < length h ->
                 match
                   (match take A cfg c sid1 (byte_at h pos1) with
                    | (c1, ZErr) => (c1, inl RFallback)
                    | (c1, ZDead) => (c1, inl (RDfa None))
                    | (c1, ZNext t) => if mtag t then (c1, inl (RDfa (Some pos1))) else (c1, inr (t, S pos1, None))
                    end)
                 with
                 | (c2, inl o2) => (c2, o2)
                 | (c2, inr st') => drive None (first_step A cfg h) f c2 st'
                 end = (c', o) -> cinv c' /\ (o = RFallback \/ o = PF s1 pos1)).
      { intros sid1 pos1 s1 c'' o' Hr1 Hge Hlt1.
        destruct (take A cfg c sid1 (byte_at h pos1)) as [c1 z] eqn:Et.
        destruct (take_spec _ _ _ _ _ _ Hc Hr1 Et) as [Hc1 Hz].
        unfold PF. rewrite (pf_step _ s1 pos1 _ (byte_at_nth pos1 Hlt1)).
        destruct z as [| |t]; cbn in Hz.
        - intros H; inversion H; subst. split; [exact Hc1|]. right. now rewrite Hz.
        - intros H; inversion H; subst. split; [exact Hc1|]. now left.
        - destruct Hz as [ids' [m [Hd [Hr' Hm]]]]. rewrite Hd, Hm. destruct m.
          + intros H; inversion H; subst. split; [exact Hc1|]. now right.
          + intros H. rewrite (pf_fuel (length h) (S (length h))) by clia.
            eapply (IH c1 t (S pos1) (mkD ids' (is_word_byte (byte_at h pos1)) false false false)); [exact Hc1|exact Hr'|clia|exact H]. }
      rewrite Hwb. cbn [negb andb].
      destruct (pos + 3 <? length h) eqn:E3.
      - apply Nat.ltb_lt in E3.
        destruct (unroll4 cfg c h sid pos) as [[sid1 pos1] u] eqn:Eu.
        destruct (unroll4_spec _ _ _ _ _ _ _ Hc Hr E3 Eu) as [ids1 [Hps [Hr1 [Hle1 [Hcont Hst]]]]].
        pose proof (psteps_le _ _ _ _ Hps) as Hge.
        set (s1 := mkD ids1 false false false false).
        assert (Heq : PF s pos = PF s1 pos1) by (apply (pf_psteps _ _ _ _ Hps); reflexivity).
        rewrite Heq.
        destruct u.
        + intros H. specialize (Hcont eq_refl).
          eapply (IH c sid1 pos1 s1); [exact Hc|exact Hr1|clia|exact H].
        + intros H. eapply (Hslow sid1 pos1 s1); [exact Hr1|exact Hge|exact Hst|]. exact H.
        + destruct Hst as [Hst _]. intros H. eapply (Hslow sid1 pos1 s1); [exact Hr1|exact Hge|exact Hst|].
          exact H.
      - intros H. eapply (Hslow sid pos s); [exact Hr|clia|exact Hlt|]. exact H.
    Qed.
  End LoopsT.

  (* ---------------- acceleration never fires in histories of searchAt / searchEarliestMatch *)
  Hypothesis Hstride : 2 <= stride cfg.

  Definition cnt (row : list tid) : nat := length (filter (fun t => negb (is_invalid t)) row).

  (* every state is checked and not accelerable, or unchecked with at most one transition *)
  Definition accel_ok (c : cache) : Prop :=
    forall i s, slot c i = Some s -> cs_accel s = Some [] \/ (cs_accel s = None /\ cnt (cs_row s) <= 1).

  Lemma filter_firstn_le {T} (f : T -> bool) (l : list T) : forall n, length (filter f (firstn n l)) <= length (filter f l).
  Proof.
    induction l as [|x l IH]; intros n.
    - destruct n; cbn; lia.
    - destruct n as [|n]; [cbn; lia|]. cbn [firstn filter]. specialize (IH n).
      destruct (f x); cbn [length]; lia.
  Qed.

  Lemma all_valid_cnt (l : list tid) :
    existsb is_invalid l = false -> length (filter (fun t => negb (is_invalid t)) l) = length l.
  Proof.
    induction l as [|t l IH]; cbn; [reflexivity|]. intros H. apply orb_false_elim in H as [H1 H2].
    rewrite H1. cbn. now rewrite IH.
  Qed.

  (* a row with at most one entry is never accelerable (both detections) *)
  Lemma detect_none c i s : slot c i = Some s -> cnt (cs_row s) <= 1 -> detect_accel cfg c i = [].
  Proof.
    intros Hs Hc. unfold detect_accel.
    pose proof (filter_firstn_le (fun t => negb (is_invalid t)) (cs_row s) (stride cfg)) as Hle.
    unfold cnt in Hc. destruct (cfg_loose_accel cfg).
    - unfold detect_accel_loose. rewrite Hs.
      destruct (Nat.ltb_spec (length (filter (fun t => negb (is_invalid t)) (firstn (stride cfg) (cs_row s))))
                             (Nat.max 1 (stride cfg - stride cfg / 16))) as [Hlt|Hge]; [reflexivity|].
      exfalso. pose proof Hstride as H2. assert (2 <= stride cfg - stride cfg / 16).
      { pose proof (Nat.div_mod (stride cfg) 16 ltac:(lia)). lia. }
      lia.
    - unfold detect_accel_sound. rewrite Hs.
      destruct (Nat.ltb_spec (length (firstn (stride cfg) (cs_row s))) (stride cfg)) as [Hlt|Hge]; [reflexivity|].
      cbn [orb]. destruct (existsb is_invalid (firstn (stride cfg) (cs_row s))) eqn:Ee; [reflexivity|].
      exfalso. apply all_valid_cnt in Ee. pose proof Hstride. lia.
  Qed.

  Lemma accel_ok_upd c i f :
    accel_ok c ->
    (forall s, slot c i = Some s -> cs_accel (f s) = Some [] \/ (cs_accel (f s) = None /\ cnt (cs_row (f s)) <= 1)) ->
    accel_ok (upd_slot c i f).
  Proof.
    intros Ha Hf j s Hs. rewrite slot_upd in Hs. destruct (Nat.eqb_spec j i) as [->|Hne]; [|eauto].
    destruct (slot c i) as [s0|] eqn:E; [|discriminate]. cbn in Hs. inversion Hs; subst. eauto.
  Qed.

  Lemma try_detect_spec c i s :
    accel_ok c -> slot c i = Some s ->
    accel_ok (try_detect cfg c i) /\ ext c (try_detect cfg c i) /\
    exists s1, slot (try_detect cfg c i) i = Some s1 /\ cs_accel s1 = Some [] /\ cs_d s1 = cs_d s /\ cs_row s1 = cs_row s.
  Proof.
    intros Ha Hs. unfold try_detect. rewrite Hs. destruct (Ha _ _ Hs) as [Hx|[Hx Hy]]; rewrite Hx.
    - split; [exact Ha|]. split; [apply ext_refl|]. exists s. auto.
    - rewrite (detect_none c i s Hs Hy). split; [|split].
      + apply accel_ok_upd; [exact Ha|]. intros s0 _. now left.
      + apply ext_upd_meta. reflexivity.
      + rewrite slot_upd, Nat.eqb_refl, Hs. cbn. eexists. split; [reflexivity|]. cbn. auto.
  Qed.

  Lemma cinv_try_detect c i : cinv c -> cinv (try_detect cfg c i).
  Proof.
    intros Hc. unfold try_detect. destruct (slot c i) as [s|]; [|exact Hc].
    destruct (cs_accel s); [exact Hc|]. apply cinv_upd_meta; [|exact Hc]. intros s0. split; reflexivity.
  Qed.

  Lemma cnt_set_blank n : forall cls t, cnt (set_nth_tid (repeat TInvalid n) cls t) <= 1.
  Proof.
    unfold cnt. induction n as [|n IH]; intros cls t; cbn; [lia|].
    destruct cls as [|cls]; cbn.
    - assert (H : length (filter (fun t0 => negb (is_invalid t0)) (repeat TInvalid n)) = 0).
      { clear. induction n; cbn; auto. }
      destruct (negb (is_invalid t)); cbn; lia.
    - apply IH.
  Qed.

  Lemma accel_ok_set_row_checked c i s cls t :
    accel_ok c -> slot c i = Some s -> cs_accel s = Some [] -> accel_ok (set_row c i cls t).
  Proof.
    intros Ha Hs Hx. unfold set_row. apply accel_ok_upd; [exact Ha|].
    intros s0 Hs0. rewrite Hs in Hs0. inversion Hs0; subst. cbn. now left.
  Qed.

  Lemma accel_ok_set_row_blank c i s cls t :
    accel_ok c -> slot c i = Some s -> cs_row s = blank_row cfg -> accel_ok (set_row c i cls t).
  Proof.
    intros Ha Hs Hx. unfold set_row. apply accel_ok_upd; [exact Ha|].
    intros s0 Hs0. rewrite Hs in Hs0. inversion Hs0; subst. cbn.
    destruct (Ha _ _ Hs) as [Hy|[Hy _]]; [now left|]. right. split; [exact Hy|].
    rewrite Hx. unfold blank_row. apply cnt_set_blank.
  Qed.

  Lemma cnt_blank : cnt (blank_row cfg) = 0.
  Proof. unfold cnt, blank_row. generalize (stride cfg). intros n. induction n as [|n IH]; [reflexivity|]. cbn. exact IH. Qed.

  Lemma accel_ok_push c d c' j :
    accel_ok c -> push cfg c d = (c', j) -> accel_ok c'.
  Proof.
    intros Ha Hp. destruct (slot_push _ _ _ _ _ Hp) as [H1 [H2 _]].
    intros i s Hs. destruct (Nat.eq_dec i j) as [->|Hne].
    - rewrite H1 in Hs. inversion Hs; subst. right. cbn [cs_accel cs_row]. split; [reflexivity|]. rewrite cnt_blank. lia.
    - rewrite H2 in Hs by exact Hne. eauto.
  Qed.

  Lemma accel_ok_clear c : accel_ok (clear_cache A cfg c).
  Proof.
    intros i s Hs. unfold clear_cache, slot in Hs. cbn in Hs. destruct i as [|[|i]]; cbn in Hs; try discriminate.
    inversion Hs; subst. right. cbn [cs_accel cs_row]. split; [reflexivity|]. rewrite cnt_blank. lia.
  Qed.

  Lemma dz_accel c cur b cs c' z :
    accel_ok c -> slot c cur = Some cs -> cs_accel cs = Some [] ->
    dz A cfg c cur b = (c', z) -> accel_ok c'.
  Proof.
    intros Ha Hcur Hx. unfold dz. rewrite Hcur.
    destruct (pdet A cfg (cs_d cs) b) as [| |ns].
    - intros H; inversion H; subst. eapply accel_ok_set_row_checked; eauto.
    - intros H; inversion H; subst. exact Ha.
    - destruct (find_key cfg c (key_of cfg ns)) as [j|].
      + intros H; inversion H; subst. eapply accel_ok_set_row_checked; eauto.
      + destruct (is_full cfg c).
        * destruct (cfg_max_clears cfg <=? c_clears c); [intros H; inversion H; subst; exact Ha|].
          pose proof (accel_ok_clear c) as Ha1. set (c1 := clear_cache A cfg c) in *.
          assert (Hstep2 : forall c2 j0 s0, accel_ok c2 -> slot c2 j0 = Some s0 -> cs_row s0 = blank_row cfg ->
                     forall c' z,
                     match find_key cfg c2 (key_of cfg ns) with
                     | Some j => (set_row c2 j0 (class_of cfg b) (sid_of c2 j), ZNext (sid_of c2 j))
                     | None => if is_full cfg c2 then (c2, ZErr)
                               else let '(c3, j) := push cfg c2 ns in
                                    (set_row c3 j0 (class_of cfg b) (sid_of c3 j), ZNext (sid_of c3 j))
                     end = (c', z) -> accel_ok c').
          { intros c2 j0 s0 Ha2 Hs0 Hb0 c'' z'.
            destruct (find_key cfg c2 (key_of cfg ns)) as [j|].
            - intros H; inversion H; subst. eapply accel_ok_set_row_blank; eauto.
            - destruct (is_full cfg c2); [intros H; inversion H; subst; exact Ha2|].
              destruct (push cfg c2 ns) as [c3 j] eqn:Ep. intros H; inversion H; subst.
              destruct (slot_push _ _ _ _ _ Ep) as [H1 [H2 [H3 _]]].
              assert (Hne : j0 <> j) by (intros ->; congruence).
              eapply (accel_ok_set_row_blank c3 j0 s0); [eapply accel_ok_push; eauto| |exact Hb0].
              rewrite H2 by exact Hne. exact Hs0. }
          destruct (find_key cfg c1 (key_of cfg (cs_d cs))) as [j0|] eqn:Ef.
          { destruct (find_key_some _ _ _ _ Ef) as [s0 [Hs0 _]].
            assert (Hb0 : cs_row s0 = blank_row cfg).
            { unfold c1, clear_cache, slot in Hs0. cbn in Hs0. destruct j0 as [|[|j0]]; cbn in Hs0; try discriminate.
              inversion Hs0; subst. reflexivity. }
            intros H. eapply Hstep2; eauto. }
          destruct (is_full cfg c1); [intros H; inversion H; subst; exact Ha1|].
          destruct (push cfg c1 (cs_d cs)) as [c2 j0] eqn:Ep.
          destruct (slot_push _ _ _ _ _ Ep) as [H1 _].
          intros H. eapply (Hstep2 c2 j0); [eapply accel_ok_push; eauto|exact H1|reflexivity|exact H].
        * destruct (push cfg c ns) as [c1 j] eqn:Ep. intros H; inversion H; subst.
          destruct (slot_push _ _ _ _ _ Ep) as [H1 [H2 [H3 _]]].
          assert (Hne : cur <> j) by (intros ->; congruence).
          eapply (accel_ok_set_row_checked c1 cur cs); [eapply accel_ok_push; eauto| |exact Hx].
          rewrite H2 by exact Hne. exact Hcur.
  Qed.

  Lemma take_accel c sid b c' z s :
    accel_ok c -> get_state c sid = Some s -> cs_accel s = Some [] ->
    take A cfg c sid b = (c', z) -> accel_ok c'.
  Proof.
    intros Ha Hs Hx. unfold take. rewrite Hs.
    destruct (lookup cfg c sid b); try (intros H; inversion H; subst; exact Ha).
    destruct sid as [| |i m st]; cbn in Hs; try discriminate. cbn [tidx].
    intros H. eapply dz_accel; eauto.
  Qed.

  Lemma accel_ok_mark_start c j k anch : accel_ok c -> accel_ok (mark_start c j k anch).
  Proof.
    intros Ha i s Hs. unfold mark_start in Hs.
    change (slot (upd_slot c j (fun s => mkCS (cs_d s) true (cs_accel s) (cs_row s))) i = Some s) in Hs.
    revert i s Hs. apply accel_ok_upd; [exact Ha|]. intros s0 Hs0. cbn. eauto.
  Qed.

  Lemma insert_start_accel c d k anch c1 t :
    accel_ok c -> insert_start cfg c d k anch = Some (c1, t) -> accel_ok c1.
  Proof.
    intros Ha. unfold insert_start. destruct (find_key cfg c (key_of cfg d)).
    - intros H; inversion H; subst. now apply accel_ok_mark_start.
    - destruct (is_full cfg c); [discriminate|].
      destruct (push cfg c d) as [c2 j] eqn:Ep. intros H; inversion H; subst.
      apply accel_ok_mark_start. eapply accel_ok_push; eauto.
  Qed.

  Lemma get_start_accel c k anch c' o :
    accel_ok c -> get_start_k A cfg c k anch = (c', o) -> accel_ok c'.
  Proof.
    intros Ha. unfold get_start_k.
    destruct (nth (stab_idx k anch) (c_stab c) TInvalid).
    - destruct (insert_start cfg c (pstart A k anch) k anch) as [[c1 t]|] eqn:Ei.
      + intros H; inversion H; subst. eapply insert_start_accel; eauto.
      + rewrite Hentry.
        destruct (cfg_max_clears cfg <=? c_clears c); [intros H; inversion H; subst; exact Ha|].
        destruct (insert_start cfg (clear_cache A cfg c) (pstart A k anch) k anch) as [[c2 t]|] eqn:Ei2.
        * intros H; inversion H; subst. eapply insert_start_accel; [apply accel_ok_clear|exact Ei2].
        * intros H; inversion H; subst. apply accel_ok_clear.
    - intros H; inversion H; subst; exact Ha.
    - intros H; inversion H; subst; exact Ha.
  Qed.

  Lemma accel_bytes_nil c t : accel_ok c -> accel_bytes c t = [].
  Proof.
    intros Ha. unfold accel_bytes. destruct (get_state c t) as [s|] eqn:E; [|reflexivity].
    destruct t as [| |i m st]; cbn in E; try discriminate.
    destruct (Ha _ _ E) as [Hx|[Hx _]]; now rewrite Hx.
  Qed.

  Section LoopsA.
    Variable h : hay.

    Lemma pl_fuel w : forall f1 f2 s pos last, length h - pos < f1 -> length h - pos < f2 ->
      p_loop A cfg h w f1 s pos last = p_loop A cfg h w f2 s pos last.
    Proof. clear Hstride.
      induction f1 as [|f1 IH]; intros f2 s pos last H1 H2; [lia|]. destruct f2 as [|f2]; [lia|].
      destruct (Nat.leb_spec (length h) pos) as [Hle|Hlt].
      - now rewrite !p_loop_eoi.
      - rewrite !(p_loop_step h w _ s pos last _ (byte_at_nth h pos Hlt)).
        destruct (cdet (d_ids s) (byte_at h pos)) as [| |ids m]; try reflexivity. apply IH; lia.
    Qed.

    Definition PL (s : dstate) (pos : nat) (last : option nat) := p_loop A cfg h true (S (length h)) s pos last.

    Lemma pl_psteps ids pos ids' pos' :
      psteps h ids pos ids' pos' -> forall s s' last, d_ids s = ids -> d_ids s' = ids' -> PL s pos last = PL s' pos' last.
    Proof. clear Hstride.
      induction 1 as [ids pos|ids pos ids1 ids' pos' Hl Hd Hs IH]; intros s s' last Hi Hi'.
      - apply p_loop_ids. congruence.
      - unfold PL. rewrite (p_loop_step h true _ s pos last _ (byte_at_nth h pos Hl)). rewrite Hi, Hd.
        rewrite (pl_fuel true (length h) (S (length h))) by lia.
        apply (IH (mkD ids1 (is_word_byte (byte_at h pos)) false false false) s'); auto.
    Qed.

    (* a cached, non-dead entry taken without going through `take` (start-state fast transition) *)
    Lemma fast_entry c sid ids pos :
      cinv c -> rep c sid ids ->
      is_invalid (lookup cfg c sid (byte_at h pos)) = false -> is_dead (lookup cfg c sid (byte_at h pos)) = false ->
      exists ids' m, cdet ids (byte_at h pos) = CNext ids' m /\ rep c (lookup cfg c sid (byte_at h pos)) ids' /\
                     mtag (lookup cfg c sid (byte_at h pos)) = m.
    Proof. clear Hstride.
      intros Hc Hr Hi Hd. pose proof (lookup_ok c sid ids (byte_at h pos) Hc Hr) as Hok.
      destruct (lookup cfg c sid (byte_at h pos)) as [| |j m st]; try discriminate.
      destruct Hok as [s' [Hs' [Hm Hx]]]. exists (d_ids (cs_d s')), (d_match (cs_d s')).
      split; [now apply Hx|]. split; [|exact Hm]. exists s'. cbn [get_state mtag]. auto.
    Qed.

    Lemma rep_ext c c' t ids : ext c c' -> rep c t ids -> rep c' t ids.
    Proof. clear Hstride.
      intros He [s [H1 [H2 H3]]]. destruct t as [| |i m st]; cbn in H1; try discriminate.
      destruct (He _ _ H1) as [s' [Ha Hb]]. exists s'. cbn [get_state]. rewrite Hb. auto.
    Qed.

    Lemma at_loop_spec : forall fuel c sid pos last s c' o,
      cinv c -> accel_ok c -> rep c sid (d_ids s) -> length h - pos < fuel ->
      drive None (at_step A cfg h) fuel c (sid, pos, last) = (c', o) ->
      cinv c' /\ accel_ok c' /\ (o = RFallback \/ o = PL s pos last).
    Proof.
      induction fuel as [|f IH]; intros c sid pos last s c' o Hc Ha Hr Hf; [clia|].
      cbn [drive]. unfold at_step at 1.
      destruct (Nat.leb_spec (length h) pos) as [Hle|Hlt].
      { intros H; inversion H; subst; clear H. split; [exact Hc|]. split; [exact Ha|]. right.
        unfold PL. rewrite p_loop_eoi by exact Hle. now rewrite (eoi_of_rep _ _ _ Hr). }
      assert (Hslow : forall sid1 pos1 s1 c' o,
                 rep c sid1 (d_ids s1) -> pos <= pos1 -> pos1 < length h ->
                 match
                   (let nx := lookup cfg c sid1 (byte_at h pos1) in
                    if stag sid1 && negb (is_invalid nx) && negb (is_dead nx)
                    then (c, inr (nx, S pos1, if mtag nx then Some pos1 else last))
                    else match get_state c sid1 with
                         | None => (c, inl RFallback)
                         | Some _ =>
                             let c1 := try_detect cfg c (tidx sid1) in
                             let ex := accel_bytes c1 sid1 in
                             let jump := match ex with [] => Some pos1 | _ => accelerate h pos1 ex end in
                             match jump with
                             | None => if cfg_accel_no_eoi cfg then (c1, inl (RDfa last))
                                       else (c1, inl (RDfa (if eoi_of A c1 sid1 then Some (length h) else last)))
                             | Some pos' =>
                                 let b := byte_at h pos' in
                                 match take A cfg c1 sid1 b with
                                 | (c2, ZErr) => (c2, inl RFallback)
                                 | (c2, ZDead) => (c2, inl (RDfa last))
                                 | (c2, ZNext t) => (c2, inr (t, S pos', if mtag t then Some pos' else last))
                                 end
                             end
                         end)
                 with
                 | (c2, inl o2) => (c2, o2)
                 | (c2, inr st') => drive None (at_step A cfg h) f c2 st'
                 end = (c', o) -> cinv c' /\ accel_ok c' /\ (o = RFallback \/ o = PL s1 pos1 last)).
      { intros sid1 pos1 s1 c'' o' Hr1 Hge Hlt1. cbv zeta.
        unfold PL. rewrite (p_loop_step h true _ s1 pos1 last _ (byte_at_nth h pos1 Hlt1)).
        destruct (stag sid1 && negb (is_invalid (lookup cfg c sid1 (byte_at h pos1))) &&
                  negb (is_dead (lookup cfg c sid1 (byte_at h pos1)))) eqn:Efast.
        - apply andb_prop in Efast as [Efast Hd]. apply andb_prop in Efast as [_ Hi].
          apply negb_true_iff in Hd, Hi.
          destruct (fast_entry c sid1 (d_ids s1) pos1 Hc Hr1 Hi Hd) as [ids' [m [Hcd [Hr' Hm]]]].
          rewrite Hcd, Hm. intros H. rewrite (pl_fuel true (length h) (S (length h))) by clia.
          eapply (IH c _ (S pos1) _ (mkD ids' (is_word_byte (byte_at h pos1)) m false false)); [exact Hc|exact Ha|exact Hr'|clia|exact H].
        - destruct Hr1 as [s0 [Hg [Hi0 Hm0]]]. rewrite Hg.
          destruct sid1 as [| |i1 m1 st1]; cbn in Hg; try discriminate. cbn [tidx].
          destruct (try_detect_spec c i1 s0 Ha Hg) as [Ha1 [He1 [s01 [Hs01 [Hx01 [Hd01 Hrow01]]]]]].
          pose proof (cinv_try_detect c i1 Hc) as Hc1.
          set (c1 := try_detect cfg c i1) in *.
          rewrite (accel_bytes_nil c1 _ Ha1).
          assert (Hr1' : rep c1 (TId i1 m1 st1) (d_ids s1)).
          { exists s01. cbn [get_state mtag]. rewrite Hd01. auto. }
          destruct (take A cfg c1 (TId i1 m1 st1) (byte_at h pos1)) as [c2 z] eqn:Et.
          destruct (take_spec _ _ _ _ _ _ Hc1 Hr1' Et) as [Hc2 Hz].
          assert (Ha2 : accel_ok c2) by (eapply (take_accel c1 (TId i1 m1 st1)); [exact Ha1|exact Hs01|exact Hx01|exact Et]).
          destruct z as [| |t]; cbn in Hz.
          + intros H; inversion H; subst. split; [exact Hc2|]. split; [exact Ha2|]. right. now rewrite Hz.
          + intros H; inversion H; subst. split; [exact Hc2|]. split; [exact Ha2|]. now left.
          + destruct Hz as [ids' [m [Hd [Hr' Hm]]]]. rewrite Hd, Hm.
            intros H. rewrite (pl_fuel true (length h) (S (length h))) by clia.
            eapply (IH c2 t (S pos1) _ (mkD ids' (is_word_byte (byte_at h pos1)) m false false)); [exact Hc2|exact Ha2|exact Hr'|clia|exact H]. }
      rewrite Hwb. cbn [negb andb].
      assert (Hna : is_accelerable c sid = false).
      { unfold is_accelerable. now rewrite (accel_bytes_nil c sid Ha). }
      destruct (pos + 3 <? length h) eqn:E3.
      - apply Nat.ltb_lt in E3. rewrite Hna.
        destruct (unroll4 cfg c h sid pos) as [[sid1 pos1] u] eqn:Eu.
        destruct (unroll4_spec h _ _ _ _ _ _ _ Hc Hr E3 Eu) as [ids1 [Hps [Hr1 [Hle1 [Hcont Hst]]]]].
        pose proof (psteps_le h _ _ _ _ Hps) as Hge.
        set (s1 := mkD ids1 false false false false).
        assert (Heq : PL s pos last = PL s1 pos1 last) by (apply (pl_psteps _ _ _ _ Hps); reflexivity).
        rewrite Heq.
        destruct u.
        + intros H. specialize (Hcont eq_refl).
          eapply (IH c sid1 pos1 last s1); [exact Hc|exact Ha|exact Hr1|clia|exact H].
        + intros H. eapply (Hslow sid1 pos1 s1); [exact Hr1|exact Hge|exact Hst|]. exact H.
        + destruct Hst as [Hst _]. intros H. eapply (Hslow sid1 pos1 s1); [exact Hr1|exact Hge|exact Hst|]. exact H.
      - intros H. eapply (Hslow sid pos s); [exact Hr|clia|exact Hlt|]. exact H.
    Qed.

    (* ---------------- searchEarliestMatch *)
    Lemma pe_step f s pos b :
      nth_error h pos = Some b ->
      p_earliest_loop A cfg h (S f) s pos =
      match cdet (d_ids s) b with
      | CDead => RDfa false
      | CLimit => RFallback
      | CNext ids m => if m then RDfa true
                       else p_earliest_loop A cfg h f (mkD ids (is_word_byte b) m false false) (S pos)
      end.
    Proof. clear Hstride.
      intros Hb. cbn [p_earliest_loop]. rewrite Hb, Hwb. cbn [andb]. rewrite pdet_cdet.
      destruct (cdet (d_ids s) b) as [| |ids m]; try reflexivity.
    Qed.

    Lemma pe_eoi f s pos : length h <= pos -> p_earliest_loop A cfg h (S f) s pos = RDfa (eoi_match A s).
    Proof. clear Hstride. intros H. cbn [p_earliest_loop]. apply nth_error_None in H. now rewrite H. Qed.

    Lemma pe_ids : forall f s s' pos, d_ids s = d_ids s' -> p_earliest_loop A cfg h f s pos = p_earliest_loop A cfg h f s' pos.
    Proof. clear Hstride.
      induction f as [|f IH]; intros s s' pos Hi; [reflexivity|].
      cbn [p_earliest_loop]. destruct (nth_error h pos) as [b|]; [|now rewrite (eoi_match_ids _ _ Hi)].
      rewrite Hwb. cbn [andb]. now rewrite !pdet_cdet, Hi.
    Qed.

    Lemma pe_fuel : forall f1 f2 s pos, length h - pos < f1 -> length h - pos < f2 ->
      p_earliest_loop A cfg h f1 s pos = p_earliest_loop A cfg h f2 s pos.
    Proof. clear Hstride.
      induction f1 as [|f1 IH]; intros f2 s pos H1 H2; [clia|]. destruct f2 as [|f2]; [clia|].
      destruct (Nat.leb_spec (length h) pos) as [Hle|Hlt].
      - now rewrite !pe_eoi.
      - rewrite !(pe_step _ s pos _ (byte_at_nth h pos Hlt)).
        destruct (cdet (d_ids s) (byte_at h pos)) as [| |ids m]; try reflexivity.
        destruct m; [reflexivity|]. apply IH; clia.
    Qed.

    Definition PE (s : dstate) (pos : nat) := p_earliest_loop A cfg h (S (length h)) s pos.

    Lemma pe_psteps ids pos ids' pos' :
      psteps h ids pos ids' pos' -> forall s s', d_ids s = ids -> d_ids s' = ids' -> PE s pos = PE s' pos'.
    Proof. clear Hstride.
      induction 1 as [ids pos|ids pos ids1 ids' pos' Hl Hd Hs IH]; intros s s' Hi Hi'.
      - apply pe_ids. congruence.
      - unfold PE. rewrite (pe_step _ s pos _ (byte_at_nth h pos Hl)). rewrite Hi, Hd.
        rewrite (pe_fuel (length h) (S (length h))) by clia.
        apply (IH (mkD ids1 (is_word_byte (byte_at h pos)) false false false) s'); auto.
    Qed.

    Lemma earliest_loop_spec : forall fuel c sid pos last s c' o,
      cinv c -> accel_ok c -> rep c sid (d_ids s) -> length h - pos < fuel ->
      drive false (earliest_step A cfg h) fuel c (sid, pos, last) = (c', o) ->
      cinv c' /\ accel_ok c' /\ (o = RFallback \/ o = PE s pos).
    Proof.
      induction fuel as [|f IH]; intros c sid pos last s c' o Hc Ha Hr Hf; [clia|].
      cbn [drive]. unfold earliest_step at 1.
      destruct (Nat.leb_spec (length h) pos) as [Hle|Hlt].
      { intros H; inversion H; subst; clear H. split; [exact Hc|]. split; [exact Ha|]. right.
        unfold PE. rewrite pe_eoi by exact Hle. now rewrite (eoi_of_rep _ _ _ Hr). }
      assert (Hslow : forall sid1 pos1 s1 c' o,
                 rep c sid1 (d_ids s1) -> pos <= pos1 -> pos1 < length h ->
                 match
                   (let nx := lookup cfg c sid1 (byte_at h pos1) in
                    if stag sid1 && negb (is_invalid nx) && negb (is_dead nx)
                    then if mtag nx then (c, inl (RDfa true)) else (c, inr (nx, S pos1, last))
                    else match get_state c sid1 with
                         | None => (c, inl RFallback)
                         | Some _ =>
                             let c1 := try_detect cfg c (tidx sid1) in
                             let ex := accel_bytes c1 sid1 in
                             let jump := match ex with [] => Some pos1 | _ => accelerate h pos1 ex end in
                             match jump with
                             | None => if cfg_accel_no_eoi cfg then (c1, inl (RDfa false))
                                       else (c1, inl (RDfa (eoi_of A c1 sid1)))
                             | Some pos' =>
                                 let b := byte_at h pos' in
                                 match take A cfg c1 sid1 b with
                                 | (c2, ZErr) => (c2, inl RFallback)
                                 | (c2, ZDead) => (c2, inl (RDfa false))
                                 | (c2, ZNext t) => if mtag t then (c2, inl (RDfa true)) else (c2, inr (t, S pos', last))
                                 end
                             end
                         end)
                 with
                 | (c2, inl o2) => (c2, o2)
                 | (c2, inr st') => drive false (earliest_step A cfg h) f c2 st'
                 end = (c', o) -> cinv c' /\ accel_ok c' /\ (o = RFallback \/ o = PE s1 pos1)).
      { intros sid1 pos1 s1 c'' o' Hr1 Hge Hlt1. cbv zeta.
        unfold PE. rewrite (pe_step _ s1 pos1 _ (byte_at_nth h pos1 Hlt1)).
        destruct (stag sid1 && negb (is_invalid (lookup cfg c sid1 (byte_at h pos1))) &&
                  negb (is_dead (lookup cfg c sid1 (byte_at h pos1)))) eqn:Efast.
        - apply andb_prop in Efast as [Efast Hd]. apply andb_prop in Efast as [_ Hi].
          apply negb_true_iff in Hd, Hi.
          destruct (fast_entry c sid1 (d_ids s1) pos1 Hc Hr1 Hi Hd) as [ids' [m [Hcd [Hr' Hm]]]].
          rewrite Hcd, Hm. destruct m.
          + intros H; inversion H; subst. split; [exact Hc|]. split; [exact Ha|]. now right.
          + intros H. rewrite (pe_fuel (length h) (S (length h))) by clia.
            eapply (IH c _ (S pos1) _ (mkD ids' (is_word_byte (byte_at h pos1)) false false false)); [exact Hc|exact Ha|exact Hr'|clia|exact H].
        - destruct Hr1 as [s0 [Hg [Hi0 Hm0]]]. rewrite Hg.
          destruct sid1 as [| |i1 m1 st1]; cbn in Hg; try discriminate. cbn [tidx].
          destruct (try_detect_spec c i1 s0 Ha Hg) as [Ha1 [He1 [s01 [Hs01 [Hx01 [Hd01 Hrow01]]]]]].
          pose proof (cinv_try_detect c i1 Hc) as Hc1.
          set (c1 := try_detect cfg c i1) in *.
          rewrite (accel_bytes_nil c1 _ Ha1).
          assert (Hr1' : rep c1 (TId i1 m1 st1) (d_ids s1)).
          { exists s01. cbn [get_state mtag]. rewrite Hd01. auto. }
          destruct (take A cfg c1 (TId i1 m1 st1) (byte_at h pos1)) as [c2 z] eqn:Et.
          destruct (take_spec _ _ _ _ _ _ Hc1 Hr1' Et) as [Hc2 Hz].
          assert (Ha2 : accel_ok c2) by (eapply (take_accel c1 (TId i1 m1 st1)); [exact Ha1|exact Hs01|exact Hx01|exact Et]).
          destruct z as [| |t]; cbn in Hz.
          + intros H; inversion H; subst. split; [exact Hc2|]. split; [exact Ha2|]. right. now rewrite Hz.
          + intros H; inversion H; subst. split; [exact Hc2|]. split; [exact Ha2|]. now left.
          + destruct Hz as [ids' [m [Hd [Hr' Hm]]]]. rewrite Hd, Hm. destruct m.
            * intros H; inversion H; subst. split; [exact Hc2|]. split; [exact Ha2|]. now right.
            * intros H. rewrite (pe_fuel (length h) (S (length h))) by clia.
              eapply (IH c2 t (S pos1) _ (mkD ids' (is_word_byte (byte_at h pos1)) false false false)); [exact Hc2|exact Ha2|exact Hr'|clia|exact H]. }
      rewrite Hwb. cbn [negb andb].
      assert (Hna : is_accelerable c sid = false).
      { unfold is_accelerable. now rewrite (accel_bytes_nil c sid Ha). }
      destruct (pos + 3 <? length h) eqn:E3.
      - apply Nat.ltb_lt in E3. rewrite Hna.
        destruct (unroll4 cfg c h sid pos) as [[sid1 pos1] u] eqn:Eu.
        destruct (unroll4_spec h _ _ _ _ _ _ _ Hc Hr E3 Eu) as [ids1 [Hps [Hr1 [Hle1 [Hcont Hst]]]]].
        pose proof (psteps_le h _ _ _ _ Hps) as Hge.
        set (s1 := mkD ids1 false false false false).
        assert (Heq : PE s pos = PE s1 pos1) by (apply (pe_psteps _ _ _ _ Hps); reflexivity).
        rewrite Heq.
        destruct u.
        + intros H. specialize (Hcont eq_refl).
          eapply (IH c sid1 pos1 last s1); [exact Hc|exact Ha|exact Hr1|clia|exact H].
        + intros H. eapply (Hslow sid1 pos1 s1); [exact Hr1|exact Hge|exact Hst|]. exact H.
        + destruct Hst as [Hst [ids2 Hm2]]. intros H; inversion H; subst. split; [exact Hc|]. split; [exact Ha|].
          right. unfold PE. rewrite (pe_step _ s1 pos1 _ (byte_at_nth h pos1 Hst)). cbn [s1 d_ids]. now rewrite Hm2.
      - intros H. eapply (Hslow sid pos s); [exact Hr|clia|exact Hlt|]. exact H.
    Qed.
  End LoopsA.

  (* ---------------- acceleration is transparent (current detection, current loops) *)
  Hypothesis Hloose : cfg_loose_accel cfg = false.
  Hypothesis Hnoeoi : cfg_accel_no_eoi cfg = false.
  Hypothesis Hel : has_endline A = false.

  (* the byte classes are consecutive runs covering 0..255 with class indices below the stride *)
  Fixpoint runs_ok (lo : N) (runs : list (N * nat)) (str : nat) : bool :=
    match runs with
    | [] => false
    | (hi, c) :: t =>
        (lo <=? hi)%N && (c <? str) && match t with [] => (hi =? 255)%N | _ => runs_ok (hi + 1)%N t str end
    end.
  Hypothesis Hruns : runs_ok 0%N (cfg_classes cfg) (stride cfg) = true.

  Lemma runs_ok_cons lo hi c t str :
    runs_ok lo ((hi, c) :: t) str = true ->
    (lo <= hi)%N /\ c < str /\ ((t = [] /\ hi = 255%N) \/ (t <> [] /\ runs_ok (hi + 1)%N t str = true)).
  Proof.
    clear Hstride.
    cbn [runs_ok]. intros H. apply andb_prop in H as [H H3]. apply andb_prop in H as [H1 H2].
    apply N.leb_le in H1. apply Nat.ltb_lt in H2. split; [exact H1|]. split; [exact H2|].
    destruct t as [|p t]; [left; split; [reflexivity|now apply N.eqb_eq]|right; split; [discriminate|exact H3]].
  Qed.

  Lemma class_lt_runs str : forall runs lo b,
    runs_ok lo runs str = true -> (lo <= b)%N -> (b <= 255)%N -> class_of_runs runs b < str.
  Proof.
    clear Hstride.
    induction runs as [|[hi c] t IH]; intros lo b Hok Hlo Hb; [discriminate|].
    destruct (runs_ok_cons _ _ _ _ _ Hok) as [H1 [H2 H3]]. cbn [class_of_runs].
    destruct (N.leb_spec b hi) as [Hle|Hgt]; [exact H2|].
    destruct H3 as [[-> ->]|[_ H3]]; [lia|]. apply (IH (hi + 1)%N); [exact H3|lia|exact Hb].
  Qed.

  Lemma class_size_pos str : forall runs lo b,
    runs_ok lo runs str = true -> (lo <= b)%N -> (b <= 255)%N ->
    (1 <= class_size_runs runs lo (class_of_runs runs b))%N.
  Proof.
    clear Hstride.
    induction runs as [|[hi c] t IH]; intros lo b Hok Hlo Hb; [discriminate|].
    destruct (runs_ok_cons _ _ _ _ _ Hok) as [H1 [H2 H3]]. cbn [class_of_runs class_size_runs].
    destruct (N.leb_spec b hi) as [Hle|Hgt].
    - rewrite Nat.eqb_refl. lia.
    - destruct H3 as [[-> ->]|[_ H3]]; [lia|].
      specialize (IH (hi + 1)%N b H3 ltac:(lia) Hb). lia.
  Qed.

  Lemma class_single str : forall runs lo b k,
    runs_ok lo runs str = true -> (lo <= b)%N -> (b <= 255)%N ->
    class_size_runs runs lo k = 1%N -> class_of_runs runs b = k -> class_rep_runs runs lo k = Some b.
  Proof.
    clear Hstride.
    induction runs as [|[hi c] t IH]; intros lo b k Hok Hlo Hb Hsz Hk; [discriminate|].
    destruct (runs_ok_cons _ _ _ _ _ Hok) as [H1 [H2 H3]].
    cbn [class_of_runs class_size_runs class_rep_runs] in *.
    destruct (N.leb_spec b hi) as [Hle|Hgt].
    - subst k. rewrite Nat.eqb_refl in *. f_equal. lia.
    - destruct H3 as [[-> ->]|[_ H3]]; [lia|].
      pose proof (class_size_pos str t (hi + 1)%N b H3 ltac:(lia) Hb) as Hp. rewrite Hk in Hp.
      destruct (c =? k) eqn:Ec; [lia|].
      apply (IH (hi + 1)%N b k H3 ltac:(lia) Hb); [lia|exact Hk].
  Qed.

  Lemma tid_eqb_true a b : tid_eqb a b = true -> a = b.
  Proof.
    clear Hstride.
    destruct a as [| |i m s], b as [| |j m' s']; cbn; try discriminate; auto.
    intros H. apply andb_prop in H as [H H3]. apply andb_prop in H as [H1 H2].
    apply Nat.eqb_eq in H1. apply eqb_prop in H2, H3. now subst.
  Qed.

  Lemma leave_notin self : forall row off k,
    k < length row -> ~ In (off + k) (leave_classes self row off) -> tid_eqb (nth k row TInvalid) self = true.
  Proof.
    clear Hstride.
    induction row as [|t r IH]; intros off k Hk Hn; [cbn in Hk; lia|].
    cbn [leave_classes] in Hn. destruct k as [|k].
    - cbn [nth]. destruct (tid_eqb t self) eqn:E; [reflexivity|]. exfalso. apply Hn. left. lia.
    - cbn [nth]. apply (IH (S off) k); [cbn in Hk; lia|]. intros Hi. apply Hn.
      replace (off + S k) with (S off + k) by lia. destruct (tid_eqb t self); [exact Hi|now right].
  Qed.

  Lemma reps_of_in r : forall ex k, In k ex -> class_rep cfg k = Some r -> In r (reps_of cfg ex).
  Proof.
    clear Hstride.
    induction ex as [|x ex IH]; intros k Hin Hr; [destruct Hin|]. cbn [reps_of].
    destruct Hin as [->|Hi].
    - rewrite Hr. now left.
    - destruct (class_rep cfg x); [right|]; eapply IH; eauto.
  Qed.

  Lemma nth_firstn_tid n : forall (l : list tid) k, k < n -> nth k (firstn n l) TInvalid = nth k l TInvalid.
  Proof.
    clear Hstride.
    induction n as [|n IH]; intros l k Hk; [lia|]. destruct l as [|x l]; [now destruct k|].
    destruct k as [|k]; cbn; [reflexivity|]. apply IH. lia.
  Qed.

  (* what a successful sound detection guarantees: every other byte loops back to the state *)
  Lemma detect_sound_spec c i s :
    cinv c -> slot c i = Some s -> detect_accel_sound cfg c i <> [] ->
    forall b, (b <= 255)%N -> existsb (N.eqb b) (detect_accel_sound cfg c i) = false ->
    cdet (d_ids (cs_d s)) b = CNext (d_ids (cs_d s)) (d_match (cs_d s)).
  Proof.
    clear Hstride.
    intros Hc Hs. unfold detect_accel_sound. rewrite Hs.
    set (row := firstn (stride cfg) (cs_row s)).
    destruct (Nat.ltb_spec (length row) (stride cfg)) as [Hlt|Hlen]; [intros H; now elim H|]. cbn [orb].
    destruct (existsb is_invalid row); [intros H; now elim H|].
    set (ex := leave_classes (sid_of c i) row 0).
    destruct ((1 <=? length ex) && (length ex <=? 3) && forallb (fun k => (class_size cfg k =? 1)%N) ex) eqn:Econd;
      [|intros H; now elim H].
    apply andb_prop in Econd as [_ Hall]. rewrite forallb_forall in Hall.
    intros _ b Hb Hnot.
    set (k := class_of cfg b).
    assert (Hk : k < stride cfg) by (apply (class_lt_runs (stride cfg) _ 0%N b Hruns); lia).
    assert (Hnin : ~ In k ex).
    { intros Hi. specialize (Hall k Hi). apply N.eqb_eq in Hall.
      assert (Hrep : class_rep cfg k = Some b).
      { apply (class_single (stride cfg) _ 0%N b k Hruns); [lia|exact Hb|exact Hall|reflexivity]. }
      pose proof (reps_of_in b ex k Hi Hrep) as Hin.
      assert (existsb (N.eqb b) (reps_of cfg ex) = true).
      { apply existsb_exists. exists b. split; [exact Hin|apply N.eqb_refl]. }
      congruence. }
    assert (Hself : nth k (cs_row s) TInvalid = sid_of c i).
    { apply tid_eqb_true. rewrite <- (nth_firstn_tid (stride cfg) (cs_row s) k Hk).
      apply (leave_notin (sid_of c i) row 0 k); [fold row; lia|exact Hnin]. }
    pose proof (proj2 (proj1 Hc _ _ Hs) k) as Hrow. rewrite Hself, (sid_of_some _ _ _ Hs) in Hrow.
    destruct Hrow as [s' [Hs' [_ Hd]]]. rewrite Hs in Hs'. inversion Hs'; subst s'. now apply Hd.
  Qed.

  (* the invariant: acceleration bytes, once set, really are the only exits *)
  Definition asound (s : cstate) : Prop :=
    forall l, cs_accel s = Some l -> l <> [] ->
    forall b, (b <= 255)%N -> existsb (N.eqb b) l = false ->
    cdet (d_ids (cs_d s)) b = CNext (d_ids (cs_d s)) (d_match (cs_d s)).

  Definition accel_sound (c : cache) : Prop := forall i s, slot c i = Some s -> asound s.

  Lemma accel_sound_new : accel_sound new_cache.
  Proof. intros i s H. unfold slot, new_cache in H. cbn in H. destruct i; discriminate. Qed.

  Lemma asound_upd c i f :
    accel_sound c -> (forall s, slot c i = Some s -> asound (f s)) -> accel_sound (upd_slot c i f).
  Proof.
    clear Hstride.
    intros Ha Hf j s Hs. rewrite slot_upd in Hs. destruct (Nat.eqb_spec j i) as [->|Hne]; [|eauto].
    destruct (slot c i) as [s0|] eqn:E; [|discriminate]. cbn in Hs. inversion Hs; subst. eauto.
  Qed.

  Lemma asound_set_row c i cls t : accel_sound c -> accel_sound (set_row c i cls t).
  Proof. intros Ha. unfold set_row. apply asound_upd; [exact Ha|]. intros s Hs. exact (Ha _ _ Hs). Qed.

  Lemma asound_mark_start c j k anch : accel_sound c -> accel_sound (mark_start c j k anch).
  Proof.
    clear Hstride.
    intros Ha i s Hs. unfold mark_start in Hs.
    change (slot (upd_slot c j (fun s => mkCS (cs_d s) true (cs_accel s) (cs_row s))) i = Some s) in Hs.
    revert i s Hs. apply asound_upd; [exact Ha|]. intros s0 Hs0. exact (Ha _ _ Hs0).
  Qed.

  Lemma asound_push c d c' j : accel_sound c -> push cfg c d = (c', j) -> accel_sound c'.
  Proof.
    clear Hstride.
    intros Ha Hp. destruct (slot_push _ _ _ _ _ Hp) as [H1 [H2 _]].
    intros i s Hs. destruct (Nat.eq_dec i j) as [->|Hne].
    - rewrite H1 in Hs. inversion Hs; subst. intros l Hl. discriminate.
    - rewrite H2 in Hs by exact Hne. eauto.
  Qed.

  Lemma asound_clear c : accel_sound (clear_cache A cfg c).
  Proof.
    clear Hstride.
    intros i s Hs. unfold clear_cache, slot in Hs. cbn in Hs. destruct i as [|[|i]]; cbn in Hs; try discriminate.
    inversion Hs; subst. intros l Hl. discriminate.
  Qed.

  Lemma asound_try_detect c i : cinv c -> accel_sound c -> accel_sound (try_detect cfg c i).
  Proof.
    clear Hstride.
    intros Hc Ha. unfold try_detect. destruct (slot c i) as [s|] eqn:Hs; [|exact Ha].
    destruct (cs_accel s) eqn:Hx; [exact Ha|].
    apply asound_upd; [exact Ha|]. intros s0 Hs0. rewrite Hs in Hs0. inversion Hs0; subst s0.
    intros l Hl Hne b Hb Hnot. cbn [cs_accel cs_d] in *. inversion Hl; subst l.
    unfold detect_accel in *. rewrite Hloose in *. eapply detect_sound_spec; eauto.
  Qed.

  Lemma dz_asound c cur b c' z : accel_sound c -> dz A cfg c cur b = (c', z) -> accel_sound c'.
  Proof.
    clear Hstride.
    intros Ha. unfold dz. destruct (slot c cur) as [cs|]; [|intros H; inversion H; subst; exact Ha].
    destruct (pdet A cfg (cs_d cs) b) as [| |ns].
    - intros H; inversion H; subst. now apply asound_set_row.
    - intros H; inversion H; subst. exact Ha.
    - destruct (find_key cfg c (key_of cfg ns)) as [j|].
      + intros H; inversion H; subst. now apply asound_set_row.
      + destruct (is_full cfg c).
        * destruct (cfg_max_clears cfg <=? c_clears c); [intros H; inversion H; subst; exact Ha|].
          pose proof (asound_clear c) as Ha1. set (c1 := clear_cache A cfg c) in *.
          assert (Hstep2 : forall c2 j0, accel_sound c2 -> forall c' z,
                     match find_key cfg c2 (key_of cfg ns) with
                     | Some j => (set_row c2 j0 (class_of cfg b) (sid_of c2 j), ZNext (sid_of c2 j))
                     | None => if is_full cfg c2 then (c2, ZErr)
                               else let '(c3, j) := push cfg c2 ns in
                                    (set_row c3 j0 (class_of cfg b) (sid_of c3 j), ZNext (sid_of c3 j))
                     end = (c', z) -> accel_sound c').
          { intros c2 j0 Ha2 c'' z'. destruct (find_key cfg c2 (key_of cfg ns)) as [j|].
            - intros H; inversion H; subst. now apply asound_set_row.
            - destruct (is_full cfg c2); [intros H; inversion H; subst; exact Ha2|].
              destruct (push cfg c2 ns) as [c3 j] eqn:Ep. intros H; inversion H; subst.
              apply asound_set_row. eapply asound_push; eauto. }
          destruct (find_key cfg c1 (key_of cfg (cs_d cs))) as [j0|].
          { intros H. eapply Hstep2; eauto. }
          destruct (is_full cfg c1); [intros H; inversion H; subst; exact Ha1|].
          destruct (push cfg c1 (cs_d cs)) as [c2 j0] eqn:Ep.
          intros H. eapply (Hstep2 c2 j0); [eapply asound_push; eauto|exact H].
        * destruct (push cfg c ns) as [c1 j] eqn:Ep. intros H; inversion H; subst.
          apply asound_set_row. eapply asound_push; eauto.
  Qed.

  Lemma take_asound c sid b c' z : accel_sound c -> take A cfg c sid b = (c', z) -> accel_sound c'.
  Proof.
    clear Hstride.
    intros Ha. unfold take.
    destruct (lookup cfg c sid b); try (intros H; inversion H; subst; exact Ha).
    destruct (get_state c sid); [|intros H; inversion H; subst; exact Ha].
    intros H. eapply dz_asound; eauto.
  Qed.

  Lemma insert_start_asound c d k anch c1 t :
    accel_sound c -> insert_start cfg c d k anch = Some (c1, t) -> accel_sound c1.
  Proof.
    clear Hstride.
    intros Ha. unfold insert_start. destruct (find_key cfg c (key_of cfg d)).
    - intros H; inversion H; subst. now apply asound_mark_start.
    - destruct (is_full cfg c); [discriminate|].
      destruct (push cfg c d) as [c2 j] eqn:Ep. intros H; inversion H; subst.
      apply asound_mark_start. eapply asound_push; eauto.
  Qed.

  Lemma get_start_asound c k anch c' o :
    accel_sound c -> get_start_k A cfg c k anch = (c', o) -> accel_sound c'.
  Proof.
    clear Hstride.
    intros Ha. unfold get_start_k.
    destruct (nth (stab_idx k anch) (c_stab c) TInvalid).
    - destruct (insert_start cfg c (pstart A k anch) k anch) as [[c1 t]|] eqn:Ei.
      + intros H; inversion H; subst. eapply insert_start_asound; eauto.
      + rewrite Hentry.
        destruct (cfg_max_clears cfg <=? c_clears c); [intros H; inversion H; subst; exact Ha|].
        destruct (insert_start cfg (clear_cache A cfg c) (pstart A k anch) k anch) as [[c2 t]|] eqn:Ei2.
        * intros H; inversion H; subst. eapply insert_start_asound; [apply asound_clear|exact Ei2].
        * intros H; inversion H; subst. apply asound_clear.
    - intros H; inversion H; subst; exact Ha.
    - intros H; inversion H; subst; exact Ha.
  Qed.

  (* ---------------- closures contain their seeds; determinisation without EndLine looks *)
  Lemma memb_true_in q l : memb q l = true -> In q l.
  Proof. unfold memb. intros H. apply existsb_exists in H as [x [Hx He]]. apply Nat.eqb_eq in He. now subst. Qed.

  Lemma closure_loop_mono lh : forall f stack res q, In q res -> In q (closure_loop f A lh stack res).
  Proof.
    clear Hstride.
    induction f as [|f IH]; intros stack res q Hq; [exact Hq|]. cbn [closure_loop].
    destruct stack as [|x st]; [exact Hq|]. destruct (memb x res); apply IH; [exact Hq|].
    apply in_or_app. now left.
  Qed.

  Lemma closure_into_seed lh res q : In q (closure_into A lh res q).
  Proof.
    clear Hstride.
    unfold closure_into, closure_fuel. replace (2 * nstates A + 2) with (S (2 * nstates A + 1)) by lia.
    cbn [closure_loop]. destruct (memb q res) eqn:E.
    - apply closure_loop_mono. now apply memb_true_in.
    - apply closure_loop_mono. apply in_or_app. right. now left.
  Qed.

  Lemma closure_into_mono lh res seed q : In q res -> In q (closure_into A lh res seed).
  Proof. intros H. unfold closure_into. now apply closure_loop_mono. Qed.

  Lemma closure_seeds lh : forall seeds acc q, In q seeds \/ In q acc -> In q (fold_left (closure_into A lh) seeds acc).
  Proof.
    clear Hstride.
    induction seeds as [|x seeds IH]; intros acc q [H|H]; cbn [fold_left]; try (now destruct H); try exact H.
    - destruct H as [->|H]; apply IH; [right; apply closure_into_seed|now left].
    - apply IH. right. now apply closure_into_mono.
  Qed.

  Lemma eoi_match_of_match s : contains_match A (d_ids s) = true -> eoi_match A s = true.
  Proof.
    clear Hstride.
    unfold eoi_match, contains_match. rewrite resolve_wb_id. intros H.
    apply existsb_exists in H as [q [Hq Hm]]. apply existsb_exists. exists q. split; [|exact Hm].
    unfold closure. apply closure_seeds. now left.
  Qed.

  (* without EndLine looks the delayed-match flag of every successor is "the source contains Match" *)
  Lemma cdet_next_flag ids b ids' m : cdet ids b = CNext ids' m -> m = contains_match A ids.
  Proof.
    clear Hstride.
    unfold cdet, pdet. rewrite Hel. cbn [andb d_ids].
    destruct ((length _ =? 0) && _); [discriminate|]. destruct (cfg_det_limit cfg <? _); [discriminate|].
    cbn. intros H. now inversion H.
  Qed.

  Lemma cdet_dead_flag ids b : cdet ids b = CDead -> contains_match A ids = false.
  Proof.
    clear Hstride.
    unfold cdet, pdet. rewrite Hel. cbn [andb d_ids].
    destruct ((length _ =? 0) && negb (contains_match A ids)) eqn:E.
    - intros _. apply andb_prop in E as [_ E]. now apply negb_true_iff in E.
    - destruct (cfg_det_limit cfg <? _); discriminate.
  Qed.

  Lemma try_detect_ext c i : ext c (try_detect cfg c i).
  Proof.
    clear Hstride.
    unfold try_detect. destruct (slot c i) as [s|]; [|apply ext_refl].
    destruct (cs_accel s); [apply ext_refl|]. apply ext_upd_meta. reflexivity.
  Qed.

  (* memchr *)
  Lemma find_byte_spec ex : forall l p,
    match find_byte ex l p with
    | Some q => p <= q < p + length l /\ forall j, j < q - p -> existsb (N.eqb (nth j l 0%N)) ex = false
    | None => forall j, j < length l -> existsb (N.eqb (nth j l 0%N)) ex = false
    end.
  Proof.
    clear Hstride.
    induction l as [|b l IH]; intros p; cbn [find_byte length].
    - intros j Hj. lia.
    - destruct (existsb (N.eqb b) ex) eqn:E.
      + split; [lia|]. intros j Hj. lia.
      + specialize (IH (S p)). destruct (find_byte ex l (S p)) as [q|].
        * destruct IH as [H1 H2]. split; [lia|]. intros j Hj. destruct j as [|j]; [exact E|].
          cbn [nth]. apply H2. lia.
        * intros j Hj. destruct j as [|j]; [exact E|]. cbn [nth]. apply IH. lia.
  Qed.

  Lemma nth_skipn_N (l : list N) : forall n j, nth j (skipn n l) 0%N = nth (n + j) l 0%N.
  Proof.
    clear Hstride.
    induction l as [|x l IH]; intros n j.
    - rewrite skipn_nil. destruct j, n; reflexivity.
    - destruct n as [|n]; [reflexivity|]. cbn [skipn]. rewrite IH. reflexivity.
  Qed.

  Lemma accelerate_spec h pos ex : pos <= length h ->
    match accelerate h pos ex with
    | Some q => pos <= q < length h /\ forall p, pos <= p < q -> existsb (N.eqb (byte_at h p)) ex = false
    | None => forall p, pos <= p < length h -> existsb (N.eqb (byte_at h p)) ex = false
    end.
  Proof.
    clear Hstride.
    intros Hp. unfold accelerate. pose proof (find_byte_spec ex (skipn pos h) pos) as H.
    rewrite skipn_length in H. destruct (find_byte ex (skipn pos h) pos) as [q|].
    - destruct H as [H1 H2]. split; [lia|]. intros p Hpq. specialize (H2 (p - pos) ltac:(lia)).
      rewrite nth_skipn_N in H2. replace (pos + (p - pos)) with p in H2 by lia. exact H2.
    - intros p Hpq. specialize (H (p - pos) ltac:(lia)).
      rewrite nth_skipn_N in H. replace (pos + (p - pos)) with p in H by lia. exact H.
  Qed.

  Section LoopsS.
    Variable h : hay.
    Hypothesis Hbytes : Forall (fun b => (b <= 255)%N) h.

    Lemma byte_at_le p : p < length h -> (byte_at h p <= 255)%N.
    Proof.
      clear Hstride.
      intros Hp. unfold byte_at. rewrite Forall_forall in Hbytes. apply Hbytes. now apply nth_In.
    Qed.

    (* skipping n bytes that loop back to the same ids with flag m *)
    Lemma pl_self m : forall n pos last s,
      (forall p, pos <= p < pos + n -> cdet (d_ids s) (byte_at h p) = CNext (d_ids s) m) ->
      pos + n <= length h ->
      PL h s pos last = PL h s (pos + n) (if m && (0 <? n) then Some (pos + n - 1) else last).
    Proof.
      clear Hstride.
      induction n as [|n IH]; intros pos last s Hs Hlen.
      - rewrite Nat.add_0_r, andb_false_r. reflexivity.
      - unfold PL. rewrite (p_loop_step h true _ s pos last _ (byte_at_nth h pos ltac:(lia))).
        rewrite (Hs pos ltac:(lia)).
        rewrite (pl_fuel h true (length h) (S (length h))) by lia.
        set (s1 := mkD (d_ids s) (is_word_byte (byte_at h pos)) m false false).
        fold (PL h s1 (S pos) (if m then Some pos else last)).
        rewrite (IH (S pos) (if m then Some pos else last) s1); [|intros p Hp; apply Hs; lia|lia].
        replace (S pos + n) with (pos + S n) by lia.
        unfold PL. rewrite (p_loop_ids h true _ s1 s) by reflexivity.
        f_equal. destruct m; cbn [andb]; [|reflexivity].
        destruct n as [|n]; cbn; [f_equal; lia|f_equal; lia].
    Qed.

    Lemma pe_self_false : forall n pos s,
      (forall p, pos <= p < pos + n -> cdet (d_ids s) (byte_at h p) = CNext (d_ids s) false) ->
      pos + n <= length h -> PE h s pos = PE h s (pos + n).
    Proof.
      clear Hstride.
      induction n as [|n IH]; intros pos s Hs Hlen.
      - now rewrite Nat.add_0_r.
      - unfold PE. rewrite (pe_step h _ s pos _ (byte_at_nth h pos ltac:(lia))).
        rewrite (Hs pos ltac:(lia)).
        rewrite (pe_fuel h (length h) (S (length h))) by lia.
        set (s1 := mkD (d_ids s) (is_word_byte (byte_at h pos)) false false false).
        fold (PE h s1 (S pos)). rewrite (IH (S pos) s1); [|intros p Hp; apply Hs; lia|lia].
        replace (S pos + n) with (pos + S n) by lia. unfold PE. now apply pe_ids.
    Qed.

    (* the accelerated part of one searchAt iteration equals stepping *)
    Lemma at_jump_spec c sid s0 s pos last ex :
      cinv c -> accel_sound c -> rep c sid (d_ids s) -> get_state c sid = Some s0 ->
      cs_accel s0 = Some ex -> ex <> [] -> pos < length h ->
      match accelerate h pos ex with
      | None => PL h s pos last = RDfa (if eoi_of A c sid then Some (length h) else last)
      | Some pos' =>
          pos <= pos' < length h /\
          exists last1, PL h s pos last = PL h s pos' last1 /\
            (last1 = last \/ (contains_match A (d_ids s) = true))
      end.
    Proof.
      clear Hstride.
      intros Hc Ha Hr Hg Hx Hne Hp.
      destruct Hr as [s0' [Hg' [Hi Hm]]]. rewrite Hg in Hg'. inversion Hg'; subst s0'.
      destruct sid as [| |i mt st]; cbn in Hg; try discriminate.
      pose proof (Ha _ _ Hg ex Hx Hne) as Hs. rewrite Hi in Hs.
      set (m := d_match (cs_d s0)) in *.
      pose proof (accelerate_spec h pos ex ltac:(clia)) as Hacc.
      destruct (accelerate h pos ex) as [pos'|].
      - destruct Hacc as [Hr1 Hr2]. split; [exact Hr1|].
        exists (if m && (0 <? pos' - pos) then Some (pos + (pos' - pos) - 1) else last). split.
        + replace pos' with (pos + (pos' - pos)) at 1 by clia. apply pl_self; [|clia].
          intros p Hpp. apply Hs; [apply byte_at_le; clia|apply Hr2; clia].
        + destruct (0 <? pos' - pos) eqn:E0; [|left; now rewrite andb_false_r].
          destruct m eqn:Em; [|now left]. right.
          apply Nat.ltb_lt in E0. specialize (Hs (byte_at h pos) (byte_at_le pos Hp) (Hr2 pos ltac:(clia))).
          symmetry. apply (cdet_next_flag _ _ _ _ Hs).
      - rewrite (pl_self m (length h - pos) pos last s); [|intros p Hpp; apply Hs; [apply byte_at_le; clia|apply Hacc; clia]|clia].
        replace (pos + (length h - pos)) with (length h) by clia.
        unfold PL. rewrite p_loop_eoi by clia.
        assert (He : eoi_of A c (TId i mt st) = eoi_match A s).
        { apply eoi_of_rep. exists s0. cbn [get_state mtag]. auto. }
        rewrite He. destruct m eqn:Em; cbn [andb]; [|reflexivity].
        assert (Hcm : contains_match A (d_ids s) = true).
        { specialize (Hs (byte_at h pos) (byte_at_le pos Hp) (Hacc pos ltac:(clia))).
          symmetry. apply (cdet_next_flag _ _ _ _ Hs). }
        rewrite (eoi_match_of_match s Hcm). reflexivity.
    Qed.
  End LoopsS.

  Section LoopsS2.
    Variable h : hay.
    Hypothesis Hbytes : Forall (fun b => (b <= 255)%N) h.

    (* searchAt with ANY cache satisfying cinv and accel_sound: acceleration included *)
    Lemma at_loop_spec_s : forall fuel c sid pos last s c' o,
      cinv c -> accel_sound c -> rep c sid (d_ids s) -> length h - pos < fuel ->
      drive None (at_step A cfg h) fuel c (sid, pos, last) = (c', o) ->
      cinv c' /\ accel_sound c' /\ (o = RFallback \/ o = PL h s pos last).
    Proof.
      clear Hstride.
      induction fuel as [|f IH]; intros c sid pos last s c' o Hc Ha Hr Hf; [clia|].
      cbn [drive]. unfold at_step at 1.
      destruct (Nat.leb_spec (length h) pos) as [Hle|Hlt].
      { intros H; inversion H; subst; clear H. split; [exact Hc|]. split; [exact Ha|]. right.
        unfold PL. rewrite p_loop_eoi by exact Hle. now rewrite (eoi_of_rep _ _ _ Hr). }
      (* one transition at q, the cached side carrying lastc, the pure side lastp *)
      assert (Htake : forall c1 sidq q lastc lastp sq c' o,
                 cinv c1 -> accel_sound c1 -> rep c1 sidq (d_ids sq) -> pos <= q -> q < length h ->
                 (lastc = lastp \/ contains_match A (d_ids sq) = true) ->
                 match
                   (match take A cfg c1 sidq (byte_at h q) with
                    | (c2, ZErr) => (c2, inl RFallback)
                    | (c2, ZDead) => (c2, inl (RDfa lastc))
                    | (c2, ZNext t) => (c2, inr (t, S q, if mtag t then Some q else lastc))
                    end)
                 with
                 | (c2, inl o2) => (c2, o2)
                 | (c2, inr st') => drive None (at_step A cfg h) f c2 st'
                 end = (c', o) -> cinv c' /\ accel_sound c' /\ (o = RFallback \/ o = PL h sq q lastp)).
      { intros c1 sidq q lastc lastp sq c'' o' Hc1 Ha1 Hrq Hge Hq Hl.
        destruct (take A cfg c1 sidq (byte_at h q)) as [c2 z] eqn:Et.
        destruct (take_spec _ _ _ _ _ _ Hc1 Hrq Et) as [Hc2 Hz].
        pose proof (take_asound _ _ _ _ _ Ha1 Et) as Ha2.
        unfold PL. rewrite (p_loop_step h true _ sq q lastp _ (byte_at_nth h q Hq)).
        destruct z as [| |t]; cbn in Hz.
        - intros H; inversion H; subst. split; [exact Hc2|]. split; [exact Ha2|]. right. rewrite Hz.
          destruct Hl as [->|Hl]; [reflexivity|]. rewrite (cdet_dead_flag _ _ Hz) in Hl. discriminate.
        - intros H; inversion H; subst. split; [exact Hc2|]. split; [exact Ha2|]. now left.
        - destruct Hz as [ids' [m [Hd [Hr' Hm]]]]. rewrite Hd, Hm.
          assert (Hlast : (if m then Some q else lastc) = (if m then Some q else lastp)).
          { destruct m; [reflexivity|]. destruct Hl as [->|Hl]; [reflexivity|].
            rewrite <- (cdet_next_flag _ _ _ _ Hd) in Hl. discriminate. }
          rewrite Hlast. intros H. rewrite (pl_fuel h true (length h) (S (length h))) by clia.
          eapply (IH c2 t (S q) _ (mkD ids' (is_word_byte (byte_at h q)) m false false)); [exact Hc2|exact Ha2|exact Hr'|clia|exact H]. }
      assert (Hslow : forall sid1 pos1 s1 c' o,
                 rep c sid1 (d_ids s1) -> pos <= pos1 -> pos1 < length h ->
                 match
                   (let nx := lookup cfg c sid1 (byte_at h pos1) in
                    if stag sid1 && negb (is_invalid nx) && negb (is_dead nx)
                    then (c, inr (nx, S pos1, if mtag nx then Some pos1 else last))
                    else match get_state c sid1 with
                         | None => (c, inl RFallback)
                         | Some _ =>
                             let c1 := try_detect cfg c (tidx sid1) in
                             let ex := accel_bytes c1 sid1 in
                             let jump := match ex with [] => Some pos1 | _ => accelerate h pos1 ex end in
                             match jump with
                             | None => if cfg_accel_no_eoi cfg then (c1, inl (RDfa last))
                                       else (c1, inl (RDfa (if eoi_of A c1 sid1 then Some (length h) else last)))
                             | Some pos' =>
                                 let b := byte_at h pos' in
                                 match take A cfg c1 sid1 b with
                                 | (c2, ZErr) => (c2, inl RFallback)
                                 | (c2, ZDead) => (c2, inl (RDfa last))
                                 | (c2, ZNext t) => (c2, inr (t, S pos', if mtag t then Some pos' else last))
                                 end
                             end
                         end)
                 with
                 | (c2, inl o2) => (c2, o2)
                 | (c2, inr st') => drive None (at_step A cfg h) f c2 st'
                 end = (c', o) -> cinv c' /\ accel_sound c' /\ (o = RFallback \/ o = PL h s1 pos1 last)).
      { intros sid1 pos1 s1 c'' o' Hr1 Hge Hlt1. cbv zeta.
        destruct (stag sid1 && negb (is_invalid (lookup cfg c sid1 (byte_at h pos1))) &&
                  negb (is_dead (lookup cfg c sid1 (byte_at h pos1)))) eqn:Efast.
        - apply andb_prop in Efast as [Efast Hd]. apply andb_prop in Efast as [_ Hi].
          apply negb_true_iff in Hd, Hi.
          destruct (fast_entry h c sid1 (d_ids s1) pos1 Hc Hr1 Hi Hd) as [ids' [m [Hcd [Hr' Hm]]]].
          unfold PL. rewrite (p_loop_step h true _ s1 pos1 last _ (byte_at_nth h pos1 Hlt1)).
          rewrite Hcd, Hm. intros H. rewrite (pl_fuel h true (length h) (S (length h))) by clia.
          eapply (IH c _ (S pos1) _ (mkD ids' (is_word_byte (byte_at h pos1)) m false false)); [exact Hc|exact Ha|exact Hr'|clia|exact H].
        - pose proof Hr1 as Hr1c. destruct Hr1 as [s0 [Hg [Hi0 Hm0]]]. rewrite Hg.
          destruct sid1 as [| |i1 m1 st1]; cbn in Hg; try discriminate. cbn [tidx].
          pose proof (cinv_try_detect c i1 Hc) as Hc1.
          pose proof (asound_try_detect c i1 Hc Ha) as Ha1.
          pose proof (try_detect_ext c i1) as He1.
          set (c1 := try_detect cfg c i1) in *.
          pose proof (rep_ext c c1 _ _ He1 Hr1c) as Hr1'.
          destruct (He1 _ _ Hg) as [s01 [Hs01 Hd01]].
          unfold accel_bytes. cbn [get_state]. rewrite Hs01.
          destruct (cs_accel s01) as [[|e0 ex']|] eqn:Hx.
          + intros H. apply (Htake c1 (TId i1 m1 st1) pos1 last last s1 c'' o' Hc1 Ha1 Hr1' Hge Hlt1 (or_introl eq_refl) H).
          + pose proof (at_jump_spec h Hbytes c1 (TId i1 m1 st1) s01 s1 pos1 last (e0 :: ex') Hc1 Ha1 Hr1' Hs01 Hx ltac:(discriminate) Hlt1) as Hj.
            destruct (accelerate h pos1 (e0 :: ex')) as [pos'|].
            * destruct Hj as [Hrange [last1 [Hpl Hl1]]]. rewrite Hpl.
              assert (Hd : last = last1 \/ contains_match A (d_ids s1) = true) by (destruct Hl1 as [->|Hl1]; [now left|now right]).
              intros H. apply (Htake c1 (TId i1 m1 st1) pos' last last1 s1 c'' o' Hc1 Ha1 Hr1' ltac:(clia) ltac:(clia) Hd H).
            * rewrite Hnoeoi. intros H; inversion H; subst. split; [exact Hc1|]. split; [exact Ha1|].
              right. now rewrite Hj.
          + intros H. apply (Htake c1 (TId i1 m1 st1) pos1 last last s1 c'' o' Hc1 Ha1 Hr1' Hge Hlt1 (or_introl eq_refl) H). }
      rewrite Hwb. cbn [negb andb].
      destruct (pos + 3 <? length h) eqn:E3.
      - apply Nat.ltb_lt in E3.
        destruct (is_accelerable c sid).
        { intros H. eapply (Hslow sid pos s); [exact Hr|clia|exact Hlt|]. exact H. }
        destruct (unroll4 cfg c h sid pos) as [[sid1 pos1] u] eqn:Eu.
        destruct (unroll4_spec h _ _ _ _ _ _ _ Hc Hr E3 Eu) as [ids1 [Hps [Hr1 [Hle1 [Hcont Hst]]]]].
        pose proof (psteps_le h _ _ _ _ Hps) as Hge.
        set (s1 := mkD ids1 false false false false).
        assert (Heq : PL h s pos last = PL h s1 pos1 last) by (apply (pl_psteps h _ _ _ _ Hps); reflexivity).
        rewrite Heq.
        destruct u.
        + intros H. specialize (Hcont eq_refl).
          eapply (IH c sid1 pos1 last s1); [exact Hc|exact Ha|exact Hr1|clia|exact H].
        + intros H. eapply (Hslow sid1 pos1 s1); [exact Hr1|exact Hge|exact Hst|]. exact H.
        + destruct Hst as [Hst _]. intros H. eapply (Hslow sid1 pos1 s1); [exact Hr1|exact Hge|exact Hst|]. exact H.
      - intros H. eapply (Hslow sid pos s); [exact Hr|clia|exact Hlt|]. exact H.
    Qed.

    (* the accelerated part of one searchEarliestMatch iteration *)
    Lemma e_jump_spec c sid s0 s pos ex :
      cinv c -> accel_sound c -> rep c sid (d_ids s) -> get_state c sid = Some s0 ->
      cs_accel s0 = Some ex -> ex <> [] -> pos < length h ->
      match accelerate h pos ex with
      | None => PE h s pos = RDfa (eoi_of A c sid)
      | Some pos' =>
          pos <= pos' < length h /\
          (PE h s pos = PE h s pos' \/ (contains_match A (d_ids s) = true /\ PE h s pos = RDfa true))
      end.
    Proof.
      clear Hstride.
      intros Hc Ha Hr Hg Hx Hne Hp.
      destruct Hr as [s0' [Hg' [Hi Hm]]]. rewrite Hg in Hg'. inversion Hg'; subst s0'.
      destruct sid as [| |i mt st]; cbn in Hg; try discriminate.
      pose proof (Ha _ _ Hg ex Hx Hne) as Hs. rewrite Hi in Hs.
      assert (He : eoi_of A c (TId i mt st) = eoi_match A s).
      { apply eoi_of_rep. exists s0. cbn [get_state mtag]. auto. }
      pose proof (accelerate_spec h pos ex ltac:(clia)) as Hacc.
      (* a skipped first byte with flag true ends the pure search at once *)
      assert (Htrue : d_match (cs_d s0) = true ->
                      existsb (N.eqb (byte_at h pos)) ex = false ->
                      contains_match A (d_ids s) = true /\ PE h s pos = RDfa true).
      { intros Em Hn. specialize (Hs (byte_at h pos) (byte_at_le h Hbytes pos Hp) Hn). rewrite Em in Hs.
        split; [symmetry; apply (cdet_next_flag _ _ _ _ Hs)|].
        unfold PE. rewrite (pe_step h _ s pos _ (byte_at_nth h pos Hp)). now rewrite Hs. }
      destruct (accelerate h pos ex) as [pos'|].
      - destruct Hacc as [Hr1 Hr2]. split; [exact Hr1|].
        destruct (d_match (cs_d s0)) eqn:Em.
        + destruct (Nat.eq_dec pos' pos) as [->|Hne']; [now left|]. right. apply Htrue; [reflexivity|]. apply Hr2. clia.
        + left. replace pos' with (pos + (pos' - pos)) by clia. apply (pe_self_false h); [|clia].
          intros p Hpp. apply Hs; [apply (byte_at_le h Hbytes); clia|apply Hr2; clia].
      - rewrite He. destruct (d_match (cs_d s0)) eqn:Em.
        + destruct (Htrue eq_refl (Hacc pos ltac:(clia))) as [Hcm Hpe]. rewrite Hpe.
          now rewrite (eoi_match_of_match s Hcm).
        + rewrite (pe_self_false h (length h - pos) pos s); [|intros p Hpp; apply Hs; [apply (byte_at_le h Hbytes); clia|apply Hacc; clia]|clia].
          replace (pos + (length h - pos)) with (length h) by clia. unfold PE. now rewrite pe_eoi by clia.
    Qed.

    Lemma earliest_loop_spec_s : forall fuel c sid pos last s c' o,
      cinv c -> accel_sound c -> rep c sid (d_ids s) -> length h - pos < fuel ->
      drive false (earliest_step A cfg h) fuel c (sid, pos, last) = (c', o) ->
      cinv c' /\ accel_sound c' /\ (o = RFallback \/ o = PE h s pos).
    Proof.
      clear Hstride.
      induction fuel as [|f IH]; intros c sid pos last s c' o Hc Ha Hr Hf; [clia|].
      cbn [drive]. unfold earliest_step at 1.
      destruct (Nat.leb_spec (length h) pos) as [Hle|Hlt].
      { intros H; inversion H; subst; clear H. split; [exact Hc|]. split; [exact Ha|]. right.
        unfold PE. rewrite pe_eoi by exact Hle. now rewrite (eoi_of_rep _ _ _ Hr). }
      (* one transition at q; pure side PE sq q, or already known true when the source contains Match *)
      assert (Htake : forall c1 sidq q sq c' o,
                 cinv c1 -> accel_sound c1 -> rep c1 sidq (d_ids sq) -> pos <= q -> q < length h ->
                 match
                   (match take A cfg c1 sidq (byte_at h q) with
                    | (c2, ZErr) => (c2, inl RFallback)
                    | (c2, ZDead) => (c2, inl (RDfa false))
                    | (c2, ZNext t) => if mtag t then (c2, inl (RDfa true)) else (c2, inr (t, S q, last))
                    end)
                 with
                 | (c2, inl o2) => (c2, o2)
                 | (c2, inr st') => drive false (earliest_step A cfg h) f c2 st'
                 end = (c', o) -> cinv c' /\ accel_sound c' /\ (o = RFallback \/ o = PE h sq q)).
      { intros c1 sidq q sq c'' o' Hc1 Ha1 Hrq Hge Hq.
        destruct (take A cfg c1 sidq (byte_at h q)) as [c2 z] eqn:Et.
        destruct (take_spec _ _ _ _ _ _ Hc1 Hrq Et) as [Hc2 Hz].
        pose proof (take_asound _ _ _ _ _ Ha1 Et) as Ha2.
        unfold PE. rewrite (pe_step h _ sq q _ (byte_at_nth h q Hq)).
        destruct z as [| |t]; cbn in Hz.
        - intros H; inversion H; subst. split; [exact Hc2|]. split; [exact Ha2|]. right. now rewrite Hz.
        - intros H; inversion H; subst. split; [exact Hc2|]. split; [exact Ha2|]. now left.
        - destruct Hz as [ids' [m [Hd [Hr' Hm]]]]. rewrite Hd, Hm. destruct m.
          + intros H; inversion H; subst. split; [exact Hc2|]. split; [exact Ha2|]. now right.
          + intros H. rewrite (pe_fuel h (length h) (S (length h))) by clia.
            eapply (IH c2 t (S q) _ (mkD ids' (is_word_byte (byte_at h q)) false false false)); [exact Hc2|exact Ha2|exact Hr'|clia|exact H]. }
      assert (Hslow : forall sid1 pos1 s1 c' o,
                 rep c sid1 (d_ids s1) -> pos <= pos1 -> pos1 < length h ->
                 match
                   (let nx := lookup cfg c sid1 (byte_at h pos1) in
                    if stag sid1 && negb (is_invalid nx) && negb (is_dead nx)
                    then if mtag nx then (c, inl (RDfa true)) else (c, inr (nx, S pos1, last))
                    else match get_state c sid1 with
                         | None => (c, inl RFallback)
                         | Some _ =>
                             let c1 := try_detect cfg c (tidx sid1) in
                             let ex := accel_bytes c1 sid1 in
                             let jump := match ex with [] => Some pos1 | _ => accelerate h pos1 ex end in
                             match jump with
                             | None => if cfg_accel_no_eoi cfg then (c1, inl (RDfa false))
                                       else (c1, inl (RDfa (eoi_of A c1 sid1)))
                             | Some pos' =>
                                 let b := byte_at h pos' in
                                 match take A cfg c1 sid1 b with
                                 | (c2, ZErr) => (c2, inl RFallback)
                                 | (c2, ZDead) => (c2, inl (RDfa false))
                                 | (c2, ZNext t) => if mtag t then (c2, inl (RDfa true)) else (c2, inr (t, S pos', last))
                                 end
                             end
                         end)
                 with
                 | (c2, inl o2) => (c2, o2)
                 | (c2, inr st') => drive false (earliest_step A cfg h) f c2 st'
                 end = (c', o) -> cinv c' /\ accel_sound c' /\ (o = RFallback \/ o = PE h s1 pos1)).
      { intros sid1 pos1 s1 c'' o' Hr1 Hge Hlt1. cbv zeta.
        destruct (stag sid1 && negb (is_invalid (lookup cfg c sid1 (byte_at h pos1))) &&
                  negb (is_dead (lookup cfg c sid1 (byte_at h pos1)))) eqn:Efast.
        - apply andb_prop in Efast as [Efast Hd]. apply andb_prop in Efast as [_ Hi].
          apply negb_true_iff in Hd, Hi.
          destruct (fast_entry h c sid1 (d_ids s1) pos1 Hc Hr1 Hi Hd) as [ids' [m [Hcd [Hr' Hm]]]].
          unfold PE. rewrite (pe_step h _ s1 pos1 _ (byte_at_nth h pos1 Hlt1)).
          rewrite Hcd, Hm. destruct m.
          + intros H; inversion H; subst. split; [exact Hc|]. split; [exact Ha|]. now right.
          + intros H. rewrite (pe_fuel h (length h) (S (length h))) by clia.
            eapply (IH c _ (S pos1) _ (mkD ids' (is_word_byte (byte_at h pos1)) false false false)); [exact Hc|exact Ha|exact Hr'|clia|exact H].
        - pose proof Hr1 as Hr1c. destruct Hr1 as [s0 [Hg [Hi0 Hm0]]]. rewrite Hg.
          destruct sid1 as [| |i1 m1 st1]; cbn in Hg; try discriminate. cbn [tidx].
          pose proof (cinv_try_detect c i1 Hc) as Hc1.
          pose proof (asound_try_detect c i1 Hc Ha) as Ha1.
          pose proof (try_detect_ext c i1) as He1.
          set (c1 := try_detect cfg c i1) in *.
          pose proof (rep_ext c c1 _ _ He1 Hr1c) as Hr1'.
          destruct (He1 _ _ Hg) as [s01 [Hs01 Hd01]].
          unfold accel_bytes. cbn [get_state]. rewrite Hs01.
          destruct (cs_accel s01) as [[|e0 ex']|] eqn:Hx.
          + intros H. apply (Htake c1 (TId i1 m1 st1) pos1 s1 c'' o' Hc1 Ha1 Hr1' Hge Hlt1 H).
          + pose proof (e_jump_spec c1 (TId i1 m1 st1) s01 s1 pos1 (e0 :: ex') Hc1 Ha1 Hr1' Hs01 Hx ltac:(discriminate) Hlt1) as Hj.
            destruct (accelerate h pos1 (e0 :: ex')) as [pos'|].
            * destruct Hj as [Hrange [Hpe|[Hcm Hpe]]].
              -- rewrite Hpe. intros H. apply (Htake c1 (TId i1 m1 st1) pos' s1 c'' o' Hc1 Ha1 Hr1' ltac:(clia) ltac:(clia) H).
              -- (* the source contains Match: the transition at pos' reports it *)
                 rewrite Hpe.
                 destruct (take A cfg c1 (TId i1 m1 st1) (byte_at h pos')) as [c2 z] eqn:Et.
                 destruct (take_spec _ _ _ _ _ _ Hc1 Hr1' Et) as [Hc2 Hz].
                 pose proof (take_asound _ _ _ _ _ Ha1 Et) as Ha2.
                 destruct z as [| |t]; cbn in Hz.
                 ++ rewrite (cdet_dead_flag _ _ Hz) in Hcm. discriminate.
                 ++ intros H; inversion H; subst. split; [exact Hc2|]. split; [exact Ha2|]. now left.
                 ++ destruct Hz as [ids' [m [Hd [Hr' Hm]]]]. rewrite Hm.
                    rewrite (cdet_next_flag _ _ _ _ Hd), Hcm.
                    intros H; inversion H; subst. split; [exact Hc2|]. split; [exact Ha2|]. now right.
            * rewrite Hnoeoi. intros H; inversion H; subst. split; [exact Hc1|]. split; [exact Ha1|].
              right. now rewrite Hj.
          + intros H. apply (Htake c1 (TId i1 m1 st1) pos1 s1 c'' o' Hc1 Ha1 Hr1' Hge Hlt1 H). }
      rewrite Hwb. cbn [negb andb].
      destruct (pos + 3 <? length h) eqn:E3.
      - apply Nat.ltb_lt in E3.
        destruct (is_accelerable c sid).
        { intros H. eapply (Hslow sid pos s); [exact Hr|clia|exact Hlt|]. exact H. }
        destruct (unroll4 cfg c h sid pos) as [[sid1 pos1] u] eqn:Eu.
        destruct (unroll4_spec h _ _ _ _ _ _ _ Hc Hr E3 Eu) as [ids1 [Hps [Hr1 [Hle1 [Hcont Hst]]]]].
        pose proof (psteps_le h _ _ _ _ Hps) as Hge.
        set (s1 := mkD ids1 false false false false).
        assert (Heq : PE h s pos = PE h s1 pos1) by (apply (pe_psteps h _ _ _ _ Hps); reflexivity).
        rewrite Heq.
        destruct u.
        + intros H. specialize (Hcont eq_refl).
          eapply (IH c sid1 pos1 last s1); [exact Hc|exact Ha|exact Hr1|clia|exact H].
        + intros H. eapply (Hslow sid1 pos1 s1); [exact Hr1|exact Hge|exact Hst|]. exact H.
        + destruct Hst as [Hst [ids2 Hm2]]. intros H; inversion H; subst. split; [exact Hc|]. split; [exact Ha|].
          right. unfold PE. rewrite (pe_step h _ s1 pos1 _ (byte_at_nth h pos1 Hst)). cbn [s1 d_ids]. now rewrite Hm2.
      - intros H. eapply (Hslow sid pos s); [exact Hr|clia|exact Hlt|]. exact H.
    Qed.
  End LoopsS2.

  (* ---------------- entry points *)
  (* the default start state contains Match only if the empty haystack matches (a fact about
     closure vs reference: DfaRef.start_match_empty) *)
  Hypothesis Hempty : contains_match A (d_ids (pstart A KText false)) = true -> ref_bool A [] 0 = true.

  Lemma c_matches_empty_eq c : cinv c -> c_matches_empty A c = p_matches_empty A.
  Proof.
    intros [_ [_ [_ H4]]]. unfold c_matches_empty, p_matches_empty.
    destruct (slot c 0) as [s|] eqn:E; [|reflexivity].
    rewrite (H4 _ eq_refl). destruct (contains_match A (d_ids (pstart A KText false))) eqn:Em; [|reflexivity].
    symmetry. now apply Hempty.
  Qed.

  Lemma c_matches_empty_at_eq h c at_ : cinv c -> c_matches_empty_at A cfg h c at_ = p_matches_empty_at A cfg h at_.
  Proof.
    intros Hc. unfold c_matches_empty_at, p_matches_empty_at.
    destruct (cfg_old_entry cfg || (at_ =? 0)); [now apply c_matches_empty_eq|reflexivity].
  Qed.

  Theorem c_search_anchored_eq_pure h c at_ c' o :
    cinv c -> c_search_anchored A cfg h c at_ = (c', o) ->
    cinv c' /\ (o = RFallback \/ o = p_search_anchored A cfg h at_).
  Proof.
    clear Hstride Hloose Hnoeoi Hel Hruns.
    intros Hc. unfold c_search_anchored, p_search_anchored.
    destruct (Nat.ltb_spec (length h) at_) as [Hgt|Hle]; [intros H; inversion H; subst; auto|].
    destruct (at_ =? length h) eqn:Eat.
    { intros H; inversion H; subst. rewrite (c_matches_empty_at_eq _ _ _ Hc). auto. }
    apply Nat.eqb_neq in Eat. assert (Hlt : at_ < length h) by lia. unfold get_start.
    destruct (get_start_k A cfg c (kind_at h at_) true) as [c1 ot] eqn:Eg.
    destruct (get_start_spec _ _ _ _ _ Hc Eg) as [Hc1 Hst].
    destruct ot as [t|]; [|intros H; inversion H; subst; auto].
    pose proof (Hst t eq_refl) as Hr.
    intros H. unfold c_fuel, p_fuel in *.
    eapply (anch_loop_spec h (S (length h)) c1 t at_ None (pstart A (kind_at h at_) true)); [exact Hc1|exact Hr|lia|exact H].
  Qed.

  Theorem c_search_first_eq_pure h c at_ c' o :
    cinv c -> c_search_first A cfg h c at_ = (c', o) ->
    cinv c' /\ (o = RFallback \/ o = p_search_first A cfg h at_).
  Proof.
    clear Hstride Hloose Hnoeoi Hel Hruns.
    intros Hc. unfold c_search_first, p_search_first.
    destruct (Nat.ltb_spec (length h) at_) as [Hgt|Hle]; [intros H; inversion H; subst; auto|].
    destruct (at_ =? length h) eqn:Eat.
    { intros H; inversion H; subst. rewrite (c_matches_empty_at_eq _ _ _ Hc). auto. }
    apply Nat.eqb_neq in Eat. assert (Hlt : at_ < length h) by lia.
    destruct (always_anchored A && (0 <? at_)); [intros H; inversion H; subst; auto|].
    unfold get_start.
    destruct (get_start_k A cfg c (kind_at h at_) false) as [c1 ot] eqn:Eg.
    destruct (get_start_spec _ _ _ _ _ Hc Eg) as [Hc1 Hst].
    destruct ot as [t|]; [|intros H; inversion H; subst; auto].
    pose proof (Hst t eq_refl) as Hr.
    intros H. unfold c_fuel, p_fuel in *.
    destruct (first_loop_spec h (S (length h)) c1 t at_ (pstart A (kind_at h at_) false) c' o Hc1 Hr ltac:(lia) H) as [Ha Hb].
    split; [exact Ha|]. exact Hb.
  Qed.

  Theorem c_search_at_eq_pure_accel_ok h c at_ c' o :
    cinv c -> accel_ok c -> c_search_at A cfg h c at_ = (c', o) ->
    cinv c' /\ accel_ok c' /\ (o = RFallback \/ o = p_search_at A cfg h at_).
  Proof.
    intros Hc Ha. unfold c_search_at, p_search_at.
    destruct (Nat.ltb_spec (length h) at_) as [Hgt|Hle]; [intros H; inversion H; subst; auto|].
    destruct (at_ =? length h) eqn:Eat.
    { intros H; inversion H; subst. rewrite (c_matches_empty_at_eq _ _ _ Hc). auto. }
    apply Nat.eqb_neq in Eat. assert (Hlt : at_ < length h) by lia.
    destruct (always_anchored A && (0 <? at_)); [intros H; inversion H; subst; auto|].
    unfold get_start.
    destruct (get_start_k A cfg c (kind_at h at_) false) as [c1 ot] eqn:Eg.
    destruct (get_start_spec _ _ _ _ _ Hc Eg) as [Hc1 Hst].
    pose proof (get_start_accel _ _ _ _ _ Ha Eg) as Ha1.
    destruct ot as [t|]; [|intros H; inversion H; subst; auto].
    pose proof (Hst t eq_refl) as Hr.
    intros H. unfold c_fuel, p_fuel in *.
    destruct (at_loop_spec h (S (length h)) c1 t at_ None (pstart A (kind_at h at_) false) c' o Hc1 Ha1 Hr ltac:(lia) H) as [Hx [Hy Hz]].
    split; [exact Hx|]. split; [exact Hy|]. exact Hz.
  Qed.

  Theorem c_is_match_at_eq_pure_accel_ok h c at_ c' o :
    cinv c -> accel_ok c -> c_is_match_at A cfg h c at_ = (c', o) ->
    cinv c' /\ accel_ok c' /\ (o = RFallback \/ o = p_is_match_at A cfg h at_).
  Proof.
    intros Hc Ha. unfold c_is_match_at, p_is_match_at.
    destruct (Nat.leb_spec (length h) at_) as [Hge|Hlt].
    { intros H; inversion H; subst. rewrite (c_matches_empty_at_eq _ _ _ Hc). auto. }
    destruct (always_anchored A && (0 <? at_)); [intros H; inversion H; subst; auto|].
    unfold get_start.
    destruct (get_start_k A cfg c (kind_at h at_) false) as [c1 ot] eqn:Eg.
    destruct (get_start_spec _ _ _ _ _ Hc Eg) as [Hc1 Hst].
    pose proof (get_start_accel _ _ _ _ _ Ha Eg) as Ha1.
    destruct ot as [t|]; [|intros H; inversion H; subst; auto].
    pose proof (Hst t eq_refl) as Hr.
    intros H. unfold c_fuel, p_fuel in *.
    destruct (earliest_loop_spec h (S (length h)) c1 t at_ None (pstart A (kind_at h at_) false) c' o Hc1 Ha1 Hr ltac:(lia) H) as [Hx [Hy Hz]].
    split; [exact Hx|]. split; [exact Hy|]. exact Hz.
  Qed.

  Lemma accel_ok_new : accel_ok new_cache.
  Proof. intros i s H. unfold slot, new_cache in H. cbn in H. destruct i; discriminate. Qed.

  (* what the caller sees (NFA fallback applied): the pure DFA answer or the fallback answer *)
  Theorem dfa_search_cached_eq_pure_accel_ok h c at_ :
    cinv c -> accel_ok c ->
    cinv (fst (dfa_search_at A cfg c h at_)) /\ accel_ok (fst (dfa_search_at A cfg c h at_)) /\
    (snd (dfa_search_at A cfg c h at_) = fin_end A h at_ (p_search_at A cfg h at_) \/
     snd (dfa_search_at A cfg c h at_) = ref_end A h at_).
  Proof.
    intros Hc Ha. unfold dfa_search_at.
    destruct (c_search_at A cfg h c at_) as [c' o] eqn:E.
    destruct (c_search_at_eq_pure_accel_ok h c at_ c' o Hc Ha E) as [H1 [H2 [->| ->]]]; cbn; auto.
  Qed.

  (* history independence: two caches satisfying the invariant give the same DFA answer *)
  Theorem dfa_search_history_independent_accel_ok h at_ c1 c2 c1' c2' r1 r2 :
    cinv c1 -> accel_ok c1 -> cinv c2 -> accel_ok c2 ->
    c_search_at A cfg h c1 at_ = (c1', RDfa r1) -> c_search_at A cfg h c2 at_ = (c2', RDfa r2) -> r1 = r2.
  Proof.
    intros Hc1 Ha1 Hc2 Ha2 E1 E2.
    destruct (c_search_at_eq_pure_accel_ok h c1 at_ _ _ Hc1 Ha1 E1) as [_ [_ [H1|H1]]]; [discriminate|].
    destruct (c_search_at_eq_pure_accel_ok h c2 at_ _ _ Hc2 Ha2 E2) as [_ [_ [H2|H2]]]; [discriminate|].
    congruence.
  Qed.

  (* the anchored entry point needs no acceleration guard at all: any two caches satisfying cinv *)
  Theorem dfa_anchored_history_independent h at_ c1 c2 c1' c2' r1 r2 :
    cinv c1 -> cinv c2 ->
    c_search_anchored A cfg h c1 at_ = (c1', RDfa r1) -> c_search_anchored A cfg h c2 at_ = (c2', RDfa r2) -> r1 = r2.
  Proof.
    intros Hc1 Hc2 E1 E2.
    destruct (c_search_anchored_eq_pure h c1 at_ _ _ Hc1 E1) as [_ [H1|H1]]; [discriminate|].
    destruct (c_search_anchored_eq_pure h c2 at_ _ _ Hc2 E2) as [_ [H2|H2]]; [discriminate|].
    congruence.
  Qed.

  (* ---------------- the same without the accel_ok guard: acceleration is transparent.
     cinv and accel_sound hold for NewCache() and are preserved by every forward entry point. *)
  Definition bytes255 (h : hay) : Prop := Forall (fun b => (b <= 255)%N) h.

  Theorem c_search_at_eq_pure h c at_ c' o :
    bytes255 h -> cinv c -> accel_sound c -> c_search_at A cfg h c at_ = (c', o) ->
    cinv c' /\ accel_sound c' /\ (o = RFallback \/ o = p_search_at A cfg h at_).
  Proof.
    clear Hstride.
    intros Hb Hc Ha. unfold c_search_at, p_search_at.
    destruct (Nat.ltb_spec (length h) at_) as [Hgt|Hle]; [intros H; inversion H; subst; auto|].
    destruct (at_ =? length h) eqn:Eat.
    { intros H; inversion H; subst. rewrite (c_matches_empty_at_eq _ _ _ Hc). auto. }
    apply Nat.eqb_neq in Eat. assert (Hlt : at_ < length h) by lia.
    destruct (always_anchored A && (0 <? at_)); [intros H; inversion H; subst; auto|].
    unfold get_start.
    destruct (get_start_k A cfg c (kind_at h at_) false) as [c1 ot] eqn:Eg.
    destruct (get_start_spec _ _ _ _ _ Hc Eg) as [Hc1 Hst].
    pose proof (get_start_asound _ _ _ _ _ Ha Eg) as Ha1.
    destruct ot as [t|]; [|intros H; inversion H; subst; auto].
    pose proof (Hst t eq_refl) as Hr.
    intros H. unfold c_fuel, p_fuel in *.
    destruct (at_loop_spec_s h Hb (S (length h)) c1 t at_ None (pstart A (kind_at h at_) false) c' o Hc1 Ha1 Hr ltac:(lia) H) as [Hx [Hy Hz]].
    split; [exact Hx|]. split; [exact Hy|]. exact Hz.
  Qed.

  Theorem c_is_match_at_eq_pure h c at_ c' o :
    bytes255 h -> cinv c -> accel_sound c -> c_is_match_at A cfg h c at_ = (c', o) ->
    cinv c' /\ accel_sound c' /\ (o = RFallback \/ o = p_is_match_at A cfg h at_).
  Proof.
    clear Hstride.
    intros Hb Hc Ha. unfold c_is_match_at, p_is_match_at.
    destruct (Nat.leb_spec (length h) at_) as [Hge|Hlt].
    { intros H; inversion H; subst. rewrite (c_matches_empty_at_eq _ _ _ Hc). auto. }
    destruct (always_anchored A && (0 <? at_)); [intros H; inversion H; subst; auto|].
    unfold get_start.
    destruct (get_start_k A cfg c (kind_at h at_) false) as [c1 ot] eqn:Eg.
    destruct (get_start_spec _ _ _ _ _ Hc Eg) as [Hc1 Hst].
    pose proof (get_start_asound _ _ _ _ _ Ha Eg) as Ha1.
    destruct ot as [t|]; [|intros H; inversion H; subst; auto].
    pose proof (Hst t eq_refl) as Hr.
    intros H. unfold c_fuel, p_fuel in *.
    destruct (earliest_loop_spec_s h Hb (S (length h)) c1 t at_ None (pstart A (kind_at h at_) false) c' o Hc1 Ha1 Hr ltac:(lia) H) as [Hx [Hy Hz]].
    split; [exact Hx|]. split; [exact Hy|]. exact Hz.
  Qed.

  (* the loops without acceleration keep accel_sound too *)
  Lemma anch_drive_asound h : forall fuel c st c' o,
    accel_sound c -> drive None (anch_step A cfg h) fuel c st = (c', o) -> accel_sound c'.
  Proof.
    clear Hstride.
    induction fuel as [|f IH]; intros c [[sid pos] last] c' o Ha; cbn [drive]; [intros H; inversion H; subst; exact Ha|].
    unfold anch_step at 1. destruct (length h <=? pos); [intros H; inversion H; subst; exact Ha|].
    destruct (has_wb A && _); [intros H; inversion H; subst; exact Ha|].
    destruct (take A cfg c sid (byte_at h pos)) as [c1 z] eqn:Et.
    pose proof (take_asound _ _ _ _ _ Ha Et) as Ha1.
    destruct z; try (intros H; inversion H; subst; exact Ha1). intros H. eapply IH; eauto.
  Qed.

  Lemma first_drive_asound h : forall fuel c st c' o,
    accel_sound c -> drive None (first_step A cfg h) fuel c st = (c', o) -> accel_sound c'.
  Proof.
    clear Hstride.
    induction fuel as [|f IH]; intros c [[sid pos] last] c' o Ha; cbn [drive]; [intros H; inversion H; subst; exact Ha|].
    unfold first_step at 1. destruct (length h <=? pos); [intros H; inversion H; subst; exact Ha|].
    destruct (if negb (has_wb A) && (pos + 3 <? length h) then unroll4 cfg c h sid pos else (sid, pos, USlow)) as [[sid1 pos1] u].
    assert (Hs : forall c' o,
              match (if has_wb A && match get_state c sid1 with Some s => wb_fast (cs_d s) (byte_at h pos1) | None => false end
                     then (c, inl (RDfa (Some pos1)))
                     else match take A cfg c sid1 (byte_at h pos1) with
                          | (c1, ZErr) => (c1, inl RFallback)
                          | (c1, ZDead) => (c1, inl (RDfa last))
                          | (c1, ZNext t) => if mtag t then (c1, inl (RDfa (Some pos1))) else (c1, inr (t, S pos1, last))
                          end)
              with (c2, inl o2) => (c2, o2) | (c2, inr st') => drive None (first_step A cfg h) f c2 st' end = (c', o) ->
              accel_sound c').
    { intros c'' o'. destruct (has_wb A && _); [intros H; inversion H; subst; exact Ha|].
      destruct (take A cfg c sid1 (byte_at h pos1)) as [c1 z] eqn:Et.
      pose proof (take_asound _ _ _ _ _ Ha Et) as Ha1.
      destruct z; try (intros H; inversion H; subst; exact Ha1).
      destruct (mtag t); [intros H; inversion H; subst; exact Ha1|]. intros H. eapply IH; eauto. }
    destruct u; [intros H; eapply IH; eauto|apply Hs|apply Hs].
  Qed.

  Lemma c_search_anchored_asound h c at_ c' o :
    accel_sound c -> c_search_anchored A cfg h c at_ = (c', o) -> accel_sound c'.
  Proof.
    clear Hstride.
    intros Ha. unfold c_search_anchored.
    destruct (length h <? at_); [intros H; inversion H; subst; exact Ha|].
    destruct (at_ =? length h); [intros H; inversion H; subst; exact Ha|]. unfold get_start.
    destruct (get_start_k A cfg c (kind_at h at_) true) as [c1 ot] eqn:Eg.
    pose proof (get_start_asound _ _ _ _ _ Ha Eg) as Ha1.
    destruct ot as [t|]; [|intros H; inversion H; subst; exact Ha1]. intros H. eapply anch_drive_asound; eauto.
  Qed.

  Lemma c_search_first_asound h c at_ c' o :
    accel_sound c -> c_search_first A cfg h c at_ = (c', o) -> accel_sound c'.
  Proof.
    clear Hstride.
    intros Ha. unfold c_search_first.
    destruct (length h <? at_); [intros H; inversion H; subst; exact Ha|].
    destruct (at_ =? length h); [intros H; inversion H; subst; exact Ha|].
    destruct (always_anchored A && (0 <? at_)); [intros H; inversion H; subst; exact Ha|]. unfold get_start.
    destruct (get_start_k A cfg c (kind_at h at_) false) as [c1 ot] eqn:Eg.
    pose proof (get_start_asound _ _ _ _ _ Ha Eg) as Ha1.
    destruct ot as [t|]; [|intros H; inversion H; subst; exact Ha1]. intros H. eapply first_drive_asound; eauto.
  Qed.

  (* ---------------- any history of forward calls *)
  Definition fwd_call (k : call) : Prop := (k_op k <= 4)%N /\ bytes255 (k_hay k).

  Lemma run_call_inv c k :
    fwd_call k -> cinv c -> accel_sound c ->
    cinv (fst (run_call A cfg c k)) /\ accel_sound (fst (run_call A cfg c k)).
  Proof.
    clear Hstride.
    intros [Hop Hb] Hc Ha.
    assert (Hat : forall c' r, dfa_search_at A cfg c (k_hay k) (k_at k) = (c', r) -> cinv c' /\ accel_sound c').
    { unfold dfa_search_at. intros c' r. destruct (c_search_at A cfg (k_hay k) c (k_at k)) as [c1 o] eqn:E.
      intros H; inversion H; subst. destruct (c_search_at_eq_pure _ _ _ _ _ Hb Hc Ha E) as [H1 [H2 _]]. auto. }
    assert (Hop' : (k_op k = 0 \/ k_op k = 1 \/ k_op k = 2 \/ k_op k = 3 \/ k_op k = 4)%N) by lia.
    unfold run_call. destruct Hop' as [E|[E|[E|[E|E]]]]; rewrite E.
    - destruct (dfa_search_at A cfg c (k_hay k) (k_at k)) as [c' r] eqn:E1. cbn [fst]. eapply Hat; eauto.
    - destruct (dfa_search_at A cfg c (k_hay k) (k_at k)) as [c' r] eqn:E1. cbn [fst]. eapply Hat; eauto.
    - unfold dfa_search_first. destruct (c_search_first A cfg (k_hay k) c (k_at k)) as [c' o] eqn:E1. cbn [fst].
      split; [exact (proj1 (c_search_first_eq_pure _ _ _ _ _ Hc E1))|exact (c_search_first_asound _ _ _ _ _ Ha E1)].
    - unfold dfa_search_anchored. destruct (c_search_anchored A cfg (k_hay k) c (k_at k)) as [c' o] eqn:E1. cbn [fst].
      split; [exact (proj1 (c_search_anchored_eq_pure _ _ _ _ _ Hc E1))|exact (c_search_anchored_asound _ _ _ _ _ Ha E1)].
    - unfold dfa_is_match_at. destruct (c_is_match_at A cfg (k_hay k) c (k_at k)) as [c' o] eqn:E1. cbn [fst].
      destruct (c_is_match_at_eq_pure _ _ _ _ _ Hb Hc Ha E1) as [H1 [H2 _]]. auto.
  Qed.

  Lemma run_calls_inv : forall ks c,
    Forall fwd_call ks -> cinv c -> accel_sound c ->
    cinv (run_calls A cfg c ks) /\ accel_sound (run_calls A cfg c ks).
  Proof.
    clear Hstride.
    induction ks as [|k ks IH]; intros c Hf Hc Ha; [auto|]. inversion Hf; subst. cbn [run_calls].
    destruct (run_call_inv c k H1 Hc Ha) as [Hc1 Ha1]. now apply IH.
  Qed.

  (* C13, unconditional in the history: whatever forward calls the cache has served since
     NewCache(), the caller gets the pure DFA answer or the NFA fallback answer *)
  Theorem dfa_search_cached_eq_pure ks h at_ :
    Forall fwd_call ks -> bytes255 h ->
    let c := run_calls A cfg new_cache ks in
    snd (dfa_search_at A cfg c h at_) = fin_end A h at_ (p_search_at A cfg h at_) \/
    snd (dfa_search_at A cfg c h at_) = ref_end A h at_.
  Proof.
    clear Hstride.
    intros Hf Hb c. destruct (run_calls_inv ks new_cache Hf cinv_new accel_sound_new) as [Hc Ha].
    fold c in Hc, Ha. unfold dfa_search_at.
    destruct (c_search_at A cfg h c at_) as [c' o] eqn:E.
    destruct (c_search_at_eq_pure h c at_ c' o Hb Hc Ha E) as [_ [_ [->| ->]]]; cbn; auto.
  Qed.

  Theorem dfa_is_match_cached_eq_pure ks h at_ :
    Forall fwd_call ks -> bytes255 h ->
    let c := run_calls A cfg new_cache ks in
    snd (dfa_is_match_at A cfg c h at_) = fin_bool A h at_ (p_is_match_at A cfg h at_) \/
    snd (dfa_is_match_at A cfg c h at_) = ref_bool A h at_.
  Proof.
    clear Hstride.
    intros Hf Hb c. destruct (run_calls_inv ks new_cache Hf cinv_new accel_sound_new) as [Hc Ha].
    fold c in Hc, Ha. unfold dfa_is_match_at.
    destruct (c_is_match_at A cfg h c at_) as [c' o] eqn:E.
    destruct (c_is_match_at_eq_pure h c at_ c' o Hb Hc Ha E) as [_ [_ [->| ->]]]; cbn; auto.
  Qed.

  (* two histories, no fallback: the same answer *)
  Theorem dfa_search_history_independent ks1 ks2 h at_ c1' c2' r1 r2 :
    Forall fwd_call ks1 -> Forall fwd_call ks2 -> bytes255 h ->
    c_search_at A cfg h (run_calls A cfg new_cache ks1) at_ = (c1', RDfa r1) ->
    c_search_at A cfg h (run_calls A cfg new_cache ks2) at_ = (c2', RDfa r2) -> r1 = r2.
  Proof.
    clear Hstride.
    intros Hf1 Hf2 Hb E1 E2.
    destruct (run_calls_inv ks1 new_cache Hf1 cinv_new accel_sound_new) as [Hc1 Ha1].
    destruct (run_calls_inv ks2 new_cache Hf2 cinv_new accel_sound_new) as [Hc2 Ha2].
    destruct (c_search_at_eq_pure h _ at_ _ _ Hb Hc1 Ha1 E1) as [_ [_ [H1|H1]]]; [discriminate|].
    destruct (c_search_at_eq_pure h _ at_ _ _ Hb Hc2 Ha2 E2) as [_ [_ [H2|H2]]]; [discriminate|].
    congruence.
  Qed.
End Transparency.

(* ------------------------------------------------------------------ capacity / clears *)
(* the pure searches do not read the capacity nor the clear limit: whatever the cache did, a DFA
   answer (not a fallback) is the same for every capacity and every number of clears *)
Lemma p_search_anchored_cap_irrel A cap1 mc1 cap2 mc2 dl br st cl k1 k2 k3 k4 h at_ :
  p_search_anchored A (mkCfg cap1 mc1 dl br st cl k1 k2 k3 k4) h at_ = p_search_anchored A (mkCfg cap2 mc2 dl br st cl k1 k2 k3 k4) h at_.
Proof. reflexivity. Qed.

Lemma p_search_first_cap_irrel A cap1 mc1 cap2 mc2 dl br st cl k1 k2 k3 k4 h at_ :
  p_search_first A (mkCfg cap1 mc1 dl br st cl k1 k2 k3 k4) h at_ = p_search_first A (mkCfg cap2 mc2 dl br st cl k1 k2 k3 k4) h at_.
Proof. reflexivity. Qed.

Lemma p_search_at_cap_irrel A cap1 mc1 cap2 mc2 dl br st cl k1 k2 k3 k4 h at_ :
  p_search_at A (mkCfg cap1 mc1 dl br st cl k1 k2 k3 k4) h at_ = p_search_at A (mkCfg cap2 mc2 dl br st cl k1 k2 k3 k4) h at_.
Proof. reflexivity. Qed.

Lemma p_is_match_at_cap_irrel A cap1 mc1 cap2 mc2 dl br st cl k1 k2 k3 k4 h at_ :
  p_is_match_at A (mkCfg cap1 mc1 dl br st cl k1 k2 k3 k4) h at_ = p_is_match_at A (mkCfg cap2 mc2 dl br st cl k1 k2 k3 k4) h at_.
Proof. reflexivity. Qed.

(* ------------------------------------------------------------------ refutations.
   `*_original_refuted`: the ORIGINAL variant of a function since repaired in /repo (selected by
   the variant flag of dconfig) violates the property; next to each, the same witness on the
   CURRENT variant.  `accel_eoi_refuted` is about the current code. *)
(* a[bc]*d *)
Definition ex_abcd : nfa :=
  mkNfa [SByteRange 97 97 3; SByteRange 98 99 3; SEpsilon 4; SSplit 1 2; SByteRange 100 100 5; SMatch;
         SByteRange 0 255 7; SSplit 0 6] 0 7 1.
Definition ex_abcd_cfg (loose : bool) : dconfig :=
  mkCfg 2097152 5 1000 true 5 [(96%N, 0); (97%N, 1); (99%N, 2); (100%N, 3); (255%N, 4)] false loose false false.
(* five SearchFirstAt calls fill the row of the state after 'a' without any acceleration check *)
Definition ex_abcd_hist : list call :=
  map (fun h => mkCall 2 h 0 0 0 0 0) [[97; 97]; [97; 98]; [97; 100]; [97; 0]; [97; 101]]%N.

(* C13, original detection (before fd804d1): on a cache aged by SearchFirstAt, SearchAt and
   IsMatchAt took "exit bytes" from the full row and skipped with memchr over the class
   REPRESENTATIVES (0x00, 'd', 'e'): 'x' was skipped, `a[bc]*d` "matched" in "axd". *)
Theorem accel_history_original_refuted :
  exists A cfg hist h,
    cfg_loose_accel cfg = true /\
    let aged := run_calls A cfg new_cache hist in
    snd (dfa_search_at A cfg new_cache h 0) = None /\ ref_end A h 0 = None /\
    snd (dfa_search_at A cfg aged h 0) = Some 3 /\
    snd (dfa_is_match_at A cfg new_cache h 0) = false /\ snd (dfa_is_match_at A cfg aged h 0) = true.
Proof.
  exists ex_abcd, (ex_abcd_cfg true), ex_abcd_hist, [97; 120; 100]%N. vm_compute. repeat split.
Qed.

(* the same history on the current detection (detectSoundAccel) *)
Theorem accel_history_current_ok :
  let A := ex_abcd in let cfg := ex_abcd_cfg false in let h := [97; 120; 100]%N in
  let aged := run_calls A cfg new_cache ex_abcd_hist in
  snd (dfa_search_at A cfg aged h 0) = None /\ snd (dfa_is_match_at A cfg aged h 0) = false.
Proof. vm_compute. repeat split. Qed.

(* x|$ *)
Definition ex_x_or_end : nfa :=
  mkNfa [SByteRange 120 120 3; SLook LEndText 3; SSplit 0 1; SEpsilon 4; SMatch; SByteRange 0 255 6; SSplit 2 5] 2 6 1.
Definition ex_x_or_end_cfg (noeoi : bool) : dconfig :=
  mkCfg 2097152 5 1000 true 3 [(119%N, 0); (120%N, 1); (255%N, 2)] false false false noeoi.
Definition ex_x_or_end_hist : list call :=
  map (fun h => mkCall 2 h 0 0 0 0 0) [[97; 97]; [97; 120]; [97; 121]; [97; 10]; [97; 0]]%N.

(* C13 / C14, original loops (before edee2be): the detection was sound for the bytes it skips,
   but when memchr found no exit byte searchAt returned lastMatch and searchEarliestMatch
   returned false WITHOUT the end-of-input check: after five SearchFirstAt calls the state after
   'a' is accelerable (exit byte 'x'), and `x|$` no longer matched at the end of "ab" (fresh
   cache: 2 / true). *)
Theorem accel_eoi_original_refuted :
  exists A cfg hist h,
    cfg_sorted_key cfg = false /\ cfg_loose_accel cfg = false /\ cfg_old_entry cfg = false /\
    cfg_accel_no_eoi cfg = true /\
    let aged := run_calls A cfg new_cache hist in
    snd (dfa_search_at A cfg new_cache h 0) = Some 2 /\ ref_end A h 0 = Some 2 /\
    snd (dfa_search_at A cfg aged h 0) = None /\
    snd (dfa_is_match_at A cfg new_cache h 0) = true /\ snd (dfa_is_match_at A cfg aged h 0) = false.
Proof.
  exists ex_x_or_end, (ex_x_or_end_cfg true), ex_x_or_end_hist, [97; 98]%N. vm_compute. repeat split.
Qed.

(* the same history on the current loops: the accelerated state is really used (its acceleration
   bytes are ['x']) and the answers are the fresh ones *)
Theorem accel_eoi_current_ok :
  let A := ex_x_or_end in let cfg := ex_x_or_end_cfg false in let h := [97; 98]%N in
  let aged := run_calls A cfg new_cache ex_x_or_end_hist in
  snd (dfa_search_at A cfg aged h 0) = Some 2 /\ snd (dfa_is_match_at A cfg aged h 0) = true /\
  existsb (fun o => match o with Some s => match cs_accel s with Some (_ :: _) => true | _ => false end | None => false end)
          (c_slots (fst (dfa_search_at A cfg aged h 0))) = true.
Proof. vm_compute. repeat split. Qed.

(* pattern `ab`, 100 bytes, no clears allowed *)
Definition ex_ab : nfa :=
  mkNfa [SByteRange 97 97 1; SByteRange 98 98 2; SMatch; SByteRange 0 255 4; SSplit 0 3] 0 4 1.
Definition ex_ab_cfg (old : bool) : dconfig :=
  mkCfg 100 0 1000 true 4 [(96%N, 0); (97%N, 1); (98%N, 2); (255%N, 3)] false false old false.

(* C14, original entry points (before bde2710): the NFA fallback of the ANCHORED entry point was
   the unanchored search: `ab` anchored at 0 in "aab": the second state does not fit, the
   fallback found "ab" at [1,3] *)
Theorem anchored_fallback_original_refuted :
  exists A cfg h,
    cfg_old_entry cfg = true /\
    snd (dfa_search_anchored A cfg new_cache h 0) = Some 3 /\ ref_anch_end A h 0 = None /\
    p_search_anchored A cfg h 0 = RDfa None.
Proof. exists ex_ab, (ex_ab_cfg true), [97; 97; 98]%N. vm_compute. repeat split. Qed.

Theorem anchored_fallback_current_ok :
  snd (dfa_search_anchored ex_ab (ex_ab_cfg false) new_cache [97; 97; 98]%N 0) = None.
Proof. vm_compute. reflexivity. Qed.

(* ^$ *)
Definition ex_empty_line : nfa := mkNfa [SLook LStartText 1; SLook LEndText 2; SMatch] 0 0 1.
Definition ex_empty_line_cfg (old : bool) : dconfig := mkCfg 2097152 5 1000 true 1 [(255%N, 0)] false false old false.

(* C14, original entry points (before bde2710): at = len(h) was answered by matchesEmpty, i.e. on
   the EMPTY haystack, without the look-behind context of position at *)
Theorem at_len_context_original_refuted :
  exists A cfg h at_,
    cfg_old_entry cfg = true /\
    snd (dfa_search_at A cfg new_cache h at_) = Some 1 /\ ref_end A h at_ = None /\
    p_search_at A cfg h at_ = RDfa (Some 1).
Proof. exists ex_empty_line, (ex_empty_line_cfg true), [0]%N, 1. vm_compute. repeat split. Qed.

Theorem at_len_context_current_ok :
  snd (dfa_search_at ex_empty_line (ex_empty_line_cfg false) new_cache [0]%N 1) = None.
Proof. vm_compute. reflexivity. Qed.

(* SearchFirstAt reports the EARLIEST end, not the leftmost-first end (by design): a+ on "aa" *)
Definition ex_a_plus : nfa :=
  mkNfa [SByteRange 97 97 1; SSplit 0 2; SMatch; SByteRange 0 255 4; SSplit 0 3] 0 4 1.
Definition ex_a_cfg : dconfig := mkCfg 100 5 1000 true 3 [(96%N, 0); (97%N, 1); (255%N, 2)] false false false false.
Theorem search_first_is_earliest_refuted :
  exists A cfg h, p_search_first A cfg h 0 = RDfa (Some 1) /\ ref_end A h 0 = Some 2 /\
                  p_search_at A cfg h 0 = RDfa (Some 2).
Proof. exists ex_a_plus, ex_a_cfg, [97; 97]%N. vm_compute. repeat split. Qed.

(* the pattern `..` (UTF-8 aware dot, twice) as compiled by nfa.NewDefaultCompiler *)
Local Open Scope N_scope.
Definition ex_dotdot : nfa := (mkNfa [SEpsilon 53; SSparse [(0, 9, 0%nat); (11, 127, 0%nat)]; SByteRange 128 191 0; SByteRange 194 223 2; SByteRange 160 191 2; SByteRange 224 224 4; SByteRange 128 191 2; SByteRange 225 236 6; SByteRange 128 159 2; SByteRange 237 237 8; SByteRange 238 239 6; SByteRange 144 191 6; SByteRange 240 240 11; SByteRange 128 191 6; SByteRange 241 243 13; SByteRange 128 143 6; SByteRange 244 244 15; SSparse [(128, 191, 0%nat); (192, 193, 0%nat); (245, 255, 0%nat)]; SSplit 16 17; SSplit 14 18; SSplit 12 19; SSplit 10 20; SSplit 9 21; SSplit 7 22; SSplit 5 23; SSplit 3 24; SSplit 1 25; SEpsilon 54; SSparse [(0, 9, 27%nat); (11, 127, 27%nat)]; SByteRange 128 191 27; SByteRange 194 223 29; SByteRange 160 191 29; SByteRange 224 224 31; SByteRange 128 191 29; SByteRange 225 236 33; SByteRange 128 159 29; SByteRange 237 237 35; SByteRange 238 239 33; SByteRange 144 191 33; SByteRange 240 240 38; SByteRange 128 191 33; SByteRange 241 243 40; SByteRange 128 143 33; SByteRange 244 244 42; SSparse [(128, 191, 27%nat); (192, 193, 27%nat); (245, 255, 27%nat)]; SSplit 43 44; SSplit 41 45; SSplit 39 46; SSplit 37 47; SSplit 36 48; SSplit 34 49; SSplit 32 50; SSplit 30 51; SSplit 28 52; SMatch; SByteRange 0 255 56; SSplit 26 55] 26 56 1).
Definition ex_dotdot_cfg (sorted : bool) : dconfig := mkCfg 2097152 5 1000 true 16 [(9, 0%nat); (10, 1%nat); (127, 2%nat); (143, 3%nat); (159, 4%nat); (191, 5%nat); (193, 6%nat); (223, 7%nat); (224, 8%nat); (236, 9%nat); (237, 10%nat); (239, 11%nat); (240, 12%nat); (243, 13%nat); (244, 14%nat); (255, 15%nat)] sorted false false false.
Local Close Scope N_scope.

(* C13, original key (before 33a0339), within ONE entry point and the default capacity.  The
   cache key was the hash of the SORTED id set but the State keeps the list in the order of its
   first insertion, and the cut after Match depends on the order.  After "\xe2\x82\xac" the list
   is [thread waiting for the 2nd char; Match thread; ...] (the 3-byte rune is ONE char for the
   thread of position 0, two chars for the thread of position 1); after "--" it is [Match thread;
   waiting thread; ...].  Same set, same key: a search of "--a" on a cache that had seen the euro
   sign extended the match to 3. *)
Theorem key_collapse_original_refuted :
  exists A cfg h0 h,
    cfg_sorted_key cfg = true /\
    snd (dfa_search_at A cfg new_cache h 0) = Some 2 /\ ref_end A h 0 = Some 2 /\
    snd (dfa_search_at A cfg (fst (dfa_search_at A cfg new_cache h0 0)) h 0) = Some 3.
Proof. exists ex_dotdot, (ex_dotdot_cfg true), [226; 130; 172]%N, [45; 45; 97]%N. vm_compute. repeat split. Qed.

Theorem key_collapse_current_ok :
  let A := ex_dotdot in let cfg := ex_dotdot_cfg false in
  snd (dfa_search_at A cfg (fst (dfa_search_at A cfg new_cache [226; 130; 172]%N 0)) [45; 45; 97]%N 0) = Some 2.
Proof. vm_compute. reflexivity. Qed.
