(* C02 / C14 for the PikeVM (nfa/pikevm.go, model: Pike.v), the full span theorem — statement only.
   For every NFA with wf_nfa A = true, every haystack and every offset, SearchAt of the PikeVM
   model returns exactly the span of the leftmost-first reference search Nfa.find_at
   (priority-ordered depth-first search).  Proof: PikeSpan.v. *)
From Coq Require Import List NArith Arith.
From CV Require Import Nfa NfaRef Backtrack Pike PikeSpan.
Import ListNotations.

Theorem C14_pike_search_is_ref :
  forall A h, wf_nfa A = true -> forall at_,
  pike_search_at A h at_ = span_of (find_at A h at_).
Proof. exact pike_search_is_ref. Qed.
Print Assumptions C14_pike_search_is_ref.

Theorem C14_pike_search_anchored_is_ref :
  forall A h, wf_nfa A = true -> forall at_,
  pike_search_at_g A h true at_ =
  (if length h <? at_ then Done None else
   match search_with (fuel_for A h) A h at_ with
   | OutOfFuel => OutOfFuel
   | Done None => Done None
   | Done (Some (e, _)) => Done (Some (at_, e))
   end).
Proof. exact pike_search_anchored_is_ref. Qed.
Print Assumptions C14_pike_search_anchored_is_ref.
