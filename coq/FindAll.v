(* FindAll.v — property C04 "successive-match enumeration equals stdlib's FindAll
   sequence" (and the enumeration part of C11).

   Everything is PARAMETRIC in the single-match oracle [find_at] (position -> leftmost
   match starting at or after that position, seeing the whole haystack, so look-behind
   at the resume position is part of [find_at], not of the loops).  What is modelled
   are the ENUMERATION LOOPS that sit on top of it, as they are in /repo after the
   fixes 179bffa (AppendAllIndex keeps dst) and 407f360 (advance by one code point
   after an empty match; AllIndex uses the common position update):

     specification   $GOROOT/src/regexp/regexp.go:allMatches           [std_loop], [std_all]
     /repo/meta/findall.go:emptyMatchStep (same in /repo/regex.go)     [empty_match_step]
     /repo/meta/findall.go:findAllIndicesLoop                          [cx_loop], [cx_find_all_loop_gen], [cx_find_all_loop]
     /repo/meta/findall.go:FindAllIndicesStreaming (char-class branch) [cc_streaming]
     /repo/meta/findall.go:Count                                       [cx_count_loop], [cx_count]
     /repo/meta/findall.go:FindAllSubmatch                             [cx_sub_loop], [cx_find_all_submatch]
     /repo/regex.go:FindAllIndex / FindAll / FindAllString…            [cx_find_all_index], [cx_find_all]
     /repo/regex.go:AppendAllIndex / AppendAllStringIndex              [cx_append_all_gen], [cx_append_all]
     /repo/regex.go:AllIndex (All, AllString, AllStringIndex wrap it)  [cx_iter_loop], [cx_all_index]
     /repo/nfa/charclass_searcher.go:SearchAt / FindAllIndices         [cc_find_at], [cc_find_all_indices]

   The positive theorems ([loop_eq_std], [find_all_eq_std], [count_eq_std],
   [submatch_eq_std], [iter_eq_std], [append_eq_std], [streaming_eq], [views_agree],
   [fuel_ok]) are about this CURRENT model: for every haystack, every [find_at] satisfying
   [find_ok] and [find_empty_stable], every n and dst, each loop yields [std_all].

   ORIGINAL CODE BEFORE FIXES 179bffa / 407f360 is kept under [*_original] names: the
   same loops with [step_byte] (advance by ONE BYTE after an empty match), AppendAllIndex
   dropping dst (and returning nil for n = 0), AllIndex with `if end == pos {pos++} else
   {pos = end}` (an empty match found beyond pos was yielded twice).  They are refuted
   against [std_all] by concrete witnesses ([*_original_refuted]).

   FINDING recorded by the hypotheses: stdlib's loop needs nothing but [find_ok].  The
   coregex loops additionally rely on [find_empty_stable] (an empty match reported at
   s > pos is reported again when the search is resumed at s): stdlib re-searches at s
   and drops the duplicate through prevMatchEnd, coregex jumps over s.  Without that
   hypothesis the equality is false ([stable_needed]).

   NOT modelled: the engines behind [find_at]; the conversion of index pairs to
   sub-slices/strings (checked on the Go side); slice capacity/aliasing of dst (the
   in-place / append(dst, matches...) split of AppendAllIndex yields the same list). *)

From Coq Require Import List NArith ZArith Lia Bool Arith.
Require Import ZifyBool ZifyNat ZifyN.
Import ListNotations.

(* ------------------------------------------------------------------------- *)
(* utf8.DecodeRune's width                                                    *)
(* ------------------------------------------------------------------------- *)

Definition in_rng (lo hi b : N) : bool := ((lo <=? b) && (b <=? hi))%N.

(* unicode/utf8/utf8.go: tables first[] and acceptRanges[]: for a lead byte, the
   sequence length (1 = ASCII or invalid lead byte) and the accepted range of the
   SECOND byte (this is where overlong forms, surrogates and > U+10FFFF are rejected). *)
Definition lead_info (b0 : N) : nat * N * N :=
  (if b0 <? 194 then (1%nat, 0, 0)                 (* 00..7F ASCII, 80..C1 invalid *)
   else if b0 <? 224 then (2%nat, 128, 191)        (* C2..DF *)
   else if b0 =? 224 then (3%nat, 160, 191)        (* E0: no overlong *)
   else if b0 =? 237 then (3%nat, 128, 159)        (* ED: no surrogates *)
   else if b0 <? 240 then (3%nat, 128, 191)        (* E1..EC, EE, EF *)
   else if b0 =? 240 then (4%nat, 144, 191)        (* F0: no overlong *)
   else if b0 <? 244 then (4%nat, 128, 191)        (* F1..F3 *)
   else if b0 =? 244 then (4%nat, 128, 143)        (* F4: <= U+10FFFF *)
   else (1%nat, 0, 0))%N.                          (* F5..FF invalid *)

(* unicode/utf8/utf8.go:DecodeRune (second result), also regexp.go:inputBytes.step
   (which returns width 0 at the end of the text). *)
Definition decode_width (p : list N) : nat :=
  match p with
  | [] => 0
  | b0 :: _ =>
    let '(sz, lo, hi) := lead_info b0 in
    if sz <=? 1 then 1
    else if length p <? sz then 1
    else if negb (in_rng lo hi (nth 1 p 0%N)) then 1
    else if sz <=? 2 then 2
    else if negb (in_rng 128 191 (nth 2 p 0%N)) then 1
    else if sz <=? 3 then 3
    else if negb (in_rng 128 191 (nth 3 p 0%N)) then 1
    else 4
  end.

Example dw_empty   : decode_width [] = 0. Proof. reflexivity. Qed.
Example dw_ascii   : decode_width [97; 98]%N = 1. Proof. reflexivity. Qed.
Example dw_e_acute : decode_width [195; 169]%N = 2. Proof. reflexivity. Qed.          (* é *)
Example dw_cjk     : decode_width [230; 151; 165; 97]%N = 3. Proof. reflexivity. Qed. (* 日 *)
Example dw_emoji   : decode_width [240; 159; 152; 128]%N = 4. Proof. reflexivity. Qed.
Example dw_trunc   : decode_width [228; 184]%N = 1. Proof. reflexivity. Qed.          (* truncated *)
Example dw_cont    : decode_width [169; 97]%N = 1. Proof. reflexivity. Qed.           (* stray continuation *)
Example dw_overl2  : decode_width [192; 128]%N = 1. Proof. reflexivity. Qed.          (* C0 80 overlong *)
Example dw_overl3  : decode_width [224; 128; 128]%N = 1. Proof. reflexivity. Qed.     (* E0 80 80 overlong *)
Example dw_surr    : decode_width [237; 160; 128]%N = 1. Proof. reflexivity. Qed.     (* U+D800 *)
Example dw_max     : decode_width [244; 143; 191; 191]%N = 4. Proof. reflexivity. Qed. (* U+10FFFF *)
Example dw_toobig  : decode_width [244; 144; 128; 128]%N = 1. Proof. reflexivity. Qed.
Example dw_f5      : decode_width [245; 128; 128; 128]%N = 1. Proof. reflexivity. Qed.
Example dw_badcont : decode_width [230; 151; 40]%N = 1. Proof. reflexivity. Qed.

Ltac split_ifs :=
  repeat match goal with
         | |- context [if ?c then _ else _] => let E := fresh "E" in destruct c eqn:E
         end.

Lemma decode_width_zero_iff : forall p, decode_width p = 0 <-> p = [].
Proof.
  intros [|b0 p]; cbn [decode_width]; [tauto|].
  split; [|discriminate].
  destruct (lead_info b0) as [[sz lo] hi]. split_ifs; discriminate.
Qed.

Lemma decode_width_le_4 : forall p, decode_width p <= 4.
Proof.
  intros [|b0 p]; cbn [decode_width]; [lia|].
  destruct (lead_info b0) as [[sz lo] hi]. split_ifs; lia.
Qed.

Lemma decode_width_le_length : forall p, decode_width p <= length p.
Proof.
  intros [|b0 p]; [cbn; lia|]. unfold decode_width.
  destruct (lead_info b0) as [[sz lo] hi].
  set (l := length (b0 :: p)) in *. assert (1 <= l) by (subst l; cbn; lia).
  split_ifs; lia.
Qed.

(* ------------------------------------------------------------------------- *)
(* Small helpers                                                              *)
(* ------------------------------------------------------------------------- *)

Definition unwrap {B : Type} (o : option (list B)) : list B :=
  match o with Some r => r | None => [] end.

Definition is_zero (k : option nat) : bool :=
  match k with Some 0 => true | _ => false end.

(* remaining budget of a loop whose Go text says "n > 0 && count >= n -> stop" *)
Definition lim (n : Z) (c : nat) : option nat :=
  if (n <=? 0)%Z then None else Some (Z.to_nat (n - Z.of_nat c)).

Lemma lim_not_zero : forall n c, (n <= 0 \/ Z.of_nat c < n)%Z -> is_zero (lim n c) = false.
Proof.
  intros n c H. unfold lim. destruct (Z.leb_spec n 0); [reflexivity|].
  cbn. destruct (Z.to_nat (n - Z.of_nat c)) eqn:E; [lia|reflexivity].
Qed.

Lemma lim_succ : forall n c, option_map pred (lim n c) = lim n (S c).
Proof.
  intros n c. unfold lim. destruct (Z.leb_spec n 0); cbn; [reflexivity|]. f_equal. lia.
Qed.

Lemma lim_reached : forall n c, (0 < n)%Z -> (n <= Z.of_nat c)%Z -> lim n c = Some 0.
Proof.
  intros n c H1 H2. unfold lim. destruct (Z.leb_spec n 0); [lia|]. f_equal. lia.
Qed.

(* ------------------------------------------------------------------------- *)
(* The loops, generic in the type A of a match (index pair, or capture slots)   *)
(* ------------------------------------------------------------------------- *)

Section Loops.
  Context {A : Type}.
  Variable span : A -> nat * nat.          (* group 0 of a match *)
  Variable h : list N.                     (* haystack bytes *)
  Variable find_at : nat -> option A.      (* leftmost match at or after a position *)

  Definition width_at (pos : nat) : nat := decode_width (skipn pos h).

  (* meta/findall.go:emptyMatchStep (identical copy in regex.go): 1 at or past the end of
     the input, otherwise the width utf8.DecodeRune reports at pos (the Go text
     short-cuts ASCII bytes to 1, which is what [decode_width] gives for them). *)
  Definition empty_match_step (pos : nat) : nat := let w := width_at pos in if 0 <? w then w else 1.
  (* original code before fix 407f360: `pos++` / `pos = end + 1` *)
  Definition step_byte (pos : nat) : nat := 1.

  (* regexp.go:allMatches, the position update of the "empty match" branch *)
  Definition std_next (pos : nat) : nat :=
    let w := width_at pos in if 0 <? w then pos + w else length h + 1.

  (* regexp.go:allMatches.  k = n - i (matches still allowed); the loop test
     "i < n && pos <= end" comes first, so a finished loop needs no fuel.  None = out
     of fuel. *)
  Fixpoint std_loop (fuel pos : nat) (prev : Z) (k : nat) : option (list A) :=
    if (k =? 0) || (length h <? pos) then Some [] else
    match fuel with
    | 0 => None
    | S fuel' =>
      match find_at pos with
      | None => Some []
      | Some a =>
        let '(s, e) := span a in
        let empty := e =? pos in                                   (* matches[1] == pos *)
        let accept := negb (empty && (Z.of_nat s =? prev)%Z) in    (* matches[0] == prevMatchEnd *)
        let pos' := if empty then std_next pos else e in
        option_map (fun r => if accept then a :: r else r)
                   (std_loop fuel' pos' (Z.of_nat e) (if accept then k - 1 else k))
      end
    end.

  (* regexp.go:FindAllSubmatchIndex etc.: "if n < 0 { n = len(b) + 1 }" *)
  Definition std_limit (n : Z) : nat := if (n <? 0)%Z then length h + 1 else Z.to_nat n.
  Definition std_all_opt (n : Z) : option (list A) := std_loop (length h + 2) 0 (-1) (std_limit n).
  Definition std_all_gen (n : Z) : list A := unwrap (std_all_opt n).

  (* The common shape of the four coregex loops, without accumulator: skip an empty match
     at lastMatchEnd (lastMatchEnd is only set by NON-empty matches), otherwise deliver;
     after an empty match advance by [stepw]; k = None is "no limit". *)
  Fixpoint cx_core (stepw : nat -> nat) (fuel pos : nat) (last : Z) (k : option nat) : option (list A) :=
    if is_zero k || (length h <? pos) then Some [] else
    match fuel with
    | 0 => None
    | S fuel' =>
      match find_at pos with
      | None => Some []
      | Some a =>
        let '(s, e) := span a in
        if (s =? e) && (Z.of_nat s =? last)%Z then
          cx_core stepw fuel' (pos + stepw pos) last k
        else
          let last' := if s =? e then last else Z.of_nat e in
          let pos' := if s =? e then e + stepw e else if pos <? e then e else pos + 1 in
          option_map (cons a) (cx_core stepw fuel' pos' last' (option_map pred k))
      end
    end.

  (* meta/findall.go:findAllIndicesLoop, the `for n <= 0 || len(results) < n` loop, with
     stepw = [empty_match_step] (stepw = [step_byte] is the original code: in the skip
     branch start == end == lastMatchEnd == pos, so its `pos++` is `pos + stepw pos`). *)
  Fixpoint cx_loop (stepw : nat -> nat) (fuel pos : nat) (last : Z) (n : Z) (res : list A) : option (list A) :=
    if negb ((n <=? 0)%Z || (Z.of_nat (length res) <? n)%Z) then Some res else
    match fuel with
    | 0 => None
    | S fuel' =>
      match find_at pos with
      | None => Some res
      | Some a =>
        let '(s, e) := span a in
        if (s =? e) && (Z.of_nat s =? last)%Z then
          let pos := pos + stepw pos in
          if length h <? pos then Some res else cx_loop stepw fuel' pos last n res
        else
          let res := res ++ [a] in
          let last := if s =? e then last else Z.of_nat e in
          let pos := if s =? e then e + stepw e else if pos <? e then e else pos + 1 in
          if length h <? pos then Some res else cx_loop stepw fuel' pos last n res
      end
    end.

  (* meta/findall.go:findAllIndicesLoop.  `results = results[:0]` (or a fresh slice):
     the loop starts from the empty list whatever dst holds.  [anchored] is
     e.nfa.IsAlwaysAnchored(): one search, e.FindIndices(haystack), modelled as
     find_at 0 (the harness found one pattern, `^\PL-{2,}`, on which FindIndices and
     FindIndicesAt(h, 0) differ: a single-match defect, not a loop defect).  The
     direct-DFA branch only swaps the single-match function (see [dfa_find_at]). *)
  Definition cx_find_all_loop_gen (stepw : nat -> nat) (anchored : bool) (n : Z) (dst : list A) : option (list A) :=
    let res : list A := [] in
    if anchored then Some (match find_at 0 with Some a => res ++ [a] | None => res end)
    else cx_loop stepw (length h + 2) 0 (-1) n res.

  (* regex.go:FindAllIndex (and FindAll/findAllStreaming, FindAllString, FindAllStringIndex:
     same call, then a conversion of the pairs): n == 0 -> nil. *)
  Definition cx_find_all_index (stepw : nat -> nat) (anchored : bool) (n : Z) : option (list A) :=
    if (n =? 0)%Z then Some [] else cx_find_all_loop_gen stepw anchored n [].

  (* ORIGINAL CODE BEFORE FIX 179bffa, regex.go:AppendAllIndex: n == 0 -> nil, otherwise
     dst goes to the engine, which resets it. *)
  Definition cx_append_all_original_gen (stepw : nat -> nat) (anchored : bool) (dst : list A) (n : Z) : option (list A) :=
    if (n =? 0)%Z then Some [] else cx_find_all_loop_gen stepw anchored n dst.

  (* regex.go:AppendAllIndex (AppendAllStringIndex wraps it): n == 0 -> dst; len(dst) == 0
     -> the engine gets dst itself; otherwise the engine gets the spare capacity
     dst[len(dst):] (an empty slice) and its result is re-attached behind dst, in place
     (`dst[:len(dst)+len(matches)]`) or by `append(dst, matches...)`. *)
  Definition cx_append_all_gen (anchored : bool) (dst : list A) (n : Z) : option (list A) :=
    if (n =? 0)%Z then Some dst
    else match dst with
         | [] => cx_find_all_loop_gen empty_match_step anchored n dst
         | _ :: _ => option_map (app dst) (cx_find_all_loop_gen empty_match_step anchored n [])
         end.

  (* meta/findall.go:FindAllSubmatch, the `for pos <= len(haystack)` loop *)
  Fixpoint cx_sub_loop (stepw : nat -> nat) (fuel pos : nat) (last : Z) (n : Z) (res : list A) : option (list A) :=
    if length h <? pos then Some res else
    match fuel with
    | 0 => None
    | S fuel' =>
      match find_at pos with
      | None => Some res
      | Some a =>
        let '(s, e) := span a in
        if (s =? e) && (Z.of_nat s =? last)%Z then
          let pos := pos + stepw pos in
          if length h <? pos then Some res else cx_sub_loop stepw fuel' pos last n res
        else
          let res := res ++ [a] in
          let last := if s =? e then last else Z.of_nat e in
          let pos := if s =? e then e + stepw e else if pos <? e then e else pos + 1 in
          if (0 <? n)%Z && (n <=? Z.of_nat (length res))%Z then Some res
          else cx_sub_loop stepw fuel' pos last n res
      end
    end.

  (* meta/findall.go:FindAllSubmatch: n == 0 -> nil *)
  Definition cx_find_all_submatch_gen (stepw : nat -> nat) (n : Z) : option (list A) :=
    if (n =? 0)%Z then Some [] else cx_sub_loop stepw (length h + 2) 0 (-1) n [].

  (* meta/findall.go:Count, same loop with a counter *)
  Fixpoint cx_count_loop (stepw : nat -> nat) (fuel pos : nat) (last : Z) (n : Z) (count : nat) : option nat :=
    if length h <? pos then Some count else
    match fuel with
    | 0 => None
    | S fuel' =>
      match find_at pos with
      | None => Some count
      | Some a =>
        let '(s, e) := span a in
        if (s =? e) && (Z.of_nat s =? last)%Z then
          let pos := pos + stepw pos in
          if length h <? pos then Some count else cx_count_loop stepw fuel' pos last n count
        else
          let count := S count in
          let last := if s =? e then last else Z.of_nat e in
          let pos := if s =? e then e + stepw e else if pos <? e then e else pos + 1 in
          if (0 <? n)%Z && (n <=? Z.of_nat count)%Z then Some count
          else cx_count_loop stepw fuel' pos last n count
      end
    end.

  Definition cx_count_gen (stepw : nat -> nat) (n : Z) : option nat :=
    if (n =? 0)%Z then Some 0 else cx_count_loop stepw (length h + 2) 0 (-1) n 0.

  (* ORIGINAL CODE BEFORE FIX 407f360, regex.go:AllIndex: the whole sequence the iterator
     yields when the consumer never breaks.  Note the position update:
     `if end == pos { pos++ } else { pos = end }`. *)
  Fixpoint cx_iter_loop_original (fuel pos : nat) (last : Z) : option (list A) :=
    if length h <? pos then Some [] else
    match fuel with
    | 0 => None
    | S fuel' =>
      match find_at pos with
      | None => Some []
      | Some a =>
        let '(s, e) := span a in
        if (s =? e) && (Z.of_nat s =? last)%Z then
          let pos := pos + 1 in
          if length h <? pos then Some [] else cx_iter_loop_original fuel' pos last
        else
          let last := if s =? e then last else Z.of_nat e in
          let pos := if e =? pos then pos + 1 else e in
          option_map (cons a) (cx_iter_loop_original fuel' pos last)
      end
    end.

  Definition cx_all_index_original_gen : option (list A) := cx_iter_loop_original (length h + 2) 0 (-1).

  (* regex.go:AllIndex: the whole sequence the iterator yields when the consumer never
     breaks (breaking after j values yields the first j); same position update as the
     other loops. *)
  Fixpoint cx_iter_loop (fuel pos : nat) (last : Z) : option (list A) :=
    if length h <? pos then Some [] else
    match fuel with
    | 0 => None
    | S fuel' =>
      match find_at pos with
      | None => Some []
      | Some a =>
        let '(s, e) := span a in
        if (s =? e) && (Z.of_nat s =? last)%Z then
          let pos := pos + empty_match_step pos in
          if length h <? pos then Some [] else cx_iter_loop fuel' pos last
        else
          let last := if s =? e then last else Z.of_nat e in
          let pos := if s =? e then e + empty_match_step e else if pos <? e then e else pos + 1 in
          option_map (cons a) (cx_iter_loop fuel' pos last)
      end
    end.

  Definition cx_all_index_gen : option (list A) := cx_iter_loop (length h + 2) 0 (-1).

  (* ----------------------------------------------------------------------- *)
  (* Hypotheses on the single-match oracle                                      *)
  (* ----------------------------------------------------------------------- *)

  Definition find_ok : Prop :=
    forall p a, find_at p = Some a ->
      p <= fst (span a) /\ fst (span a) <= snd (span a) /\ snd (span a) <= length h.

  (* an empty match reported at s > p is reported again when the search resumes at s *)
  Definition find_empty_stable : Prop :=
    forall p a, find_at p = Some a -> fst (span a) = snd (span a) -> p < fst (span a) ->
      exists a', find_at (fst (span a)) = Some a' /\ span a' = span a.

  (* e.nfa.IsAlwaysAnchored(): nothing can match at a start position > 0 *)
  Definition anchored_ok : Prop := forall p, 0 < p -> find_at p = None.

  (* results ordered, non-overlapping, inside the haystack; an empty match never
     touches the end of the preceding match *)
  Fixpoint chain_from (lo : Z) (l : list (nat * nat)) : Prop :=
    match l with
    | [] => True
    | (s, e) :: t =>
      (lo <= Z.of_nat s)%Z /\ s <= e /\ e <= length h /\ (s = e -> (lo < Z.of_nat s)%Z) /\
      chain_from (Z.of_nat e) t
    end.

  (* ----------------------------------------------------------------------- *)
  (* Unfolding equations                                                        *)
  (* ----------------------------------------------------------------------- *)

  Lemma std_loop_stop : forall g pos prev k,
    (k =? 0) || (length h <? pos) = true -> std_loop g pos prev k = Some [].
  Proof. intros [|g] pos prev k H; cbn [std_loop]; rewrite H; reflexivity. Qed.

  Lemma std_loop_S : forall g pos prev k,
    (k =? 0) || (length h <? pos) = false ->
    std_loop (S g) pos prev k =
    match find_at pos with
    | None => Some []
    | Some a =>
      let '(s, e) := span a in
      let empty := e =? pos in
      let accept := negb (empty && (Z.of_nat s =? prev)%Z) in
      let pos' := if empty then std_next pos else e in
      option_map (fun r => if accept then a :: r else r)
                 (std_loop g pos' (Z.of_nat e) (if accept then k - 1 else k))
    end.
  Proof. intros g pos prev k H. cbn [std_loop]. rewrite H. reflexivity. Qed.

  Lemma std_loop_0 : forall pos prev k,
    (k =? 0) || (length h <? pos) = false -> std_loop 0 pos prev k = None.
  Proof. intros pos prev k H. cbn [std_loop]. rewrite H. reflexivity. Qed.

  Lemma cx_core_stop : forall stepw g pos last k,
    is_zero k || (length h <? pos) = true -> cx_core stepw g pos last k = Some [].
  Proof. intros stepw [|g] pos last k H; cbn [cx_core]; rewrite H; reflexivity. Qed.

  Lemma cx_core_past : forall stepw g pos last k,
    length h < pos -> cx_core stepw g pos last k = Some [].
  Proof.
    intros. apply cx_core_stop. apply orb_true_iff. right. apply Nat.ltb_lt. assumption.
  Qed.

  Lemma cx_core_S : forall stepw g pos last k,
    is_zero k || (length h <? pos) = false ->
    cx_core stepw (S g) pos last k =
    match find_at pos with
    | None => Some []
    | Some a =>
      let '(s, e) := span a in
      if (s =? e) && (Z.of_nat s =? last)%Z then
        cx_core stepw g (pos + stepw pos) last k
      else
        let last' := if s =? e then last else Z.of_nat e in
        let pos' := if s =? e then e + stepw e else if pos <? e then e else pos + 1 in
        option_map (cons a) (cx_core stepw g pos' last' (option_map pred k))
    end.
  Proof. intros stepw g pos last k H. cbn [cx_core]. rewrite H. reflexivity. Qed.

  Lemma cx_core_0 : forall stepw pos last k,
    is_zero k || (length h <? pos) = false -> cx_core stepw 0 pos last k = None.
  Proof. intros stepw pos last k H. cbn [cx_core]. rewrite H. reflexivity. Qed.

  (* ----------------------------------------------------------------------- *)
  (* Facts about the step                                                       *)
  (* ----------------------------------------------------------------------- *)

  Lemma width_at_zero : forall p, width_at p = 0 <-> length h <= p.
  Proof.
    intro p. unfold width_at. rewrite decode_width_zero_iff. split; intro H.
    - apply (f_equal (@length N)) in H. rewrite skipn_length in H. cbn in H. lia.
    - apply skipn_all2. exact H.
  Qed.

  Lemma empty_match_step_pos : forall p, 1 <= empty_match_step p.
  Proof. intro p. unfold empty_match_step. destruct (Nat.ltb_spec 0 (width_at p)); lia. Qed.

  Lemma std_next_step : forall p, p <= length h -> std_next p = p + empty_match_step p.
  Proof.
    intros p Hp. unfold std_next, empty_match_step.
    destruct (Nat.ltb_spec 0 (width_at p)) as [Hw|Hw]; [reflexivity|].
    assert (width_at p = 0) as Hz by lia. apply width_at_zero in Hz. lia.
  Qed.

  Lemma std_next_gt : forall p, p <= length h -> p < std_next p.
  Proof. intros p Hp. rewrite std_next_step by exact Hp. pose proof (empty_match_step_pos p). lia. Qed.


  Lemma ltb_past : forall k pos, length h < pos -> (k =? 0) || (length h <? pos) = true.
  Proof. intros. apply orb_true_iff. right. apply Nat.ltb_lt. assumption. Qed.

  (* ----------------------------------------------------------------------- *)
  (* Facts about the specification loop (need only find_ok)                     *)
  (* ----------------------------------------------------------------------- *)

  Section StdFacts.
    Hypothesis Hok : find_ok.

    Lemma std_loop_fuel_ok : forall g pos prev k,
      length h + 1 - pos <= g -> std_loop g pos prev k <> None.
    Proof.
      induction g as [|g IH]; intros pos prev k Hg.
      - rewrite std_loop_stop; [discriminate|]. apply ltb_past. lia.
      - destruct ((k =? 0) || (length h <? pos)) eqn:Hc.
        + rewrite std_loop_stop by exact Hc. discriminate.
        + rewrite std_loop_S by exact Hc.
          apply orb_false_iff in Hc. destruct Hc as [_ Hc]. apply Nat.ltb_ge in Hc.
          destruct (find_at pos) as [a|] eqn:Hf; [|discriminate].
          pose proof (Hok _ _ Hf) as (H1 & H2 & H3).
          destruct (span a) as [s e]. cbn [fst snd] in *. cbv zeta.
          match goal with |- option_map _ ?x <> None => assert (x <> None) as Hx end.
          { apply IH. destruct (Nat.eqb_spec e pos) as [He|He].
            - pose proof (std_next_gt pos Hc). lia.
            - lia. }
          match goal with |- option_map _ ?x <> None => destruct x end;
            [discriminate|congruence].
    Qed.

    Lemma std_loop_length : forall g pos prev k r,
      std_loop g pos prev k = Some r -> length r <= k.
    Proof.
      induction g as [|g IH]; intros pos prev k r Hr.
      - destruct ((k =? 0) || (length h <? pos)) eqn:Hc.
        + rewrite std_loop_stop in Hr by exact Hc. inversion Hr. cbn. lia.
        + rewrite std_loop_0 in Hr by exact Hc. discriminate.
      - destruct ((k =? 0) || (length h <? pos)) eqn:Hc.
        + rewrite std_loop_stop in Hr by exact Hc. inversion Hr. cbn. lia.
        + rewrite std_loop_S in Hr by exact Hc.
          apply orb_false_iff in Hc. destruct Hc as [Hk _]. apply Nat.eqb_neq in Hk.
          destruct (find_at pos) as [a|]; [|inversion Hr; cbn; lia].
          destruct (span a) as [s e]. cbv zeta in Hr.
          match type of Hr with option_map _ ?x = _ => destruct x as [r'|] eqn:Hx end;
            [|discriminate].
          apply IH in Hx. cbn [option_map] in Hr. inversion Hr.
          destruct (negb _); cbn [length]; lia.
    Qed.

    (* the limit len+1 that stdlib substitutes for n < 0 is never reached *)
    Lemma std_loop_k_irrel : forall g pos prev k1 k2,
      length h + 1 <= k1 + pos -> length h + 1 <= k2 + pos ->
      std_loop g pos prev k1 = std_loop g pos prev k2.
    Proof.
      induction g as [|g IH]; intros pos prev k1 k2 H1 H2.
      - destruct (Nat.ltb_spec (length h) pos) as [Hp|Hp].
        + rewrite !std_loop_stop by (apply ltb_past; lia). reflexivity.
        + rewrite !std_loop_0; [reflexivity| |];
            (apply orb_false_iff; split; [apply Nat.eqb_neq; lia|apply Nat.ltb_ge; lia]).
      - destruct (Nat.ltb_spec (length h) pos) as [Hp|Hp].
        + rewrite !std_loop_stop by (apply ltb_past; lia). reflexivity.
        + rewrite !std_loop_S;
            try (apply orb_false_iff; split; [apply Nat.eqb_neq; lia|apply Nat.ltb_ge; lia]).
          destruct (find_at pos) as [a|] eqn:Hf; [|reflexivity].
          pose proof (Hok _ _ Hf) as (Ha & Hb & Hc).
          destruct (span a) as [s e]. cbn [fst snd] in *. cbv zeta.
          f_equal. apply IH.
          * pose proof (std_next_gt pos Hp).
            destruct (Nat.eqb_spec e pos); destruct (negb _); lia.
          * pose proof (std_next_gt pos Hp).
            destruct (Nat.eqb_spec e pos); destruct (negb _); lia.
    Qed.

    Lemma std_loop_prefix : forall g pos prev k k' r',
      k <= k' -> std_loop g pos prev k' = Some r' ->
      std_loop g pos prev k = Some (firstn k r').
    Proof.
      induction g as [|g IH]; intros pos prev k k' r' Hkk Hr.
      - destruct ((k' =? 0) || (length h <? pos)) eqn:Hc.
        + rewrite std_loop_stop in Hr by exact Hc. inversion Hr. rewrite firstn_nil.
          apply std_loop_stop. apply orb_true_iff in Hc. apply orb_true_iff.
          destruct Hc as [Hc|Hc]; [left; apply Nat.eqb_eq in Hc; apply Nat.eqb_eq; lia|right; exact Hc].
        + rewrite std_loop_0 in Hr by exact Hc. discriminate.
      - destruct ((k =? 0) || (length h <? pos)) eqn:Hc.
        + rewrite std_loop_stop by exact Hc.
          apply orb_true_iff in Hc. destruct Hc as [Hc|Hc].
          * apply Nat.eqb_eq in Hc. subst k. reflexivity.
          * rewrite std_loop_stop in Hr by (apply orb_true_iff; right; exact Hc).
            inversion Hr. rewrite firstn_nil. reflexivity.
        + assert ((k' =? 0) || (length h <? pos) = false) as Hc'.
          { apply orb_false_iff in Hc. destruct Hc as [Hc1 Hc2]. apply Nat.eqb_neq in Hc1.
            apply orb_false_iff. split; [apply Nat.eqb_neq; lia|exact Hc2]. }
          rewrite std_loop_S in Hr by exact Hc'. rewrite std_loop_S by exact Hc.
          apply orb_false_iff in Hc. destruct Hc as [Hk _]. apply Nat.eqb_neq in Hk.
          destruct (find_at pos) as [a|]; [|inversion Hr; rewrite firstn_nil; reflexivity].
          destruct (span a) as [s e]. cbv zeta in *.
          match type of Hr with option_map _ ?x = _ => destruct x as [r''|] eqn:Hx end;
            [|discriminate].
          cbn [option_map] in Hr. inversion Hr as [Hr']. clear Hr.
          destruct (negb ((e =? pos) && (Z.of_nat s =? prev)%Z)).
          * rewrite (IH _ _ (k - 1) (k' - 1) r'') by (try lia; exact Hx).
            cbn [option_map]. f_equal. destruct k as [|k]; [lia|].
            cbn [firstn]. f_equal. f_equal. lia.
          * rewrite (IH _ _ k k' r'') by (try lia; exact Hx). reflexivity.
    Qed.

    Lemma std_loop_chain : forall g pos prev k r,
      std_loop g pos prev k = Some r -> (prev <= Z.of_nat pos)%Z ->
      chain_from prev (map span r).
    Proof.
      induction g as [|g IH]; intros pos prev k r Hr Hp.
      - destruct ((k =? 0) || (length h <? pos)) eqn:Hc.
        + rewrite std_loop_stop in Hr by exact Hc. inversion Hr. exact I.
        + rewrite std_loop_0 in Hr by exact Hc. discriminate.
      - destruct ((k =? 0) || (length h <? pos)) eqn:Hc.
        + rewrite std_loop_stop in Hr by exact Hc. inversion Hr. exact I.
        + rewrite std_loop_S in Hr by exact Hc.
          apply orb_false_iff in Hc. destruct Hc as [_ Hc]. apply Nat.ltb_ge in Hc.
          destruct (find_at pos) as [a|] eqn:Hf; [|inversion Hr; exact I].
          pose proof (Hok _ _ Hf) as (Ha & Hb & Hd).
          destruct (span a) as [s e] eqn:Hsp. cbn [fst snd] in *. cbv zeta in Hr.
          match type of Hr with option_map _ ?x = _ => destruct x as [r'|] eqn:Hx end;
            [|discriminate].
          cbn [option_map] in Hr. inversion Hr as [Hr']. clear Hr. subst r.
          pose proof (std_next_gt pos Hc) as Hn.
          assert (chain_from (Z.of_nat e) (map span r')) as Hch.
          { eapply IH; [exact Hx|]. destruct (Nat.eqb_spec e pos); lia. }
          destruct (Nat.eqb_spec e pos) as [He|He]; cbn [andb negb].
          * destruct (Z.eqb_spec (Z.of_nat s) prev) as [Hs|Hs]; cbn [negb].
            -- assert (s = e) by lia. subst s. subst prev. exact Hch.
            -- cbn [map chain_from]. rewrite Hsp. repeat split; try lia. exact Hch.
          * cbn [map chain_from]. rewrite Hsp. repeat split; try lia. exact Hch.
    Qed.

    Lemma std_all_fuel_ok : forall n, std_all_opt n <> None.
    Proof. intro n. apply std_loop_fuel_ok. lia. Qed.

    Lemma std_all_opt_eq : forall n, std_all_opt n = Some (std_all_gen n).
    Proof.
      intro n. unfold std_all_gen. pose proof (std_all_fuel_ok n).
      destruct (std_all_opt n); [reflexivity|congruence].
    Qed.

    Lemma std_all_gen_sorted_disjoint : forall n, chain_from (-1) (map span (std_all_gen n)).
    Proof.
      intro n. pose proof (std_all_opt_eq n) as H. unfold std_all_opt in H.
      eapply std_loop_chain; [exact H|lia].
    Qed.

    Lemma std_all_gen_length : forall n, (0 <= n)%Z -> length (std_all_gen n) <= Z.to_nat n.
    Proof.
      intros n Hn. pose proof (std_all_opt_eq n) as H. unfold std_all_opt in H.
      apply std_loop_length in H. unfold std_limit in H.
      destruct (Z.ltb_spec n 0); lia.
    Qed.

    Lemma std_all_gen_prefix : forall n, (0 <= n)%Z ->
      std_all_gen n = firstn (Z.to_nat n) (std_all_gen (-1)).
    Proof.
      intros n Hn.
      pose proof (std_all_opt_eq n) as H. pose proof (std_all_opt_eq (-1)) as H1.
      unfold std_all_opt in *. unfold std_limit in *.
      destruct (Z.ltb_spec n 0) as [?|_]; [lia|].
      change (-1 <? 0)%Z with true in H1. cbv iota in H1.
      destruct (Nat.leb_spec (Z.to_nat n) (length h + 1)) as [Hle|Hgt].
      - rewrite (std_loop_prefix _ _ _ _ _ _ Hle H1) in H. inversion H. reflexivity.
      - rewrite (std_loop_k_irrel _ _ _ (Z.to_nat n) (length h + 1)) in H by lia.
        rewrite H1 in H. inversion H as [H'].
        symmetry. apply firstn_all2. apply std_loop_length in H1. lia.
    Qed.

    Lemma std_all_gen_head : forall n, n <> 0%Z -> hd_error (std_all_gen n) = find_at 0.
    Proof.
      intros n Hn. pose proof (std_all_opt_eq n) as H. unfold std_all_opt in H.
      assert (std_limit n <> 0) as Hl. { unfold std_limit. destruct (Z.ltb_spec n 0); lia. }
      replace (length h + 2) with (S (length h + 1)) in H by lia.
      rewrite std_loop_S in H
        by (apply orb_false_iff; split; [apply Nat.eqb_neq; lia|apply Nat.ltb_ge; lia]).
      destruct (find_at 0) as [a|]; [|inversion H; reflexivity].
      destruct (span a) as [s e]. cbv zeta in H.
      replace (Z.of_nat s =? -1)%Z with false in H by (symmetry; apply Z.eqb_neq; lia).
      rewrite andb_false_r in H. cbn [negb] in H.
      match type of H with option_map _ ?x = _ => destruct x end; [|discriminate].
      cbn [option_map] in H. inversion H. reflexivity.
    Qed.

  End StdFacts.

  Lemma std_all_gen_n0 : std_all_gen 0 = [].
  Proof. unfold std_all_gen, std_all_opt. rewrite std_loop_stop; reflexivity. Qed.


  (* ----------------------------------------------------------------------- *)
  (* The coregex loop shape with the rune-width step equals the specification   *)
  (* ----------------------------------------------------------------------- *)

  Definition krel (ko : option nat) (k pos : nat) : Prop :=
    match ko with None => length h + 1 <= k + pos | Some j => k = j end.

  Lemma krel_pred : forall ko k pos pos',
    krel ko k pos -> k <> 0 -> pos < pos' -> krel (option_map pred ko) (k - 1) pos'.
  Proof. intros [j|] k pos pos' H Hk Hp; cbn in *; lia. Qed.

  Lemma krel_mono : forall ko k pos pos', krel ko k pos -> pos <= pos' -> krel ko k pos'.
  Proof. intros [j|] k pos pos' H Hp; cbn in *; lia. Qed.

  Section CoreFacts.
    Hypothesis Hok : find_ok.
    Hypothesis Hstable : find_empty_stable.
    Variable stepw : nat -> nat.
    Hypothesis Hstep : forall p, p <= length h -> stepw p = empty_match_step p.

    Lemma core_eq_std : forall m pos, length h + 1 - pos <= m ->
      forall g1 g2 last prev ko k,
        length h + 1 - pos <= g1 -> length h + 1 - pos <= g2 ->
        (last <= Z.of_nat pos)%Z -> (prev <= Z.of_nat pos)%Z ->
        (last = prev \/ (last < Z.of_nat pos /\ prev < Z.of_nat pos))%Z ->
        krel ko k pos ->
        cx_core stepw g1 pos last ko = std_loop g2 pos prev k.
    Proof.
      induction m as [|m IH]; intros pos Hm g1 g2 last prev ko k Hg1 Hg2 Hl Hp Hinv Hk.
      { rewrite cx_core_past by lia. rewrite std_loop_stop by (apply ltb_past; lia). reflexivity. }
      destruct (Nat.ltb_spec (length h) pos) as [Hpast|Hin].
      { rewrite cx_core_past by lia. rewrite std_loop_stop by (apply ltb_past; lia). reflexivity. }
      destruct (is_zero ko) eqn:Hz.
      { rewrite cx_core_stop by (rewrite Hz; reflexivity).
        destruct ko as [[|j]|]; try discriminate. cbn in Hk. subst k.
        rewrite std_loop_stop by reflexivity. reflexivity. }
      assert (k <> 0) as Hk0.
      { destruct ko as [[|j]|]; cbn in Hk, Hz; try discriminate; lia. }
      assert (is_zero ko || (length h <? pos) = false) as Hc1.
      { rewrite Hz. cbn. apply Nat.ltb_ge. lia. }
      assert ((k =? 0) || (length h <? pos) = false) as Hc2.
      { apply orb_false_iff; split; [apply Nat.eqb_neq; lia | apply Nat.ltb_ge; lia]. }
      destruct g1 as [|g1]; [lia|]. destruct g2 as [|g2]; [lia|].
      rewrite cx_core_S by exact Hc1. rewrite std_loop_S by exact Hc2.
      destruct (find_at pos) as [a|] eqn:Hf; [|reflexivity].
      pose proof (Hok _ _ Hf) as (H1 & H2 & H3).
      pose proof (Hstable _ _ Hf) as Hst.
      destruct (span a) as [s e] eqn:Hsp. cbn [fst snd] in *. cbv zeta.
      pose proof (empty_match_step_pos pos) as Hsp1.
      destruct (Nat.eqb_spec s e) as [Hse|Hse].
      - subst e. pose proof (empty_match_step_pos s) as Hsp2.
        destruct (Nat.eqb_spec s pos) as [Hs0|Hs0].
        + (* an empty match at pos *)
          subst s. rewrite std_next_step by lia. rewrite Hstep by lia.
          destruct (Z.eqb_spec (Z.of_nat pos) last) as [Hla|Hla].
          * (* dropped by both *)
            assert (last = prev) by lia. subst prev.
            replace (Z.of_nat pos =? last)%Z with true by (symmetry; apply Z.eqb_eq; lia).
            cbn [andb negb].
            rewrite (IH (pos + empty_match_step pos)) with (g2 := g2) (prev := Z.of_nat pos) (k := k);
              try lia.
            -- match goal with |- _ = option_map _ ?x => destruct x end; reflexivity.
            -- eapply krel_mono; [exact Hk|lia].
          * (* delivered by both *)
            assert ((Z.of_nat pos =? prev)%Z = false) as Hne by (apply Z.eqb_neq; lia).
            rewrite Hne. cbn [andb negb].
            rewrite (IH (pos + empty_match_step pos)) with (g2 := g2) (prev := Z.of_nat pos) (k := k - 1);
              try lia.
            -- reflexivity.
            -- apply krel_pred with (pos := pos); [exact Hk|lia|lia].
        + (* an empty match beyond pos: stdlib re-searches at s and drops the duplicate *)
          assert (pos < s) as Hlt by lia.
          replace (Z.of_nat s =? last)%Z with false by (symmetry; apply Z.eqb_neq; lia).
          cbn [andb negb]. rewrite Hstep by lia.
          f_equal.
          destruct (Nat.eqb_spec (k - 1) 0) as [Hk1|Hk1].
          * rewrite std_loop_stop by (rewrite Hk1; reflexivity).
            apply cx_core_stop. apply orb_true_iff. left.
            destruct ko as [j|]; cbn in Hk |- *; [|lia].
            subst j. destruct k as [|[|k]]; [lia|reflexivity|lia].
          * destruct g2 as [|g2]; [lia|].
            rewrite std_loop_S
              by (apply orb_false_iff; split; [apply Nat.eqb_neq; lia | apply Nat.ltb_ge; lia]).
            destruct (Hst eq_refl Hlt) as (a' & Hf' & Hsp').
            rewrite Hf', Hsp'. cbv zeta.
            rewrite Nat.eqb_refl, Z.eqb_refl. cbn [andb negb].
            rewrite std_next_step by lia.
            rewrite (IH (s + empty_match_step s)) with (g2 := g2) (prev := Z.of_nat s) (k := k - 1);
              try lia.
            -- match goal with |- _ = option_map _ ?x => destruct x end; reflexivity.
            -- apply krel_pred with (pos := pos); [exact Hk|lia|lia].
      - (* a non-empty match *)
        assert (pos < e) as Hlt by lia.
        destruct (Nat.eqb_spec e pos) as [?|_]; [lia|].
        destruct (Nat.ltb_spec pos e) as [_|?]; [|lia].
        cbn [andb negb].
        rewrite (IH e) with (g2 := g2) (prev := Z.of_nat e) (k := k - 1); try lia.
        + reflexivity.
        + apply krel_pred with (pos := pos); [exact Hk|lia|lia].
    Qed.

    Lemma core_all_eq_std : forall n, n <> 0%Z ->
      cx_core stepw (length h + 2) 0 (-1) (lim n 0) = Some (std_all_gen n).
    Proof.
      intros n Hn. rewrite <- (std_all_opt_eq Hok). unfold std_all_opt.
      apply core_eq_std with (m := length h + 1); try lia.
      unfold lim, std_limit, krel.
      destruct (Z.leb_spec n 0); destruct (Z.ltb_spec n 0); lia.
    Qed.

    (* ---- each Go loop is the common shape ---- *)

    Lemma cx_loop_core : forall f pos last n res, pos <= length h ->
      cx_loop stepw f pos last n res =
      option_map (app res) (cx_core stepw f pos last (lim n (length res))).
    Proof.
      induction f as [|f IH]; intros pos last n res Hpos.
      - cbn [cx_loop cx_core].
        destruct (Nat.ltb_spec (length h) pos) as [?|_]; [lia|]. rewrite orb_false_r.
        unfold lim. destruct (Z.leb_spec n 0) as [Hn|Hn]; cbn [orb negb is_zero option_map].
        + reflexivity.
        + destruct (Z.ltb_spec (Z.of_nat (length res)) n) as [Hl|Hl]; cbn [negb].
          * destruct (Z.to_nat (n - Z.of_nat (length res))) eqn:E; [lia|reflexivity].
          * replace (Z.to_nat (n - Z.of_nat (length res))) with 0 by lia.
            cbn. rewrite app_nil_r. reflexivity.
      - cbn [cx_loop cx_core].
        destruct (Nat.ltb_spec (length h) pos) as [?|_]; [lia|]. rewrite orb_false_r.
        destruct (negb ((n <=? 0)%Z || (Z.of_nat (length res) <? n)%Z)) eqn:Hhead.
        { apply negb_true_iff, orb_false_iff in Hhead. destruct Hhead as [Ha Hb].
          apply Z.leb_gt in Ha. apply Z.ltb_ge in Hb.
          rewrite (lim_reached n (length res)) by lia. cbn. rewrite app_nil_r. reflexivity. }
        apply negb_false_iff, orb_true_iff in Hhead.
        assert ((n <= 0 \/ Z.of_nat (length res) < n)%Z) as Hpre.
        { destruct Hhead as [Ha|Hb]; [left; apply Z.leb_le; exact Ha|right; apply Z.ltb_lt; exact Hb]. }
        rewrite (lim_not_zero _ _ Hpre).
        destruct (find_at pos) as [a|] eqn:Hf; [|cbn; rewrite app_nil_r; reflexivity].
        pose proof (Hok _ _ Hf) as (H1 & H2 & H3).
        destruct (span a) as [s e]. cbn [fst snd] in *. cbv zeta.
        destruct ((s =? e) && (Z.of_nat s =? last)%Z).
        + destruct (Nat.ltb_spec (length h) (pos + stepw pos)) as [Hp|Hp].
          * rewrite cx_core_past by exact Hp. cbn. rewrite app_nil_r. reflexivity.
          * apply IH. exact Hp.
        + rewrite lim_succ.
          set (pos' := if s =? e then e + stepw e else if pos <? e then e else pos + 1).
          set (last' := if s =? e then last else Z.of_nat e).
          assert (length (res ++ [a]) = S (length res)) as Hlen
            by (rewrite app_length; cbn; lia).
          destruct (Nat.ltb_spec (length h) pos') as [Hp|Hp].
          * rewrite cx_core_past by exact Hp. reflexivity.
          * rewrite IH by exact Hp. rewrite Hlen.
            destruct (cx_core stepw f pos' last' (lim n (S (length res)))) as [r|]; cbn;
              [rewrite <- app_assoc; reflexivity|reflexivity].
    Qed.

    Lemma cx_sub_loop_core : forall f pos last n res,
      (n <= 0 \/ Z.of_nat (length res) < n)%Z ->
      cx_sub_loop stepw f pos last n res =
      option_map (app res) (cx_core stepw f pos last (lim n (length res))).
    Proof.
      induction f as [|f IH]; intros pos last n res Hpre.
      - cbn [cx_sub_loop cx_core]. rewrite (lim_not_zero _ _ Hpre). cbn [orb].
        destruct (length h <? pos); cbn; [rewrite app_nil_r|]; reflexivity.
      - cbn [cx_sub_loop cx_core]. rewrite (lim_not_zero _ _ Hpre). cbn [orb].
        destruct (Nat.ltb_spec (length h) pos) as [Hpos|Hpos].
        { cbn. rewrite app_nil_r. reflexivity. }
        destruct (find_at pos) as [a|] eqn:Hf; [|cbn; rewrite app_nil_r; reflexivity].
        destruct (span a) as [s e]. cbv zeta.
        destruct ((s =? e) && (Z.of_nat s =? last)%Z).
        + destruct (Nat.ltb_spec (length h) (pos + stepw pos)) as [Hp|Hp].
          * rewrite cx_core_past by exact Hp. cbn. rewrite app_nil_r. reflexivity.
          * apply IH. exact Hpre.
        + rewrite lim_succ.
          set (pos' := if s =? e then e + stepw e else if pos <? e then e else pos + 1).
          set (last' := if s =? e then last else Z.of_nat e).
          assert (length (res ++ [a]) = S (length res)) as Hlen
            by (rewrite app_length; cbn; lia).
          rewrite Hlen.
          destruct ((0 <? n)%Z && (n <=? Z.of_nat (S (length res)))%Z) eqn:Hlim.
          * apply andb_true_iff in Hlim. destruct Hlim as [Ha Hb].
            apply Z.ltb_lt in Ha. apply Z.leb_le in Hb.
            rewrite (lim_reached n (S (length res))) by lia.
            rewrite cx_core_stop by reflexivity. reflexivity.
          * rewrite IH.
            -- rewrite Hlen.
               destruct (cx_core stepw f pos' last' (lim n (S (length res)))) as [r|]; cbn;
                 [rewrite <- app_assoc; reflexivity|reflexivity].
            -- rewrite Hlen. apply andb_false_iff in Hlim.
               destruct Hlim as [Ha|Hb]; [left; apply Z.ltb_ge in Ha; lia|right; apply Z.leb_gt in Hb; lia].
    Qed.

    Lemma cx_count_loop_core : forall f pos last n c,
      (n <= 0 \/ Z.of_nat c < n)%Z ->
      cx_count_loop stepw f pos last n c =
      option_map (fun r => c + length r) (cx_core stepw f pos last (lim n c)).
    Proof.
      induction f as [|f IH]; intros pos last n c Hpre.
      - cbn [cx_count_loop cx_core]. rewrite (lim_not_zero _ _ Hpre). cbn [orb].
        destruct (length h <? pos); cbn; [f_equal; lia|reflexivity].
      - cbn [cx_count_loop cx_core]. rewrite (lim_not_zero _ _ Hpre). cbn [orb].
        destruct (Nat.ltb_spec (length h) pos) as [Hpos|Hpos].
        { cbn. f_equal. lia. }
        destruct (find_at pos) as [a|] eqn:Hf; [|cbn; f_equal; lia].
        destruct (span a) as [s e]. cbv zeta.
        destruct ((s =? e) && (Z.of_nat s =? last)%Z).
        + destruct (Nat.ltb_spec (length h) (pos + stepw pos)) as [Hp|Hp].
          * rewrite cx_core_past by exact Hp. cbn. f_equal. lia.
          * apply IH. exact Hpre.
        + rewrite lim_succ.
          set (pos' := if s =? e then e + stepw e else if pos <? e then e else pos + 1).
          set (last' := if s =? e then last else Z.of_nat e).
          destruct ((0 <? n)%Z && (n <=? Z.of_nat (S c))%Z) eqn:Hlim.
          * apply andb_true_iff in Hlim. destruct Hlim as [Ha Hb].
            apply Z.ltb_lt in Ha. apply Z.leb_le in Hb.
            rewrite (lim_reached n (S c)) by lia.
            rewrite cx_core_stop by reflexivity. cbn. f_equal. lia.
          * rewrite IH.
            -- destruct (cx_core stepw f pos' last' (lim n (S c))) as [r|]; cbn;
                 [f_equal; lia|reflexivity].
            -- apply andb_false_iff in Hlim.
               destruct Hlim as [Ha|Hb]; [left; apply Z.ltb_ge in Ha; lia|right; apply Z.leb_gt in Hb; lia].
    Qed.


    (* ---- the API-level functions, for any step that agrees with the rune width ---- *)

    Lemma std_loop_anchored : anchored_ok -> forall g pos prev k,
      0 < pos -> g <> 0 -> std_loop g pos prev k = Some [].
    Proof.
      intros Han g pos prev k Hpos Hg.
      destruct ((k =? 0) || (length h <? pos)) eqn:Hc.
      - apply std_loop_stop. exact Hc.
      - destruct g as [|g]; [congruence|]. rewrite std_loop_S by exact Hc.
        rewrite (Han pos Hpos). reflexivity.
    Qed.

    Lemma std_all_anchored : anchored_ok -> forall n, n <> 0%Z ->
      std_all_gen n = match find_at 0 with Some a => [a] | None => [] end.
    Proof.
      intros Han n Hn. pose proof (std_all_opt_eq Hok n) as H. unfold std_all_opt in H.
      assert (std_limit n <> 0) as Hl. { unfold std_limit. destruct (Z.ltb_spec n 0); lia. }
      replace (length h + 2) with (S (length h + 1)) in H by lia.
      rewrite std_loop_S in H
        by (apply orb_false_iff; split; [apply Nat.eqb_neq; lia|apply Nat.ltb_ge; lia]).
      destruct (find_at 0) as [a|]; [|inversion H; reflexivity].
      destruct (span a) as [s e]. cbv zeta in H.
      replace (Z.of_nat s =? -1)%Z with false in H by (symmetry; apply Z.eqb_neq; lia).
      rewrite andb_false_r in H. cbn [negb] in H.
      rewrite (std_loop_anchored Han) in H.
      - cbn in H. inversion H. reflexivity.
      - destruct (Nat.eqb_spec e 0); [apply std_next_gt; lia|lia].
      - lia.
    Qed.

    Theorem loop_eq_std_gen : forall anchored n dst,
      (anchored = true -> anchored_ok) -> n <> 0%Z ->
      cx_find_all_loop_gen stepw anchored n dst = Some (std_all_gen n).
    Proof.
      intros anchored n dst Han Hn. unfold cx_find_all_loop_gen. destruct anchored.
      - rewrite (std_all_anchored (Han eq_refl) n Hn). destruct (find_at 0); reflexivity.
      - rewrite cx_loop_core by lia. cbn [length]. rewrite (core_all_eq_std n Hn). reflexivity.
    Qed.

    Theorem find_all_index_eq_std_gen : forall anchored n,
      (anchored = true -> anchored_ok) ->
      cx_find_all_index stepw anchored n = Some (std_all_gen n).
    Proof.
      intros anchored n Han. unfold cx_find_all_index. destruct (Z.eqb_spec n 0) as [->|Hn].
      - rewrite std_all_gen_n0. reflexivity.
      - apply loop_eq_std_gen; assumption.
    Qed.

    Theorem count_eq_std_gen : forall n,
      cx_count_gen stepw n = Some (length (std_all_gen n)).
    Proof.
      intro n. unfold cx_count_gen. destruct (Z.eqb_spec n 0) as [->|Hn].
      - rewrite std_all_gen_n0. reflexivity.
      - rewrite cx_count_loop_core by lia. rewrite (core_all_eq_std n Hn). reflexivity.
    Qed.

    Theorem submatch_eq_std_gen : forall n,
      cx_find_all_submatch_gen stepw n = Some (std_all_gen n).
    Proof.
      intro n. unfold cx_find_all_submatch_gen. destruct (Z.eqb_spec n 0) as [->|Hn].
      - rewrite std_all_gen_n0. reflexivity.
      - rewrite cx_sub_loop_core by (cbn [length]; lia). cbn [length].
        rewrite (core_all_eq_std n Hn). reflexivity.
    Qed.

  End CoreFacts.

  Lemma cx_iter_core : forall f pos last,
    cx_iter_loop f pos last = cx_core empty_match_step f pos last None.
  Proof.
    induction f as [|f IH]; intros pos last; cbn [cx_iter_loop cx_core is_zero orb].
    - reflexivity.
    - destruct (length h <? pos); [reflexivity|].
      destruct (find_at pos) as [a|]; [|reflexivity].
      destruct (span a) as [s e]. cbv zeta.
      destruct ((s =? e) && (Z.of_nat s =? last)%Z).
      + destruct (Nat.ltb_spec (length h) (pos + empty_match_step pos)) as [Hp|Hp].
        * rewrite cx_core_past by exact Hp. reflexivity.
        * apply IH.
      + rewrite IH. reflexivity.
  Qed.

  Section IterAppendFacts.
    Hypothesis Hok : find_ok.
    Hypothesis Hstable : find_empty_stable.

    Theorem iter_eq_std_gen : cx_all_index_gen = Some (std_all_gen (-1)).
    Proof.
      unfold cx_all_index_gen. rewrite cx_iter_core.
      apply (core_all_eq_std Hok Hstable empty_match_step (fun p _ => eq_refl) (-1)). lia.
    Qed.

    Theorem append_eq_std_gen : forall anchored dst n,
      (anchored = true -> anchored_ok) ->
      cx_append_all_gen anchored dst n = Some (dst ++ std_all_gen n).
    Proof.
      intros anchored dst n Han. unfold cx_append_all_gen.
      destruct (Z.eqb_spec n 0) as [->|Hn].
      - rewrite std_all_gen_n0, app_nil_r. reflexivity.
      - destruct dst as [|d dst];
          rewrite (loop_eq_std_gen Hok Hstable empty_match_step (fun p _ => eq_refl)) by assumption;
          reflexivity.
    Qed.
  End IterAppendFacts.

End Loops.

Arguments loop_eq_std_gen {A span h find_at}.
Arguments find_all_index_eq_std_gen {A span h find_at}.
Arguments count_eq_std_gen {A span h find_at}.
Arguments submatch_eq_std_gen {A span h find_at}.
Arguments iter_eq_std_gen {A span h find_at}.
Arguments append_eq_std_gen {A span h find_at}.
Arguments std_all_gen_sorted_disjoint {A span h find_at}.
Arguments std_all_gen_prefix {A span h find_at}.
Arguments std_all_gen_length {A span h find_at}.
Arguments std_all_gen_head {A span h find_at}.

  (* the one-byte step is the rune-width step on ASCII haystacks *)
Lemma step_byte_ascii : forall h, Forall (fun b => (b < 128)%N) h ->
    forall p, p <= length h -> step_byte p = empty_match_step h p.
  Proof.
    intro h.
    intros Hasc p Hp. unfold step_byte, empty_match_step, width_at.
    destruct (skipn p h) as [|b0 t] eqn:Hs; [reflexivity|].
    assert (In b0 h) as Hin.
    { rewrite <- (firstn_skipn p h). apply in_or_app. right. rewrite Hs. left. reflexivity. }
    rewrite Forall_forall in Hasc. apply Hasc in Hin.
    unfold decode_width, lead_info.
    destruct (N.ltb_spec b0 194) as [_|?]; [|lia]. reflexivity.
  Qed.


(* ------------------------------------------------------------------------- *)
(* Group 0 of the sub-match enumeration is the plain enumeration                *)
(* ------------------------------------------------------------------------- *)

Definition pair_id (x : nat * nat) : nat * nat := x.

Lemma std_loop_map_span : forall (A : Type) (span : A -> nat * nat) h (find_at : nat -> option A)
    g pos prev k,
  option_map (map span) (std_loop span h find_at g pos prev k) =
  std_loop pair_id h (fun p => option_map span (find_at p)) g pos prev k.
Proof.
  intros A span h find_at. induction g as [|g IH]; intros pos prev k; cbn [std_loop].
  - destruct ((k =? 0) || (length h <? pos)); reflexivity.
  - destruct ((k =? 0) || (length h <? pos)); [reflexivity|].
    destruct (find_at pos) as [a|]; cbn [option_map]; [|reflexivity].
    change (pair_id (span a)) with (span a).
    destruct (span a) as [s e] eqn:Hsp. cbv zeta. rewrite <- IH.
    destruct (std_loop span h find_at g _ _ _); cbn [option_map]; [|reflexivity].
    destruct (negb _); cbn [map]; rewrite ?Hsp; reflexivity.
Qed.

Lemma std_all_gen_map_span : forall (A : Type) (span : A -> nat * nat) h (find_at : nat -> option A) n,
  map span (std_all_gen span h find_at n) =
  std_all_gen pair_id h (fun p => option_map span (find_at p)) n.
Proof.
  intros. unfold std_all_gen, std_all_opt. rewrite <- std_loop_map_span.
  unfold std_limit. destruct (std_loop span h find_at _ _ _ _); reflexivity.
Qed.

Lemma find_ok_map_span : forall (A : Type) (span : A -> nat * nat) h (find_at : nat -> option A),
  find_ok span h find_at -> find_ok pair_id h (fun p => option_map span (find_at p)).
Proof.
  intros A span h find_at H p a Hf. destruct (find_at p) as [a0|] eqn:E; [|discriminate].
  cbn in Hf. inversion Hf. subst a. exact (H p a0 E).
Qed.

(* ------------------------------------------------------------------------- *)
(* The API functions on index pairs                                            *)
(* ------------------------------------------------------------------------- *)

Definition span_fn := nat -> option (nat * nat).

(* meta/findall.go:findAllIndicesLoop and Count, `useDFADirect` branch: the single-match
   function assembled from dfa.SearchAt (end of the leftmost match at or after pos) and
   reverseDFA.SearchReverse (its start); a failed reverse search breaks the loop like a
   failed forward search.  The loops run unchanged on top of it, so every theorem below
   applies to [dfa_find_at fwd rev] as soon as it satisfies the two hypotheses. *)
Definition dfa_find_at (fwd : nat -> option nat) (rev : nat -> nat -> option nat) : span_fn :=
  fun pos =>
    match fwd pos with
    | None => None
    | Some e =>
      if e =? pos then Some (pos, pos)
      else match rev pos e with None => None | Some s => Some (s, e) end
    end.

(* the specification: what regexp.FindAllIndex(h, n) enumerates, given its single-match
   function *)
Definition std_all (find_at : span_fn) (h : list N) (n : Z) : list (nat * nat) :=
  std_all_gen pair_id h find_at n.

(* meta.Engine.FindAllIndicesStreaming -> findAllIndicesLoop; [_original] = before fix 407f360 *)
Definition cx_find_all_loop_original (find_at : span_fn) h (anchored : bool) (n : Z) (dst : list (nat * nat)) :=
  unwrap (cx_find_all_loop_gen pair_id h find_at step_byte anchored n dst).
Definition cx_find_all_loop (find_at : span_fn) h (anchored : bool) (n : Z) (dst : list (nat * nat)) :=
  unwrap (cx_find_all_loop_gen pair_id h find_at (empty_match_step h) anchored n dst).

(* Regex.FindAllIndex (FindAll, FindAllString, FindAllStringIndex) *)
Definition cx_find_all_original (find_at : span_fn) h (anchored : bool) (n : Z) :=
  unwrap (cx_find_all_index pair_id h find_at step_byte anchored n).
Definition cx_find_all (find_at : span_fn) h (anchored : bool) (n : Z) :=
  unwrap (cx_find_all_index pair_id h find_at (empty_match_step h) anchored n).

(* Regex.Count / CountString / meta.Engine.Count; out of fuel = 0 *)
Definition cx_count_original (find_at : span_fn) h (n : Z) : nat :=
  match cx_count_gen pair_id h find_at step_byte n with Some c => c | None => 0 end.
Definition cx_count (find_at : span_fn) h (n : Z) : nat :=
  match cx_count_gen pair_id h find_at (empty_match_step h) n with Some c => c | None => 0 end.

(* meta.Engine.FindAllSubmatch: a match is the flat slot list [s0;e0;s1;e1;...] (-1 = unset) *)
Definition slots_span (sl : list Z) : nat * nat :=
  (Z.to_nat (nth 0 sl 0%Z), Z.to_nat (nth 1 sl 0%Z)).
Definition cx_find_all_submatch_original (submatch_at : nat -> option (list Z)) h (n : Z) : list (list Z) :=
  unwrap (cx_find_all_submatch_gen slots_span h submatch_at step_byte n).
Definition cx_find_all_submatch (submatch_at : nat -> option (list Z)) h (n : Z) : list (list Z) :=
  unwrap (cx_find_all_submatch_gen slots_span h submatch_at (empty_match_step h) n).

(* Regex.AllIndex (All, AllString, AllStringIndex): everything the iterator yields *)
Definition cx_all_index_original (find_at : span_fn) h := unwrap (cx_all_index_original_gen pair_id h find_at).
Definition cx_all_index (find_at : span_fn) h := unwrap (cx_all_index_gen pair_id h find_at).

(* Regex.AppendAllIndex / AppendAllStringIndex *)
Definition cx_append_all_original (find_at : span_fn) h (anchored : bool) (dst : list (nat * nat)) (n : Z) :=
  unwrap (cx_append_all_original_gen pair_id h find_at step_byte anchored dst n).
Definition cx_append_all (find_at : span_fn) h (anchored : bool) (dst : list (nat * nat)) (n : Z) :=
  unwrap (cx_append_all_gen pair_id h find_at anchored dst n).

(* ------------------------------------------------------------------------- *)
(* Theorems: the loops of the current tree                                      *)
(* ------------------------------------------------------------------------- *)

Section PairFacts.
  Variable h : list N.
  Variable find_at : span_fn.
  Hypothesis Hok : find_ok pair_id h find_at.
  Hypothesis Hstable : find_empty_stable pair_id find_at.

  Let Hstep : forall p, p <= length h -> empty_match_step h p = empty_match_step h p := fun _ _ => eq_refl.

  (* no loop runs out of fuel *)
  Theorem fuel_ok : forall anchored n dst,
    (anchored = true -> anchored_ok find_at) ->
    cx_find_all_index pair_id h find_at (empty_match_step h) anchored n <> None /\
    (n <> 0%Z -> cx_find_all_loop_gen pair_id h find_at (empty_match_step h) anchored n dst <> None) /\
    cx_count_gen pair_id h find_at (empty_match_step h) n <> None /\
    cx_find_all_submatch_gen pair_id h find_at (empty_match_step h) n <> None /\
    cx_all_index_gen pair_id h find_at <> None /\
    cx_append_all_gen pair_id h find_at anchored dst n <> None.
  Proof.
    intros anchored n dst Han. repeat split.
    - rewrite (find_all_index_eq_std_gen Hok Hstable _ Hstep) by exact Han. discriminate.
    - intro Hn. rewrite (loop_eq_std_gen Hok Hstable _ Hstep) by assumption. discriminate.
    - rewrite (count_eq_std_gen Hok Hstable _ Hstep). discriminate.
    - rewrite (submatch_eq_std_gen Hok Hstable _ Hstep). discriminate.
    - rewrite (iter_eq_std_gen Hok Hstable). discriminate.
    - rewrite (append_eq_std_gen Hok Hstable) by exact Han. discriminate.
  Qed.

  Theorem loop_eq_std : forall anchored n dst,
    (anchored = true -> anchored_ok find_at) -> n <> 0%Z ->
    cx_find_all_loop find_at h anchored n dst = std_all find_at h n.
  Proof.
    intros. unfold cx_find_all_loop.
    rewrite (loop_eq_std_gen Hok Hstable _ Hstep) by assumption. reflexivity.
  Qed.

  Theorem find_all_eq_std : forall anchored n,
    (anchored = true -> anchored_ok find_at) ->
    cx_find_all find_at h anchored n = std_all find_at h n.
  Proof.
    intros. unfold cx_find_all.
    rewrite (find_all_index_eq_std_gen Hok Hstable _ Hstep) by assumption. reflexivity.
  Qed.

  Theorem count_eq_std : forall n,
    cx_count find_at h n = length (std_all find_at h n).
  Proof.
    intros. unfold cx_count. rewrite (count_eq_std_gen Hok Hstable _ Hstep). reflexivity.
  Qed.

  Theorem iter_eq_std : cx_all_index find_at h = std_all find_at h (-1).
  Proof.
    unfold cx_all_index. rewrite (iter_eq_std_gen Hok Hstable). reflexivity.
  Qed.

  Theorem append_eq_std : forall anchored dst n,
    (anchored = true -> anchored_ok find_at) ->
    cx_append_all find_at h anchored dst n = dst ++ std_all find_at h n.
  Proof.
    intros. unfold cx_append_all.
    rewrite (append_eq_std_gen Hok Hstable) by assumption. reflexivity.
  Qed.

  (* ---- structure of the specification sequence (find_ok only) ---- *)

  Theorem std_all_sorted_disjoint : forall n, chain_from h (-1) (std_all find_at h n).
  Proof.
    intro n. pose proof (std_all_gen_sorted_disjoint Hok n) as H.
    unfold pair_id in H at 1. rewrite map_id in H. exact H.
  Qed.

  Theorem std_all_prefix : forall n, (0 <= n)%Z ->
    std_all find_at h n = firstn (Z.to_nat n) (std_all find_at h (-1)).
  Proof. intros n Hn. exact (std_all_gen_prefix Hok n Hn). Qed.

  Theorem std_all_length : forall n, (0 <= n)%Z -> length (std_all find_at h n) <= Z.to_nat n.
  Proof. intros n Hn. exact (std_all_gen_length Hok n Hn). Qed.

  Theorem std_all_head : forall n, n <> 0%Z -> hd_error (std_all find_at h n) = find_at 0.
  Proof. intros n Hn. exact (std_all_gen_head Hok n Hn). Qed.

  (* C11: the views agree with each other *)
  Theorem views_agree : forall anchored n dst,
    (anchored = true -> anchored_ok find_at) ->
    cx_count find_at h n = length (cx_find_all find_at h anchored n) /\
    cx_all_index find_at h = cx_find_all find_at h anchored (-1) /\
    cx_append_all find_at h anchored dst n = dst ++ cx_find_all find_at h anchored n /\
    ((0 <= n)%Z -> cx_find_all find_at h anchored n =
                   firstn (Z.to_nat n) (cx_find_all find_at h anchored (-1))) /\
    hd_error (cx_find_all find_at h anchored (-1)) = find_at 0.
  Proof.
    intros anchored n dst Han. rewrite !find_all_eq_std by exact Han.
    repeat split.
    - apply count_eq_std.
    - apply iter_eq_std.
    - apply append_eq_std. exact Han.
    - apply std_all_prefix.
    - apply std_all_head. lia.
  Qed.

  (* the ORIGINAL loops (before 407f360) were right on ASCII haystacks; their only defects
     there were the iterator, see [iter_original_refuted], and the dropped dst *)
  Theorem loop_original_eq_std_ascii : forall anchored n dst,
    Forall (fun b => (b < 128)%N) h ->
    (anchored = true -> anchored_ok find_at) -> n <> 0%Z ->
    cx_find_all_loop_original find_at h anchored n dst = std_all find_at h n /\
    cx_count_original find_at h n = length (std_all find_at h n).
  Proof.
    intros anchored n dst Hasc Han Hn.
    pose proof (step_byte_ascii h Hasc) as Hst. split.
    - unfold cx_find_all_loop_original. rewrite (loop_eq_std_gen Hok Hstable _ Hst) by assumption. reflexivity.
    - unfold cx_count_original. rewrite (count_eq_std_gen Hok Hstable _ Hst). reflexivity.
  Qed.
End PairFacts.

Theorem std_all_n0 : forall find_at h, std_all find_at h 0 = [].
Proof. intros. apply std_all_gen_n0. Qed.

Section SubmatchFacts.
  Variable h : list N.
  Variable submatch_at : nat -> option (list Z).
  Hypothesis Hok : find_ok slots_span h submatch_at.
  Hypothesis Hstable : find_empty_stable slots_span submatch_at.

  Theorem submatch_eq_std : forall n,
    cx_find_all_submatch submatch_at h n = std_all_gen slots_span h submatch_at n.
  Proof.
    intro n. unfold cx_find_all_submatch.
    rewrite (submatch_eq_std_gen Hok Hstable _ (fun _ _ => eq_refl)). reflexivity.
  Qed.

  (* C11: group 0 of every element of FindAllSubmatch is the element of FindAll *)
  Theorem submatch_group0 : forall n,
    map slots_span (cx_find_all_submatch submatch_at h n) =
    std_all (fun p => option_map slots_span (submatch_at p)) h n.
  Proof. intro n. rewrite submatch_eq_std. apply std_all_gen_map_span. Qed.
End SubmatchFacts.

(* ------------------------------------------------------------------------- *)
(* Tables as single-match functions; decidable versions of the hypotheses        *)
(* ------------------------------------------------------------------------- *)

Definition tbl_fn (tbl : list (option (nat * nat))) : span_fn := fun p => nth p tbl None.

Definition tbl_ok_b (len : nat) (tbl : list (option (nat * nat))) : bool :=
  forallb (fun p => match nth p tbl None with
                    | None => true
                    | Some (s, e) => (p <=? s) && (s <=? e) && (e <=? len)
                    end) (seq 0 (length tbl)).

Definition tbl_stable_b (tbl : list (option (nat * nat))) : bool :=
  forallb (fun p => match nth p tbl None with
                    | None => true
                    | Some (s, e) =>
                      if (s =? e) && (p <? s) then
                        match nth s tbl None with
                        | Some (s', e') => (s' =? s) && (e' =? s)
                        | None => false
                        end
                      else true
                    end) (seq 0 (length tbl)).

Definition tbl_anchored_b (tbl : list (option (nat * nat))) : bool :=
  forallb (fun o => match o with None => true | Some _ => false end) (tl tbl).

Lemma tbl_ok_sound : forall h tbl,
  tbl_ok_b (length h) tbl = true -> find_ok pair_id h (tbl_fn tbl).
Proof.
  intros h tbl H p a Hf. unfold tbl_fn in Hf. unfold tbl_ok_b in H.
  rewrite forallb_forall in H.
  destruct (Nat.lt_ge_cases p (length tbl)) as [Hlt|Hge].
  - assert (In p (seq 0 (length tbl))) as Hin by (apply in_seq; lia).
    specialize (H p Hin). rewrite Hf in H. destruct a as [s e]. cbn [pair_id fst snd].
    apply andb_true_iff in H. destruct H as [H H3]. apply andb_true_iff in H. destruct H as [H1 H2].
    apply Nat.leb_le in H1, H2, H3. lia.
  - rewrite nth_overflow in Hf by lia. discriminate.
Qed.

Lemma tbl_stable_sound : forall tbl,
  tbl_stable_b tbl = true -> find_empty_stable pair_id (tbl_fn tbl).
Proof.
  intros tbl H p a Hf Hse Hlt. unfold tbl_fn in *. unfold tbl_stable_b in H.
  rewrite forallb_forall in H.
  destruct (Nat.lt_ge_cases p (length tbl)) as [Hp|Hge].
  - assert (In p (seq 0 (length tbl))) as Hin by (apply in_seq; lia).
    specialize (H p Hin). rewrite Hf in H. destruct a as [s e]. cbn [pair_id fst snd] in *.
    subst e. rewrite Nat.eqb_refl in H. cbn [andb] in H.
    destruct (Nat.ltb_spec p s) as [_|?]; [|lia].
    destruct (nth s tbl None) as [[s' e']|]; [|discriminate].
    apply andb_true_iff in H. destruct H as [H1 H2]. apply Nat.eqb_eq in H1, H2. subst.
    eexists. split; reflexivity.
  - rewrite nth_overflow in Hf by lia. discriminate.
Qed.

Lemma tbl_anchored_sound : forall tbl,
  tbl_anchored_b tbl = true -> anchored_ok (tbl_fn tbl).
Proof.
  intros tbl H p Hp. unfold tbl_fn. destruct tbl as [|o t]; [destruct p; reflexivity|].
  destruct p as [|p]; [lia|]. cbn [nth]. cbn [tl] in H. unfold tbl_anchored_b in H.
  rewrite forallb_forall in H.
  destruct (Nat.lt_ge_cases p (length t)) as [Hlt|Hge].
  - specialize (H (nth p t None) (nth_In _ _ Hlt)). destruct (nth p t None); [discriminate|reflexivity].
  - apply nth_overflow. lia.
Qed.

(* the hypotheses, spelled out for index pairs *)
Lemma find_ok_pairs_iff : forall h (find_at : span_fn),
  find_ok pair_id h find_at <->
  (forall p s e, find_at p = Some (s, e) -> p <= s /\ s <= e /\ e <= length h).
Proof.
  intros h find_at. split.
  - intros H p s e Hf. exact (H p (s, e) Hf).
  - intros H p [s e] Hf. exact (H p s e Hf).
Qed.

Lemma find_empty_stable_pairs_iff : forall (find_at : span_fn),
  find_empty_stable pair_id find_at <->
  (forall p s, find_at p = Some (s, s) -> p < s -> find_at s = Some (s, s)).
Proof.
  intro find_at. split.
  - intros H p s Hf Hlt. destruct (H p (s, s) Hf eq_refl Hlt) as (a' & Hf' & Ha').
    unfold pair_id in *. cbn [fst] in *. subst a'. exact Hf'.
  - intros H p [s e] Hf Hse Hlt. unfold pair_id in *. cbn [fst snd] in *. subst e.
    exists (s, s). split; [exact (H p s Hf Hlt)|reflexivity].
Qed.

Lemma chain_from_cons : forall h lo s e t,
  chain_from h lo ((s, e) :: t) <->
  ((lo <= Z.of_nat s)%Z /\ s <= e /\ e <= length h /\ (s = e -> (lo < Z.of_nat s)%Z) /\
   chain_from h (Z.of_nat e) t).
Proof. intros. reflexivity. Qed.

(* ------------------------------------------------------------------------- *)
(* Refutations: ORIGINAL CODE BEFORE FIXES 179bffa / 407f360                     *)
(* ------------------------------------------------------------------------- *)

(* `a*` on "é" (C3 A9): FindIndicesAt reports an empty match at 0, 1 and 2 *)
Definition w_h_eacute : list N := [195; 169]%N.
Definition w_tbl_eacute : list (option (nat * nat)) := [Some (0, 0); Some (1, 1); Some (2, 2)].

Ltac tbl_hyps :=
  split; [apply tbl_ok_sound; vm_compute; reflexivity
         |split; [apply tbl_stable_sound; vm_compute; reflexivity|]].
Ltac vm_conj := repeat apply conj; vm_compute; reflexivity.

(* original defect 1 (fixed by 407f360): the scan advanced one BYTE after an empty match, stdlib one code point *)
Theorem loop_original_refuted :
  exists h find_at n,
    find_ok pair_id h find_at /\ find_empty_stable pair_id find_at /\
    cx_find_all_loop_gen pair_id h find_at step_byte false n [] = Some [(0, 0); (1, 1); (2, 2)] /\
    std_all find_at h n = [(0, 0); (2, 2)].
Proof.
  exists w_h_eacute, (tbl_fn w_tbl_eacute), (-1)%Z. tbl_hyps; vm_conj.
Qed.

Theorem count_original_refuted :
  exists h find_at n,
    find_ok pair_id h find_at /\ find_empty_stable pair_id find_at /\
    cx_count_gen pair_id h find_at step_byte n = Some 3 /\
    length (std_all find_at h n) = 2.
Proof.
  exists w_h_eacute, (tbl_fn w_tbl_eacute), (-1)%Z. tbl_hyps; vm_conj.
Qed.

Theorem submatch_original_refuted :
  exists h find_at n,
    find_ok pair_id h find_at /\ find_empty_stable pair_id find_at /\
    cx_find_all_submatch_gen pair_id h find_at step_byte n = Some [(0, 0); (1, 1); (2, 2)] /\
    std_all find_at h n = [(0, 0); (2, 2)].
Proof.
  exists w_h_eacute, (tbl_fn w_tbl_eacute), (-1)%Z. tbl_hyps; vm_conj.
Qed.

(* the rejected empty match after a non-empty one is also stepped over by one byte:
   `a*` on "aé": stdlib [0,1] [3,3]; coregex adds [2,2] *)
Theorem loop_original_refuted_skip :
  exists h find_at n,
    find_ok pair_id h find_at /\ find_empty_stable pair_id find_at /\
    cx_find_all_loop_gen pair_id h find_at step_byte false n [] = Some [(0, 1); (2, 2); (3, 3)] /\
    std_all find_at h n = [(0, 1); (3, 3)].
Proof.
  exists [97; 195; 169]%N, (tbl_fn [Some (0, 1); Some (1, 1); Some (2, 2); Some (3, 3)]), (-1)%Z.
  tbl_hyps; vm_conj.
Qed.

(* original defect 2 (fixed by 179bffa): AppendAllIndex dropped the elements of dst (`a+` on "aa", dst = [[7 7]]),
   and returns nil instead of dst for n = 0 *)
Theorem append_original_refuted :
  exists h find_at dst,
    find_ok pair_id h find_at /\ find_empty_stable pair_id find_at /\
    cx_append_all_original_gen pair_id h find_at step_byte false dst (-1) = Some [(0, 2)] /\
    dst ++ std_all find_at h (-1) = [(7, 7); (0, 2)] /\
    cx_append_all_original_gen pair_id h find_at step_byte false dst 0 = Some [] /\
    dst ++ std_all find_at h 0 = [(7, 7)].
Proof.
  exists [97; 97]%N, (tbl_fn [Some (0, 2); Some (1, 2); None]), [(7, 7)].
  tbl_hyps; vm_conj.
Qed.

(* original defect 3 (fixed by 407f360): the iterator yielded an empty match found beyond pos twice (`\b` on " a"),
   on an ASCII haystack, and shares defect 1 *)
Theorem iter_original_refuted :
  exists h find_at,
    find_ok pair_id h find_at /\ find_empty_stable pair_id find_at /\
    Forall (fun b => (b < 128)%N) h /\
    cx_all_index_original_gen pair_id h find_at = Some [(1, 1); (1, 1); (2, 2)] /\
    std_all find_at h (-1) = [(1, 1); (2, 2)].
Proof.
  exists [32; 97]%N, (tbl_fn [Some (1, 1); Some (1, 1); Some (2, 2)]).
  tbl_hyps. split; [repeat constructor|vm_conj].
Qed.

Theorem iter_original_refuted_step :
  exists h find_at,
    find_ok pair_id h find_at /\ find_empty_stable pair_id find_at /\
    cx_all_index_original_gen pair_id h find_at = Some [(0, 0); (1, 1); (2, 2)] /\
    std_all find_at h (-1) = [(0, 0); (2, 2)].
Proof.
  exists w_h_eacute, (tbl_fn w_tbl_eacute). tbl_hyps; vm_conj.
Qed.

(* the hypothesis find_empty_stable cannot be dropped from the equalities of the
   coregex loops: stdlib's loop re-searches at s, coregex jumps over it *)
Theorem stable_needed :
  exists h find_at,
    find_ok pair_id h find_at /\
    cx_find_all_loop find_at h false (-1) [] = [(1, 1)] /\
    std_all find_at h (-1) = [(1, 1); (1, 2)].
Proof.
  exists [97; 97]%N, (tbl_fn [Some (1, 1); Some (1, 2); None]).
  split; [apply tbl_ok_sound; vm_compute; reflexivity|vm_conj].
Qed.

(* ------------------------------------------------------------------------- *)
(* The char-class streaming searcher                                            *)
(* ------------------------------------------------------------------------- *)

Lemma skipn_skipn' : forall (B : Type) (a b : nat) (l : list B), skipn a (skipn b l) = skipn (a + b) l.
Proof.
  intros B a b. induction b as [|b IH]; intro l.
  - rewrite Nat.add_0_r. reflexivity.
  - rewrite Nat.add_succ_r. destruct l as [|x l]; [rewrite !skipn_nil; reflexivity|].
    cbn [skipn]. apply IH.
Qed.

Section CharClass.
  Variable member : N -> bool.   (* CharClassSearcher.membership *)
  Variable mm : nat.             (* CharClassSearcher.minMatch; NewCharClassSearcherFromNFA passes 1 *)

  (* first position >= i (i = position of the head of l) holding a member byte *)
  Fixpoint scan_start (l : list N) (i : nat) : option nat :=
    match l with
    | [] => None
    | b :: t => if member b then Some i else scan_start t (S i)
    end.

  (* end of the run of member bytes that starts at the head of l (position i) *)
  Fixpoint scan_end (l : list N) (i : nat) : nat :=
    match l with
    | [] => i
    | b :: t => if member b then scan_end t (S i) else i
    end.

  (* nfa/charclass_searcher.go:SearchAt (the retry after a too-short run is the
     recursive call; it is dead code for minMatch <= 1) *)
  Fixpoint cc_search_at (fuel : nat) (h : list N) (p : nat) : option (nat * nat) :=
    match fuel with
    | 0 => None
    | S f =>
      if length h <=? p then None else
      match scan_start (skipn p h) p with
      | None => None
      | Some s =>
        let e := scan_end (skipn (S s) h) (S s) in
        if e - s <? mm then cc_search_at f h (S s) else Some (s, e)
      end
    end.

  Definition cc_find_at (h : list N) : span_fn := fun p => cc_search_at (length h + 1) h p.

  (* nfa/charclass_searcher.go:FindAllIndices, the SEARCHING/MATCHING state machine:
     st = None is stateSearching, Some matchStart is stateMatching *)
  Fixpoint cc_stream (l : list N) (i : nat) (st : option nat) (res : list (nat * nat)) : list (nat * nat) :=
    match l with
    | [] =>
      match st with
      | Some ms => if mm <=? i - ms then res ++ [(ms, i)] else res
      | None => res
      end
    | b :: t =>
      match st with
      | None => cc_stream t (S i) (if member b then Some i else None) res
      | Some ms =>
        if member b then cc_stream t (S i) st res
        else cc_stream t (S i) None (if mm <=? i - ms then res ++ [(ms, i)] else res)
      end
    end.

  (* `results = results[:0]` (or a fresh slice): the contents of dst are dropped *)
  Definition cc_find_all_indices (h : list N) (dst : list (nat * nat)) : list (nat * nat) :=
    cc_stream h 0 None [].

  (* meta/findall.go:FindAllIndicesStreaming, UseCharClassSearcher branch *)
  Definition cc_streaming (h : list N) (n : Z) (dst : list (nat * nat)) : list (nat * nat) :=
    let all := cc_find_all_indices h dst in
    if (0 <? n)%Z && (Z.of_nat (length all) >? n)%Z then firstn (Z.to_nat n) all else all.

  Lemma scan_start_bounds : forall l i s, scan_start l i = Some s -> i <= s < i + length l.
  Proof.
    induction l as [|b t IH]; intros i s H; cbn in H; [discriminate|].
    destruct (member b).
    - inversion H. subst. cbn. lia.
    - apply IH in H. cbn. lia.
  Qed.

  Lemma scan_end_bounds : forall l i, i <= scan_end l i <= i + length l.
  Proof.
    induction l as [|b t IH]; intro i; cbn; [lia|].
    destruct (member b); [specialize (IH (S i))|]; lia.
  Qed.

  Lemma cc_stream_acc : forall l i st res, cc_stream l i st res = res ++ cc_stream l i st [].
  Proof.
    induction l as [|b t IH]; intros i st res; cbn [cc_stream].
    - destruct st as [ms|]; [destruct (mm <=? i - ms)|]; rewrite ?app_nil_r; reflexivity.
    - destruct st as [ms|].
      + destruct (member b); [apply IH|].
        destruct (mm <=? i - ms); [|apply IH].
        rewrite (IH (S i) None (res ++ [(ms, i)])), (IH (S i) None ([] ++ [(ms, i)])).
        rewrite app_assoc. reflexivity.
      + apply IH.
  Qed.

  Lemma cc_stream_none : forall l i, scan_start l i = None -> cc_stream l i None [] = [].
  Proof.
    induction l as [|b t IH]; intros i H; cbn in *; [reflexivity|].
    destruct (member b); [discriminate|]. apply IH. exact H.
  Qed.

  Lemma cc_stream_start : forall l i s, scan_start l i = Some s ->
    cc_stream l i None [] = cc_stream (skipn (S s - i) l) (S s) (Some s) [].
  Proof.
    induction l as [|b t IH]; intros i s H; cbn in H; [discriminate|].
    cbn [cc_stream]. destruct (member b).
    - inversion H. subst s. replace (S i - i) with 1 by lia. reflexivity.
    - pose proof (scan_start_bounds _ _ _ H) as Hb.
      rewrite (IH _ _ H). replace (S s - i) with (S (S s - S i)) by lia. reflexivity.
  Qed.

  Lemma cc_stream_run : mm <= 1 -> forall l i s, s < i ->
    cc_stream l i (Some s) [] =
    (s, scan_end l i) :: cc_stream (skipn (scan_end l i - i) l) (scan_end l i) None [].
  Proof.
    intros Hmm. induction l as [|b t IH]; intros i s Hs; cbn [cc_stream scan_end].
    - destruct (Nat.leb_spec mm (i - s)); [|lia]. rewrite Nat.sub_diag. reflexivity.
    - destruct (member b) eqn:Hb.
      + rewrite IH by lia. pose proof (scan_end_bounds t (S i)) as Hbd.
        replace (scan_end t (S i) - i) with (S (scan_end t (S i) - S i)) by lia. reflexivity.
      + destruct (Nat.leb_spec mm (i - s)); [|lia]. rewrite Nat.sub_diag.
        cbn [skipn cc_stream app]. rewrite Hb. rewrite cc_stream_acc. reflexivity.
  Qed.

  Section CCProofs.
    Hypothesis Hmm : mm <= 1.
    Variable h : list N.

    Lemma cc_find_at_char : forall p,
      cc_find_at h p =
      if length h <=? p then None else
      match scan_start (skipn p h) p with
      | None => None
      | Some s => Some (s, scan_end (skipn (S s) h) (S s))
      end.
    Proof.
      intro p. unfold cc_find_at. replace (length h + 1) with (S (length h)) by lia.
      cbn [cc_search_at]. destruct (length h <=? p); [reflexivity|].
      destruct (scan_start (skipn p h) p) as [s|]; [|reflexivity]. cbv zeta.
      pose proof (scan_end_bounds (skipn (S s) h) (S s)).
      destruct (Nat.ltb_spec (scan_end (skipn (S s) h) (S s) - s) mm); [lia|reflexivity].
    Qed.

    Lemma cc_find_at_spec : forall p s e, cc_find_at h p = Some (s, e) ->
      p <= s /\ s < e /\ e <= length h.
    Proof.
      intros p s e H. rewrite cc_find_at_char in H.
      destruct (Nat.leb_spec (length h) p) as [?|Hp]; [discriminate|].
      destruct (scan_start (skipn p h) p) as [s'|] eqn:Hs; [|discriminate].
      injection H as H1 H2. subst s' e.
      apply scan_start_bounds in Hs. rewrite skipn_length in Hs.
      pose proof (scan_end_bounds (skipn (S s) h) (S s)) as He. rewrite skipn_length in He. cbn [skipn] in He |- *. lia.
    Qed.

    Lemma cc_find_ok : find_ok pair_id h (cc_find_at h).
    Proof.
      intros p [s e] H. apply cc_find_at_spec in H. cbn [pair_id fst snd]. lia.
    Qed.

    Lemma cc_find_stable : find_empty_stable pair_id (cc_find_at h).
    Proof.
      intros p [s e] H Hse. apply cc_find_at_spec in H. cbn [pair_id fst snd] in Hse. lia.
    Qed.

    Lemma cc_stream_eq_std : forall m pos, length h + 1 - pos <= m -> pos <= length h ->
      forall g prev k, length h + 1 - pos <= g -> length h + 1 <= k + pos ->
        std_loop pair_id h (cc_find_at h) g pos prev k =
        Some (cc_stream (skipn pos h) pos None []).
    Proof.
      induction m as [|m IH]; intros pos Hm Hpos g prev k Hg Hk; [lia|].
      destruct g as [|g]; [lia|].
      rewrite std_loop_S
        by (apply orb_false_iff; split; [apply Nat.eqb_neq; lia|apply Nat.ltb_ge; lia]).
      rewrite cc_find_at_char.
      destruct (Nat.leb_spec (length h) pos) as [Hend|Hlt].
      { rewrite skipn_all2 by lia. reflexivity. }
      destruct (scan_start (skipn pos h) pos) as [s|] eqn:Hs.
      - pose proof (scan_start_bounds _ _ _ Hs) as Hsb. rewrite skipn_length in Hsb.
        set (e := scan_end (skipn (S s) h) (S s)).
        pose proof (scan_end_bounds (skipn (S s) h) (S s)) as Heb. rewrite skipn_length in Heb.
        fold e in Heb. unfold pair_id at 1. cbv zeta.
        destruct (Nat.eqb_spec e pos) as [?|_]; [lia|]. cbn [andb negb].
        rewrite (IH e) by lia. cbn [option_map]. f_equal.
        rewrite (cc_stream_start _ _ _ Hs). rewrite skipn_skipn'.
        replace (S s - pos + pos) with (S s) by lia.
        rewrite (cc_stream_run Hmm) by lia. fold e. rewrite skipn_skipn'.
        replace (e - S s + S s) with e by lia. reflexivity.
      - rewrite (cc_stream_none _ _ Hs). reflexivity.
    Qed.

    (* the streaming state machine enumerates what stdlib's loop enumerates over the
       searcher's own single-match function (whatever dst holds: it is dropped) *)
    Theorem streaming_eq : forall dst,
      cc_find_all_indices h dst = std_all (cc_find_at h) h (-1).
    Proof.
      intro dst. unfold cc_find_all_indices, std_all, std_all_gen, std_all_opt, std_limit.
      change (-1 <? 0)%Z with true. cbv iota.
      rewrite (cc_stream_eq_std (length h + 1) 0) by lia. reflexivity.
    Qed.

    Theorem cc_streaming_eq : forall n dst, n <> 0%Z ->
      cc_streaming h n dst = std_all (cc_find_at h) h n.
    Proof.
      intros n dst Hn. unfold cc_streaming. rewrite streaming_eq.
      destruct (Z.ltb_spec 0 n) as [Hpos|Hneg]; cbn [andb].
      - rewrite (std_all_prefix h _ cc_find_ok n) by lia.
        destruct (Z.gtb_spec (Z.of_nat (length (std_all (cc_find_at h) h (-1)))) n) as [Hgt|Hle].
        + reflexivity.
        + symmetry. apply firstn_all2. lia.
      - unfold std_all, std_all_gen, std_all_opt, std_limit.
        destruct (Z.ltb_spec n 0); [reflexivity|lia].
    Qed.
  End CCProofs.
End CharClass.

(* `\w+`-like class on "ab cd" *)
Example cc_example :
  let member := fun b => ((97 <=? b) && (b <=? 122))%N in
  cc_find_all_indices member 1 [97; 98; 32; 99; 100]%N [(9, 9)] = [(0, 2); (3, 5)]
  /\ cc_find_at member 1 [97; 98; 32; 99; 100]%N 1 = Some (1, 2)
  /\ cc_streaming member 1 [97; 98; 32; 99; 100]%N 1 [] = [(0, 2)].
Proof. repeat apply conj; vm_compute; reflexivity. Qed.


(* ------------------------------------------------------------------------- *)
(* Case checker (correspondence run, go/harness/c04.go)                         *)
(* ------------------------------------------------------------------------- *)

(* c_api:  0  Regex.FindAllIndex-style call (FindAll, FindAllString, FindAllIndex,
              FindAllStringIndex), observed as index pairs
           1  Count / CountString / meta.Engine.Count, observed count in c_cnt
           2  AppendAllIndex / AppendAllStringIndex with dst = c_dst
           3  AllIndex / AllStringIndex / All / AllString run to the end (n is ignored)
           4  meta.Engine.FindAllIndicesStreaming(h, n, nil)  (its n = 0 means "all")
           5  FindAll*Submatch* family / meta.Engine.FindAllSubmatch, group 0 of each
              element; here c_tbl is p |-> group 0 of meta.Engine.FindSubmatchAt(h, p)
   c_tbl[p] (p = 0..len h) = meta.Engine.FindIndicesAt(h, p);  c_anch = NFA.IsAlwaysAnchored *)
Record case := mkCase {
  c_id : N; c_api : N; c_h : list N; c_tbl : list (option (N * N)); c_anch : bool;
  c_n : Z; c_dst : list (N * N); c_obs : list (N * N); c_cnt : N }.

Definition pair_of_N (x : N * N) : nat * nat := (N.to_nat (fst x), N.to_nat (snd x)).
Definition tbl_of_N (t : list (option (N * N))) : list (option (nat * nat)) :=
  map (option_map pair_of_N) t.

Definition pair_eqb (x y : nat * nat) : bool := (fst x =? fst y) && (snd x =? snd y).
Fixpoint pairs_eqb (a b : list (nat * nat)) : bool :=
  match a, b with
  | [], [] => true
  | x :: a', y :: b' => pair_eqb x y && pairs_eqb a' b'
  | _, _ => false
  end.

(* the specification side: stdlib's loop over the observed single-match table *)
Definition spec_of_case (c : case) : list (nat * nat) :=
  let f := tbl_fn (tbl_of_N (c_tbl c)) in
  let dst := map pair_of_N (c_dst c) in
  match c_api c with
  | 2%N => dst ++ std_all f (c_h c) (c_n c)
  | 3%N => std_all f (c_h c) (-1)
  | 4%N => std_all f (c_h c) (if (c_n c =? 0)%Z then (-1)%Z else c_n c)
  | _ => std_all f (c_h c) (c_n c)
  end.

(* the faithful model of the CURRENT tree over the same table *)
Definition model_of_case (c : case) : list (nat * nat) :=
  let f := tbl_fn (tbl_of_N (c_tbl c)) in
  let dst := map pair_of_N (c_dst c) in
  match c_api c with
  | 0%N => cx_find_all f (c_h c) (c_anch c) (c_n c)
  | 2%N => cx_append_all f (c_h c) (c_anch c) dst (c_n c)
  | 3%N => cx_all_index f (c_h c)
  | 4%N => cx_find_all_loop f (c_h c) (c_anch c) (c_n c) []
  | 5%N => unwrap (cx_find_all_submatch_gen pair_id (c_h c) f (empty_match_step (c_h c)) (c_n c))
  | _ => []
  end.

(* the model of the ORIGINAL code (before fixes 179bffa / 407f360), informational *)
Definition model_original_of_case (c : case) : list (nat * nat) :=
  let f := tbl_fn (tbl_of_N (c_tbl c)) in
  let dst := map pair_of_N (c_dst c) in
  match c_api c with
  | 0%N => cx_find_all_original f (c_h c) (c_anch c) (c_n c)
  | 2%N => cx_append_all_original f (c_h c) (c_anch c) dst (c_n c)
  | 3%N => cx_all_index_original f (c_h c)
  | 4%N => cx_find_all_loop_original f (c_h c) (c_anch c) (c_n c) []
  | 5%N => unwrap (cx_find_all_submatch_gen pair_id (c_h c) f step_byte (c_n c))
  | _ => []
  end.

Definition obs_matches (c : case) (l : list (nat * nat)) (cnt : nat) : bool :=
  match c_api c with
  | 1%N => N.to_nat (c_cnt c) =? cnt
  | _ => pairs_eqb (map pair_of_N (c_obs c)) l
  end.

Definition check_case (c : case) : bool :=
  let s := spec_of_case c in obs_matches c s (length s).

Definition check_model (c : case) : bool :=
  obs_matches c (model_of_case c) (cx_count (tbl_fn (tbl_of_N (c_tbl c))) (c_h c) (c_n c)).

Definition check_model_original (c : case) : bool :=
  obs_matches c (model_original_of_case c)
              (cx_count_original (tbl_fn (tbl_of_N (c_tbl c))) (c_h c) (c_n c)).

(* do the observed tables satisfy the hypotheses of the theorems? *)
Definition check_hyps (c : case) : bool :=
  let t := tbl_of_N (c_tbl c) in
  tbl_ok_b (length (c_h c)) t && tbl_stable_b t && (negb (c_anch c) || tbl_anchored_b t).

Definition mismatches (cs : list case) : list N :=
  map c_id (filter (fun c => negb (check_case c)) cs).
Definition model_mismatches (cs : list case) : list N :=
  map c_id (filter (fun c => negb (check_model c)) cs).
Definition mismatches_original (cs : list case) : list N :=
  map c_id (filter (fun c => negb (check_model_original c)) cs).
Definition hyp_mismatches (cs : list case) : list N :=
  map c_id (filter (fun c => negb (check_hyps c)) cs).

(* what the original code returned for `a*` on "\xc3\xa9": flagged by the specification
   and by the current model, reproduced by the original model *)
Example check_case_ex1 :
  (let c := mkCase 1 0 [195; 169] [Some (0, 0); Some (1, 1); Some (2, 2)] false (-1) []
                  [(0, 0); (1, 1); (2, 2)] 0 in
  mismatches [c] = [1] /\ model_mismatches [c] = [1] /\ mismatches_original [c] = [])%N.
Proof. repeat apply conj; vm_compute; reflexivity. Qed.

Example check_case_ex2 :
  (let c := mkCase 2 2 [195; 169] [Some (0, 0); Some (1, 1); Some (2, 2)] false (-1) [(7, 7)]
                  [(7, 7); (0, 0); (2, 2)] 0 in
  mismatches [c] = [] /\ model_mismatches [c] = [] /\ mismatches_original [c] = [2])%N.
Proof. repeat apply conj; vm_compute; reflexivity. Qed.
