(* DfaPrio.v — the priority theorem for the lazy-DFA search of Dfa.v (closes the statement left
   PARTIAL in DfaRef.v / Props_Dfa.v: p_search_at_leftmost_partial):

     p_search_at_is_ref   : wf_nfa A -> no_look A -> prefix_ok A -> prefix_sep A -> bytes_ok h ->
                            cfg_break cfg = true ->
                            p_search_at A cfg h at_ = RDfa o -> o = ref_end A h at_
     p_search_at_is_ref'  : ... p_search_at <> RFallback -> p_search_at = RDfa (end of find_at)
     fin_end_search_at_is_ref            the answer delivered (DFA or NFA fallback) = ref_end
     dfa_search_at_cached_is_ref         the cache machine on any cache with cinv / accel_sound
     dfa_search_at_any_history_is_ref    ... after any history of forward calls since NewCache()
     p_search_at_without_sep_refuted     witness: prefix_sep cannot be dropped (NOT a compiler NFA)

   prefix_sep (computable): no state other than the two prefix states mentions start_unanch or
   the any-byte state r, and start_anch <> r.  nfa/compile.go appends the prefix after the whole
   pattern, so it holds for every compiled NFA (0 failures on 139 dumped NFAs with prefix_ok).

   Method: the ordered NFA-id list of the DFA state after k bytes is the ERASURE of the PikeVM
   thread list (Pike.v su_loop) after k bytes:
     PA_all / closure_into_bridge   Pike.closure (recursive, visited list vs) and the explicit-stack
                                    closure_loop of the DFA builder visit the same states in the
                                    same order: closure_into (rev vs) q = rev vs'
     PC_all                         the traversal from two visited sets that differ inside an
                                    epsilon-closed set (the PikeVM injects the start thread with a
                                    CLEARED visited set, the DFA continues with the shared one)
     er / step_er / cut_er          erasure relation (repeated thread states, non-terminal ids),
                                    preserved by the byte step and by the cut after the first Match
     inject_bridge                  prefix loop thread in the DFA state <-> su_loop's inject
     loop                           simulation invariant J on top of Pike.sinv; the DFA's delayed
                                    match flag = "the Pike queue contains a Match thread"
   and PikeSpan.pike_search_is_ref finishes.  No existing file is modified. *)
From Coq Require Import List NArith ZArith Lia Bool Arith PeanoNat.
From Coq Require Import ZifyBool ZifyNat ZifyN.
From CV Require Import Nfa NfaRef Backtrack Pike PikeSpan Dfa DfaRef DfaCache DfaTop.
Import ListNotations.

(* lia that does not look at non-arithmetic hypotheses *)
Ltac clia := repeat match goal with
  | H : ?T |- _ => lazymatch T with
      | _ <= _ => fail | _ < _ => fail | @eq nat _ _ => fail | _ <> _ => fail
      | _ /\ _ => fail | _ => match type of T with Prop => clear H end end end; lia.

(* ------------------------------------------------------------------ small facts *)
Lemma memb_vmem q l : memb q l = Pike.vmem q l.
Proof. reflexivity. Qed.

Lemma memb_rev q l : memb q (rev l) = memb q l.
Proof.
  destruct (memb q l) eqn:E.
  - apply memb_In. apply -> in_rev. now apply memb_In.
  - apply memb_false. intros H. apply in_rev in H. apply memb_false in E. contradiction.
Qed.

(* terminal state ids: the ones the PikeVM keeps as threads *)
Definition termb (A : nfa) (q : nat) : bool :=
  match nth_error (states A) q with Some st => is_terminal st | None => false end.

(* every id a state mentions *)
Definition all_succ (st : nstate) : list nat :=
  match st with
  | SByteRange _ _ n => [n]
  | SSparse trs => map (fun t => snd t) trs
  | SSplit l r => [l; r]
  | SEpsilon n => [n]
  | SCapture _ _ n => [n]
  | SLook _ n => [n]
  | _ => []
  end.

(* the unanchored prefix (start_unanch = Split(start_anch, r), r = any byte -> start_unanch)
   is entered only through itself: no other state mentions start_unanch or r, and the pattern
   start is not r.  True for everything nfa/compile.go emits (the prefix is appended last). *)
Definition prefix_sep (A : nfa) : bool :=
  match st_at A (start_unanch A) with
  | Some (SSplit _ r) =>
      negb (start_anch A =? r) &&
      forallb (fun qs => (fst qs =? start_unanch A) || (fst qs =? r) ||
                         forallb (fun y => negb (y =? start_unanch A) && negb (y =? r)) (all_succ (snd qs)))
              (combine (seq 0 (nstates A)) (states A))
  | _ => false
  end.

Lemma combine_seq_nth {T} (l : list T) : forall k q x, nth_error l q = Some x -> In (k + q, x) (combine (seq k (length l)) l).
Proof.
  induction l as [|a l IH]; intros k q x H; [destruct q; discriminate|].
  destruct q as [|q]; cbn in H |- *.
  - inversion H; subst. left. f_equal. lia.
  - right. replace (k + S q) with (S k + q) by lia. apply IH. exact H.
Qed.

(* ------------------------------------------------------------------ bridge: the recursive
   closure of the PikeVM and the explicit-stack closure of the DFA builder visit the same
   states in the same order (rev of Pike's visited list = the DFA's insertion-ordered set) *)
Section Bridge.
  Variable A : nfa.
  Variable h : hay.
  Hypothesis Hwf : wf_nfa A = true.
  Hypothesis Hnl : no_look A = true.
  Notation n := (nstates A).
  Notation UV := (DfaRef.unv A).

  Lemma eps_succ_esucc p q st : nth_error (states A) q = Some st -> eps_succ h p st = esucc A q.
  Proof.
    intros H. unfold esucc, eps_push, st_at. rewrite H. pose proof (nl_st A Hnl q st H) as Hl.
    destruct st; cbn in *; try reflexivity. discriminate.
  Qed.

  Lemma termb_esucc q : termb A q = true -> esucc A q = [].
  Proof.
    unfold termb, esucc, eps_push, st_at. destruct (nth_error (states A) q) as [st|]; [|discriminate].
    destruct st; cbn; intros; try reflexivity; discriminate.
  Qed.

  Definition bridge (lh : lookset) (ts vs vs' : list nat) : Prop :=
    forall F stack, 2 * UV (rev vs) + length ts + length stack <= F ->
      exists F', closure_loop F A lh (ts ++ stack) (rev vs) = closure_loop F' A lh stack (rev vs') /\
                 2 * UV (rev vs') + length stack <= F'.

  Definition outp (vs : list nat) (T : list thread) (vs' : list nat) : Prop :=
    exists new, vs' = rev new ++ vs /\ map fst T = filter (termb A) new /\ (forall x, In x new -> ~ In x vs).

  Definition PA (f : nat) : Prop := forall p q s vs T vs',
    Pike.closure A h f p q s vs = Done (T, vs') -> q < n ->
    (forall lh, bridge lh [q] vs vs') /\ outp vs T vs'.

  Lemma PA_list f : PA f -> forall p (ts : list thread) vs T vs',
    closure_list A h f p ts vs = Done (T, vs') -> (forall t, In t ts -> fst t < n) ->
    (forall lh, bridge lh (map fst ts) vs vs') /\ outp vs T vs'.
  Proof.
    intros HP p ts. induction ts as [|[q s] ts IH]; intros vs T vs' H Hlt.
    - inversion H; subst. split.
      + intros lh F stack HF. exists F. split; [reflexivity|cbn [map length] in HF; clia].
      + exists []. split; [reflexivity|]. split; [reflexivity|intros x []].
    - cbn [closure_list] in H.
      destruct (Pike.closure A h f p q s vs) as [|[T1 vs1]] eqn:E1; [discriminate|].
      destruct (closure_list A h f p ts vs1) as [|[T2 vs2]] eqn:E2; [discriminate|].
      inversion H; subst T vs'. clear H.
      destruct (HP _ _ _ _ _ _ E1 (Hlt (q, s) (or_introl eq_refl))) as [B1 [n1 [Hv1 [Hm1 Hf1]]]].
      destruct (IH _ _ _ E2 (fun t Ht => Hlt t (or_intror Ht))) as [B2 [n2 [Hv2 [Hm2 Hf2]]]].
      split.
      + intros lh F stack HF. cbn [map fst length] in HF.
        destruct (B1 lh F (map fst ts ++ stack)) as [F1 [E HF1]].
        { rewrite app_length. cbn [length]. clia. }
        destruct (B2 lh F1 stack) as [F2 [E' HF2]].
        { rewrite app_length in HF1. clia. }
        exists F2. split; [|exact HF2]. cbn [map fst app] in E |- *. rewrite E. exact E'.
      + exists (n1 ++ n2). subst vs2 vs1. rewrite rev_app_distr, app_assoc. split; [reflexivity|].
        split; [rewrite map_app, filter_app; f_equal; assumption|].
        intros x Hx. apply in_app_or in Hx. destruct Hx as [Hx|Hx]; [now apply Hf1|].
        intros Hi. apply (Hf2 x Hx). apply in_or_app. now right.
  Qed.

  Lemma PA_all f : PA f.
  Proof.
    induction f as [|f IH]; intros p q s vs T vs' H Hq; [discriminate|].
    rewrite closure_unfold in H. destruct (Pike.vmem q vs) eqn:Hv.
    { inversion H; subst. split.
      - intros lh F stack HF. destruct F as [|F0]; [cbn [length] in HF; clia|].
        cbn [app closure_loop]. rewrite memb_rev. change (memb q vs') with (Pike.vmem q vs'). rewrite Hv.
        exists F0. split; [reflexivity|cbn [length] in HF; clia].
      - exists []. split; [reflexivity|]. split; [reflexivity|intros x []]. }
    assert (Hm : memb q (rev vs) = false) by (rewrite memb_rev; exact Hv).
    pose proof (unv_snoc_lt A Hwf Hnl q (rev vs) Hq Hm) as Hlt.
    destruct (nth_error (states A) q) as [st|] eqn:Hst.
    2:{ apply nth_error_None in Hst. unfold nstates in Hq. clia. }
    destruct (is_terminal st) eqn:Htm.
    { inversion H; subst. assert (Htb : termb A q = true) by (unfold termb; now rewrite Hst).
      split.
      - intros lh F stack HF. destruct F as [|F0]; [cbn [length] in HF; clia|].
        cbn [app closure_loop]. rewrite Hm, (eps_push_nl A Hnl), (termb_esucc q Htb). cbn [app rev].
        exists F0. split; [reflexivity|cbn [length] in HF; clia].
      - exists [q]. split; [reflexivity|]. split; [cbn [map fst filter]; now rewrite Htb|].
        intros x [<-|[]]. now apply vmem_false. }
    assert (Htb : termb A q = false) by (unfold termb; now rewrite Hst).
    destruct (PA_list f IH _ _ _ _ _ H) as [B [n1 [Hv1 [Hm1 Hf1]]]].
    { intros t Ht. apply in_map_iff in Ht. destruct Ht as [x [<- Hx]]. cbn [fst].
      rewrite (eps_succ_esucc p q st Hst) in Hx. eapply (esucc_lt A Hwf Hnl); eauto. }
    rewrite map_map in B. cbn [fst] in B. rewrite map_id in B. rewrite (eps_succ_esucc p q st Hst) in B.
    split.
    - intros lh F stack HF. destruct F as [|F0]; [cbn [length] in HF; clia|].
      cbn [app closure_loop]. rewrite Hm, (eps_push_nl A Hnl).
      pose proof (esucc_len A Hwf Hnl q) as Hl.
      destruct (B lh F0 stack) as [F1 [E HF1]]; [cbn [rev]; cbn [length] in HF; clia|].
      exists F1. split; [exact E|exact HF1].
    - exists (q :: n1). subst vs'. cbn [rev filter]. rewrite Htb, <- app_assoc. split; [reflexivity|]. split; [exact Hm1|].
      intros x [<-|Hx]; [now apply vmem_false|]. intros Hi. apply (Hf1 x Hx). now right.
  Qed.

  Lemma closure_loop_nil F lh res : closure_loop F A lh [] res = res.
  Proof. destruct F; reflexivity. Qed.

  Lemma closure_into_bridge lh f p q s vs T vs' :
    Pike.closure A h f p q s vs = Done (T, vs') -> q < n ->
    closure_into A lh (rev vs) q = rev vs' /\ outp vs T vs'.
  Proof.
    intros H Hq. destruct (PA_all f _ _ _ _ _ _ H Hq) as [B O]. split; [|exact O].
    unfold closure_into. destruct (B lh (closure_fuel A) []) as [F' [E _]].
    - unfold closure_fuel. pose proof (unv_le A Hwf Hnl (rev vs)). cbn [length]. clia.
    - cbn [app] in E. rewrite E. apply closure_loop_nil.
  Qed.

  Lemma fold_bridge lh f p : forall (ts : list thread) vs T vs',
    closure_list A h f p ts vs = Done (T, vs') -> (forall t, In t ts -> fst t < n) ->
    fold_left (closure_into A lh) (map fst ts) (rev vs) = rev vs' /\ outp vs T vs'.
  Proof.
    induction ts as [|[q s] ts IH]; intros vs T vs' H Hlt.
    - inversion H; subst. split; [reflexivity|]. exists []. split; [reflexivity|]. split; [reflexivity|intros x []].
    - cbn [closure_list] in H.
      destruct (Pike.closure A h f p q s vs) as [|[T1 vs1]] eqn:E1; [discriminate|].
      destruct (closure_list A h f p ts vs1) as [|[T2 vs2]] eqn:E2; [discriminate|].
      inversion H; subst T vs'. clear H.
      destruct (closure_into_bridge lh _ _ _ _ _ _ _ E1 (Hlt (q, s) (or_introl eq_refl))) as [B1 [n1 [Hv1 [Hm1 Hf1]]]].
      destruct (IH _ _ _ E2 (fun t Ht => Hlt t (or_intror Ht))) as [B2 [n2 [Hv2 [Hm2 Hf2]]]].
      split.
      + cbn [map fst fold_left]. rewrite B1. exact B2.
      + exists (n1 ++ n2). subst vs2 vs1. rewrite rev_app_distr, app_assoc. split; [reflexivity|].
        split; [rewrite map_app, filter_app; f_equal; assumption|].
        intros x Hx. apply in_app_or in Hx. destruct Hx as [Hx|Hx]; [now apply Hf1|].
        intros Hi. apply (Hf2 x Hx). apply in_or_app. now right.
  Qed.

  (* ---------------- the same traversal from two visited sets that differ only inside an
     epsilon-closed set D (and outside the region P the traversal stays in) *)
  Section Sim.
    Variable D : list nat.
    Variable P : nat -> Prop.
    Hypothesis HD : closedE A D.
    Hypothesis HP : forall x y, P x -> In y (esucc A x) -> P y.

    Definition agree (V V' : list nat) : Prop :=
      (forall x, In x D -> In x V') /\ (forall x, ~ In x D -> P x -> (In x V <-> In x V')).

    Definition dfil (T : list thread) : list thread := filter (fun t : thread => negb (memb (fst t) D)) T.

    Lemma agree_cons q V V' : agree V V' -> agree (q :: V) (q :: V').
    Proof.
      intros [H1 H2]. split.
      - intros x Hx. right. now apply H1.
      - intros x Hx Px. cbn [In]. rewrite (H2 x Hx Px). tauto.
    Qed.

    Lemma inD_run f p q s V T V1 : In q D -> Pike.closure A h f p q s V = Done (T, V1) ->
      (forall t, In t T -> In (fst t) D) /\ (forall x, In x V1 -> In x V \/ In x D) /\ (forall x, In x V -> In x V1).
    Proof.
      intros Hq H. pose proof (closure_spec A h f _ _ _ _ _ _ H) as Po. split; [|split].
      - intros t Ht. destruct (p_thr _ _ _ _ _ _ _ Po t Ht) as [_ [_ [r [[<-|[]] [_ He]]]]]. cbn [fst] in He.
        apply (estar_ereach A Hnl) in He. eapply closedE_estar; eauto.
      - intros x Hx. destruct (p_sound _ _ _ _ _ _ _ Po x Hx) as [Hv|[r [[<-|[]] He]]]; [now left|right].
        cbn [fst] in He. apply (estar_ereach A Hnl) in He. eapply closedE_estar; eauto.
      - apply (p_incl _ _ _ _ _ _ _ Po).
    Qed.

    Lemma dfil_allD T : (forall t, In t T -> In (fst t) D) -> dfil T = [].
    Proof.
      induction T as [|t T IH]; intros H; [reflexivity|]. unfold dfil. cbn [filter].
      assert (Hm : memb (fst t) D = true) by (apply memb_In; apply H; now left). rewrite Hm. cbn [negb].
      apply IH. intros t' Ht'. apply H. now right.
    Qed.

    Definition PC (f : nat) : Prop := forall p q s V T V1 V',
      Pike.closure A h f p q s V = Done (T, V1) -> P q -> agree V V' ->
      exists V1', Pike.closure A h f p q s V' = Done (dfil T, V1') /\ agree V1 V1'.

    Lemma PC_list f : PC f -> forall p (ts : list thread) V T V1 V',
      closure_list A h f p ts V = Done (T, V1) -> (forall t, In t ts -> P (fst t)) -> agree V V' ->
      exists V1', closure_list A h f p ts V' = Done (dfil T, V1') /\ agree V1 V1'.
    Proof.
      intros HC p ts. induction ts as [|[q s] ts IH]; intros V T V1 V' H HPt Hag.
      - inversion H; subst. exists V'. split; [reflexivity|exact Hag].
      - cbn [closure_list] in H.
        destruct (Pike.closure A h f p q s V) as [|[T1 W1]] eqn:E1; [discriminate|].
        destruct (closure_list A h f p ts W1) as [|[T2 W2]] eqn:E2; [discriminate|].
        inversion H; subst T V1. clear H.
        destruct (HC _ _ _ _ _ _ V' E1 (HPt (q, s) (or_introl eq_refl)) Hag) as [W1' [E1' Hag1]].
        destruct (IH _ _ _ W1' E2 (fun t Ht => HPt t (or_intror Ht)) Hag1) as [W2' [E2' Hag2]].
        exists W2'. split; [|exact Hag2]. cbn [closure_list]. rewrite E1', E2'. unfold dfil. now rewrite filter_app.
    Qed.

    Lemma PC_all f : PC f.
    Proof.
      induction f as [|f IH]; intros p q s V T V1 V' H Pq Hag; [discriminate|].
      destruct (memb q D) eqn:HqD.
      { apply memb_In in HqD. destruct (inD_run _ _ _ _ _ _ _ HqD H) as [H1 [H2 H3]].
        exists V'. rewrite closure_unfold.
        assert (Hv : Pike.vmem q V' = true) by (apply vmem_In; apply (proj1 Hag); exact HqD).
        rewrite Hv, (dfil_allD T H1). split; [reflexivity|]. destruct Hag as [G1 G2]. split; [exact G1|].
        intros x Hx Px. split.
        - intros Hi. destruct (H2 x Hi) as [Hi'|Hi']; [now apply (G2 x Hx Px)|contradiction].
        - intros Hi. apply H3. now apply (G2 x Hx Px). }
      apply memb_false in HqD.
      rewrite closure_unfold in H |- *.
      assert (Hvv : Pike.vmem q V' = Pike.vmem q V).
      { destruct (Pike.vmem q V) eqn:E.
        - apply vmem_In. apply (proj2 Hag q HqD Pq). now apply vmem_In.
        - apply vmem_false. intros Hi. apply (proj2 Hag q HqD Pq) in Hi. apply vmem_false in E. contradiction. }
      rewrite Hvv. destruct (Pike.vmem q V) eqn:Hv.
      { inversion H; subst. exists V'. split; [reflexivity|exact Hag]. }
      assert (Hnm : negb (memb q D) = true) by (apply negb_true_iff, memb_false; exact HqD).
      destruct (nth_error (states A) q) as [st|] eqn:Hst.
      2:{ inversion H; subst. exists (q :: V'). split; [reflexivity|now apply agree_cons]. }
      destruct (is_terminal st) eqn:Htm.
      { inversion H; subst. exists (q :: V'). split; [|now apply agree_cons].
        unfold dfil. cbn [filter fst]. now rewrite Hnm. }
      apply (PC_list f IH _ _ _ _ _ (q :: V') H); [|now apply agree_cons].
      intros t Ht. apply in_map_iff in Ht. destruct Ht as [x [<- Hx]]. cbn [fst].
      rewrite (eps_succ_esucc p q st Hst) in Hx. eapply HP; eauto.
    Qed.
  End Sim.

  (* ---------------- erasure: a PikeVM thread list (possibly with repeated states: the start
     thread is added with a cleared visited set) against a DFA id list (with the non-terminal
     states the DFA builder keeps) *)
  Inductive er : list nat -> list thread -> list nat -> Prop :=
  | er_nil seen : er seen [] []
  | er_nt seen x Q L : termb A x = false -> er (x :: seen) Q L -> er seen Q (x :: L)
  | er_dup seen q s Q L : In q seen -> er seen Q L -> er seen ((q, s) :: Q) L
  | er_both seen q s Q L : er (q :: seen) Q L -> er seen ((q, s) :: Q) (q :: L).

  Lemma er_mono seen Q L : er seen Q L -> forall seen', (forall x, In x seen -> In x seen') -> er seen' Q L.
  Proof.
    induction 1 as [seen|seen x Q L Hx _ IH|seen q s Q L Hq _ IH|seen q s Q L _ IH]; intros seen' Hs.
    - constructor.
    - apply er_nt; [exact Hx|]. apply IH. intros y [<-|Hy]; [now left|right; auto].
    - apply er_dup; [auto|]. apply IH. exact Hs.
    - apply er_both. apply IH. intros y [<-|Hy]; [now left|right; auto].
  Qed.

  Lemma er_app seen Q1 L1 : er seen Q1 L1 -> forall seen2 Q2 L2, er seen2 Q2 L2 ->
    (forall x, In x seen2 -> In x seen \/ In x L1) -> er seen (Q1 ++ Q2) (L1 ++ L2).
  Proof.
    induction 1 as [seen|seen x Q L Hx _ IH|seen q s Q L Hq _ IH|seen q s Q L _ IH]; intros seen2 Q2 L2 H2 Hs.
    - cbn [app]. apply (er_mono _ _ _ H2). intros x Hx. destruct (Hs x Hx) as [H|[]]. exact H.
    - cbn [app]. apply er_nt; [exact Hx|]. apply (IH _ _ _ H2).
      intros y Hy. destruct (Hs y Hy) as [H|[<-|H]]; [left; now right|left; now left|now right].
    - cbn [app]. apply er_dup; [exact Hq|]. apply (IH _ _ _ H2). exact Hs.
    - cbn [app]. apply er_both. apply (IH _ _ _ H2).
      intros y Hy. destruct (Hs y Hy) as [H|[<-|H]]; [left; now right|left; now left|now right].
  Qed.

  (* a duplicate-free thread list is the terminal part of its id list *)
  Lemma er_exact : forall L (Q : list thread) seen, map fst Q = filter (termb A) L -> er seen Q L.
  Proof.
    induction L as [|x L IH]; intros Q seen H.
    - destruct Q; [constructor|discriminate].
    - cbn [filter] in H. destruct (termb A x) eqn:Hx.
      + destruct Q as [|[q s] Q]; [discriminate|]. cbn [map fst] in H. inversion H; subst. apply er_both. now apply IH.
      + apply er_nt; [exact Hx|]. now apply IH.
  Qed.

  Lemma er_nonterm : forall L seen, filter (termb A) L = [] -> er seen [] L.
  Proof. intros L seen H. apply er_exact. now rewrite H. Qed.

  (* the threads whose state lies in D are repeats *)
  Lemma er_filter D : forall (Q : list thread) L seen,
    map fst (dfil D Q) = filter (termb A) L -> (forall x, In x D -> In x seen) -> er seen Q L.
  Proof.
    induction Q as [|[q s] Q IH]; intros L seen H HD.
    - cbn in H. apply er_nonterm. now rewrite <- H.
    - unfold dfil in H. cbn [filter fst] in H. destruct (memb q D) eqn:HqD; cbn [negb] in H.
      + apply er_dup; [apply HD; now apply memb_In|]. apply IH; assumption.
      + cbn [map fst] in H. revert seen HD. induction L as [|x L IHL]; intros seen HD; [discriminate|].
        cbn [filter] in H. destruct (termb A x) eqn:Hx.
        * inversion H; subst. apply er_both. apply IH; [assumption|]. intros y Hy. right. auto.
        * apply er_nt; [exact Hx|]. apply IHL; [exact H|]. intros y Hy. right. auto.
  Qed.

  (* ---------------- the byte step *)
  Lemma termb_targets q b : termb A q = false -> byte_targets A q b = [].
  Proof.
    unfold termb, byte_targets, st_at. destruct (nth_error (states A) q) as [st|]; [|reflexivity].
    destruct st; cbn; intros; try reflexivity; discriminate.
  Qed.

  Lemma targets_fst b q s : map fst (targets A b (q, s)) = byte_targets A q b.
  Proof.
    unfold targets, byte_targets, st_at. cbn [fst snd]. destruct (nth_error (states A) q) as [st|]; [|reflexivity].
    rewrite map_map. cbn [fst]. rewrite map_id. destruct st; reflexivity.
  Qed.

  Lemma visited_noop f p : forall (ts : list thread) vs, 0 < f -> (forall t, In t ts -> In (fst t) vs) ->
    closure_list A h f p ts vs = Done ([], vs).
  Proof.
    induction ts as [|[q s] ts IH]; intros vs Hf Hin; [reflexivity|].
    cbn [closure_list]. destruct f as [|f]; [clia|]. rewrite closure_unfold.
    assert (Hv : Pike.vmem q vs = true) by (apply vmem_In; apply (Hin (q, s)); now left).
    rewrite Hv, IH; [reflexivity|exact Hf|]. intros t Ht. apply Hin. now right.
  Qed.

  Lemma step_er lh b f p : 0 < f -> forall seen Q L, er seen Q L -> forall vs NQ vs',
    (forall q t, In q seen -> In t (byte_targets A q b) -> In t vs) ->
    closure_list A h f p (flat_map (targets A b) Q) vs = Done (NQ, vs') ->
    move_loop A lh false b L (rev vs) = rev vs' /\ outp vs NQ vs'.
  Proof.
    intros Hf. induction 1 as [seen|seen x Q L Hx _ IH|seen q s Q L Hq _ IH|seen q s Q L _ IH]; intros vs NQ vs' Hs H.
    - cbn in H. inversion H; subst. split; [reflexivity|]. exists []. split; [reflexivity|]. split; [reflexivity|intros x []].
    - cbn [move_loop andb]. rewrite (termb_targets x b Hx). cbn [fold_left]. apply IH; [|exact H].
      intros q t [<-|Hq] Ht; [rewrite (termb_targets _ b Hx) in Ht; destruct Ht|eauto].
    - cbn [flat_map] in H. rewrite closure_list_app in H. rewrite visited_noop in H; [|exact Hf|].
      + destruct (closure_list A h f p (flat_map (targets A b) Q) vs) as [|[T2 v2]] eqn:E2; [discriminate|].
        inversion H; subst. cbn [app]. apply IH; assumption.
      + intros t Ht. apply (Hs q (fst t) Hq). rewrite <- (targets_fst b q s). now apply in_map.
    - cbn [flat_map] in H. rewrite closure_list_app in H.
      destruct (closure_list A h f p (targets A b (q, s)) vs) as [|[T1 v1]] eqn:E1; [discriminate|].
      destruct (closure_list A h f p (flat_map (targets A b) Q) v1) as [|[T2 v2]] eqn:E2; [discriminate|].
      inversion H; subst NQ vs'. clear H.
      destruct (fold_bridge lh _ _ _ _ _ _ E1) as [B1 [n1 [Hv1 [Hm1 Hf1]]]].
      { intros t Ht. apply (byte_targets_lt A Hwf q b). rewrite <- (targets_fst b q s). now apply in_map. }
      pose proof (closure_list_spec A h _ _ _ _ _ _ E1) as Po.
      destruct (IH v1 T2 v2) as [B2 [n2 [Hv2 [Hm2 Hf2]]]]; [|exact E2|].
      { intros q' t [<-|Hq'] Ht.
        - rewrite <- (targets_fst b q s) in Ht. apply in_map_iff in Ht. destruct Ht as [r [<- Hr]].
          apply (p_roots _ _ _ _ _ _ _ Po r Hr).
        - apply (p_incl _ _ _ _ _ _ _ Po). eauto. }
      split.
      + cbn [move_loop andb]. rewrite <- (targets_fst b q s), B1. exact B2.
      + exists (n1 ++ n2). subst v2 v1. rewrite rev_app_distr, app_assoc. split; [reflexivity|].
        split; [rewrite map_app, filter_app; f_equal; assumption|].
        intros x Hx. apply in_app_or in Hx. destruct Hx as [Hx|Hx]; [now apply Hf1|].
        intros Hi. apply (Hf2 x Hx). apply in_or_app. now right.
  Qed.

  (* ---------------- the cut after the first Match *)
  Fixpoint upto (L : list nat) : list nat :=
    match L with [] => [] | x :: t => if is_match_id A x then [] else x :: upto t end.

  Lemma is_match_thread_id q s : is_match_thread A (q, s) = is_match_id A q.
  Proof. reflexivity. Qed.

  Lemma termb_nomatch x : termb A x = false -> is_match_id A x = false.
  Proof.
    unfold termb, is_match_id, st_at. destruct (nth_error (states A) x) as [st|]; [|reflexivity].
    destruct st; cbn; intros; try reflexivity; discriminate.
  Qed.

  Definition osome {T} (m : option T) : bool := match m with Some _ => true | None => false end.

  Lemma cut_er seen Q L : er seen Q L -> (forall x, In x seen -> is_match_id A x = false) ->
    forall Q0 m, cut A Q = (Q0, m) -> er seen Q0 (upto L) /\ contains_match A L = osome m.
  Proof.
    induction 1 as [seen|seen x Q L Hx _ IH|seen q s Q L Hq _ IH|seen q s Q L _ IH]; intros Hs Q0 m HC.
    - cbn in HC. inversion HC; subst. split; [constructor|reflexivity].
    - pose proof (termb_nomatch x Hx) as Hm. cbn [upto contains_match existsb]. rewrite Hm. cbn [orb].
      destruct (IH ltac:(intros y [<-|Hy]; auto) Q0 m HC) as [H1 H2]. split; [now apply er_nt|exact H2].
    - cbn [cut] in HC. rewrite is_match_thread_id, (Hs q Hq) in HC.
      destruct (cut A Q) as [a m'] eqn:E. inversion HC; subst.
      destruct (IH Hs a m eq_refl) as [H1 H2]. split; [now apply er_dup|exact H2].
    - cbn [cut] in HC. rewrite is_match_thread_id in HC. cbn [upto contains_match existsb].
      destruct (is_match_id A q) eqn:Hm.
      + inversion HC; subst. split; [constructor|reflexivity].
      + destruct (cut A Q) as [a m'] eqn:E. inversion HC; subst. cbn [orb].
        destruct (IH ltac:(intros y [<-|Hy]; auto) a m eq_refl) as [H1 H2]. split; [now apply er_both|exact H2].
  Qed.

  Lemma move_upto_true lh b : forall L res, move_loop A lh true b L res = move_loop A lh false b (upto L) res.
  Proof.
    induction L as [|x L IH]; intros res; [reflexivity|]. cbn [move_loop upto andb].
    destruct (is_match_id A x); [reflexivity|]. cbn [move_loop andb]. apply IH.
  Qed.

  Lemma upto_nomatch : forall L, contains_match A L = false -> upto L = L.
  Proof.
    induction L as [|x L IH]; intros H; [reflexivity|]. cbn [contains_match existsb] in H.
    apply orb_false_elim in H as [H1 H2]. cbn [upto]. rewrite H1. f_equal. now apply IH.
  Qed.

  Lemma upto_app_true : forall L L2, contains_match A L = true -> upto (L ++ L2) = upto L.
  Proof.
    induction L as [|x L IH]; intros L2 H; [discriminate|]. cbn [contains_match existsb] in H. cbn [app upto].
    destruct (is_match_id A x); [reflexivity|]. cbn [orb] in H. f_equal. now apply IH.
  Qed.

  Lemma move_brk lh b L res :
    move_loop A lh (contains_match A L) b L res = move_loop A lh false b (upto L) res.
  Proof.
    destruct (contains_match A L) eqn:E; [apply move_upto_true|now rewrite upto_nomatch].
  Qed.

  Lemma move_loop_app lh b : forall L1 L2 res,
    move_loop A lh false b (L1 ++ L2) res = move_loop A lh false b L2 (move_loop A lh false b L1 res).
  Proof. induction L1 as [|x L1 IH]; intros L2 res; [reflexivity|]. cbn [app move_loop andb]. apply IH. Qed.

  Lemma contains_match_app L1 L2 : contains_match A (L1 ++ L2) = contains_match A L1 || contains_match A L2.
  Proof. unfold contains_match. apply existsb_app. Qed.

  Lemma nonterm_nomatch L : filter (termb A) L = [] -> contains_match A L = false.
  Proof.
    induction L as [|x L IH]; intros H; [reflexivity|]. cbn [filter] in H. destruct (termb A x) eqn:Hx; [discriminate|].
    cbn [contains_match existsb]. rewrite (termb_nomatch x Hx). apply IH, H.
  Qed.

  Lemma nonterm_move lh b : forall L res, filter (termb A) L = [] -> move_loop A lh false b L res = res.
  Proof.
    induction L as [|x L IH]; intros res H; [reflexivity|]. cbn [filter] in H. destruct (termb A x) eqn:Hx; [discriminate|].
    cbn [move_loop andb]. rewrite (termb_targets x b Hx). cbn [fold_left]. now apply IH.
  Qed.

  (* under no_look the closure of a closed list adds nothing *)
  Lemma closure_of_closed lh L : closedE A L -> (forall x, In x L -> x < n) ->
    contains_match A (Dfa.closure A lh L) = contains_match A L.
  Proof.
    intros Hc Hlt. unfold Dfa.closure.
    destruct (fold_closure_spec A Hwf Hnl lh L [] (closedE_nil A) Hlt) as [ex [He [_ [Hx Hs]]]].
    rewrite He. cbn [app].
    destruct (contains_match A L) eqn:E.
    - apply contains_match_iff in E. destruct E as [m [Hm1 Hm2]]. apply contains_match_iff. exists m. split; [|exact Hm2].
      apply (Hs m m Hm1). constructor.
    - destruct (contains_match A ex) eqn:E2; [|reflexivity]. apply contains_match_iff in E2. destruct E2 as [m [Hm1 Hm2]].
      destruct (Hx m Hm1) as [t [Ht Hr]]. pose proof (closedE_estar A L t m Hc Ht Hr) as Hin.
      assert (contains_match A L = true) by (apply contains_match_iff; eauto). congruence.
  Qed.
End Bridge.

(* ------------------------------------------------------------------ the simulation *)
Section Main.
  Variable A : nfa.
  Hypothesis Hwf : wf_nfa A = true.
  Hypothesis Hnl : no_look A = true.
  Variable cfg : dconfig.
  Hypothesis Hbrk : cfg_break cfg = true.
  Variable h : hay.
  Hypothesis Hbytes : Forall (fun b => (b < 256)%N) h.
  Variable r : nat.
  Notation U := (start_unanch A).
  Notation sa := (start_anch A).
  Notation n := (nstates A).
  Hypothesis HU : nth_error (states A) U = Some (SSplit sa r).
  Hypothesis Hr : nth_error (states A) r = Some (SByteRange 0 255 U).
  Hypothesis HsaU : sa <> U.
  Hypothesis Hsar : sa <> r.
  Hypothesis Hsep : forall q st y, nth_error (states A) q = Some st -> q <> U -> q <> r ->
                                   In y (all_succ st) -> y <> U /\ y <> r.

  Definition Pp (x : nat) : Prop := x <> U /\ x <> r.

  Lemma Pp_esucc x y : Pp x -> In y (esucc A x) -> Pp y.
  Proof.
    intros [H1 H2] Hy. unfold esucc, eps_push, st_at in Hy.
    destruct (nth_error (states A) x) as [st|] eqn:E; [|destruct Hy].
    apply (Hsep x st y E H1 H2). destruct st; cbn in *; try (now destruct Hy); try exact Hy. destruct lk; destruct Hy.
  Qed.

  Lemma Pp_estar x y : Pp x -> estar A x y -> Pp y.
  Proof. intros Hx Hs. induction Hs as [q|q q1 q2 H1 _ IH]; [exact Hx|]. apply IH. eapply Pp_esucc; eauto. Qed.

  Lemma Pp_targets x b y : Pp x -> In y (byte_targets A x b) -> Pp y.
  Proof.
    intros [H1 H2] Hy. unfold byte_targets, st_at in Hy.
    destruct (nth_error (states A) x) as [st|] eqn:E; [|destruct Hy].
    apply (Hsep x st y E H1 H2). destruct st; cbn in *; try (now destruct Hy).
    - destruct (in_range lo hi b); [exact Hy|destruct Hy].
    - apply in_map_iff in Hy. destruct Hy as [t [<- Ht]]. apply filter_In in Ht. apply in_map. tauto.
  Qed.

  Lemma Pp_sa : Pp sa.
  Proof. split; assumption. Qed.

  Lemma U_lt : U < n.
  Proof. eapply nth_error_Some_lt'; eauto. Qed.
  Lemma r_lt : r < n.
  Proof. eapply nth_error_Some_lt'; eauto. Qed.
  Lemma sa_lt : sa < n.
  Proof. unfold wf_nfa in Hwf. apply andb_prop in Hwf as [H1 _]. apply andb_prop in H1 as [_ H1]. now apply Nat.ltb_lt. Qed.

  Lemma U_esucc : esucc A U = [sa; r].
  Proof. unfold esucc, eps_push, st_at. now rewrite HU. Qed.
  Lemma r_esucc : esucc A r = [].
  Proof. unfold esucc, eps_push, st_at. now rewrite Hr. Qed.
  Lemma U_term : termb A U = false.
  Proof. unfold termb. now rewrite HU. Qed.
  Lemma r_nomatch : is_match_id A r = false.
  Proof. unfold is_match_id, st_at. now rewrite Hr. Qed.
  Lemma r_targets b : (b < 256)%N -> byte_targets A r b = [U].
  Proof. intros Hb. unfold byte_targets, st_at. rewrite Hr. unfold in_range. replace ((0 <=? b)%N && (b <=? 255)%N) with true by lia. reflexivity. Qed.
  Lemma U_ne_r : U <> r.
  Proof. intros E. rewrite <- E in Hr. rewrite HU in Hr. discriminate. Qed.

  Lemma estar_lt x y : x < n -> estar A x y -> y < n.
  Proof. intros Hx Hs. induction Hs as [q|q q1 q2 H1 _ IH]; [exact Hx|]. apply IH. eapply (esucc_lt A Hwf Hnl); eauto. Qed.

  (* the re-injection of the start through the prefix loop, against the PikeVM's new start
     thread (closure from a cleared visited set) *)
  Lemma inject_bridge lh D p T V :
    closedE A D -> (forall x, In x D -> Pp x) ->
    Pike.closure A h (cfuel A) p sa p [] = Done (T, V) ->
    exists S, closure_into A lh D U = D ++ U :: S ++ [r] /\ (forall x, In x S -> Pp x) /\
              (forall seen, (forall x, In x D -> In x seen) -> er A seen T S).
  Proof.
    intros Hc HPD HT.
    assert (HmU : memb U D = false) by (apply memb_false; intros Hi; destruct (HPD _ Hi); congruence).
    destruct (PC_all A h Hnl D Pp Hc Pp_esucc (cfuel A) p sa p [] T V (U :: rev D) HT Pp_sa) as [V1' [E' _]].
    { split.
      - intros x Hx. right. now apply -> in_rev.
      - intros x Hx [P1 P2]. split; [intros []|]. intros [<-|Hi]; [congruence|]. apply in_rev in Hi. contradiction. }
    destruct (PA_all A h Hwf Hnl (cfuel A) _ _ _ _ _ _ E' sa_lt) as [B [new [Hv [Hm Hfr]]]].
    pose proof (closure_spec A h _ _ _ _ _ _ _ E') as Po.
    assert (Hnew : forall x, In x new -> Pp x).
    { intros x Hx. assert (Hi : In x V1') by (rewrite Hv; apply in_or_app; left; now apply -> in_rev).
      destruct (p_sound _ _ _ _ _ _ _ Po x Hi) as [Hv'|[rr [[<-|[]] He]]]; [exfalso; exact (Hfr x Hx Hv')|].
      cbn [fst] in He. apply (estar_ereach A Hnl) in He. eapply Pp_estar; [exact Pp_sa|exact He]. }
    exists new. split; [|split; [exact Hnew|]].
    - unfold closure_into, closure_fuel. replace (2 * n + 2) with (S (2 * n + 1)) by lia.
      cbn [closure_loop]. rewrite HmU, (eps_push_nl A Hnl), U_esucc. cbn [app].
      assert (Erev : rev (U :: rev D) = D ++ [U]) by (cbn [rev]; now rewrite rev_involutive).
      destruct (B lh (2 * n + 1) [r]) as [F' [E HF']].
      { rewrite Erev. pose proof (unv_snoc_lt A Hwf Hnl U D U_lt HmU). pose proof (unv_le A Hwf Hnl D). cbn [length]. clia. }
      rewrite Erev in E. cbn [app] in E. rewrite E.
      assert (Erev' : rev V1' = (D ++ [U]) ++ new).
      { rewrite Hv, rev_app_distr, rev_involutive. cbn [rev]. now rewrite rev_involutive. }
      rewrite Erev'. destruct F' as [|F0]; [cbn [length] in HF'; clia|]. cbn [closure_loop].
      assert (Hmr : memb r ((D ++ [U]) ++ new) = false).
      { apply memb_false. intros Hi. apply in_app_or in Hi. destruct Hi as [Hi|Hi]; [apply in_app_or in Hi; destruct Hi as [Hi|[Hi|[]]]|].
        - destruct (HPD _ Hi); congruence.
        - exact (U_ne_r Hi).
        - destruct (Hnew _ Hi); congruence. }
      rewrite Hmr, (eps_push_nl A Hnl), r_esucc. cbn [app]. rewrite (closure_loop_nil A).
      rewrite <- !app_assoc. reflexivity.
    - intros seen Hs. apply (er_filter A D T new seen); [|exact Hs]. exact Hm.
  Qed.

  Variable at_ : nat.

  Definition idsN (ids : list nat) (queue : list thread) (p : nat) : Prop :=
    exists D S, ids = D ++ U :: S ++ [r] /\ (forall x, In x D -> Pp x) /\ (forall x, In x S -> Pp x) /\
      forall T V, Pike.closure A h (cfuel A) p sa p [] = Done (T, V) -> er A [] (queue ++ T) (D ++ U :: S).

  Record J (p : nat) (queue : list thread) (best : option (nat * nat)) (s : dstate) (last : option nat) : Prop := {
    j_sinv : sinv A h at_ p p p queue best;
    j_closed : closedE A (d_ids s);
    j_lt : forall x, In x (d_ids s) -> x < n;
    j_last : last = option_map snd best;
    j_N : best = None -> idsN (d_ids s) queue p;
    j_M : best <> None -> er A [] queue (d_ids s) }.

  Lemma upto_PpU L : (forall x, In x L -> Pp x \/ x = U) -> forall x, In x (upto A L) -> Pp x \/ x = U.
  Proof.
    induction L as [|y L IH]; intros H x Hx; [destruct Hx|]. cbn [upto] in Hx.
    destruct (is_match_id A y); [destruct Hx|]. destruct Hx as [<-|Hx]; [apply H; now left|].
    apply IH; [|exact Hx]. intros z Hz. apply H. now right.
  Qed.

  (* head of an iteration: start-thread injection and cut, on both sides *)
  Lemma head p queue best s last queue1 q0 m :
    J p queue best s last -> at_ <= p ->
    inject A h false at_ p queue best = Done queue1 -> cut A queue1 = (q0, m) ->
    sinv A h at_ (S p) (S p) p q0 (upd_best best m p) /\
    contains_match A (d_ids s) = osome m /\
    option_map snd (upd_best best m p) = (if osome m then Some p else last) /\
    (osome m = true -> upd_best best m p <> None) /\
    exists L0, er A [] q0 L0 /\
      upto A (d_ids s) = L0 ++ (if is_none (upd_best best m p) then [r] else []) /\
      (is_none (upd_best best m p) = true -> forall x, In x L0 -> Pp x \/ x = U).
  Proof.
    intros Jv Hp HI HC. unfold inject in HI. cbn [negb orb] in HI. rewrite andb_true_r in HI.
    pose proof (j_sinv _ _ _ _ _ Jv) as I0.
    destruct (closure_total A h p sa p []) as [T [V ET]].
    pose proof (su_inject A h Hwf at_ p queue best T V I0 Hp ET) as I1.
    assert (Hq1 : queue1 = if is_none best then queue ++ T else queue).
    { destruct (is_none best); [rewrite ET in HI|]; now inversion HI. }
    rewrite <- Hq1 in I1. pose proof (su_cut A h Hwf at_ p queue1 best q0 m I1 HC) as I2.
    assert (Hupd : forall tm, m = Some tm -> upd_best best m p = Some (snd tm, p)).
    { intros tm ->. cbn [upd_best]. rewrite (better_true A h Hwf at_ best tm p queue1 I1); [reflexivity|].
      destruct (cut_spec A queue1 q0 (Some tm) HC) as [_ [_ [rest ->]]]. apply in_or_app. right. now left. }
    split; [exact I2|].
    destruct best as [[bs be]|] eqn:Eb.
    - (* a match has been seen: no injection, no prefix loop in the state *)
      cbn [is_none] in Hq1. subst queue1.
      pose proof (j_M _ _ _ _ _ Jv ltac:(discriminate)) as He.
      destruct (cut_er A _ _ _ He ltac:(intros x []) q0 m HC) as [H1 H2].
      assert (Hne : upd_best (Some (bs, be)) m p <> None).
      { destruct m as [tm|]; [rewrite (Hupd tm eq_refl)|cbn]; discriminate. }
      split; [exact H2|]. split; [|split; [intros _; exact Hne|]].
      + rewrite (j_last _ _ _ _ _ Jv). destruct m as [tm|]; [rewrite (Hupd tm eq_refl)|]; reflexivity.
      + exists (upto A (d_ids s)). split; [exact H1|].
        destruct (upd_best (Some (bs, be)) m p); [|congruence]. cbn [is_none]. rewrite app_nil_r. split; [reflexivity|discriminate].
    - cbn [is_none] in Hq1. subst queue1.
      destruct (j_N _ _ _ _ _ Jv eq_refl) as [D [SS [Hids [HPD [HPS Her]]]]].
      specialize (Her T V ET).
      destruct (cut_er A _ _ _ Her ltac:(intros x []) q0 m HC) as [H1 H2].
      assert (Hcm : contains_match A (d_ids s) = osome m).
      { rewrite Hids. change (D ++ U :: SS ++ [r]) with (D ++ (U :: SS) ++ [r]). rewrite app_assoc, contains_match_app, H2.
        cbn [contains_match existsb]. rewrite r_nomatch. now rewrite !orb_false_r. }
      split; [exact Hcm|]. rewrite (j_last _ _ _ _ _ Jv).
      assert (HPL : forall x, In x (D ++ U :: SS) -> Pp x \/ x = U).
      { intros x Hx. apply in_app_or in Hx. destruct Hx as [Hx|[<-|Hx]]; [left; auto|now right|left; auto]. }
      destruct m as [tm|].
      + rewrite (Hupd tm eq_refl). cbn [osome option_map snd is_none]. split; [reflexivity|]. split; [discriminate|].
        exists (upto A (D ++ U :: SS)). split; [exact H1|]. rewrite app_nil_r. split; [|discriminate].
        rewrite Hids. change (D ++ U :: SS ++ [r]) with (D ++ (U :: SS) ++ [r]). rewrite app_assoc.
        apply upto_app_true. exact H2.
      + cbn [upd_best osome option_map is_none]. split; [reflexivity|]. split; [discriminate|].
        exists (D ++ U :: SS). cbn [osome] in H2. rewrite (upto_nomatch A _ H2) in H1. split; [exact H1|]. split.
        * rewrite upto_nomatch by (rewrite Hcm; reflexivity). rewrite Hids.
          change (D ++ U :: SS ++ [r]) with (D ++ (U :: SS) ++ [r]). now rewrite app_assoc.
        * intros _. exact HPL.
  Qed.

  Lemma cfuel_pos : 0 < cfuel A.
  Proof. unfold cfuel. lia. Qed.

  (* the DFA transition against the PikeVM step of the kept threads *)
  Lemma next_ids lh s b q0 L0 tail nq vs' p' :
    er A [] q0 L0 -> upto A (d_ids s) = L0 ++ tail -> step_all A h p' b q0 = Done (nq, vs') ->
    move_loop A lh (contains_match A (d_ids s) && cfg_break cfg) b (d_ids s) [] = move_loop A lh false b tail (rev vs') /\
    map fst nq = filter (termb A) (rev vs') /\ closedE A (rev vs') /\
    (forall x, In x (rev vs') -> exists q t, In q L0 /\ In t (byte_targets A q b) /\ estar A t x).
  Proof.
    intros He Hup HS. rewrite Hbrk, andb_true_r, (move_brk A), Hup, (move_loop_app A).
    unfold step_all in HS.
    destruct (step_er A h Hwf Hnl lh b (cfuel A) p' cfuel_pos [] q0 L0 He [] nq vs' ltac:(intros q t []) HS) as [HM [new [Hv [Hm _]]]].
    cbn [rev] in HM. rewrite HM. split; [reflexivity|].
    rewrite app_nil_r in Hv. subst vs'. rewrite rev_involutive in *. split; [exact Hm|].
    destruct (move_loop_spec A Hwf Hnl lh false b L0 [] (closedE_nil A)) as [ex [E1 [E2 [E3 _]]]].
    rewrite HM in E1. cbn [app] in E1, E2. subst ex. split; [exact E2|exact E3].
  Qed.

  Lemma targets_reach_lt L b x : (exists q t, In q L /\ In t (byte_targets A q b) /\ estar A t x) -> x < n.
  Proof. intros [q [t [_ [Ht Hs]]]]. eapply estar_lt; [|exact Hs]. eapply (byte_targets_lt A Hwf); eauto. Qed.

  Lemma targets_reach_Pp L b x : (forall y, In y L -> Pp y \/ y = U) ->
    (exists q t, In q L /\ In t (byte_targets A q b) /\ estar A t x) -> Pp x.
  Proof.
    intros HL [q [t [Hq [Ht Hs]]]]. destruct (HL q Hq) as [HP| ->].
    - eapply Pp_estar; [|exact Hs]. eapply Pp_targets; eauto.
    - rewrite (termb_targets A U b U_term) in Ht. destruct Ht.
  Qed.

  (* a state without terminal ids is a dead end: the loop returns lastMatch *)
  Lemma inert f s p' last o :
    filter (termb A) (d_ids s) = [] -> closedE A (d_ids s) -> (forall x, In x (d_ids s) -> x < n) ->
    p_loop A cfg h true (S f) s p' last = RDfa o -> o = last.
  Proof.
    intros Hnt Hc Hlt HD. cbn [p_loop] in HD. destruct (nth_error h p') as [b|].
    - rewrite (has_wb_nl A Hnl) in HD. cbn [andb] in HD. rewrite (pdet_nl A Hnl) in HD. cbv zeta in HD.
      rewrite (nonterm_nomatch A _ Hnt) in HD. cbn [andb] in HD. rewrite (nonterm_move A _ b _ _ Hnt) in HD.
      cbn in HD. now inversion HD.
    - rewrite (eoi_match_nl A Hnl), (closure_of_closed A Hwf Hnl _ _ Hc Hlt), (nonterm_nomatch A _ Hnt) in HD. now inversion HD.
  Qed.

  Lemma no_cand_false best1 nq bs be p :
    sinv A h at_ p p p nq best1 -> best1 = Some (bs, be) -> nq <> [] -> no_candidate best1 nq = false.
  Proof.
    intros I E Hne. subst best1. cbn [no_candidate]. apply negb_false_iff.
    destruct nq as [|t nq]; [congruence|]. cbn [existsb].
    destruct (i_best _ _ _ _ _ _ _ _ I bs be eq_refl) as [_ [_ [_ [_ B5]]]].
    pose proof (B5 t (or_introl eq_refl)) as Hle. apply Nat.leb_le in Hle. now rewrite Hle.
  Qed.

  Lemma loop : forall k p queue best s last fuel R o,
    J p queue best s last -> p + k = length h -> at_ <= p -> k < fuel ->
    su_loop A h false at_ k p queue best = Done R ->
    p_loop A cfg h true fuel s p last = RDfa o -> o = option_map snd R.
  Proof.
    induction k as [|k IH]; intros p queue best s last fuel R o Jv Hk Hp Hf HS HD;
      (destruct fuel as [|f]; [clia|]); cbn [su_loop] in HS;
      destruct (inject A h false at_ p queue best) as [|queue1] eqn:EI; try discriminate;
      destruct (cut A queue1) as [q0 m] eqn:EC;
      destruct (head _ _ _ _ _ _ _ _ Jv Hp EI EC) as [I2 [Hcm [Hlast [Hsome [L0 [He0 [Hup HPL]]]]]]].
    - inversion HS; subst R. cbn [p_loop] in HD.
      assert (Hn : nth_error h p = None) by (apply nth_error_None; clia).
      rewrite Hn in HD.
      rewrite (eoi_match_nl A Hnl), (closure_of_closed A Hwf Hnl _ _ (j_closed _ _ _ _ _ Jv) (j_lt _ _ _ _ _ Jv)), Hcm in HD.
      inversion HD. rewrite Hlast. destruct (osome m); [f_equal; clia|reflexivity].
    - destruct (nth_error h p) as [b|] eqn:Hb.
      2:{ apply nth_error_None in Hb. clia. }
      assert (Hb256 : (b < 256)%N) by (rewrite Forall_forall in Hbytes; apply Hbytes; eapply nth_error_In; eauto).
      destruct (step_all A h (S p) b q0) as [|[nq vs']] eqn:ES; [discriminate|].
      pose proof (su_step A h Hwf at_ p b q0 _ nq vs' I2 ES Hb) as I3.
      cbn [p_loop] in HD. rewrite Hb, (has_wb_nl A Hnl) in HD. cbn [andb] in HD.
      rewrite (pdet_nl A Hnl) in HD. cbv zeta in HD.
      set (lh := if (b =? 10)%N then ls_start_line else ls_none) in HD.
      destruct (next_ids lh s b q0 L0 _ nq vs' (S p) He0 Hup ES) as [Hnext [Hnq [Hcl Hsrc]]].
      rewrite Hnext in HD. rewrite Hcm in HD.
      set (D' := rev vs') in *.
      assert (HltD : forall x, In x D' -> x < n) by (intros x Hx; apply (targets_reach_lt L0 b), Hsrc, Hx).
      destruct (upd_best best m p) as [[bs be]|] eqn:Eb1; cbn [is_none] in *.
      + (* a match is known: no prefix loop any more *)
        cbn [move_loop] in HD.
        destruct nq as [|t0 nq].
        * cbn [no_candidate existsb negb] in HS. inversion HS; subst R.
          cbn [map] in Hnq. symmetry in Hnq.
          destruct ((length D' =? 0) && negb (osome m)) eqn:Ed.
          -- inversion HD. cbn [option_map snd] in Hlast |- *. rewrite Hlast.
             apply andb_prop in Ed as [_ Ed]. apply negb_true_iff in Ed. now rewrite Ed.
          -- destruct (cfg_det_limit cfg <? length D'); [discriminate|].
             destruct f as [|f]; [clia|].
             apply inert in HD; [|exact Hnq|exact Hcl|exact HltD]. rewrite HD, Hlast. reflexivity.
        * rewrite (no_cand_false _ _ bs be (S p) I3 eq_refl ltac:(discriminate)) in HS.
          destruct ((length D' =? 0) && negb (osome m)) eqn:Ed.
          { apply andb_prop in Ed as [Ed _]. apply Nat.eqb_eq in Ed. destruct D'; [discriminate Hnq|discriminate Ed]. }
          destruct (cfg_det_limit cfg <? length D'); [discriminate|].
          refine (IH (S p) (t0 :: nq) (Some (bs, be)) _ _ f R o _ _ _ _ HS HD); [|clia|clia|clia].
          constructor; cbn [d_ids].
          -- exact I3.
          -- exact Hcl.
          -- exact HltD.
          -- symmetry. exact Hlast.
          -- discriminate.
          -- intros _. apply er_exact. exact Hnq.
      + (* no match yet: the prefix loop re-injects the start at lowest priority *)
        assert (Em : osome m = false) by (destruct (osome m); [exfalso; now apply Hsome|reflexivity]).
        rewrite Em in HD, Hlast. cbn [option_map] in Hlast.
        cbn [move_loop andb] in HD. rewrite (r_targets b Hb256) in HD. cbn [fold_left] in HD.
        destruct (closure_total A h (S p) sa (S p) []) as [T' [V' ET']].
        assert (HPD' : forall x, In x D' -> Pp x) by (intros x Hx; apply (targets_reach_Pp L0 b x (HPL eq_refl)), Hsrc, Hx).
        destruct (inject_bridge lh D' (S p) T' V' Hcl HPD' ET') as [S' [Hci [HPS' Her']]].
        destruct (closure_into_spec A Hwf Hnl lh D' U Hcl U_lt) as [ex [E1 [E2 [_ E3]]]].
        assert (Hlt' : forall x, In x (D' ++ U :: S' ++ [r]) -> x < n).
        { rewrite <- Hci, E1. intros x Hx. apply in_app_or in Hx. destruct Hx as [Hx|Hx]; [auto|].
          apply (estar_lt U x U_lt). auto. }
        assert (Hcl' : closedE A (D' ++ U :: S' ++ [r])) by (rewrite <- Hci, E1; exact E2).
        rewrite Hci in HD. cbn [no_candidate] in HS.
        destruct ((length (D' ++ U :: S' ++ [r]) =? 0) && negb false) eqn:Ed.
        { apply andb_prop in Ed as [Ed _]. apply Nat.eqb_eq in Ed. rewrite app_length in Ed. cbn [length] in Ed. clia. }
        destruct (cfg_det_limit cfg <? length (D' ++ U :: S' ++ [r])); [discriminate|].
        refine (IH (S p) nq None _ _ f R o _ _ _ _ HS HD); [|clia|clia|clia].
        constructor; cbn [d_ids].
        * exact I3.
        * exact Hcl'.
        * exact Hlt'.
        * symmetry. exact Hlast.
        * intros _. exists D', S'. split; [reflexivity|]. split; [exact HPD'|]. split; [exact HPS'|].
          intros T V ET. rewrite ET' in ET. inversion ET; subst T V.
          apply (er_app A [] nq D' (er_exact A D' nq [] Hnq) D' T' (U :: S')).
          -- apply er_nt; [exact U_term|]. apply Her'. intros x Hx. now right.
          -- intros x Hx. now right.
        * congruence.
  Qed.

  Lemma sinv_init : sinv A h at_ at_ at_ at_ [] None.
  Proof.
    constructor.
    - exact I.
    - intros x s [].
    - intros bs be E. discriminate.
    - intros s x H1 H2. clia.
    - intros s e H1 H2 [q' [Hr' _]]. apply (reach_mono A h Hwf) in Hr'. cbn [snd] in Hr'. clia.
  Qed.

  Lemma J_init k : J at_ [] None (pstart A k false) None.
  Proof.
    assert (Hids : d_ids (pstart A k false) = closure_into A (look_of_kind k) [] U) by reflexivity.
    destruct (closure_total A h at_ sa at_ []) as [T [V ET]].
    destruct (inject_bridge (look_of_kind k) [] at_ T V (closedE_nil A) ltac:(intros x []) ET) as [S' [Hci [HPS Her]]].
    destruct (closure_into_spec A Hwf Hnl (look_of_kind k) [] U (closedE_nil A) U_lt) as [ex [E1 [E2 [_ E3]]]].
    constructor.
    - exact sinv_init.
    - rewrite Hids, E1. exact E2.
    - rewrite Hids, E1. cbn [app]. intros x Hx. apply (estar_lt U x U_lt). auto.
    - reflexivity.
    - intros _. exists [], S'. split; [rewrite Hids; exact Hci|]. split; [intros x []|]. split; [exact HPS|].
      intros T0 V0 ET0. rewrite ET in ET0. inversion ET0; subst T0 V0. cbn [app].
      apply er_nt; [exact U_term|]. apply Her. intros x [].
    - congruence.
  Qed.

  Theorem main_ o : p_search_at A cfg h at_ = RDfa o -> o = ref_end A h at_.
  Proof.
    unfold p_search_at. intros HD.
    destruct (length h <? at_) eqn:E1.
    { inversion HD. unfold ref_end, find_at. now rewrite E1. }
    destruct (at_ =? length h) eqn:E2.
    { apply Nat.eqb_eq in E2. inversion HD. clear HD. revert E1. rewrite E2. intros E1.
      rewrite (matches_empty_at_end A Hwf Hnl cfg h). unfold ref_bool, ref_end.
      destruct (find_at A h (length h)) as [|[[[s e] sl]|]] eqn:EF; try reflexivity.
      destruct (find_at_some A h Hwf _ _ _ _ EF) as [H1 [H2 [H3 _]]]. f_equal. clia. }
    assert (Haa : always_anchored A = false) by (unfold always_anchored; apply Nat.eqb_neq; exact HsaU).
    rewrite Haa in HD. cbn [andb] in HD.
    apply Nat.ltb_ge in E1. apply Nat.eqb_neq in E2.
    pose proof (pike_search_is_ref A h Hwf at_) as HP.
    unfold pike_search_at, pike_search_at_g in HP.
    replace (length h <? at_) with false in HP by (symmetry; apply Nat.ltb_ge; exact E1).
    replace (at_ =? length h) with false in HP by (symmetry; apply Nat.eqb_neq; exact E2).
    destruct (find_at A h at_) as [|x] eqn:EF; [exfalso; exact (find_at_total A h Hwf at_ EF)|].
    unfold ref_end. rewrite EF.
    assert (HR : exists R, su_loop A h false at_ (length h - at_) at_ [] None = Done R /\
                           option_map snd R = match x with Some (_, e, _) => Some e | None => None end).
    { destruct x as [[[s e] sl]|]; cbn [span_of] in HP; eexists; (split; [exact HP|reflexivity]). }
    destruct HR as [R [HS HR]]. rewrite <- HR.
    apply (loop (length h - at_) at_ [] None (pstart A (kind_at h at_) false) None (p_fuel h) R o);
      [apply J_init|clia|clia|unfold p_fuel; clia|exact HS|exact HD].
  Qed.
End Main.

(* ------------------------------------------------------------------ THEOREMS *)
Lemma prefix_sep_shape A r :
  nth_error (states A) (start_unanch A) = Some (SSplit (start_anch A) r) -> prefix_sep A = true ->
  start_anch A <> r /\
  forall q st y, nth_error (states A) q = Some st -> q <> start_unanch A -> q <> r ->
                 In y (all_succ st) -> y <> start_unanch A /\ y <> r.
Proof.
  intros HU Hs. unfold prefix_sep, st_at in Hs. rewrite HU in Hs. apply andb_prop in Hs as [H1 H2]. split.
  - apply Nat.eqb_neq. now apply negb_true_iff.
  - intros q st y Hq HqU Hqr Hy. rewrite forallb_forall in H2.
    pose proof (combine_seq_nth (states A) 0 q st Hq) as Hin. cbn [Nat.add] in Hin.
    specialize (H2 _ Hin). cbn [fst snd] in H2.
    apply Nat.eqb_neq in HqU, Hqr. rewrite HqU, Hqr in H2. cbn [orb] in H2.
    rewrite forallb_forall in H2. specialize (H2 y Hy). apply andb_prop in H2 as [G1 G2].
    apply negb_true_iff in G1, G2. apply Nat.eqb_neq in G1, G2. split; assumption.
Qed.

(* SearchAt / FindAt of the pure lazy DFA (break-at-match) returns exactly the end of the
   leftmost-first reference match: leftmost start AND the priority among its ends. *)
Theorem p_search_at_is_ref (A : nfa) (cfg : dconfig) (h : hay) (at_ : nat) (o : option nat) :
  wf_nfa A = true -> no_look A = true -> prefix_ok A = true -> prefix_sep A = true -> bytes_ok h ->
  cfg_break cfg = true ->
  p_search_at A cfg h at_ = RDfa o -> o = ref_end A h at_.
Proof.
  intros Hwf Hnl Hpre Hsep Hb Hbrk.
  destruct (prefix_shape A Hpre) as [r [HU [Hr Haa]]].
  destruct (prefix_sep_shape A r HU Hsep) as [Hsar Hs].
  assert (HsaU : start_anch A <> start_unanch A) by (unfold always_anchored in Haa; now apply Nat.eqb_neq).
  exact (main_ A Hwf Hnl cfg Hbrk h Hb r HU Hr HsaU Hsar Hs at_ o).
Qed.

(* the statement in the form "= RDfa (end of find_at)" whenever the DFA does not give up *)
Corollary p_search_at_is_ref' (A : nfa) (cfg : dconfig) (h : hay) (at_ : nat) :
  wf_nfa A = true -> no_look A = true -> prefix_ok A = true -> prefix_sep A = true -> bytes_ok h ->
  cfg_break cfg = true -> p_search_at A cfg h at_ <> RFallback ->
  p_search_at A cfg h at_ =
    RDfa (match find_at A h at_ with Done (Some (_, e, _)) => Some e | _ => None end).
Proof.
  intros Hwf Hnl Hpre Hsep Hb Hbrk Hnf. destruct (p_search_at A cfg h at_) as [o|] eqn:E; [|congruence].
  f_equal. exact (p_search_at_is_ref A cfg h at_ o Hwf Hnl Hpre Hsep Hb Hbrk E).
Qed.

(* what the caller gets (DFA answer, or the NFA fallback when the DFA gives up) *)
Corollary fin_end_search_at_is_ref (A : nfa) (cfg : dconfig) (h : hay) (at_ : nat) :
  wf_nfa A = true -> no_look A = true -> prefix_ok A = true -> prefix_sep A = true -> bytes_ok h ->
  cfg_break cfg = true ->
  fin_end A h at_ (p_search_at A cfg h at_) = ref_end A h at_.
Proof.
  intros Hwf Hnl Hpre Hsep Hb Hbrk. destruct (p_search_at A cfg h at_) as [o|] eqn:E; [|reflexivity].
  cbn [fin_end]. exact (p_search_at_is_ref A cfg h at_ o Hwf Hnl Hpre Hsep Hb Hbrk E).
Qed.

(* prefix_sep is needed: a pattern part that jumps back into the unanchored prefix (never
   emitted by nfa/compile.go) makes the prefix loop a HIGH-priority thread for the reference
   and the PikeVM, while the DFA builder has already listed it last *)
Definition sep_nfa : nfa :=
  mkNfa [SSplit 1 2; SEpsilon 5; SByteRange 97 97 3; SMatch; SByteRange 0 255 5; SSplit 0 4] 0 5 1.

Lemma p_search_at_without_sep_refuted :
  wf_nfa sep_nfa = true /\ no_look sep_nfa = true /\ prefix_ok sep_nfa = true /\ prefix_sep sep_nfa = false /\
  p_search_at sep_nfa (nb_cfg true) [97; 97]%N 0 = RDfa (Some 1) /\
  ref_end sep_nfa [97; 97]%N 0 = Some 2.
Proof. vm_compute. repeat split. Qed.

(* sanity: prefix_sep holds on the witness NFA of DfaRef (compiler shape) *)
Lemma prefix_sep_nb : prefix_sep nb_nfa = true.
Proof. vm_compute. reflexivity. Qed.

Print Assumptions p_search_at_is_ref.
Print Assumptions p_search_at_without_sep_refuted.

(* ------------------------------------------------------------------ the cache machine
   (DfaCache.v / DfaTop.v): the answer delivered by SearchAt on any cache satisfying the
   invariants, and after any history of forward calls since NewCache(), is the reference end *)
Section CachedPrio.
  Variable A : nfa.
  Variable cfg : dconfig.
  Hypothesis Hwf : wf_nfa A = true.
  Hypothesis Hnl : no_look A = true.
  Hypothesis Hpre : prefix_ok A = true.
  Hypothesis Hsep : prefix_sep A = true.
  Hypothesis Hcls : forall ids b b', class_of cfg b = class_of cfg b' -> cdet A cfg ids b = cdet A cfg ids b'.
  Hypothesis Hruns : runs_ok 0%N (cfg_classes cfg) (stride cfg) = true.
  Hypothesis Hkey : cfg_sorted_key cfg = false.
  Hypothesis Hloose : cfg_loose_accel cfg = false.
  Hypothesis Hentry : cfg_old_entry cfg = false.
  Hypothesis Hnoeoi : cfg_accel_no_eoi cfg = false.
  Hypothesis Hbrk : cfg_break cfg = true.

  Theorem dfa_search_at_cached_is_ref h c at_ :
    bytes_ok h -> cinv A cfg c -> accel_sound A cfg c ->
    snd (dfa_search_at A cfg c h at_) = ref_end A h at_.
  Proof.
    intros Hb Hc Ha. unfold dfa_search_at.
    destruct (c_search_at A cfg h c at_) as [c' o] eqn:E.
    destruct (c_search_at_eq_pure A cfg (has_wb_nl A Hnl) Hcls Hkey Hentry Hloose Hnoeoi (has_endline_nl A Hnl) Hruns
                (start_match_empty A Hwf Hnl Hpre) h c at_ c' o (bytes_ok_255 h Hb) Hc Ha E) as [_ [_ [->|Ho]]].
    - reflexivity.
    - subst o. cbn [snd]. now apply fin_end_search_at_is_ref.
  Qed.

  Theorem dfa_search_at_any_history_is_ref ks h at_ :
    fwd_hist ks -> bytes_ok h ->
    snd (dfa_search_at A cfg (run_calls A cfg new_cache ks) h at_) = ref_end A h at_.
  Proof.
    intros Hk Hb.
    destruct (hist_inv A cfg Hwf Hnl Hpre Hcls Hruns Hkey Hloose Hentry Hnoeoi ks Hk) as [Hc Ha].
    now apply dfa_search_at_cached_is_ref.
  Qed.
End CachedPrio.

Print Assumptions dfa_search_at_any_history_is_ref.
