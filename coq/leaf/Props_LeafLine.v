(* Props_LeafLine.v — property theorems about leaf functions translated from the current Go source
   (LeafGen.v, regenerated on every run); statements only, proofs in LeafLine.v. *)
From Coq Require Import List ZArith NArith Bool.
From CV Require Import GoLib Nfa FindAll.
From Leaf Require Import LeafGen LeafLine.
Import ListNotations.
Local Open Scope Z_scope.

Theorem Leaf_meta_lineStartBefore_spec (s : list Z) (at_ pos : Z) :
  0 <= at_ -> pos <= len s ->
  meta_lineStartBefore_safe s at_ pos = true /\
  (pos <= at_ -> meta_lineStartBefore s at_ pos = at_) /\
  (at_ < pos -> line_start_ok s at_ pos (meta_lineStartBefore s at_ pos)).
Proof. exact (meta_lineStartBefore_spec s at_ pos). Qed.
Print Assumptions Leaf_meta_lineStartBefore_spec.

Theorem Leaf_meta_findLineStart_spec (s : list Z) (pos : Z) :
  pos <= len s ->
  meta_findLineStart_safe s pos = true /\
  (pos <= 0 -> meta_findLineStart s pos = 0) /\
  (0 < pos -> line_start_ok s 0 pos (meta_findLineStart s pos)).
Proof. exact (meta_findLineStart_spec s pos). Qed.
Print Assumptions Leaf_meta_findLineStart_spec.
