(* Props_LeafWord.v — property theorems about leaf functions translated from the current Go source
   (LeafGen.v, regenerated on every run); statements only, proofs in LeafWord.v. *)
From Coq Require Import List ZArith NArith Bool.
From CV Require Import GoLib Nfa FindAll.
From Leaf Require Import LeafGen LeafWord.
Import ListNotations.
Local Open Scope Z_scope.

Theorem Leaf_nfa_isWordByte_is_model b : 0 <= b < 256 -> nfa_isWordByte b = is_word_byte (Z.to_N b).
Proof. exact (nfa_isWordByte_is_model b). Qed.
Print Assumptions Leaf_nfa_isWordByte_is_model.

Theorem Leaf_lazy_isWordByte_is_model b : 0 <= b < 256 -> lazy_isWordByte b = is_word_byte (Z.to_N b).
Proof. exact (lazy_isWordByte_is_model b). Qed.
Print Assumptions Leaf_lazy_isWordByte_is_model.

Theorem Leaf_simd_isWordChar_is_model b : 0 <= b < 256 -> simd_isWordChar b = is_word_byte (Z.to_N b).
Proof. exact (simd_isWordChar_is_model b). Qed.
Print Assumptions Leaf_simd_isWordChar_is_model.

Theorem Leaf_isWordByte_never_panics b : nfa_isWordByte_safe b = true /\ lazy_isWordByte_safe b = true /\ simd_isWordChar_safe b = true.
Proof. exact (isWordByte_never_panics b). Qed.
Print Assumptions Leaf_isWordByte_never_panics.

Theorem Leaf_look_codes_distinct :
  NoDup [c_LookStartText; c_LookEndText; c_LookStartLine; c_LookEndLine; c_LookWordBoundary; c_LookNoWordBoundary].
Proof. exact look_codes_distinct. Qed.
Print Assumptions Leaf_look_codes_distinct.

Theorem Leaf_nfa_checkLookAssertion_is_model lk (h : list N) (p : nat) :
  bytes_ok h -> (p <= length h)%nat ->
  nfa_checkLookAssertion (look_code lk) (hz h) (Z.of_nat p) = look_ok lk h p /\
  nfa_checkLookAssertion_safe (look_code lk) (hz h) (Z.of_nat p) = true.
Proof. exact (nfa_checkLookAssertion_is_model lk h p). Qed.
Print Assumptions Leaf_nfa_checkLookAssertion_is_model.
