(* LeafSearch.v — the failing-input search run when a leaf theorem no longer checks against
   the regenerated LeafGen.v: every translated leaf is evaluated (vm_compute) on a finite
   family of inputs and compared with the specification side the theorem names; the lists
   printed at the end contain the inputs on which they differ.  This is a SEARCH, not a proof:
   it only supplies the replay for a violation. *)
From Coq Require Import List ZArith NArith Bool Arith.
From CV Require Import GoLib Nfa FindAll.
From Leaf Require Import LeafGen.
Import ListNotations.
Local Open Scope Z_scope.

Definition bytesZ : list Z := map Z.of_nat (seq 0 256).

(* all lists over an alphabet up to a length *)
Fixpoint words {T} (alpha : list T) (n : nat) : list (list T) :=
  match n with
  | O => [[]]
  | S k => [] :: flat_map (fun w => map (fun a => a :: w) alpha) (words alpha k)
  end.
Definition positions (n : nat) : list nat := seq 0 (S n).

Definition bad_bytes (f : Z -> bool) : list Z :=
  filter (fun b => negb (Bool.eqb (f b) (is_word_byte (Z.to_N b)))) bytesZ.

Definition F_nfa_isWordByte := Eval vm_compute in bad_bytes nfa_isWordByte.
Definition F_lazy_isWordByte := Eval vm_compute in bad_bytes lazy_isWordByte.
Definition F_simd_isWordChar := Eval vm_compute in bad_bytes simd_isWordChar.

Definition look_list : list (look * Z) :=
  [(LStartText, c_LookStartText); (LEndText, c_LookEndText); (LStartLine, c_LookStartLine);
   (LEndLine, c_LookEndLine); (LWordB, c_LookWordBoundary); (LNoWordB, c_LookNoWordBoundary)].
Definition look_hays : list (list N) := words [97; 95; 10; 32; 195; 48]%N 3.
Definition F_nfa_checkLookAssertion : list (Z * list N * nat) := Eval vm_compute in
  flat_map (fun lc : look * Z => let (lk, code) := lc in
    flat_map (fun h => flat_map (fun p =>
      if Bool.eqb (nfa_checkLookAssertion code (hz h) (Z.of_nat p)) (look_ok lk h p)
         && nfa_checkLookAssertion_safe code (hz h) (Z.of_nat p) then [] else [(code, h, p)])
      (positions (length h))) look_hays) look_list.

Definition runes : list Z := map Z.of_nat (seq 0 300).
Definition F_nfa_isASCIILetter := Eval vm_compute in
  filter (fun r => negb (Bool.eqb (nfa_isASCIILetter r) (((65 <=? r) && (r <=? 90)) || ((97 <=? r) && (r <=? 122))))) runes.
Definition F_nfa_toUpperASCII := Eval vm_compute in
  filter (fun r => negb (nfa_toUpperASCII r =? (if (97 <=? r) && (r <=? 122) then r - 32 else r))) runes.
Definition F_nfa_toLowerASCII := Eval vm_compute in
  filter (fun r => negb (nfa_toLowerASCII r =? (if (65 <=? r) && (r <=? 90) then r + 32 else r))) runes.

Definition step_hays : list (list N) :=
  words [97; 128; 195; 169; 230; 151; 240; 159; 223; 237; 160; 244; 144; 255]%N 3 ++
  [[240; 159; 152; 128]; [240; 159; 152; 97]; [244; 143; 191; 191]; [244; 144; 128; 128]; [97; 240; 159; 152; 128; 97]]%N.
Definition bad_step (f : list Z -> Z -> Z) (fs : list Z -> Z -> bool) : list (list N * nat) :=
  flat_map (fun h => flat_map (fun p =>
    if (f (hz h) (Z.of_nat p) =? Z.of_nat (empty_match_step h p)) && fs (hz h) (Z.of_nat p) then [] else [(h, p)])
    (positions (S (length h)))) step_hays.
Definition F_meta_emptyMatchStep := Eval vm_compute in bad_step meta_emptyMatchStep meta_emptyMatchStep_safe.
Definition F_coregex_emptyMatchStep := Eval vm_compute in bad_step coregex_emptyMatchStep coregex_emptyMatchStep_safe.

Definition line_hays : list (list Z) := words [97; 10] 5.
Fixpoint no_nl_between (s : list Z) (r : Z) (n : nat) : bool :=
  match n with O => true | S k => negb (idx s (r + Z.of_nat k) =? 10) && no_nl_between s r k end.
Definition line_ok_b (s : list Z) (lo pos r : Z) : bool :=
  (lo <=? r) && (r <=? pos) && no_nl_between s r (Z.to_nat (pos - r)) && ((r =? lo) || (idx s (r - 1) =? 10)).
Definition F_meta_lineStartBefore : list (list Z * Z * Z) := Eval vm_compute in
  flat_map (fun s => flat_map (fun a => flat_map (fun p =>
    let at_ := Z.of_nat a in let pos := Z.of_nat p in
    let r := meta_lineStartBefore s at_ pos in
    if meta_lineStartBefore_safe s at_ pos && (if pos <=? at_ then r =? at_ else line_ok_b s at_ pos r) then [] else [(s, at_, pos)])
    (positions (length s))) (positions (length s))) line_hays.
Definition F_meta_findLineStart : list (list Z * Z) := Eval vm_compute in
  flat_map (fun s => flat_map (fun p =>
    let pos := Z.of_nat p in let r := meta_findLineStart s pos in
    if meta_findLineStart_safe s pos && (if pos <=? 0 then r =? 0 else line_ok_b s 0 pos r) then [] else [(s, pos)])
    (positions (length s))) line_hays.

Definition rune_hays : list (list Z) := words [97; 195; 230; 240; 128; 255] 4.
Definition F_nfa_runeWidth : list (list Z) := Eval vm_compute in
  filter (fun b => negb (nfa_runeWidth_safe b &&
     match b with [] => nfa_runeWidth b =? 0
     | b0 :: _ => (1 <=? nfa_runeWidth b) && (nfa_runeWidth b <=? 4) && (nfa_runeWidth b <=? len b) &&
                  (if b0 <? 128 then nfa_runeWidth b =? 1 else true) end)) rune_hays.

Print F_nfa_isWordByte. Print F_lazy_isWordByte. Print F_simd_isWordChar. Print F_nfa_checkLookAssertion.
Print F_nfa_isASCIILetter. Print F_nfa_toUpperASCII. Print F_nfa_toLowerASCII.
Print F_meta_emptyMatchStep. Print F_coregex_emptyMatchStep.
Print F_meta_lineStartBefore. Print F_meta_findLineStart. Print F_nfa_runeWidth.
