(* Props_LeafStep.v — property theorems about leaf functions translated from the current Go source
   (LeafGen.v, regenerated on every run); statements only, proofs in LeafStep.v. *)
From Coq Require Import List ZArith NArith Bool.
From CV Require Import GoLib Nfa FindAll.
From Leaf Require Import LeafGen LeafStep.
Import ListNotations.
Local Open Scope Z_scope.

Theorem Leaf_meta_emptyMatchStep_is_model : forall (h : list N) (p : nat),
    meta_emptyMatchStep (hz h) (Z.of_nat p) = Z.of_nat (empty_match_step h p) /\ meta_emptyMatchStep_safe (hz h) (Z.of_nat p) = true.
Proof. exact meta_emptyMatchStep_is_model. Qed.
Print Assumptions Leaf_meta_emptyMatchStep_is_model.

Theorem Leaf_coregex_emptyMatchStep_is_model : forall (h : list N) (p : nat),
    coregex_emptyMatchStep (hz h) (Z.of_nat p) = Z.of_nat (empty_match_step h p) /\ coregex_emptyMatchStep_safe (hz h) (Z.of_nat p) = true.
Proof. exact coregex_emptyMatchStep_is_model. Qed.
Print Assumptions Leaf_coregex_emptyMatchStep_is_model.
