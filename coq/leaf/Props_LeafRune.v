(* Props_LeafRune.v — property theorems about leaf functions translated from the current Go source
   (LeafGen.v, regenerated on every run); statements only, proofs in LeafRune.v. *)
From Coq Require Import List ZArith NArith Bool.
From CV Require Import GoLib Nfa FindAll.
From Leaf Require Import LeafGen LeafRune.
Import ListNotations.
Local Open Scope Z_scope.

Theorem Leaf_nfa_runeWidth_spec (b : list Z) :
  nfa_runeWidth_safe b = true /\
  (b = [] -> nfa_runeWidth b = 0) /\
  (b <> [] -> 1 <= nfa_runeWidth b <= 4 /\ nfa_runeWidth b <= len b /\ (idx b 0 < 128 -> nfa_runeWidth b = 1)).
Proof. exact (nfa_runeWidth_spec b). Qed.
Print Assumptions Leaf_nfa_runeWidth_spec.
