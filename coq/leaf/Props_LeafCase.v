(* Props_LeafCase.v — property theorems about leaf functions translated from the current Go source
   (LeafGen.v, regenerated on every run); statements only, proofs in LeafCase.v. *)
From Coq Require Import List ZArith NArith Bool.
From CV Require Import GoLib Nfa FindAll.
From Leaf Require Import LeafGen LeafCase.
Import ListNotations.
Local Open Scope Z_scope.

Theorem Leaf_nfa_isASCIILetter_spec r : nfa_isASCIILetter r = true <-> (65 <= r <= 90 \/ 97 <= r <= 122).
Proof. exact (nfa_isASCIILetter_spec r). Qed.
Print Assumptions Leaf_nfa_isASCIILetter_spec.

Theorem Leaf_nfa_toUpperASCII_spec r : nfa_toUpperASCII r = if (97 <=? r) && (r <=? 122) then r - 32 else r.
Proof. exact (nfa_toUpperASCII_spec r). Qed.
Print Assumptions Leaf_nfa_toUpperASCII_spec.

Theorem Leaf_nfa_toLowerASCII_spec r : nfa_toLowerASCII r = if (65 <=? r) && (r <=? 90) then r + 32 else r.
Proof. exact (nfa_toLowerASCII_spec r). Qed.
Print Assumptions Leaf_nfa_toLowerASCII_spec.

Theorem Leaf_nfa_case_orbit r : nfa_isASCIILetter r = true ->
  nfa_isASCIILetter (nfa_toUpperASCII r) = true /\ nfa_isASCIILetter (nfa_toLowerASCII r) = true /\
  nfa_toLowerASCII (nfa_toUpperASCII r) = nfa_toLowerASCII r /\
  nfa_toUpperASCII (nfa_toLowerASCII r) = nfa_toUpperASCII r /\
  (r = nfa_toUpperASCII r \/ r = nfa_toLowerASCII r) /\
  nfa_toLowerASCII r - nfa_toUpperASCII r = 32.
Proof. exact (nfa_case_orbit r). Qed.
Print Assumptions Leaf_nfa_case_orbit.
