(* C11 — statements only.  In the code every view (Match, Find*, FindSubmatch*, the
   enumeration family, iterators, Append*, Count) is derived from a single-match function
   by one of the loops modelled in FindAll.v.  For every haystack, every single-match
   function satisfying find_ok / find_empty_stable, every n and dst, the views agree with
   each other.  What the theorems leave open is `views_coherent`: that the five per-strategy
   dispatchers of the meta engine (boolean, span at 0, span at p, span with state, captures)
   are projections of ONE function — that is observed by the oracle-free correspondence run
   (every relation on every offset), and is where the recorded findings live. *)
From Coq Require Import List NArith ZArith Bool Arith.
From CV Require Import FindAll.
Import ListNotations.

Theorem C11_enumeration_views_agree :
  forall (h : list N) (find_at : span_fn),
  find_ok pair_id h find_at ->
  find_empty_stable pair_id find_at ->
  forall (anchored : bool) (n : Z) (dst : list (nat * nat)),
  (anchored = true -> anchored_ok find_at) ->
  cx_count find_at h n = length (cx_find_all find_at h anchored n) /\
  cx_all_index find_at h = cx_find_all find_at h anchored (-1) /\
  cx_append_all find_at h anchored dst n = dst ++ cx_find_all find_at h anchored n /\
  ((0 <= n)%Z ->
  cx_find_all find_at h anchored n = firstn (Z.to_nat n) (cx_find_all find_at h anchored (-1))) /\
  hd_error (cx_find_all find_at h anchored (-1)) = find_at 0.
Proof. exact FindAll.views_agree. Qed.
Print Assumptions C11_enumeration_views_agree.

Theorem C11_submatch_group0_is_findall :
  forall (h : list N) (submatch_at : nat -> option (list Z)),
  find_ok slots_span h submatch_at ->
  find_empty_stable slots_span submatch_at ->
  forall n : Z,
  map slots_span (cx_find_all_submatch submatch_at h n) =
  std_all (fun p : nat => option_map slots_span (submatch_at p)) h n.
Proof. exact FindAll.submatch_group0. Qed.
Print Assumptions C11_submatch_group0_is_findall.

Theorem C11_iterators_are_findall :
  forall (h : list N) (find_at : span_fn),
  find_ok pair_id h find_at ->
  find_empty_stable pair_id find_at -> cx_all_index find_at h = std_all find_at h (-1).
Proof. exact FindAll.iter_eq_std. Qed.
Print Assumptions C11_iterators_are_findall.
