(* CompileUtf8.v — the model of compileUTF83ByteRangeSimple (Compile.seqs3_simple: one
   (lead, cont1, cont2-range) triple per start state) against code points: for a 3-byte range
   [lo, hi] that does not straddle the surrogates, a byte string matches one of the triples
   iff it is the 3-byte encoding of a code point of the range.
   Building blocks for the specification-level treatment of large Unicode classes (\p{Greek},
   \pL, ...); still missing for the full chain: the surrogate wrapper seqs3, the recursive
   4-byte splitter split4 (a fuel/termination argument) and the assembly utf8_seqs. *)
From Coq Require Import List NArith ZArith Lia Bool Arith PeanoNat.
From Coq Require Import ZifyBool ZifyNat ZifyN.
From CV Require Import Nfa NfaRef Utf8 ClassAuto Regex Compile CompileSpec.
Import ListNotations.
Local Open Scope N_scope.

Definition enc3 (c : N) : list N := [224 + c / 4096; 128 + (c / 64) mod 64; 128 + c mod 64].

Lemma in_seq3 b0 b1 b2 (r0 r1 r2 : N * N) :
  in_seq [b0; b1; b2] [r0; r1; r2] = true <->
  (fst r0 <= b0 <= snd r0 /\ fst r1 <= b1 <= snd r1 /\ fst r2 <= b2 <= snd r2).
Proof. destruct r0, r1, r2. cbn [in_seq fst snd]. unfold in_range. lia. Qed.

Lemma in_seq3_len bs (r0 r1 r2 : N * N) : in_seq bs [r0; r1; r2] = true -> exists b0 b1 b2, bs = [b0; b1; b2].
Proof.
  destruct r0, r1, r2. destruct bs as [|b0 [|b1 [|b2 [|b3 t]]]]; cbn [in_seq]; rewrite ?andb_false_r; try discriminate.
  eauto.
Qed.

Theorem seqs3_simple_complete lo hi c : 0x800 <= lo -> hi <= 0xFFFF -> (hi <= 0xD7FF \/ 0xE000 <= lo) ->
  lo <= c <= hi -> in_seqs (enc3 c) (seqs3_simple lo hi) = true.
Proof.
  intros Hlo Hhi Hsur Hc. unfold in_seqs, seqs3_simple. cbv zeta.
  destruct ((224 + lo / 4096 =? 224 + hi / 4096) && (128 + (lo / 64) mod 64 =? 128 + (hi / 64) mod 64)) eqn:E1;
    [|destruct (224 + lo / 4096 =? 224 + hi / 4096) eqn:E2].
  - cbn [existsb]. rewrite orb_false_r. unfold enc3. apply in_seq3. cbn [fst snd]. lia.
  - apply existsb_exists. eexists. split.
    + apply in_map_iff. exists (128 + (c / 64) mod 64). split; [reflexivity|]. apply in_nrange. lia.
    + unfold enc3. apply in_seq3. cbn [fst snd].
      destruct (128 + (c / 64) mod 64 =? 128 + (lo / 64) mod 64) eqn:E3;
      destruct (128 + (c / 64) mod 64 =? 128 + (hi / 64) mod 64) eqn:E4; lia.
  - apply existsb_exists. eexists. split.
    + apply in_flat_map. exists (224 + c / 4096). split; [apply in_nrange; lia|].
      apply in_map_iff. exists (128 + (c / 64) mod 64). split; [reflexivity|]. apply in_nrange.
      destruct (224 + c / 4096 =? 224 + lo / 4096) eqn:E3; destruct (224 + c / 4096 =? 224 + hi / 4096) eqn:E4;
      destruct (224 + c / 4096 =? 224) eqn:E5; destruct (224 + c / 4096 =? 237) eqn:E6; lia.
    + unfold enc3. apply in_seq3. cbn [fst snd].
      destruct ((224 + c / 4096 =? 224 + lo / 4096) && (128 + (c / 64) mod 64 =? 128 + (lo / 64) mod 64)) eqn:E3;
      destruct ((224 + c / 4096 =? 224 + hi / 4096) && (128 + (c / 64) mod 64 =? 128 + (hi / 64) mod 64)) eqn:E4; lia.
Qed.

Lemma enc3_of b0 b1 b2 : 224 <= b0 <= 239 -> 128 <= b1 <= 191 -> 128 <= b2 <= 191 ->
  [b0; b1; b2] = enc3 ((b0 - 224) * 4096 + (b1 - 128) * 64 + (b2 - 128)).
Proof. intros H0 H1 H2. unfold enc3. f_equal; [lia|f_equal; [lia|f_equal; lia]]. Qed.

Theorem seqs3_simple_sound lo hi bs : 0x800 <= lo -> lo <= hi -> hi <= 0xFFFF ->
  in_seqs bs (seqs3_simple lo hi) = true -> exists c, lo <= c <= hi /\ bs = enc3 c.
Proof.
  intros Hlo Hle Hhi. unfold in_seqs, seqs3_simple. cbv zeta.
  destruct ((224 + lo / 4096 =? 224 + hi / 4096) && (128 + (lo / 64) mod 64 =? 128 + (hi / 64) mod 64)) eqn:E1;
    [|destruct (224 + lo / 4096 =? 224 + hi / 4096) eqn:E2].
  - cbn [existsb]. rewrite orb_false_r. intros H. destruct (in_seq3_len _ _ _ _ H) as [b0 [b1 [b2 ->]]].
    apply in_seq3 in H. cbn [fst snd] in H.
    exists ((b0 - 224) * 4096 + (b1 - 128) * 64 + (b2 - 128)). split; [lia|apply enc3_of; lia].
  - intros H. apply existsb_exists in H as [s [Hs H]]. apply in_map_iff in Hs as [c1 [<- Hc1]].
    apply in_nrange in Hc1. destruct (in_seq3_len _ _ _ _ H) as [b0 [b1 [b2 ->]]].
    apply in_seq3 in H. cbn [fst snd] in H.
    exists ((b0 - 224) * 4096 + (b1 - 128) * 64 + (b2 - 128)).
    destruct (c1 =? 128 + (lo / 64) mod 64) eqn:E3; destruct (c1 =? 128 + (hi / 64) mod 64) eqn:E4;
      (split; [lia|apply enc3_of; lia]).
  - intros H. apply existsb_exists in H as [s [Hs H]]. apply in_flat_map in Hs as [lead [Hlead Hs]].
    apply in_nrange in Hlead. apply in_map_iff in Hs as [c1 [<- Hc1]]. apply in_nrange in Hc1.
    destruct (in_seq3_len _ _ _ _ H) as [b0 [b1 [b2 ->]]].
    apply in_seq3 in H. cbn [fst snd] in H.
    exists ((b0 - 224) * 4096 + (b1 - 128) * 64 + (b2 - 128)).
    assert (E5 : (if lead =? 224 + lo / 4096 then 128 + (lo / 64) mod 64 else if lead =? 224 then 160 else 128) =
                 (if lead =? 224 + lo / 4096 then 128 + (lo / 64) mod 64 else 128)).
    { destruct (lead =? 224 + lo / 4096) eqn:E3; [reflexivity|]. replace (lead =? 224) with false by lia. reflexivity. }
    rewrite E5 in Hc1. clear E5.
    destruct (lead =? 224 + lo / 4096) eqn:E3; destruct (lead =? 224 + hi / 4096) eqn:E4;
    [|destruct (lead =? 237) eqn:E6| |destruct (lead =? 237) eqn:E6];
    destruct (c1 =? 128 + (lo / 64) mod 64) eqn:E7; destruct (c1 =? 128 + (hi / 64) mod 64) eqn:E8;
    cbn [andb] in H; (split; [lia|apply enc3_of; lia]).
Qed.
