(* C07 — statements only.  Well-formedness of returned values (boolean checkers = their Prop
   statements; the reference search and the specification loop only return well-formed
   values), memory accesses of the modelled steps stay inside the haystack, the modelled
   loops terminate.  The implementation itself is checked against the same checkers by the
   harness sub-command `c07` (guard pages, read-only haystack, child processes) and by the
   case file evaluated with Wf.check_case. *)
From Coq Require Import List NArith ZArith Bool.
From CV Require Import Nfa.
From CV Require Backtrack NfaRef FindAll Swar Wf.
Import ListNotations.

(* ---- the checkers mean what they say ---- *)
Theorem C07_wf_span_spec :
  forall len s e, Wf.wf_span len s e = true <-> (0 <= s <= e /\ e <= len)%Z.
Proof. exact Wf.wf_span_spec. Qed.
Print Assumptions C07_wf_span_spec.

Theorem C07_wf_caps_spec :
  forall len l, Wf.wf_caps len l = true <->
    exists k, length l = 2 * S k /\
      let s0 := nth 0 l 0%Z in
      let e0 := nth 1 l 0%Z in
      (0 <= s0 <= e0)%Z /\ (e0 <= len)%Z /\
      forall i, 1 <= i <= k ->
        let s := nth (2 * i) l 0%Z in
        let e := nth (2 * i + 1) l 0%Z in
        (s = (-1)%Z /\ e = (-1)%Z) \/ ((s0 <= s <= e)%Z /\ (e <= e0)%Z).
Proof. exact Wf.wf_caps_spec. Qed.
Print Assumptions C07_wf_caps_spec.

Theorem C07_wf_all_spec :
  forall len ms, Wf.wf_all len ms = true <-> Wf.all_ok_from len (-1)%Z ms.
Proof. exact Wf.wf_all_spec. Qed.
Print Assumptions C07_wf_all_spec.

Theorem C07_wf_all_elem :
  forall len ms j, Wf.wf_all len ms = true -> j < length ms -> Wf.wf_caps len (nth j ms []) = true.
Proof. exact Wf.wf_all_elem. Qed.
Print Assumptions C07_wf_all_elem.

(* ordered, non-overlapping; an empty match never touches the end of an earlier match (so no
   two empty matches at one position) *)
Theorem C07_wf_all_ordered :
  forall len ms i j, Wf.wf_all len ms = true -> i < j < length ms ->
    (Wf.m_end (nth i ms []) <= Wf.m_start (nth j ms []))%Z /\
    (Wf.m_start (nth j ms []) = Wf.m_end (nth j ms []) ->
     (Wf.m_end (nth i ms []) < Wf.m_start (nth j ms []))%Z).
Proof. exact Wf.wf_all_ordered. Qed.
Print Assumptions C07_wf_all_ordered.

Theorem C07_wf_split_spec :
  forall len n l, Wf.wf_split len n l = true ->
    (n = 0%Z -> l = []) /\
    ((0 < n)%Z -> (Z.of_nat (length l) <= 2 * n)%Z) /\
    (n <> 0%Z -> (0 < len)%Z -> l <> []) /\
    (n <> 0%Z -> exists k, length l = 2 * k /\
       forall i, i < k ->
         let s := nth (2 * i) l 0%Z in
         let e := nth (2 * i + 1) l 0%Z in
         (s = (-1)%Z /\ e = (-1)%Z) \/ ((0 <= s < e)%Z /\ (e <= len)%Z)).
Proof. exact Wf.wf_split_spec. Qed.
Print Assumptions C07_wf_split_spec.

(* ---- the reference search returns well-formed values ---- *)
Theorem C07_ref_result_wf :
  forall A h lab at_ s e sl,
    wf_nfa A = true -> 1 <= ncaps A -> Wf.nested A lab = true ->
    find_at A h at_ = Done (Some (s, e, sl)) ->
    Wf.wf_caps (Z.of_nat (length h)) (caps_of s e sl) = true.
Proof. exact Wf.ref_result_wf. Qed.
Print Assumptions C07_ref_result_wf.

Theorem C07_ref_result_slots_wf :
  forall A h at_ s e sl,
    wf_nfa A = true -> 1 <= ncaps A ->
    find_at A h at_ = Done (Some (s, e, sl)) ->
    Wf.wf_slots (Z.of_nat (length h)) (caps_of s e sl) = true /\
    length (caps_of s e sl) = 2 * ncaps A /\ at_ <= s.
Proof. exact Wf.ref_result_slots_wf. Qed.
Print Assumptions C07_ref_result_slots_wf.

(* the nesting hypothesis of C07_ref_result_wf cannot be dropped *)
Theorem C07_ref_pairs_need_nesting :
  wf_nfa Wf.unnested_nfa = true /\
  exists s e sl, find_at Wf.unnested_nfa [97%N] 0 = Done (Some (s, e, sl)) /\
                 Wf.wf_slots 1 (caps_of s e sl) = true /\ Wf.wf_caps 1 (caps_of s e sl) = false.
Proof. exact Wf.ref_pairs_need_nesting. Qed.
Print Assumptions C07_ref_pairs_need_nesting.

(* ---- the enumeration specification returns well-formed lists ---- *)
Theorem C07_std_all_wf :
  forall h find_at n,
    FindAll.find_ok FindAll.pair_id h find_at ->
    Wf.wf_all (Z.of_nat (length h)) (map Wf.span_caps (FindAll.std_all find_at h n)) = true.
Proof. exact Wf.std_all_wf. Qed.
Print Assumptions C07_std_all_wf.

Theorem C07_std_all_caps_wf :
  forall h (submatch_at : nat -> option (list Z)) n,
    (forall p m, submatch_at p = Some m ->
       Wf.wf_caps (Z.of_nat (length h)) m = true /\ (Z.of_nat p <= Wf.m_start m)%Z) ->
    Wf.wf_all (Z.of_nat (length h)) (FindAll.std_all_gen Wf.caps_span h submatch_at n) = true.
Proof. exact Wf.std_all_caps_wf. Qed.
Print Assumptions C07_std_all_caps_wf.

(* ---- memory accesses ---- *)
Theorem C07_look_reads_in_bounds :
  forall lk h p, p <= length h ->
    fst (Wf.look_log lk h p) = Some (look_ok lk h p) /\
    Forall (fun i => i < length h /\ (i = p \/ i = p - 1 /\ 0 < p)) (snd (Wf.look_log lk h p)).
Proof. exact Wf.look_reads_in_bounds. Qed.
Print Assumptions C07_look_reads_in_bounds.

Theorem C07_succs_reads_in_bounds :
  forall h st p sl, p <= length h ->
    fst (Wf.succs_log h st p sl) = Some (succs h st p sl) /\
    Forall (fun i => i < length h /\ (i = p \/ i = p - 1 /\ 0 < p)) (snd (Wf.succs_log h st p sl)).
Proof. exact Wf.succs_reads_in_bounds. Qed.
Print Assumptions C07_succs_reads_in_bounds.

Theorem C07_search_reads_in_bounds :
  forall A h s q p st sl,
    wf_nfa A = true -> s <= length h ->
    reach A h (start_anch A, s) (q, p) -> nth_error (states A) q = Some st ->
    fst (Wf.succs_log h st p sl) = Some (succs h st p sl) /\
    Forall (fun i => i < length h) (snd (Wf.succs_log h st p sl)).
Proof. exact Wf.search_reads_in_bounds. Qed.
Print Assumptions C07_search_reads_in_bounds.

Theorem C07_swar_reads_in_bounds :
  forall h b1 b2 offset, (b1 < 256)%N -> (b2 < 256)%N -> Swar.bytes h ->
    Swar.memchr_pair_swar h b1 b2 offset <> Swar.PANIC /\
    Swar.memchr_pair_swar h b1 b2 offset <> Swar.OUT_OF_FUEL.
Proof. exact Wf.swar_reads_in_bounds. Qed.
Print Assumptions C07_swar_reads_in_bounds.

Theorem C07_bt_idx_in_bounds :
  forall (W : N), (2 <= W)%N -> forall (A : nfa) (h : hay) (lo : nat) (st : Backtrack.bstate) (q p : nat),
    Backtrack.bt_ok A h lo st -> dom A h lo (q, p) -> Backtrack.idx st q p < Backtrack.vlen st.
Proof. exact Wf.bt_idx_in_bounds. Qed.
Print Assumptions C07_bt_idx_in_bounds.

(* ---- termination of the modelled loops ---- *)
Theorem C07_bt_total :
  forall (W : N), (2 <= W)%N -> forall (A : nfa) (max_visited : nat), wf_nfa A = true ->
  forall (st : Backtrack.bstate) (h : hay) (at_ : nat), Backtrack.bt_inv W st ->
    fst (Backtrack.bt_is_match W A max_visited st h) <> OutOfFuel /\
    fst (Backtrack.bt_is_match_anchored W A max_visited st h) <> OutOfFuel /\
    fst (Backtrack.bt_search_at W A max_visited st h at_) <> OutOfFuel.
Proof. exact Wf.bt_total. Qed.
Print Assumptions C07_bt_total.

Theorem C07_find_at_total :
  forall (A : nfa) (h : hay), wf_nfa A = true -> forall at_, find_at A h at_ <> OutOfFuel.
Proof. exact Wf.find_at_total. Qed.
Print Assumptions C07_find_at_total.

Theorem C07_find_at_past_end :
  forall A h at_, length h < at_ -> find_at A h at_ = Done None.
Proof. exact Wf.find_at_past_end. Qed.
Print Assumptions C07_find_at_past_end.
