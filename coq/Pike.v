(* Pike.v — the PikeVM of coregex (nfa/pikevm.go): Thompson's parallel simulation with
   per-position visited sets, DFS-ordered thread lists and break-on-first-match.

   Modelled search loops (Longest = false, no SkipAhead prefilter, no RuneAny states):
     IsMatch  : matchesEmptyAt / isMatchAnchored / isMatchUnanchored with
                addThreadForMatch, stepForMatch, addThreadToNextForMatch
     SearchAt : matchesEmptyAt / searchAt / searchUnanchoredAt with addThread, step,
                addThreadToNext (threads carry startPos; the capture vectors they also carry
                are not observable through SearchAt and are not modelled)

   Results (every NFA with wf_nfa, every haystack, every offset):
     pike_fuel_ok                 : the closure fuel |N|+1 is never exhausted
     pike_is_match_correct        : IsMatch = true iff some start has an accepting path
     pike_is_match_is_ref         : IsMatch = Nfa.is_match_ref
     pike_is_match_anchored_correct : the anchored IsMatch loop, start 0 only
     pike_search_start_leftmost_end_valid_partial, pike_search_start_is_ref_partial,
     pike_search_unique_end_is_ref_partial, pike_search_anchored_valid : SearchAt — leftmost
        START equal to the reference's, END valid (see the status comment before Section Top
        for the full statement pike_search_is_ref, which is proved in PikeSpan.v)
     sclosure_is_closure          : the explicit-stack closures (addSearchThread,
        addThreadForMatch) list the same threads in the same order as the recursive one  *)
From Coq Require Import List NArith ZArith Lia Bool Arith PeanoNat.
From Coq Require Import FSets.FSetPositive.
From Coq Require Import ZifyBool ZifyNat ZifyN.
From CV Require Import Nfa NfaRef Backtrack.
Import ListNotations.

(* ------------------------------------------------------------------ the model *)
(* internal/sparse: SparseSet of state ids, cleared per generation *)
Definition vset := list nat.
Definition vmem (q : nat) (vs : vset) : bool := existsb (Nat.eqb q) vs.

(* nfa/pikevm.go: type thread (state, startPos) *)
Definition thread := (nat * nat)%type.

(* nfa/pikevm.go: step — ByteRange: the target if b is in range; Sparse: the targets of ALL
   matching transitions, in order *)
Definition byte_succ (st : nstate) (b : N) : list nat :=
  match st with
  | SByteRange lo hi nx => if in_range lo hi b then [nx] else []
  | SSparse trs => map snd (filter (fun tr => in_range (fst (fst tr)) (snd (fst tr)) b) trs)
  | _ => []
  end.

Section Model.
  Variable A : nfa.
  Variable h : hay.

  (* nfa/pikevm.go: addThread / addThreadToNext (recursive) and addThreadForMatch /
     addThreadToNextForMatch (the same pre-order traversal written with an explicit stack:
     Insert at visit time, right branch pushed, left branch continued).  Returns the
     threads appended to the queue, in order, and the new visited set. *)
  Fixpoint closure (fuel p q s : nat) (vs : vset) : res (list thread * vset) :=
    match fuel with
    | 0 => OutOfFuel
    | S f =>
        if vmem q vs then Done ([], vs) else          (* !Visited.Insert *)
        let vs1 := q :: vs in
        match nth_error (states A) q with
        | None => Done ([], vs1)                        (* state == nil *)
        | Some st =>
            match st with
            | SMatch | SByteRange _ _ _ | SSparse _ => Done ([(q, s)], vs1)
            | SEpsilon nx => closure f p nx s vs1
            | SCapture _ _ nx => closure f p nx s vs1
            | SSplit l r =>
                match closure f p l s vs1 with
                | OutOfFuel => OutOfFuel
                | Done (t1, vs2) =>
                    match closure f p r s vs2 with
                    | OutOfFuel => OutOfFuel
                    | Done (t2, vs3) => Done (t1 ++ t2, vs3)
                    end
                end
            | SLook lk nx => if look_ok lk h p then closure f p nx s vs1 else Done ([], vs1)
            | SFail => Done ([], vs1)
            end
        end
    end.

  Definition cfuel : nat := nstates A + 1.

  Fixpoint closure_list (fuel p : nat) (ts : list thread) (vs : vset) : res (list thread * vset) :=
    match ts with
    | [] => Done ([], vs)
    | (q, s) :: ts' =>
        match closure fuel p q s vs with
        | OutOfFuel => OutOfFuel
        | Done (t1, vs1) =>
            match closure_list fuel p ts' vs1 with
            | OutOfFuel => OutOfFuel
            | Done (t2, vs2) => Done (t1 ++ t2, vs2)
            end
        end
    end.

  (* nfa/pikevm.go: step / stepForMatch — the states entered on byte b (all matching
     transitions of a Sparse state, in order) *)
  Definition targets (b : N) (t : thread) : list thread :=
    match nth_error (states A) (fst t) with
    | Some st => map (fun q => (q, snd t)) (byte_succ st b)
    | None => []
    end.

  (* Visited.Clear(); for _, t := range Queue { step(t, b, haystack, pos+1) } *)
  Definition step_all (p' : nat) (b : N) (queue : list thread) : res (list thread * vset) :=
    closure_list cfuel p' (flat_map (targets b) queue) [].

  Definition is_match_thread (t : thread) : bool :=
    match nth_error (states A) (fst t) with Some SMatch => true | _ => false end.

  (* ---------------------------------------------------------------- matchesEmptyAt *)
  Definition push_new (q : nat) (sv : list nat * vset) : list nat * vset :=
    if vmem q (snd sv) then sv else (q :: fst sv, q :: snd sv).

  (* nfa/pikevm.go: matchesEmptyAt — explicit stack, Insert at push time *)
  Fixpoint me_loop (fuel p : nat) (stack : list nat) (vs : vset) : res bool :=
    match fuel with
    | 0 => OutOfFuel
    | S f =>
        match stack with
        | [] => Done false
        | id :: stk =>
            match nth_error (states A) id with
            | None => me_loop f p stk vs
            | Some SMatch => Done true
            | Some (SEpsilon nx) => let sv := push_new nx (stk, vs) in me_loop f p (fst sv) (snd sv)
            | Some (SCapture _ _ nx) => let sv := push_new nx (stk, vs) in me_loop f p (fst sv) (snd sv)
            | Some (SSplit l r) => let sv := push_new r (push_new l (stk, vs)) in me_loop f p (fst sv) (snd sv)
            | Some (SLook lk nx) =>
                if look_ok lk h p then let sv := push_new nx (stk, vs) in me_loop f p (fst sv) (snd sv)
                else me_loop f p stk vs
            | Some _ => me_loop f p stk vs
            end
        end
    end.

  Definition matches_empty_at (p : nat) : res bool :=
    me_loop (nstates A + 1) p [start_anch A] [start_anch A].

  (* ---------------------------------------------------------------- IsMatch *)
  (* nfa/pikevm.go: isMatchUnanchored; k = len(haystack) - pos *)
  Fixpoint im_un (k p : nat) (queue : list thread) : res bool :=
    match closure cfuel p (start_anch A) 0 [] with
    | OutOfFuel => OutOfFuel
    | Done (t, _) =>
        let queue1 := queue ++ t in
        if existsb is_match_thread queue1 then Done true else
        match k with
        | 0 => Done false
        | S k' =>
            match nth_error h p with
            | None => Done false
            | Some b =>
                match step_all (S p) b queue1 with
                | OutOfFuel => OutOfFuel
                | Done (nq, _) => im_un k' (S p) nq
                end
            end
        end
    end.

  (* nfa/pikevm.go: isMatchAnchored *)
  Fixpoint im_an (k p : nat) (queue : list thread) : res bool :=
    if existsb is_match_thread queue then Done true else
    match queue, k with
    | [], _ => Done false
    | _, 0 => Done false
    | _, S k' =>
        match nth_error h p with
        | None => Done false
        | Some b =>
            match step_all (S p) b queue with
            | OutOfFuel => OutOfFuel
            | Done (nq, _) => im_an k' (S p) nq
            end
        end
    end.

  (* nfa/pikevm.go: IsMatch; `anchored` is nfa.IsAnchored() *)
  Definition pike_is_match_g (anchored : bool) : res bool :=
    if length h =? 0 then matches_empty_at 0
    else if anchored then
      match closure cfuel 0 (start_anch A) 0 [] with
      | OutOfFuel => OutOfFuel
      | Done (t, _) => im_an (length h) 0 t
      end
    else im_un (length h) 0 [].

  (* ---------------------------------------------------------------- SearchAt *)
  (* the threads stepped before the first Match thread, and that thread *)
  Fixpoint cut (q : list thread) : list thread * option thread :=
    match q with
    | [] => ([], None)
    | t :: q' => if is_match_thread t then ([], Some t) else let (a, m) := cut q' in (t :: a, m)
    end.

  (* nfa/pikevm.go: isBetterMatchWithLongest *)
  Definition better (best : option (nat * nat)) (cs ce : nat) : bool :=
    match best with
    | None => true
    | Some (bs, be) => if cs <? bs then true else if bs <? cs then false else be <? ce
    end.

  Definition upd_best (best : option (nat * nat)) (m : option thread) (p : nat) : option (nat * nat) :=
    match m with
    | None => best
    | Some t => if better best (snd t) p then Some (snd t, p) else best
    end.

  Definition is_none {T} (o : option T) : bool := match o with None => true | Some _ => false end.

  (* nfa/pikevm.go: searchUnanchoredAt, head of the loop body: a new start thread is added
     (with a cleared Visited) while no match has been found *)
  Definition inject (anchored : bool) (at_ p : nat) (queue : list thread) (best : option (nat * nat))
    : res (list thread) :=
    if is_none best && (negb anchored || (p =? at_))
    then match closure cfuel p (start_anch A) p [] with
         | OutOfFuel => OutOfFuel
         | Done (t, _) => Done (queue ++ t)
         end
    else Done queue.

  (* nfa/pikevm.go: searchUnanchoredAt, early termination: !hasLeftmostCandidate *)
  Definition no_candidate (best : option (nat * nat)) (nq : list thread) : bool :=
    match best with
    | Some (bs, _) => negb (existsb (fun t => snd t <=? bs) nq)
    | None => false
    end.

  (* nfa/pikevm.go: searchUnanchoredAt; k = len(haystack) - pos.  The combined
     match-check + step loop is written as `cut` followed by the step of the kept threads. *)
  Fixpoint su_loop (anchored : bool) (at_ k p : nat) (queue : list thread) (best : option (nat * nat))
    : res (option (nat * nat)) :=
    match inject anchored at_ p queue best with
    | OutOfFuel => OutOfFuel
    | Done queue1 =>
        let (q0, m) := cut queue1 in
        let best1 := upd_best best m p in
        match k with
        | 0 => Done best1
        | S k' =>
            match nth_error h p with
            | None => Done best1
            | Some b =>
                match step_all (S p) b q0 with
                | OutOfFuel => OutOfFuel
                | Done (nq, _) =>
                    if no_candidate best1 nq then Done best1
                    else su_loop anchored at_ k' (S p) nq best1
                end
            end
        end
    end.

  (* nfa/pikevm.go: searchAt *)
  Fixpoint sa_loop (k p : nat) (queue : list thread) (last : option nat) : res (option nat) :=
    let (q0, m) := cut queue in
    let last1 := match m with
                 | Some _ => match last with None => Some p | Some l => if l <? p then Some p else last end
                 | None => last
                 end in
    match k with
    | 0 => Done last1
    | S k' =>
        match nth_error h p with
        | None => Done last1
        | Some b =>
            match step_all (S p) b q0 with
            | OutOfFuel => OutOfFuel
            | Done (nq, _) =>
                match nq, last1 with
                | [], Some _ => Done last1
                | _, _ => sa_loop k' (S p) nq last1
                end
            end
        end
    end.

  Definition search_anchored (s : nat) : res (option (nat * nat)) :=
    match closure cfuel s (start_anch A) s [] with
    | OutOfFuel => OutOfFuel
    | Done (t, _) =>
        match sa_loop (length h - s) s t None with
        | OutOfFuel => OutOfFuel
        | Done None => Done None
        | Done (Some e) => Done (Some (s, e))
        end
    end.

  (* nfa/pikevm.go: SearchAt *)
  Definition pike_search_at_g (anchored : bool) (at_ : nat) : res (option (nat * nat)) :=
    if length h <? at_ then Done None
    else if at_ =? length h then
      match matches_empty_at at_ with
      | OutOfFuel => OutOfFuel
      | Done true => Done (Some (at_, at_))
      | Done false => Done None
      end
    else if anchored then search_anchored at_
    else su_loop false at_ (length h - at_) at_ [] None.
End Model.

Definition pike_is_match (A : nfa) (h : hay) : res bool := pike_is_match_g A h false.
Definition pike_search_at (A : nfa) (h : hay) (at_ : nat) : res (option (nat * nat)) :=
  pike_search_at_g A h false at_.

(* PROOFS_BEGIN *)
(* ------------------------------------------------------------------ sets of state ids *)
Lemma vmem_In q vs : vmem q vs = true <-> In q vs.
Proof.
  unfold vmem. rewrite existsb_exists. split.
  - intros [x [Hx He]]. apply Nat.eqb_eq in He. now subst.
  - intros H. exists q. split; [exact H|apply Nat.eqb_refl].
Qed.

Lemma vmem_false q vs : vmem q vs = false <-> ~ In q vs.
Proof. rewrite <- vmem_In. destruct (vmem q vs); split; congruence. Qed.

(* ------------------------------------------------------------------ successors by kind *)
Definition is_terminal (st : nstate) : bool :=
  match st with SMatch | SByteRange _ _ _ | SSparse _ => true | _ => false end.

(* the epsilon successors of a state at position p, in priority order *)
Definition eps_succ (h : hay) (p : nat) (st : nstate) : list nat :=
  match st with
  | SEpsilon nx => [nx]
  | SCapture _ _ nx => [nx]
  | SSplit l r => [l; r]
  | SLook lk nx => if look_ok lk h p then [nx] else []
  | _ => []
  end.

Lemma sparse_filter_none n ph trs b :
  sparse_ok n (Some ph) trs = true -> (b <= ph)%N ->
  filter (fun tr : N * N * nat => in_range (fst (fst tr)) (snd (fst tr)) b) trs = [].
Proof.
  revert ph. induction trs as [|[[lo hi] nx] t IH]; intros ph Hok Hb; [reflexivity|].
  cbn [sparse_ok] in Hok. cbn [filter fst snd].
  apply andb_prop in Hok as [Hok Ht]. apply andb_prop in Hok as [Hok Hp].
  apply andb_prop in Hok as [Hok _]. apply andb_prop in Hok as [Hlh _].
  assert (Hr : in_range lo hi b = false) by (unfold in_range; lia).
  rewrite Hr. apply (IH hi Ht). lia.
Qed.

Lemma sparse_filter_first n prev trs b :
  sparse_ok n prev trs = true ->
  map snd (filter (fun tr : N * N * nat => in_range (fst (fst tr)) (snd (fst tr)) b) trs) =
  match sparse_next trs b with Some nx => [nx] | None => [] end.
Proof.
  revert prev. induction trs as [|[[lo hi] nx] t IH]; intros prev Hok; [reflexivity|].
  cbn [sparse_ok] in Hok. cbn [filter fst snd sparse_next].
  apply andb_prop in Hok as [Hok Ht].
  destruct (in_range lo hi b) eqn:Hr.
  - cbn [map snd]. rewrite (sparse_filter_none n hi t b Ht); [reflexivity|]. unfold in_range in Hr. lia.
  - apply (IH (Some hi) Ht).
Qed.

Section Facts.
  Variable A : nfa.
  Variable h : hay.

  Definition terminal (q : nat) : Prop :=
    exists st, nth_error (states A) q = Some st /\ is_terminal st = true.
  Definition estep (p q q' : nat) : Prop :=
    exists st, nth_error (states A) q = Some st /\ In q' (eps_succ h p st).
  Definition bstep (p q q' : nat) : Prop :=
    exists st b, nth_error (states A) q = Some st /\ nth_error h p = Some b /\ In q' (byte_succ st b).

  Inductive ereach (p : nat) : nat -> nat -> Prop :=
  | ereach_refl q : ereach p q q
  | ereach_step q q' q'' : estep p q q' -> ereach p q' q'' -> ereach p q q''.

  Lemma ereach_trans p a b c : ereach p a b -> ereach p b c -> ereach p a c.
  Proof. induction 1; intros; auto. econstructor; eauto. Qed.

  Lemma ereach_snoc p a b c : ereach p a b -> estep p b c -> ereach p a c.
  Proof. intros H1 H2. eapply ereach_trans; [exact H1|]. econstructor; [exact H2|constructor]. Qed.

  Lemma estep_edge p q q' : estep p q q' -> edge A h (q, p) (q', p).
  Proof.
    intros [st [Hst Hin]]. exists st, [], (match st with SCapture idx b _ => set_nth [] (slot_of idx b) (Z.of_nat p) | _ => [] end).
    split; [exact Hst|]. cbn [fst snd].
    destruct st as [|lo hi nx|trs|l r|nx|idx is_start nx|lk nx|]; cbn [eps_succ succs] in *; try (now destruct Hin).
    - destruct Hin as [<-|[<-|[]]]; [left|right; left]; reflexivity.
    - destruct Hin as [<-|[]]. left. reflexivity.
    - destruct Hin as [<-|[]]. left. reflexivity.
    - destruct (look_ok lk h p); [|now destruct Hin]. destruct Hin as [<-|[]]. left. reflexivity.
  Qed.

  Hypothesis Hwf : wf_nfa A = true.

  Lemma wf_state q st : nth_error (states A) q = Some st -> state_ok (nstates A) (ncaps A) st = true.
  Proof.
    intros Hst. unfold wf_nfa in Hwf. apply andb_prop in Hwf as [H1 _]. apply andb_prop in H1 as [Hall _].
    rewrite forallb_forall in Hall. apply Hall. eapply nth_error_In; eauto.
  Qed.

  Lemma bstep_edge p q q' : bstep p q q' -> edge A h (q, p) (q', S p).
  Proof.
    intros [st [b [Hst [Hb Hin]]]]. exists st, [], []. split; [exact Hst|]. cbn [fst snd].
    pose proof (wf_state _ _ Hst) as Hok.
    destruct st as [|lo hi nx|trs|l r|nx|idx is_start nx|lk nx|]; cbn [byte_succ succs] in *; try (now destruct Hin).
    - rewrite Hb. destruct (in_range lo hi b); [|now destruct Hin]. destruct Hin as [<-|[]]. left. reflexivity.
    - rewrite Hb. cbn [state_ok] in Hok. rewrite (sparse_filter_first _ _ _ b Hok) in Hin.
      destruct (sparse_next trs b); [|now destruct Hin]. destruct Hin as [<-|[]]. left. reflexivity.
  Qed.

  Lemma edge_inv q p q' p' :
    edge A h (q, p) (q', p') -> (p' = p /\ estep p q q') \/ (p' = S p /\ bstep p q q').
  Proof.
    intros [st [sl [sl' [Hst Hin]]]]. cbn [fst snd] in *.
    pose proof (wf_state _ _ Hst) as Hok.
    destruct st as [|lo hi nx|trs|l r|nx|idx is_start nx|lk nx|]; cbn [succs] in Hin; try (now destruct Hin).
    - right. destruct (nth_error h p) as [b|] eqn:Hb; [|now destruct Hin].
      destruct (in_range lo hi b) eqn:Hr; [|now destruct Hin]. destruct Hin as [H|[]]. inversion H; subst.
      split; [reflexivity|]. eexists; exists b. split; [exact Hst|]. split; [exact Hb|]. cbn [byte_succ]. rewrite Hr. now left.
    - right. destruct (nth_error h p) as [b|] eqn:Hb; [|now destruct Hin].
      destruct (sparse_next trs b) as [nx|] eqn:Hn; [|now destruct Hin]. destruct Hin as [H|[]]. inversion H; subst.
      split; [reflexivity|]. eexists; exists b. split; [exact Hst|]. split; [exact Hb|]. cbn [byte_succ].
      cbn [state_ok] in Hok. rewrite (sparse_filter_first _ _ _ b Hok), Hn. now left.
    - left. destruct Hin as [H|[H|[]]]; inversion H; subst; (split; [reflexivity|]); eexists; (split; [exact Hst|]); cbn; auto.
    - left. destruct Hin as [H|[]]. inversion H; subst. split; [reflexivity|]. eexists. split; [exact Hst|]. cbn; auto.
    - left. destruct Hin as [H|[]]. inversion H; subst. split; [reflexivity|]. eexists. split; [exact Hst|]. cbn; auto.
    - left. destruct (look_ok lk h p) eqn:Hl; [|now destruct Hin]. destruct Hin as [H|[]]. inversion H; subst.
      split; [reflexivity|]. eexists. split; [exact Hst|]. cbn. rewrite Hl. now left.
  Qed.

  Lemma reach_snoc c c' c'' : reach A h c c' -> edge A h c' c'' -> reach A h c c''.
  Proof. intros H1 H2. eapply reach_trans; [exact H1|]. econstructor; [exact H2|constructor]. Qed.

  Lemma reach_ind_r (P : nat * nat -> Prop) c :
    P c -> (forall c' c'', reach A h c c' -> P c' -> edge A h c' c'' -> P c'') ->
    forall c'', reach A h c c'' -> P c''.
  Proof.
    intros H0 Hs c'' Hr.
    assert (G : forall c1 c2, reach A h c1 c2 -> reach A h c c1 -> P c1 -> P c2).
    { induction 1 as [c1|c1 c1' c2 He Hr' IH]; intros Hc HP; [exact HP|].
      apply IH; [eapply reach_snoc; eauto|eapply Hs; eauto]. }
    apply (G c c'' Hr); [constructor|exact H0].
  Qed.

  Lemma reach_mono c c' : reach A h c c' -> snd c <= snd c'.
  Proof.
    induction 1 as [c|c c1 c2 He Hr IH]; [lia|].
    destruct c as [q p], c1 as [q1 p1]. apply edge_inv in He. cbn [snd] in *. destruct He as [[-> _]|[-> _]]; lia.
  Qed.

  Lemma ereach_reach p q q' : ereach p q q' -> reach A h (q, p) (q', p).
  Proof. induction 1; [constructor|]. econstructor; [apply estep_edge; eauto|assumption]. Qed.

  Lemma reach_ereach c c' : reach A h c c' -> snd c' = snd c -> ereach (snd c) (fst c) (fst c').
  Proof.
    induction 1 as [c|c c1 c2 He Hr IH]; intros Hp; [constructor|].
    pose proof (reach_mono _ _ Hr) as Hm.
    destruct c as [q p], c1 as [q1 p1]. cbn [fst snd] in *.
    apply edge_inv in He. destruct He as [[-> He]|[-> _]]; [|lia].
    econstructor; [exact He|]. apply IH. exact Hp.
  Qed.

  Lemma reach_same q p q' : reach A h (q, p) (q', p) <-> ereach p q q'.
  Proof. split; [intros H; apply (reach_ereach _ _ H eq_refl)|apply ereach_reach]. Qed.

  (* a path that ends one position further decomposes at its last byte step *)
  Lemma reach_last_byte c q p :
    reach A h c (q, S p) -> snd c <= p ->
    exists q1 q2, reach A h c (q1, p) /\ bstep p q1 q2 /\ ereach (S p) q2 q.
  Proof.
    intros Hr.
    assert (G : forall c'', reach A h c c'' -> forall q p, c'' = (q, S p) -> snd c <= p ->
                exists q1 q2, reach A h c (q1, p) /\ bstep p q1 q2 /\ ereach (S p) q2 q);
      [|intros Hle; exact (G _ Hr q p eq_refl Hle)].
    clear q p Hr. intros c'' Hr.
    apply (reach_ind_r (fun c'' => forall q p, c'' = (q, S p) -> snd c <= p ->
                exists q1 q2, reach A h c (q1, p) /\ bstep p q1 q2 /\ ereach (S p) q2 q) c); [| |exact Hr].
    - intros q p -> Hle. cbn in Hle. lia.
    - intros [q1 p1] c2 Hr1 IH He q p -> Hle.
      apply edge_inv in He. destruct He as [[Hp He]|[Hp Hb]].
      + subst p1. destruct (IH q1 p eq_refl Hle) as [a [b [H1 [H2 H3]]]].
        exists a, b. split; [exact H1|]. split; [exact H2|]. eapply ereach_snoc; eauto.
      + inversion Hp; subst p1. exists q1, q. split; [exact Hr1|]. split; [exact Hb|constructor].
  Qed.

  Lemma reach_byte_ereach c q1 q2 q p :
    reach A h c (q1, p) -> bstep p q1 q2 -> ereach (S p) q2 q -> reach A h c (q, S p).
  Proof.
    intros H1 H2 H3. eapply reach_trans; [eapply reach_snoc; [exact H1|apply bstep_edge; exact H2]|].
    apply ereach_reach. exact H3.
  Qed.
End Facts.

(* ------------------------------------------------------------------ the closure *)
Lemma flen_le {T} (f g : T -> bool) l :
  (forall x, In x l -> f x = true -> g x = true) -> length (filter f l) <= length (filter g l).
Proof.
  induction l as [|a l IH]; intros H; [cbn; lia|]. cbn [filter].
  assert (IH' := IH (fun x Hx => H x (or_intror Hx))).
  destruct (f a) eqn:Fa.
  - rewrite (H a (or_introl eq_refl) Fa). cbn [length]. lia.
  - destruct (g a); cbn [length]; lia.
Qed.

Lemma flen_lt {T} (f g : T -> bool) l a :
  (forall x, In x l -> f x = true -> g x = true) -> In a l -> f a = false -> g a = true ->
  length (filter f l) < length (filter g l).
Proof.
  induction l as [|b l IH]; intros H Hin Fa Ga; [destruct Hin|]. cbn [filter].
  destruct Hin as [->|Hin].
  - rewrite Fa, Ga. cbn [length]. pose proof (flen_le f g l (fun x Hx => H x (or_intror Hx))). lia.
  - assert (IH' := IH (fun x Hx => H x (or_intror Hx)) Hin Fa Ga).
    destruct (f b) eqn:Fb.
    + rewrite (H b (or_introl eq_refl) Fb). cbn [length]. lia.
    + destruct (g b); cbn [length]; lia.
Qed.

Section Closure.
  Variable A : nfa.
  Variable h : hay.

  Lemma closure_unfold f p q s vs :
    closure A h (S f) p q s vs =
    if vmem q vs then Done ([], vs) else
    match nth_error (states A) q with
    | None => Done ([], q :: vs)
    | Some st => if is_terminal st then Done ([(q, s)], q :: vs)
                 else closure_list A h f p (map (fun x => (x, s)) (eps_succ h p st)) (q :: vs)
    end.
  Proof.
    cbn [closure]. destruct (vmem q vs); [reflexivity|].
    destruct (nth_error (states A) q) as [st|]; [|reflexivity].
    destruct st as [|lo hi nx|trs|l r|nx|idx is_start nx|lk nx|]; cbn [is_terminal eps_succ map closure_list]; try reflexivity.
    - destruct (closure A h f p l s (q :: vs)) as [|[t1 v1]]; [reflexivity|].
      destruct (closure A h f p r s v1) as [|[t2 v2]]; [reflexivity|]. now rewrite app_nil_r.
    - destruct (closure A h f p nx s (q :: vs)) as [|[t1 v1]]; [reflexivity|]. now rewrite app_nil_r.
    - destruct (closure A h f p nx s (q :: vs)) as [|[t1 v1]]; [reflexivity|]. now rewrite app_nil_r.
    - destruct (look_ok lk h p); cbn [map closure_list]; [|reflexivity].
      destruct (closure A h f p nx s (q :: vs)) as [|[t1 v1]]; [reflexivity|]. now rewrite app_nil_r.
  Qed.

  (* ---------------- fuel: the number of unvisited state ids *)
  Definition unv (vs : vset) : nat := length (filter (fun q => negb (vmem q vs)) (seq 0 (nstates A))).

  Lemma vmem_cons_mono q x vs : vmem x vs = true -> vmem x (q :: vs) = true.
  Proof. unfold vmem. cbn [existsb]. intros ->. apply orb_true_r. Qed.

  Lemma unv_cons_le q vs : unv (q :: vs) <= unv vs.
  Proof.
    apply flen_le. intros x _ Hx. apply negb_true_iff in Hx. apply negb_true_iff.
    destruct (vmem x vs) eqn:E; [|reflexivity]. rewrite (vmem_cons_mono q x vs E) in Hx. discriminate.
  Qed.

  Lemma unv_cons_lt q vs : q < nstates A -> vmem q vs = false -> unv (q :: vs) < unv vs.
  Proof.
    intros Hq Hv. apply (flen_lt _ _ _ q).
    - intros x _ Hx. apply negb_true_iff in Hx. apply negb_true_iff.
      destruct (vmem x vs) eqn:E; [|reflexivity]. rewrite (vmem_cons_mono q x vs E) in Hx. discriminate.
    - apply in_seq. lia.
    - apply negb_false_iff. unfold vmem. cbn [existsb]. now rewrite Nat.eqb_refl.
    - now apply negb_true_iff.
  Qed.

  Lemma unv_le vs : unv vs <= nstates A.
  Proof.
    unfold unv. rewrite <- (seq_length (nstates A) 0) at 2. generalize (seq 0 (nstates A)).
    induction l as [|a l IH]; cbn [filter length]; [lia|]. destruct (negb (vmem a vs)); cbn [length]; lia.
  Qed.

  Definition fuel_good (f : nat) : Prop :=
    forall p q s vs, unv vs < f -> exists T vs', closure A h f p q s vs = Done (T, vs') /\ unv vs' <= unv vs.

  Lemma closure_list_fuel f : fuel_good f ->
    forall p ts vs, unv vs < f -> exists T vs', closure_list A h f p ts vs = Done (T, vs') /\ unv vs' <= unv vs.
  Proof.
    intros Hg p ts. induction ts as [|[q s] ts IH]; intros vs Hlt.
    - exists [], vs. split; [reflexivity|lia].
    - cbn [closure_list]. destruct (Hg p q s vs Hlt) as [T1 [vs1 [E1 H1]]]. rewrite E1.
      destruct (IH vs1 ltac:(lia)) as [T2 [vs2 [E2 H2]]]. rewrite E2.
      exists (T1 ++ T2), vs2. split; [reflexivity|lia].
  Qed.

  Lemma closure_fuel f : fuel_good f.
  Proof.
    induction f as [|f IH]; intros p q s vs Hlt; [lia|].
    rewrite closure_unfold.
    destruct (vmem q vs) eqn:Hv. { exists [], vs. split; [reflexivity|lia]. }
    destruct (nth_error (states A) q) as [st|] eqn:Hst.
    2:{ exists [], (q :: vs). split; [reflexivity|apply unv_cons_le]. }
    destruct (is_terminal st). { exists [(q, s)], (q :: vs). split; [reflexivity|apply unv_cons_le]. }
    assert (Hq : q < nstates A) by (eapply nth_error_Some_lt'; eauto).
    pose proof (unv_cons_lt q vs Hq Hv) as Hlt'.
    destruct (closure_list_fuel f IH p (map (fun x => (x, s)) (eps_succ h p st)) (q :: vs) ltac:(lia)) as [T [vs' [E H']]].
    exists T, vs'. split; [exact E|lia].
  Qed.

  (* the closure fuel |N|+1 is never exhausted (any NFA, any visited set) *)
  Lemma closure_total p q s vs : exists T vs', closure A h (cfuel A) p q s vs = Done (T, vs').
  Proof.
    destruct (closure_fuel (cfuel A) p q s vs) as [T [vs' [E _]]]; [|eauto].
    unfold cfuel. pose proof (unv_le vs). lia.
  Qed.

  Lemma closure_list_total p ts vs : exists T vs', closure_list A h (cfuel A) p ts vs = Done (T, vs').
  Proof.
    destruct (closure_list_fuel (cfuel A) (closure_fuel _) p ts vs) as [T [vs' [E _]]]; [|eauto].
    unfold cfuel. pose proof (unv_le vs). lia.
  Qed.

  (* ---------------- what the closure computes *)
  Definition closedp (p : nat) (vs : vset) (S : list nat) : Prop :=
    forall x, In x vs -> ~ In x S -> forall x', estep A h p x x' -> In x' vs.

  Record post (p : nat) (ts : list thread) (vs : vset) (T : list thread) (vs' : vset) : Prop := {
    p_incl : forall x, In x vs -> In x vs';
    p_roots : forall r, In r ts -> In (fst r) vs';
    p_sound : forall x, In x vs' -> In x vs \/ exists r, In r ts /\ ereach A h p (fst r) x;
    p_thr : forall t, In t T -> ~ In (fst t) vs /\ terminal A (fst t) /\
                               exists r, In r ts /\ snd r = snd t /\ ereach A h p (fst r) (fst t);
    p_term : forall x, In x vs' -> ~ In x vs -> terminal A x -> exists s, In (x, s) T;
    p_closed : forall S, closedp p vs S -> closedp p vs' S }.

  Definition cspec (f : nat) : Prop :=
    forall p q s vs T vs', closure A h f p q s vs = Done (T, vs') -> post p [(q, s)] vs T vs'.

  Lemma clist_spec f : cspec f ->
    forall p ts vs T vs', closure_list A h f p ts vs = Done (T, vs') -> post p ts vs T vs'.
  Proof.
    intros Hc p ts. induction ts as [|[q s] ts IH]; intros vs T vs' H.
    - inversion H; subst. constructor; auto.
      + intros r [].
      + intros t [].
      + intros x Hx Hn. contradiction.
    - cbn [closure_list] in H.
      destruct (closure A h f p q s vs) as [|[T1 vs1]] eqn:E1; [discriminate|].
      destruct (closure_list A h f p ts vs1) as [|[T2 vs2]] eqn:E2; [discriminate|].
      inversion H; subst. pose proof (Hc _ _ _ _ _ _ E1) as P1. pose proof (IH _ _ _ E2) as P2.
      constructor.
      + intros x Hx. apply (p_incl _ _ _ _ _ P2), (p_incl _ _ _ _ _ P1), Hx.
      + intros r [<-|Hr].
        * apply (p_incl _ _ _ _ _ P2), (p_roots _ _ _ _ _ P1). now left.
        * apply (p_roots _ _ _ _ _ P2), Hr.
      + intros x Hx. destruct (p_sound _ _ _ _ _ P2 x Hx) as [Hx1|[r [Hr He]]].
        * destruct (p_sound _ _ _ _ _ P1 x Hx1) as [Hx0|[r [Hr He]]]; [now left|].
          right. exists r. split; [|exact He]. destruct Hr as [<-|[]]. now left.
        * right. exists r. split; [now right|exact He].
      + intros t Ht. apply in_app_or in Ht. destruct Ht as [Ht|Ht].
        * destruct (p_thr _ _ _ _ _ P1 t Ht) as [Hn [Htm [r [Hr He]]]].
          split; [exact Hn|]. split; [exact Htm|]. exists r. split; [|exact He]. destruct Hr as [<-|[]]. now left.
        * destruct (p_thr _ _ _ _ _ P2 t Ht) as [Hn [Htm [r [Hr He]]]].
          split; [intros Hv; apply Hn, (p_incl _ _ _ _ _ P1), Hv|]. split; [exact Htm|].
          exists r. split; [now right|exact He].
      + intros x Hx Hn Htm. destruct (in_dec Nat.eq_dec x vs1) as [Hi|Hi].
        * destruct (p_term _ _ _ _ _ P1 x Hi Hn Htm) as [s' Hs']. exists s'. apply in_or_app. now left.
        * destruct (p_term _ _ _ _ _ P2 x Hx Hi Htm) as [s' Hs']. exists s'. apply in_or_app. now right.
      + intros S HS. apply (p_closed _ _ _ _ _ P2), (p_closed _ _ _ _ _ P1), HS.
  Qed.

  Lemma closedp_cons p q vs S : ~ (exists st, nth_error (states A) q = Some st /\ eps_succ h p st <> []) ->
    closedp p vs S -> closedp p (q :: vs) S.
  Proof.
    intros Hno Hc x [<-|Hx] Hn x' He.
    - exfalso. apply Hno. destruct He as [st [Hst Hin]]. exists st. split; [exact Hst|]. intros E. now rewrite E in Hin.
    - right. eapply Hc; eauto.
  Qed.

  Lemma closure_spec f : cspec f.
  Proof.
    induction f as [|f IH]; intros p q s vs T vs' H; [discriminate|].
    rewrite closure_unfold in H.
    destruct (vmem q vs) eqn:Hv.
    { inversion H; subst. apply vmem_In in Hv. constructor; auto.
      - intros r [<-|[]]. exact Hv.
      - intros t [].
      - intros x Hx Hn. contradiction. }
    apply vmem_false in Hv.
    destruct (nth_error (states A) q) as [st|] eqn:Hst.
    2:{ inversion H; subst. constructor.
        - intros x Hx. now right.
        - intros r [<-|[]]. now left.
        - intros x [<-|Hx]; [right; exists (q, s); split; [now left|constructor]|now left].
        - intros t [].
        - intros x [<-|Hx] Hn [st' [Hst' _]]; [congruence|contradiction].
        - intros S. apply closedp_cons. intros [st' [Hst' _]]. congruence. }
    destruct (is_terminal st) eqn:Htm.
    { inversion H; subst. constructor.
      - intros x Hx. now right.
      - intros r [<-|[]]. now left.
      - intros x [<-|Hx]; [right; exists (q, s); split; [now left|constructor]|now left].
      - intros t [<-|[]]. cbn [fst snd]. split; [exact Hv|]. split; [exists st; auto|].
        exists (q, s). split; [now left|]. split; [reflexivity|constructor].
      - intros x [<-|Hx] Hn _; [exists s; now left|contradiction].
      - intros S. apply closedp_cons. intros [st' [Hst' Hne]]. rewrite Hst in Hst'. inversion Hst'; subst st'.
        destruct st; cbn in Htm, Hne; congruence. }
    pose proof (clist_spec f IH _ _ _ _ _ H) as P.
    assert (Hroot : forall r, In r (map (fun x => (x, s)) (eps_succ h p st)) -> snd r = s /\ estep A h p q (fst r)).
    { intros r Hr. apply in_map_iff in Hr. destruct Hr as [x [<- Hx]]. split; [reflexivity|]. exists st. auto. }
    constructor.
    - intros x Hx. apply (p_incl _ _ _ _ _ P). now right.
    - intros r [<-|[]]. apply (p_incl _ _ _ _ _ P). now left.
    - intros x Hx. destruct (p_sound _ _ _ _ _ P x Hx) as [[<-|Hx0]|[r [Hr He]]].
      + right. exists (q, s). split; [now left|constructor].
      + now left.
      + right. exists (q, s). split; [now left|]. destruct (Hroot r Hr) as [_ Hs]. econstructor; eauto.
    - intros t Ht. destruct (p_thr _ _ _ _ _ P t Ht) as [Hn [Ht' [r [Hr [Hsr He]]]]].
      split; [intros Hx; apply Hn; now right|]. split; [exact Ht'|].
      destruct (Hroot r Hr) as [Hs1 Hs2]. exists (q, s). split; [now left|]. split; [cbn; congruence|].
      econstructor; eauto.
    - intros x Hx Hn Hx'. apply (p_term _ _ _ _ _ P x Hx); [|exact Hx'].
      intros [<-|Hi]; [|contradiction]. destruct Hx' as [st' [Hst' Ht']]. congruence.
    - intros S HS.
      assert (H1 : closedp p (q :: vs) (q :: S)).
      { intros x [<-|Hx] Hn x' He; [exfalso; apply Hn; now left|].
        right. apply (HS x Hx); [|exact He]. intros Hi. apply Hn. now right. }
      pose proof (p_closed _ _ _ _ _ P _ H1) as H2.
      intros x Hx Hn x' He. destruct (Nat.eq_dec x q) as [->|Hne].
      + apply (p_roots _ _ _ _ _ P (x', s)). apply in_map_iff. exists x'. split; [reflexivity|].
        destruct He as [st' [Hst' Hin]]. congruence.
      + apply (H2 x Hx); [|exact He]. intros [Hi|Hi]; [congruence|contradiction].
  Qed.

  Lemma closure_list_spec f p ts vs T vs' :
    closure_list A h f p ts vs = Done (T, vs') -> post p ts vs T vs'.
  Proof. apply clist_spec, closure_spec. Qed.

  Lemma closed_ereach p vs : closedp p vs [] -> forall x y, ereach A h p x y -> In x vs -> In y vs.
  Proof.
    intros Hc x y Hr. induction Hr as [x|x x' y He Hr IH]; intros Hx; [exact Hx|].
    apply IH. apply (Hc x Hx); [intros []|exact He].
  Qed.

  Lemma closedp_nil p S : closedp p [] S.
  Proof. intros x []. Qed.

  (* from an empty visited set: exactly the terminal states epsilon-reachable from a root *)
  Lemma closure_list_fresh f p ts T vs' :
    closure_list A h f p ts [] = Done (T, vs') ->
    forall x, (exists s, In (x, s) T) <-> (terminal A x /\ exists r, In r ts /\ ereach A h p (fst r) x).
  Proof.
    intros H x. pose proof (closure_list_spec _ _ _ _ _ _ H) as P. split.
    - intros [s Hs]. destruct (p_thr _ _ _ _ _ P _ Hs) as [_ [Ht [r [Hr [_ He]]]]]. cbn [fst] in *. eauto.
    - intros [Ht [r [Hr He]]]. apply (p_term _ _ _ _ _ P x); [|intros []|exact Ht].
      apply (closed_ereach p vs' (p_closed _ _ _ _ _ P [] (closedp_nil p [])) _ _ He).
      apply (p_roots _ _ _ _ _ P r Hr).
  Qed.

  Lemma closure_fresh f p q s T vs' :
    closure A h f p q s [] = Done (T, vs') ->
    forall x, (exists s', In (x, s') T) <-> (terminal A x /\ ereach A h p q x).
  Proof.
    intros H x.
    assert (H' : closure_list A h f p [(q, s)] [] = Done (T, vs')).
    { cbn [closure_list]. rewrite H. now rewrite app_nil_r. }
    rewrite (closure_list_fresh _ _ _ _ _ H' x). split.
    - intros [Ht [r [[<-|[]] He]]]. auto.
    - intros [Ht He]. split; [exact Ht|]. exists (q, s). split; [now left|exact He].
  Qed.
End Closure.

(* ------------------------------------------------------------------ matchesEmptyAt *)
Section Empty.
  Variable A : nfa.
  Variable h : hay.
  Hypothesis Hwf : wf_nfa A = true.

  Definition is_match_st (st : nstate) : bool := match st with SMatch => true | _ => false end.
  Definition push_all (xs : list nat) (sv : list nat * vset) : list nat * vset :=
    fold_left (fun sv x => push_new x sv) xs sv.

  Lemma me_unfold f p id stk vs :
    me_loop A h (S f) p (id :: stk) vs =
    match nth_error (states A) id with
    | None => me_loop A h f p stk vs
    | Some st => if is_match_st st then Done true
                 else let sv := push_all (eps_succ h p st) (stk, vs) in me_loop A h f p (fst sv) (snd sv)
    end.
  Proof.
    cbn [me_loop]. destruct (nth_error (states A) id) as [st|]; [|reflexivity].
    destruct st as [|lo hi nx|trs|l r|nx|idx is_start nx|lk nx|]; cbn [is_match_st eps_succ push_all fold_left fst snd]; try reflexivity.
    destruct (look_ok lk h p); reflexivity.
  Qed.

  Lemma push_all_spec xs : forall stk vs stk' vs',
    push_all xs (stk, vs) = (stk', vs') ->
    (forall x, In x vs -> In x vs') /\ (forall x, In x stk -> In x stk') /\
    (forall x, In x vs' -> In x vs \/ In x xs) /\ (forall x, In x xs -> In x vs') /\
    (forall x, In x stk' -> In x stk \/ In x vs') /\ (forall x, In x vs' -> ~ In x vs -> In x stk') /\
    ((forall x, In x xs -> x < nstates A) -> length stk' + unv A vs' <= length stk + unv A vs).
  Proof.
    induction xs as [|a xs IH]; intros stk vs stk' vs' H.
    - inversion H; subst. repeat split; auto; try tauto; try (intros; contradiction); try lia.
    - cbn [push_all fold_left] in H. unfold push_new in H at 2. cbn [fst snd] in H.
      destruct (vmem a vs) eqn:Ha.
      + destruct (IH _ _ _ _ H) as [H1 [H2 [H3 [H4 [H5 [H6 H7]]]]]]. apply vmem_In in Ha.
        repeat split; auto.
        * intros x Hx. destruct (H3 x Hx); [now left|right; now right].
        * intros x [<-|Hx]; auto.
        * intros Hlt. apply H7. intros x Hx. apply Hlt. now right.
      + destruct (IH _ _ _ _ H) as [H1 [H2 [H3 [H4 [H5 [H6 H7]]]]]].
        repeat split.
        * intros x Hx. apply H1. now right.
        * intros x Hx. apply H2. now right.
        * intros x Hx. destruct (H3 x Hx) as [[<-|Hv]|Hv]; [right; now left|now left|right; now right].
        * intros x [<-|Hx]; [apply H1; now left|auto].
        * intros x Hx. destruct (H5 x Hx) as [[<-|Hs]|Hv]; [right; apply H1; now left|now left|now right].
        * intros x Hx Hn. destruct (Nat.eq_dec x a) as [->|Hne]; [apply H2; now left|].
          apply H6; [exact Hx|]. intros [Hi|Hi]; [congruence|contradiction].
        * intros Hlt. specialize (H7 (fun x Hx => Hlt x (or_intror Hx))).
          pose proof (unv_cons_lt A a vs (Hlt a (or_introl eq_refl)) Ha). cbn [length] in H7. lia.
  Qed.

  Lemma eps_succ_lt p q st x : nth_error (states A) q = Some st -> In x (eps_succ h p st) -> x < nstates A.
  Proof.
    intros Hst Hin. assert (He : estep A h p q x) by (exists st; auto).
    apply estep_edge in He. destruct He as [st' [sl [sl' [Hst' Hin']]]]. cbn [fst snd] in *.
    eapply succs_target_ok; eauto.
  Qed.

  Lemma me_fuel p f : forall stack vs, length stack + unv A vs < f -> me_loop A h f p stack vs <> OutOfFuel.
  Proof.
    induction f as [|f IH]; intros stack vs Hlt; [lia|].
    destruct stack as [|id stk]; [cbn; discriminate|]. rewrite me_unfold. cbn [length] in Hlt.
    destruct (nth_error (states A) id) as [st|] eqn:Hst; [|apply IH; lia].
    destruct (is_match_st st); [discriminate|].
    destruct (push_all (eps_succ h p st) (stk, vs)) as [stk' vs'] eqn:E. cbn [fst snd].
    destruct (push_all_spec _ _ _ _ _ E) as [_ [_ [_ [_ [_ [_ H7]]]]]].
    apply IH. specialize (H7 (fun x Hx => eps_succ_lt p id st x Hst Hx)). lia.
  Qed.

  Definition me_inv (p : nat) (stack : list nat) (vs : vset) : Prop :=
    (forall x, In x stack -> In x vs) /\
    (forall x, In x vs -> ereach A h p (start_anch A) x) /\
    (forall x, In x vs -> ~ In x stack ->
       nth_error (states A) x <> Some SMatch /\ forall x', estep A h p x x' -> In x' vs).

  Lemma me_spec p f : forall stack vs b,
    In (start_anch A) vs -> me_inv p stack vs -> me_loop A h f p stack vs = Done b ->
    (b = true <-> exists x, ereach A h p (start_anch A) x /\ nth_error (states A) x = Some SMatch).
  Proof.
    induction f as [|f IH]; intros stack vs b Hs [I1 [I2 I3]] H; [discriminate|].
    destruct stack as [|id stk].
    - cbn in H. inversion H; subst. split; [discriminate|]. intros [x [Hr Hm]]. exfalso.
      assert (Hc : closedp A h p vs []).
      { intros y Hy _ y' He. apply (I3 y Hy); [intros []|exact He]. }
      pose proof (closed_ereach A h p vs Hc _ _ Hr Hs) as Hx.
      destruct (I3 x Hx) as [Hn _]; [intros []|]. contradiction.
    - rewrite me_unfold in H.
      assert (Hid : In id vs) by (apply I1; now left).
      destruct (nth_error (states A) id) as [st|] eqn:Hst.
      2:{ apply (IH stk vs b Hs); [|exact H]. split; [intros x Hx; apply I1; now right|]. split; [exact I2|].
          intros x Hx Hn. destruct (Nat.eq_dec x id) as [->|Hne].
          - split; [congruence|]. intros x' [st' [Hst' _]]. congruence.
          - apply I3; [exact Hx|]. intros [Hi|Hi]; [congruence|contradiction]. }
      destruct (is_match_st st) eqn:Hm.
      { inversion H; subst. split; [|reflexivity]. intros _. exists id. split; [apply I2, Hid|].
        destruct st; try discriminate. exact Hst. }
      cbv zeta in H. match type of H with me_loop _ _ _ _ (fst ?t) _ = _ => destruct t as [stk' vs'] eqn:E end. cbn [fst snd] in H.
      destruct (push_all_spec _ _ _ _ _ E) as [H1 [H2 [H3 [H4 [H5 [H6 _]]]]]].
      apply (IH stk' vs' b (H1 _ Hs)); [|exact H]. split; [|split].
      + intros x Hx. destruct (H5 x Hx) as [Hi|Hi]; [apply H1, I1; now right|exact Hi].
      + intros x Hx. destruct (H3 x Hx) as [Hi|Hi]; [apply I2, Hi|].
        eapply ereach_snoc; [apply I2, Hid|]. exists st. auto.
      + intros x Hx Hn.
        assert (Hxv : In x vs).
        { destruct (in_dec Nat.eq_dec x vs) as [Hi|Hi]; [exact Hi|]. exfalso. apply Hn, H6; assumption. }
        assert (Hxs : ~ In x stk) by (intros Hi; apply Hn, H2, Hi).
        destruct (Nat.eq_dec x id) as [->|Hne].
        * split; [intros Hst'; rewrite Hst in Hst'; inversion Hst'; subst st; discriminate|].
          intros x' [st' [Hst' Hin]]. rewrite Hst in Hst'. inversion Hst'; subst st'. apply H4, Hin.
        * destruct (I3 x Hxv) as [Hnm Hsucc]; [intros [Hi|Hi]; [congruence|contradiction]|].
          split; [exact Hnm|]. intros x' He. apply H1, Hsucc, He.
  Qed.

  Lemma start_lt : start_anch A < nstates A.
  Proof.
    unfold wf_nfa in Hwf. apply andb_prop in Hwf as [H1 _]. apply andb_prop in H1 as [_ H2]. now apply Nat.ltb_lt.
  Qed.

  Lemma matches_empty_total p : matches_empty_at A h p <> OutOfFuel.
  Proof.
    unfold matches_empty_at. apply me_fuel. cbn [length].
    pose proof (unv_cons_lt A (start_anch A) [] start_lt eq_refl). pose proof (unv_le A []). lia.
  Qed.

  Lemma matches_empty_spec p b :
    matches_empty_at A h p = Done b ->
    (b = true <-> exists x, ereach A h p (start_anch A) x /\ nth_error (states A) x = Some SMatch).
  Proof.
    unfold matches_empty_at. apply me_spec; [now left|].
    split; [intros x Hx; exact Hx|]. split.
    - intros x [<-|[]]. constructor.
    - intros x Hx Hn. contradiction.
  Qed.

  Lemma matches_empty_path p b :
    matches_empty_at A h p = Done b -> (b = true <-> nfa_path A h (start_anch A) p p).
  Proof.
    intros H. rewrite (matches_empty_spec p b H). split.
    - intros [x [Hr Hm]]. exists x. split; [apply ereach_reach, Hr|exact Hm].
    - intros [x [Hr Hm]]. exists x. split; [|exact Hm]. now apply (reach_same A h Hwf).
  Qed.
End Empty.

(* ------------------------------------------------------------------ one step of the simulation *)
Section Step.
  Variable A : nfa.
  Variable h : hay.
  Hypothesis Hwf : wf_nfa A = true.

  Lemma is_match_thread_iff t : is_match_thread A t = true <-> nth_error (states A) (fst t) = Some SMatch.
  Proof.
    unfold is_match_thread. destruct (nth_error (states A) (fst t)) as [[]|]; split; congruence.
  Qed.

  Lemma match_terminal q : nth_error (states A) q = Some SMatch -> terminal A q.
  Proof. intros H. exists SMatch. auto. Qed.

  Lemma bstep_terminal p q q' : bstep A h p q q' -> terminal A q.
  Proof.
    intros [st [b [Hst [_ Hin]]]]. exists st. split; [exact Hst|].
    destruct st; cbn in Hin; try contradiction; reflexivity.
  Qed.

  Lemma in_targets b t r :
    In r (targets A b t) <-> exists st, nth_error (states A) (fst t) = Some st /\ In (fst r) (byte_succ st b) /\ snd r = snd t.
  Proof.
    unfold targets. destruct (nth_error (states A) (fst t)) as [st|].
    - rewrite in_map_iff. split.
      + intros [x [<- Hx]]. exists st. auto.
      + intros [st' [E [Hin Hs]]]. inversion E; subst st'. exists (fst r). split; [|exact Hin].
        destruct r; cbn in *; congruence.
    - split; [intros []|intros [st [E _]]; discriminate].
  Qed.

  (* the states of the next queue *)
  Lemma step_all_states p b queue nq vs' :
    step_all A h (S p) b queue = Done (nq, vs') -> nth_error h p = Some b ->
    forall y, (exists s, In (y, s) nq) <->
              (terminal A y /\ exists x s q2, In (x, s) queue /\ bstep A h p x q2 /\ ereach A h (S p) q2 y).
  Proof.
    unfold step_all. intros H Hb y. rewrite (closure_list_fresh A h _ _ _ _ _ H y). split.
    - intros [Ht [r [Hr He]]]. split; [exact Ht|]. apply in_flat_map in Hr. destruct Hr as [[x s] [Hq Hr]].
      apply in_targets in Hr. destruct Hr as [st [Hst [Hin _]]]. cbn [fst snd] in *.
      exists x, s, (fst r). split; [exact Hq|]. split; [|exact He]. exists st, b. auto.
    - intros [Ht [x [s [q2 [Hq [[st [b' [Hst [Hb' Hin]]]] He]]]]]]. split; [exact Ht|].
      rewrite Hb in Hb'. inversion Hb'; subst b'.
      exists (q2, s). split; [|exact He]. apply in_flat_map. exists (x, s). split; [exact Hq|].
      apply in_targets. exists st. auto.
  Qed.

  (* queue states = terminal states satisfying P *)
  Definition qinv (P : nat -> Prop) (queue : list thread) : Prop :=
    forall x, (exists s, In (x, s) queue) <-> (terminal A x /\ P x).

  Definition from_upto (lo hi p x : nat) : Prop :=
    exists s, lo <= s /\ s < hi /\ reach A h (start_anch A, s) (x, p).

  Lemma step_qinv lo hi p b queue nq vs' : hi <= S p ->
    qinv (from_upto lo hi p) queue ->
    step_all A h (S p) b queue = Done (nq, vs') -> nth_error h p = Some b ->
    qinv (from_upto lo hi (S p)) nq.
  Proof.
    intros Hhi Hq H Hb y. rewrite (step_all_states p b queue nq vs' H Hb y). split.
    - intros [Ht [x [s [q2 [Hin [Hbs He]]]]]]. split; [exact Ht|].
      destruct (proj1 (Hq x) (ex_intro _ s Hin)) as [_ [s0 [H1 [H2 Hr]]]].
      exists s0. split; [exact H1|]. split; [exact H2|]. eapply reach_byte_ereach; eauto.
    - intros [Ht [s0 [H1 [H2 Hr]]]]. split; [exact Ht|].
      destruct (reach_last_byte A h Hwf _ _ _ Hr) as [q1 [q2 [Hr1 [Hbs He]]]]; [cbn; lia|].
      destruct (proj2 (Hq q1)) as [s Hs].
      { split; [eapply bstep_terminal; eauto|]. exists s0. auto. }
      exists q1, s, q2. auto.
  Qed.

  Lemma qinv_inject lo p queue T vs' :
    qinv (from_upto lo p p) queue ->
    closure A h (cfuel A) p (start_anch A) p [] = Done (T, vs') \/
    closure A h (cfuel A) p (start_anch A) 0 [] = Done (T, vs') ->
    lo <= p -> qinv (from_upto lo (S p) p) (queue ++ T).
  Proof.
    intros Hq HT Hlo x.
    assert (HTx : (exists s, In (x, s) T) <-> terminal A x /\ ereach A h p (start_anch A) x).
    { destruct HT as [HT|HT]; apply (closure_fresh A h _ _ _ _ _ _ HT x). }
    split.
    - intros [s Hs]. apply in_app_or in Hs. destruct Hs as [Hs|Hs].
      + destruct (proj1 (Hq x) (ex_intro _ s Hs)) as [Ht [s0 [H1 [H2 Hr]]]].
        split; [exact Ht|]. exists s0. split; [exact H1|]. split; [lia|exact Hr].
      + destruct (proj1 HTx (ex_intro _ s Hs)) as [Ht He]. split; [exact Ht|].
        exists p. split; [exact Hlo|]. split; [lia|]. apply ereach_reach, He.
    - intros [Ht [s0 [H1 [H2 Hr]]]]. destruct (Nat.eq_dec s0 p) as [->|Hne].
      + destruct (proj2 HTx) as [s Hs]; [split; [exact Ht|now apply (reach_same A h Hwf)]|].
        exists s. apply in_or_app. now right.
      + destruct (proj2 (Hq x)) as [s Hs]; [split; [exact Ht|]; exists s0; repeat split; auto; lia|].
        exists s. apply in_or_app. now left.
  Qed.

  Lemma existsb_match queue :
    existsb (is_match_thread A) queue = true <-> exists t, In t queue /\ nth_error (states A) (fst t) = Some SMatch.
  Proof.
    rewrite existsb_exists. split; intros [t [H1 H2]]; exists t; (split; [exact H1|]); now apply is_match_thread_iff.
  Qed.
End Step.

(* ------------------------------------------------------------------ IsMatch *)
Section IsMatch.
  Variable A : nfa.
  Variable h : hay.
  Hypothesis Hwf : wf_nfa A = true.

  Lemma im_un_total : forall k p queue, im_un A h k p queue <> OutOfFuel.
  Proof.
    induction k as [|k IH]; intros p queue; cbn [im_un];
      destruct (closure_total A h p (start_anch A) 0 []) as [T [vs' ->]];
      destruct (existsb (is_match_thread A) (queue ++ T)); try discriminate.
    destruct (nth_error h p) as [b|]; [|discriminate].
    destruct (closure_list_total A h (S p) (flat_map (targets A b) (queue ++ T)) []) as [nq [vs2 E]].
    unfold step_all. rewrite E. apply IH.
  Qed.

  Lemma im_un_spec : forall k p queue b,
    p + k = length h -> qinv A (from_upto A h 0 p p) queue -> im_un A h k p queue = Done b ->
    (b = true <-> exists s e, s <= length h /\ p <= e /\ nfa_path A h (start_anch A) s e).
  Proof.
    induction k as [|k IH]; intros p queue b Hk Hq H; cbn [im_un] in H;
      destruct (closure A h (cfuel A) p (start_anch A) 0 []) as [|[T vs']] eqn:ET; try discriminate;
      pose proof (qinv_inject A h Hwf 0 p queue T vs' Hq (or_intror ET) (Nat.le_0_l p)) as Hq1;
      destruct (existsb (is_match_thread A) (queue ++ T)) eqn:Ex.
    1,3: inversion H; subst; split; [intros _|reflexivity];
         apply existsb_match in Ex; destruct Ex as [[x s] [Hin Hm]]; cbn [fst] in Hm;
         destruct (proj1 (Hq1 x) (ex_intro _ s Hin)) as [_ [s0 [_ [H2 Hr]]]];
         exists s0, p; split; [lia|]; split; [lia|]; exists x; split; [exact Hr|exact Hm].
    - (* end of input, no Match thread *)
      inversion H; subst. split; [discriminate|]. intros [s [e [Hs [He [x [Hr Hm]]]]]]. exfalso.
      pose proof (reach_pos A h Hwf _ _ Hr Hs) as Hpos. cbn [snd] in Hpos.
      assert (e = p) by lia. subst e.
      destruct (proj2 (Hq1 x)) as [s1 Hin].
      { split; [apply match_terminal; exact Hm|]. exists s. repeat split; [lia|lia|exact Hr]. }
      assert (Ht : existsb (is_match_thread A) (queue ++ T) = true).
      { apply existsb_match. exists (x, s1). auto. }
      congruence.
    - (* a byte remains *)
      assert (Hnm : forall s e, s <= length h -> p <= e -> nfa_path A h (start_anch A) s e -> S p <= e).
      { intros s e Hs He [x [Hr Hm]]. destruct (Nat.eq_dec e p) as [->|Hne]; [exfalso|lia].
        pose proof (reach_pos A h Hwf _ _ Hr Hs) as Hpos. cbn [snd] in Hpos.
        destruct (proj2 (Hq1 x)) as [s1 Hin].
        { split; [apply match_terminal; exact Hm|]. exists s. repeat split; [lia|lia|exact Hr]. }
        assert (Ht : existsb (is_match_thread A) (queue ++ T) = true).
        { apply existsb_match. exists (x, s1). auto. }
        congruence. }
      destruct (nth_error h p) as [b0|] eqn:Hb.
      2:{ apply nth_error_None in Hb. lia. }
      destruct (step_all A h (S p) b0 (queue ++ T)) as [|[nq vs2]] eqn:ES; [discriminate|].
      pose proof (step_qinv A h Hwf 0 (S p) p b0 _ nq vs2 (le_n _) Hq1 ES Hb) as Hq2.
      rewrite (IH (S p) nq b ltac:(lia) Hq2 H). split.
      + intros [s [e [H1 [H2 H3]]]]. exists s, e. repeat split; auto. lia.
      + intros [s [e [H1 [H2 H3]]]]. exists s, e. repeat split; auto. eapply Hnm; eauto.
  Qed.

  Theorem pike_is_match_total : pike_is_match A h <> OutOfFuel.
  Proof.
    unfold pike_is_match, pike_is_match_g. destruct (length h =? 0).
    - apply matches_empty_total. exact Hwf.
    - apply im_un_total.
  Qed.

  (* C01 for the PikeVM: IsMatch answers true iff some start position has an accepting path *)
  Theorem pike_is_match_correct b :
    pike_is_match A h = Done b ->
    (b = true <-> exists s e, s <= length h /\ nfa_path A h (start_anch A) s e).
  Proof.
    unfold pike_is_match, pike_is_match_g. destruct (Nat.eqb_spec (length h) 0) as [H0|H0]; intros H.
    - rewrite (matches_empty_path A h Hwf 0 b H). split.
      + intros Hp. exists 0, 0. split; [lia|exact Hp].
      + intros [s [e [Hs Hp]]]. pose proof (nfa_path_pos A h Hwf _ _ _ Hp Hs).
        assert (s = 0) by lia. assert (e = 0) by lia. now subst.
    - assert (Hq0 : qinv A (from_upto A h 0 0 0) []).
      { intros x; split; [intros [s []]|intros [_ [s [_ [Hlt _]]]]; lia]. }
      rewrite (im_un_spec (length h) 0 [] b eq_refl Hq0 H).
      split.
      + intros [s [e [H1 [_ H3]]]]. eauto.
      + intros [s [e [H1 H3]]]. exists s, e. repeat split; auto. lia.
  Qed.

  Theorem pike_is_match_is_ref : pike_is_match A h = is_match_ref A h.
  Proof.
    destruct (pike_is_match A h) as [|b1] eqn:E1; [exfalso; now apply pike_is_match_total|].
    destruct (is_match_ref A h) as [|b2] eqn:E2; [exfalso; now apply (is_match_ref_total A h Hwf)|].
    pose proof (pike_is_match_correct b1 E1) as H1.
    pose proof (is_match_ref_true A h Hwf) as H2. rewrite E2 in H2.
    f_equal. destruct b1, b2; try reflexivity.
    - assert (Done false = Done true :> res bool) by (apply H2, H1; reflexivity). discriminate.
    - assert (false = true) by (apply H1, H2; reflexivity). discriminate.
  Qed.
End IsMatch.

(* ------------------------------------------------------------------ thread lists ordered by start *)
Fixpoint tsorted (l : list thread) : Prop :=
  match l with
  | [] => True
  | a :: l' => (forall b, In b l' -> snd a <= snd b) /\ tsorted l'
  end.

Lemma tsorted_app l1 l2 :
  tsorted (l1 ++ l2) <-> tsorted l1 /\ tsorted l2 /\ forall a b, In a l1 -> In b l2 -> snd a <= snd b.
Proof.
  induction l1 as [|x l1 IH]; cbn [app tsorted].
  - split; [intros H; repeat split; auto; intros a b []|tauto].
  - rewrite IH. split.
    + intros [H1 [H2 [H3 H4]]]. repeat split; auto.
      * intros b Hb. apply H1, in_or_app. now left.
      * intros a b [<-|Ha] Hb; [apply H1, in_or_app; now right|auto].
    + intros [[H1 H2] [H3 H4]]. repeat split; auto.
      * intros b Hb. apply in_app_or in Hb. destruct Hb as [Hb|Hb]; [auto|apply H4; [now left|exact Hb]].
      * intros a b Ha Hb. apply H4; [now right|exact Hb].
Qed.

Lemma tsorted_const l s : (forall t : thread, In t l -> snd t = s) -> tsorted l.
Proof.
  induction l as [|a l IH]; intros H; [exact I|]. split.
  - intros b Hb. rewrite (H a (or_introl eq_refl)), (H b (or_intror Hb)). lia.
  - apply IH. intros t Ht. apply H. now right.
Qed.

Section Tagged.
  Variable A : nfa.
  Variable h : hay.

  Lemma cut_spec q : forall q0 m, cut A q = (q0, m) ->
    (forall t, In t q0 -> is_match_thread A t = false) /\
    match m with
    | Some tm => is_match_thread A tm = true /\ exists rest, q = q0 ++ tm :: rest
    | None => q = q0
    end.
  Proof.
    induction q as [|t q IH]; intros q0 m H; cbn [cut] in H.
    - inversion H; subst. split; [intros t []|reflexivity].
    - destruct (is_match_thread A t) eqn:Hm.
      + inversion H; subst. split; [intros t' []|]. split; [exact Hm|]. exists q. reflexivity.
      + destruct (cut A q) as [a m'] eqn:E. inversion H; subst.
        destruct (IH a m eq_refl) as [H1 H2]. split.
        * intros t' [<-|Ht']; auto.
        * destruct m as [tm|]; [|now rewrite <- H2].
          destruct H2 as [H2 [rest ->]]. split; [exact H2|]. exists rest. reflexivity.
  Qed.

  Lemma closure_tags f p q s vs T vs' :
    closure A h f p q s vs = Done (T, vs') -> forall t, In t T -> snd t = s.
  Proof.
    intros H t Ht. destruct (p_thr _ _ _ _ _ _ _ (closure_spec A h f _ _ _ _ _ _ H) t Ht) as [_ [_ [r [[<-|[]] [Hs _]]]]].
    now rewrite <- Hs.
  Qed.

  Lemma closure_list_sorted f p : forall ts vs T vs',
    tsorted ts -> closure_list A h f p ts vs = Done (T, vs') ->
    tsorted T /\ forall t, In t T -> exists r, In r ts /\ snd r = snd t.
  Proof.
    induction ts as [|[q s] ts IH]; intros vs T vs' Hs H.
    - inversion H; subst. split; [exact I|intros t []].
    - cbn [closure_list] in H.
      destruct (closure A h f p q s vs) as [|[T1 vs1]] eqn:E1; [discriminate|].
      destruct (closure_list A h f p ts vs1) as [|[T2 vs2]] eqn:E2; [discriminate|].
      inversion H; subst. destruct Hs as [Hs1 Hs2].
      destruct (IH _ _ _ Hs2 E2) as [Hso Hpr]. pose proof (closure_tags _ _ _ _ _ _ _ E1) as Ht1.
      split.
      + apply tsorted_app. split; [|split; [exact Hso|]].
        * apply (tsorted_const T1 s Ht1).
        * intros a b Ha Hb. rewrite (Ht1 a Ha). destruct (Hpr b Hb) as [r [Hr <-]]. apply (Hs1 r Hr).
      + intros t Ht. apply in_app_or in Ht. destruct Ht as [Ht|Ht].
        * exists (q, s). split; [now left|]. now rewrite (Ht1 t Ht).
        * destruct (Hpr t Ht) as [r [Hr Hsr]]. exists r. split; [now right|exact Hsr].
  Qed.

  (* every terminal state reachable from a root is listed, with the start of that root or an
     earlier one *)
  Lemma closure_list_repr f p : forall ts vs T vs',
    tsorted ts -> closedp A h p vs [] -> closure_list A h f p ts vs = Done (T, vs') ->
    forall r y, In r ts -> ereach A h p (fst r) y -> terminal A y -> ~ In y vs ->
    exists s', s' <= snd r /\ In (y, s') T.
  Proof.
    induction ts as [|[q s] ts IH]; intros vs T vs' Hs Hc H r y Hr He Hty Hny; [destruct Hr|].
    cbn [closure_list] in H.
    destruct (closure A h f p q s vs) as [|[T1 vs1]] eqn:E1; [discriminate|].
    destruct (closure_list A h f p ts vs1) as [|[T2 vs2]] eqn:E2; [discriminate|].
    inversion H; subst. destruct Hs as [Hs1 Hs2].
    pose proof (closure_spec A h f _ _ _ _ _ _ E1) as P1.
    pose proof (p_closed _ _ _ _ _ _ _ P1 [] Hc) as Hc1.
    assert (Hin1 : In y vs1 -> exists s', s' <= snd r /\ In (y, s') (T1 ++ T2)).
    { intros Hy. destruct (p_term _ _ _ _ _ _ _ P1 y Hy Hny Hty) as [s0 Hs0].
      exists s0. split; [|apply in_or_app; now left].
      pose proof (closure_tags _ _ _ _ _ _ _ E1 _ Hs0) as Hs0'. cbn [snd] in Hs0'. subst s0.
      destruct Hr as [<-|Hr]; [cbn; lia|apply (Hs1 r Hr)]. }
    destruct Hr as [<-|Hr].
    - apply Hin1. cbn [fst] in He. apply (closed_ereach A h p vs1 Hc1 _ _ He).
      apply (p_roots _ _ _ _ _ _ _ P1 (q, s)). now left.
    - destruct (in_dec Nat.eq_dec y vs1) as [Hy|Hy]; [auto|].
      destruct (IH _ _ _ Hs2 Hc1 E2 r y Hr He Hty Hy) as [s' [H1 H2]].
      exists s'. split; [exact H1|apply in_or_app; now right].
  Qed.

  Lemma targets_tag b t r : In r (targets A b t) -> snd r = snd t.
  Proof.
    unfold targets. destruct (nth_error (states A) (fst t)); [|intros []].
    intros H. apply in_map_iff in H. destruct H as [x [<- _]]. reflexivity.
  Qed.

  Lemma targets_sorted b q : tsorted q -> tsorted (flat_map (targets A b) q).
  Proof.
    induction q as [|t q IH]; intros Hs; [exact I|]. cbn [flat_map]. destruct Hs as [Hs1 Hs2].
    apply tsorted_app. split; [|split; [apply IH, Hs2|]].
    - apply (tsorted_const _ (snd t)). apply targets_tag.
    - intros a c Ha Hc. rewrite (targets_tag b t a Ha). apply in_flat_map in Hc.
      destruct Hc as [t' [Ht' Hc]]. rewrite (targets_tag b t' c Hc). apply (Hs1 t' Ht').
  Qed.
End Tagged.

(* ------------------------------------------------------------------ searchUnanchoredAt *)
Section Search.
  Variable A : nfa.
  Variable h : hay.
  Hypothesis Hwf : wf_nfa A = true.
  Variable at_ : nat.
  Notation st0 := (start_anch A).

  Lemma path_cross c p' : forall e y,
    reach A h c (y, e) -> terminal A y -> snd c <= p' <= e -> exists x, terminal A x /\ reach A h c (x, p').
  Proof.
    induction e as [|e IH]; intros y Hr Ht Hp.
    - assert (p' = 0) by lia. subst. exists y. auto.
    - destruct (Nat.eq_dec p' (S e)) as [->|Hne]; [exists y; auto|].
      destruct (reach_last_byte A h Hwf c y e Hr ltac:(lia)) as [q1 [q2 [Hr1 [Hb _]]]].
      apply (IH q1 Hr1 (bstep_terminal A h _ _ _ Hb)). lia.
  Qed.

  (* hi bounds the starts of the queue, he the positions already examined for a match,
     p is the position of the queue *)
  Record sinv (hi he p : nat) (queue : list thread) (best : option (nat * nat)) : Prop := {
    i_sorted : tsorted queue;
    i_sound : forall x s, In (x, s) queue ->
                at_ <= s /\ s < hi /\ terminal A x /\ reach A h (st0, s) (x, p);
    i_best : forall bs be, best = Some (bs, be) ->
                at_ <= bs /\ bs <= be /\ be < he /\ nfa_path A h st0 bs be /\
                forall t, In t queue -> snd t <= bs;
    i_compl : forall s x, at_ <= s -> s < hi -> (forall bs be, best = Some (bs, be) -> s < bs) ->
                terminal A x -> reach A h (st0, s) (x, p) -> exists s', s' <= s /\ In (x, s') queue;
    i_hist : forall s e, at_ <= s -> e < he -> nfa_path A h st0 s e ->
                exists bs be, best = Some (bs, be) /\ bs <= s }.

  Lemma su_inject p queue best T vs' :
    sinv p p p queue best -> at_ <= p ->
    closure A h (cfuel A) p st0 p [] = Done (T, vs') ->
    sinv (S p) p p (if is_none best then queue ++ T else queue) best.
  Proof.
    intros I Hp ET. destruct best as [[bs be]|]; cbn [is_none].
    - destruct (i_best _ _ _ _ _ I bs be eq_refl) as [B1 [B2 [B3 [B4 B5]]]]. constructor.
      + apply (i_sorted _ _ _ _ _ I).
      + intros x s Hin. destruct (i_sound _ _ _ _ _ I x s Hin) as [H1 [H2 H3]]. repeat split; try tauto; lia.
      + apply (i_best _ _ _ _ _ I).
      + intros s x H1 H2 H3 H4 H5. pose proof (H3 bs be eq_refl). apply (i_compl _ _ _ _ _ I); auto. lia.
      + apply (i_hist _ _ _ _ _ I).
    - pose proof (closure_tags A h _ _ _ _ _ _ _ ET) as Htag.
      pose proof (closure_fresh A h _ _ _ _ _ _ ET) as HT.
      constructor.
      + apply tsorted_app. split; [apply (i_sorted _ _ _ _ _ I)|]. split; [apply (tsorted_const T p Htag)|].
        intros [x s] b Ha Hb. destruct (i_sound _ _ _ _ _ I x s Ha) as [_ [H2 _]]. rewrite (Htag b Hb). cbn. lia.
      + intros x s Hin. apply in_app_or in Hin. destruct Hin as [Hin|Hin].
        * destruct (i_sound _ _ _ _ _ I x s Hin) as [H1 [H2 H3]]. repeat split; try tauto; lia.
        * pose proof (Htag _ Hin) as Hs. cbn [snd] in Hs. subst s.
          destruct (proj1 (HT x) (ex_intro _ p Hin)) as [Ht He].
          repeat split; auto. apply ereach_reach, He.
      + intros bs be E. discriminate.
      + intros s x H1 H2 _ H4 H5. destruct (Nat.eq_dec s p) as [->|Hne].
        * destruct (proj2 (HT x)) as [s' Hs']; [split; [exact H4|now apply (reach_same A h Hwf)]|].
          pose proof (Htag _ Hs') as E. cbn [snd] in E. subst s'. exists p. split; [lia|apply in_or_app; now right].
        * destruct (i_compl _ _ _ _ _ I s x H1 ltac:(lia) ltac:(intros ? ? E; discriminate) H4 H5) as [s' [Hs1 Hs2]].
          exists s'. split; [exact Hs1|apply in_or_app; now left].
      + apply (i_hist _ _ _ _ _ I).
  Qed.

  Lemma better_true best tm p queue1 :
    sinv (S p) p p queue1 best -> In tm queue1 -> better best (snd tm) p = true.
  Proof.
    intros I Hin. destruct best as [[bs be]|]; [|reflexivity]. cbn [better].
    destruct (i_best _ _ _ _ _ I bs be eq_refl) as [_ [_ [B3 [_ B5]]]]. pose proof (B5 tm Hin).
    destruct (Nat.ltb_spec (snd tm) bs); [reflexivity|].
    destruct (Nat.ltb_spec bs (snd tm)); [lia|]. apply Nat.ltb_lt. exact B3.
  Qed.

  Lemma su_cut p queue1 best q0 m :
    sinv (S p) p p queue1 best -> cut A queue1 = (q0, m) ->
    sinv (S p) (S p) p q0 (upd_best best m p).
  Proof.
    intros I EC. destruct (cut_spec A queue1 q0 m EC) as [Hnm Hm].
    (* a Match configuration at p reached from a start not yet beaten is in the queue *)
    assert (Hmatch : forall s e, at_ <= s -> e = p -> nfa_path A h st0 s e ->
              (exists bs be, best = Some (bs, be) /\ bs <= s) \/
              exists x s', s' <= s /\ In (x, s') queue1 /\ is_match_thread A (x, s') = true).
    { intros s e H1 -> [x [Hr Hx]]. unfold accepting in Hx. cbn [fst] in Hx.
      assert (Hsp : s <= p) by (apply (reach_mono A h Hwf) in Hr; exact Hr).
      destruct best as [[bs be]|].
      - destruct (le_lt_dec bs s) as [Hle|Hlt]; [left; eauto|]. right.
        destruct (i_compl _ _ _ _ _ I s x H1 ltac:(lia)) as [s' [Hs1 Hs2]];
          [intros ? ? E; inversion E; subst; exact Hlt|apply match_terminal; exact Hx|exact Hr|].
        exists x, s'. repeat split; auto. now apply is_match_thread_iff.
      - right. destruct (i_compl _ _ _ _ _ I s x H1 ltac:(lia)) as [s' [Hs1 Hs2]];
          [intros ? ? E; discriminate|apply match_terminal; exact Hx|exact Hr|].
        exists x, s'. repeat split; auto. now apply is_match_thread_iff. }
    destruct m as [tm|].
    - destruct Hm as [Htm [rest Hq]].
      assert (Hin : In tm queue1) by (rewrite Hq; apply in_or_app; right; now left).
      cbn [upd_best]. rewrite (better_true best tm p queue1 I Hin).
      pose proof (i_sorted _ _ _ _ _ I) as Hso. rewrite Hq in Hso. apply tsorted_app in Hso.
      destruct Hso as [So1 [[So2 So3] So4]].
      destruct tm as [xm sm]. destruct (i_sound _ _ _ _ _ I xm sm Hin) as [M1 [M2 [M3 M4]]]. cbn [snd] in *.
      assert (Hq0 : forall t, In t q0 -> In t queue1) by (intros t Ht; rewrite Hq; apply in_or_app; now left).
      assert (Hbelow : forall x s', In (x, s') queue1 -> s' < sm -> In (x, s') q0).
      { intros x s' Hi Hlt. rewrite Hq in Hi. apply in_app_or in Hi. destruct Hi as [Hi|[Hi|Hi]]; [exact Hi| |].
        - inversion Hi; subst. lia.
        - pose proof (So2 _ Hi). cbn in *. lia. }
      constructor.
      + exact So1.
      + intros x s Hi. apply (i_sound _ _ _ _ _ I), Hq0, Hi.
      + intros bs be E. inversion E; subst bs be. repeat split; try lia.
        * exists xm. split; [exact M4|]. apply is_match_thread_iff in Htm. exact Htm.
        * intros t Ht. apply (So4 t (xm, sm) Ht). now left.
      + intros s x H1 H2 H3 H4 H5. pose proof (H3 sm p eq_refl) as Hlt.
        destruct (i_compl _ _ _ _ _ I s x H1 H2) as [s' [Hs1 Hs2]]; auto.
        { intros bs be E. destruct (i_best _ _ _ _ _ I bs be E) as [_ [_ [_ [_ B5]]]].
          pose proof (B5 _ Hin). cbn in *. lia. }
        exists s'. split; [exact Hs1|]. apply Hbelow; [exact Hs2|lia].
      + intros s e H1 H2 H3. exists sm, p. split; [reflexivity|].
        destruct (Nat.eq_dec e p) as [He|He].
        * destruct (Hmatch s e H1 He H3) as [[bs [be [E Hle]]]|[x [s' [Hs1 [Hs2 Hs3]]]]].
          -- destruct (i_best _ _ _ _ _ I bs be E) as [_ [_ [_ [_ B5]]]]. pose proof (B5 _ Hin). cbn in *. lia.
          -- destruct (le_lt_dec sm s') as [Hle|Hlt]; [lia|].
             pose proof (Hnm _ (Hbelow x s' Hs2 Hlt)). congruence.
        * destruct (i_hist _ _ _ _ _ I s e H1 ltac:(lia) H3) as [bs [be [E Hle]]].
          destruct (i_best _ _ _ _ _ I bs be E) as [_ [_ [_ [_ B5]]]]. pose proof (B5 _ Hin). cbn in *. lia.
    - subst q0. cbn [upd_best]. constructor.
      + apply (i_sorted _ _ _ _ _ I).
      + apply (i_sound _ _ _ _ _ I).
      + intros bs be E. destruct (i_best _ _ _ _ _ I bs be E) as [B1 [B2 [B3 [B4 B5]]]]. repeat split; auto.
      + apply (i_compl _ _ _ _ _ I).
      + intros s e H1 H2 H3. destruct (Nat.eq_dec e p) as [He|He].
        * destruct (Hmatch s e H1 He H3) as [Hb|[x [s' [Hs1 [Hs2 Hs3]]]]]; [exact Hb|].
          pose proof (Hnm _ Hs2). congruence.
        * apply (i_hist _ _ _ _ _ I s e H1 ltac:(lia) H3).
  Qed.

  Lemma su_step p b q0 best nq vs' :
    sinv (S p) (S p) p q0 best ->
    step_all A h (S p) b q0 = Done (nq, vs') -> nth_error h p = Some b ->
    sinv (S p) (S p) (S p) nq best.
  Proof.
    intros I ES Hb. unfold step_all in ES.
    pose proof (targets_sorted A b q0 (i_sorted _ _ _ _ _ I)) as Hso.
    destruct (closure_list_sorted A h _ _ _ _ _ _ Hso ES) as [Hs1 Hs2].
    pose proof (closure_list_spec A h _ _ _ _ _ _ ES) as P.
    assert (Hroot : forall r, In r (flat_map (targets A b) q0) ->
              exists x, In (x, snd r) q0 /\ bstep A h p x (fst r)).
    { intros r Hr. apply in_flat_map in Hr. destruct Hr as [[x s] [Hq Hr]].
      apply in_targets in Hr. destruct Hr as [st [Hst [Hin Hs]]]. cbn [fst snd] in *.
      exists x. rewrite Hs. split; [exact Hq|]. exists st, b. auto. }
    constructor.
    - exact Hs1.
    - intros y s Hin. destruct (p_thr _ _ _ _ _ _ _ P _ Hin) as [_ [Ht [r [Hr [Hsr He]]]]]. cbn [fst snd] in *.
      destruct (Hroot r Hr) as [x [Hx Hbs]]. rewrite Hsr in Hx.
      destruct (i_sound _ _ _ _ _ I x s Hx) as [H1 [H2 [H3 H4]]].
      repeat split; auto. eapply reach_byte_ereach; eauto.
    - intros bs be E. destruct (i_best _ _ _ _ _ I bs be E) as [B1 [B2 [B3 [B4 B5]]]]. repeat split; auto.
      intros t Ht. destruct (Hs2 t Ht) as [r [Hr Hsr]]. destruct (Hroot r Hr) as [x [Hx _]].
      rewrite <- Hsr. apply (B5 _ Hx).
    - intros s y H1 H2 H3 H4 H5.
      destruct (reach_last_byte A h Hwf _ _ _ H5) as [q1 [q2 [Hr1 [Hbs He]]]]; [cbn; lia|].
      destruct (i_compl _ _ _ _ _ I s q1 H1 H2 H3 (bstep_terminal A h _ _ _ Hbs) Hr1) as [s' [Hs' Hin]].
      assert (Hr : In (q2, s') (flat_map (targets A b) q0)).
      { apply in_flat_map. exists (q1, s'). split; [exact Hin|]. apply in_targets.
        destruct Hbs as [st [b' [Hst [Hb' Hi]]]]. rewrite Hb in Hb'. inversion Hb'; subst b'. exists st. auto. }
      destruct (closure_list_repr A h _ _ _ _ _ _ Hso (closedp_nil A h (S p) []) ES (q2, s') y Hr He H4) as [s'' [Hle Hi]];
        [intros []|].
      exists s''. cbn [snd] in Hle. split; [lia|exact Hi].
    - apply (i_hist _ _ _ _ _ I).
  Qed.

  Definition result_ok (r : option (nat * nat)) : Prop :=
    match r with
    | Some (bs, be) => at_ <= bs /\ bs <= be /\ be <= length h /\ nfa_path A h st0 bs be /\
                       forall s e, at_ <= s -> s < bs -> ~ nfa_path A h st0 s e
    | None => forall s e, at_ <= s -> s <= length h -> ~ nfa_path A h st0 s e
    end.

  Lemma result_ok_of p q best :
    (forall bs be, best = Some (bs, be) -> at_ <= bs /\ bs <= be /\ be < S p /\ nfa_path A h st0 bs be /\
                   forall t : thread, In t q -> snd t <= bs) ->
    p <= length h ->
    (forall s e, at_ <= s -> s <= length h -> nfa_path A h st0 s e -> exists bs be, best = Some (bs, be) /\ bs <= s) ->
    result_ok best.
  Proof.
    intros HB Hp HH. destruct best as [[bs be]|]; cbn [result_ok].
    - destruct (HB bs be eq_refl) as [B1 [B2 [B3 [B4 _]]]]. repeat split; auto; try lia.
      intros s e H1 H2 H3. destruct (HH s e H1 ltac:(lia) H3) as [bs' [be' [E Hle]]]. inversion E; subst. lia.
    - intros s e H1 H2 H3. destruct (HH s e H1 H2 H3) as [bs' [be' [E _]]]. discriminate.
  Qed.

  Lemma inject_eq p queue best T vs' :
    closure A h (cfuel A) p st0 p [] = Done (T, vs') ->
    inject A h false at_ p queue best = Done (if is_none best then queue ++ T else queue).
  Proof.
    intros ET. unfold inject. cbn [negb orb]. rewrite andb_true_r, ET. destruct (is_none best); reflexivity.
  Qed.

  Lemma su_spec : forall k p queue best r,
    p + k = length h -> at_ <= p -> sinv p p p queue best ->
    su_loop A h false at_ k p queue best = Done r -> result_ok r.
  Proof.
    induction k as [|k IH]; intros p queue best r Hk Hp I H; cbn [su_loop] in H;
      destruct (closure_total A h p st0 p []) as [T [vs' ET]];
      rewrite (inject_eq p queue best T vs' ET) in H;
      pose proof (su_inject p queue best T vs' I Hp ET) as I1;
      destruct (cut A (if is_none best then queue ++ T else queue)) as [q0 m] eqn:EC;
      pose proof (su_cut p _ best q0 m I1 EC) as I2.
    - inversion H; subst r. apply (result_ok_of p q0); [apply (i_best _ _ _ _ _ I2)|lia|].
      intros s e H1 H2 H3. apply (i_hist _ _ _ _ _ I2 s e H1); [|exact H3].
      pose proof (nfa_path_pos A h Hwf _ _ _ H3 H2). lia.
    - destruct (nth_error h p) as [b|] eqn:Hb.
      2:{ apply nth_error_None in Hb. lia. }
      destruct (step_all A h (S p) b q0) as [|[nq vs2]] eqn:ES; [discriminate|].
      pose proof (su_step p b q0 _ nq vs2 I2 ES Hb) as I3.
      destruct (no_candidate (upd_best best m p) nq) eqn:Enc.
      + inversion H; subst r. apply (result_ok_of p nq); [apply (i_best _ _ _ _ _ I3)|lia|].
        intros s e H1 H2 H3.
        destruct (le_lt_dec (S p) e) as [Hge|Hlt]; [|apply (i_hist _ _ _ _ _ I3 s e H1 Hlt H3)].
        unfold no_candidate in Enc. destruct (upd_best best m p) as [[bs be]|] eqn:EB; [|discriminate].
        destruct (le_lt_dec bs s) as [Hle|Hlt]; [eauto|]. exfalso.
        destruct (i_best _ _ _ _ _ I3 bs be eq_refl) as [B1 [B2 [B3 _]]].
        destruct H3 as [x [Hr Hx]]. unfold accepting in Hx. cbn [fst] in Hx.
        destruct (path_cross (st0, s) (S p) e x Hr (match_terminal A x Hx)) as [y [Hy Hry]]; [cbn; lia|].
        destruct (i_compl _ _ _ _ _ I3 s y H1 ltac:(lia)) as [s' [Hs1 Hs2]]; auto.
        { intros ? ? E. inversion E; subst. exact Hlt. }
        apply negb_true_iff in Enc. apply Bool.not_true_iff_false in Enc. apply Enc.
        apply existsb_exists. exists (y, s'). split; [exact Hs2|]. cbn. apply Nat.leb_le. lia.
      + apply (IH (S p) nq (upd_best best m p) r); [lia|lia|exact I3|exact H].
  Qed.

  Lemma su_total : forall k p queue best, su_loop A h false at_ k p queue best <> OutOfFuel.
  Proof.
    induction k as [|k IH]; intros p queue best; cbn [su_loop];
      destruct (closure_total A h p st0 p []) as [T [vs' ET]];
      rewrite (inject_eq p queue best T vs' ET);
      destruct (cut A (if is_none best then queue ++ T else queue)) as [q0 m]; [discriminate|].
    destruct (nth_error h p) as [b|]; [|discriminate].
    destruct (closure_list_total A h (S p) (flat_map (targets A b) q0) []) as [nq [vs2 E]].
    unfold step_all. rewrite E. destruct (no_candidate (upd_best best m p) nq); [discriminate|apply IH].
  Qed.

  Lemma sinv_init : sinv at_ at_ at_ [] None.
  Proof.
    constructor.
    - exact I.
    - intros x s [].
    - intros bs be E. discriminate.
    - intros s x H1 H2. lia.
    - intros s e H1 H2 [x [Hr _]]. apply (reach_mono A h Hwf) in Hr. cbn in Hr. lia.
  Qed.
End Search.

(* ------------------------------------------------------------------ searchAt / isMatchAnchored (one start) *)
Section Anchored.
  Variable A : nfa.
  Variable h : hay.
  Hypothesis Hwf : wf_nfa A = true.
  Variable s0 : nat.
  Notation st0 := (start_anch A).

  Definition only (p : nat) := from_upto A h s0 (S s0) p.

  Lemma only_iff p x : only p x <-> reach A h (st0, s0) (x, p).
  Proof.
    unfold only, from_upto. split.
    - intros [s [H1 [H2 Hr]]]. assert (s = s0) by lia. now subst.
    - intros Hr. exists s0. repeat split; auto.
  Qed.

  Lemma step_sound p b q0 nq vs' :
    (forall x s, In (x, s) q0 -> reach A h (st0, s0) (x, p)) ->
    step_all A h (S p) b q0 = Done (nq, vs') -> nth_error h p = Some b ->
    forall y s, In (y, s) nq -> reach A h (st0, s0) (y, S p).
  Proof.
    intros Hs ES Hb y s Hin.
    destruct (proj1 (step_all_states A h p b q0 nq vs' ES Hb y) (ex_intro _ s Hin)) as [_ [x [sx [q2 [Hx [Hbs He]]]]]].
    eapply reach_byte_ereach; eauto.
  Qed.

  Definition sa_inv (p : nat) (queue : list thread) (last : option nat) : Prop :=
    (forall x s, In (x, s) queue -> reach A h (st0, s0) (x, p)) /\
    match last with
    | Some l => nfa_path A h st0 s0 l
    | None => qinv A (only p) queue /\ forall e, e < p -> ~ nfa_path A h st0 s0 e
    end.

  Lemma sa_spec : forall k p queue last r,
    p + k = length h -> s0 <= p -> sa_inv p queue last ->
    sa_loop A h k p queue last = Done r ->
    match r with
    | Some e => nfa_path A h st0 s0 e
    | None => forall e, ~ nfa_path A h st0 s0 e
    end.
  Proof.
    induction k as [|k IH]; intros p queue last r Hk Hp [Hs Hl] H; cbn [sa_loop] in H;
      destruct (cut A queue) as [q0 m] eqn:EC; destruct (cut_spec A queue q0 m EC) as [Hnm Hm];
      set (last1 := match m with
                    | Some _ => match last with None => Some p | Some l => if l <? p then Some p else last end
                    | None => last end) in *.
    all: assert (Hq0 : forall x s, In (x, s) q0 -> reach A h (st0, s0) (x, p)).
    1,3: intros x s Hi; apply (Hs x s); destruct m as [tm|]; [destruct Hm as [_ [rest ->]]; apply in_or_app; now left|now subst].
    all: assert (Hl1 : match last1 with
                       | Some l => nfa_path A h st0 s0 l
                       | None => m = None /\ last = None
                       end).
    1,3: unfold last1; destruct m as [[xm sm]|];
         [destruct Hm as [Htm [rest Hq]];
          assert (Hpm : nfa_path A h st0 s0 p) by
            (exists xm; split; [apply (Hs xm sm); rewrite Hq; apply in_or_app; right; now left|
                                apply is_match_thread_iff in Htm; exact Htm]);
          destruct last as [l|]; [destruct (l <? p); [exact Hpm|exact Hl]|exact Hpm]
         |destruct last; [exact Hl|auto]].
    all: assert (Hhist : last1 = None -> forall e, e < S p -> ~ nfa_path A h st0 s0 e).
    1,3: intros E e He Hpe; rewrite E in Hl1; destruct Hl1 as [-> ->]; destruct Hl as [Hq Hh];
         destruct (Nat.eq_dec e p) as [->|Hne]; [|apply (Hh e ltac:(lia) Hpe)];
         destruct Hpe as [x [Hr Hx]]; unfold accepting in Hx; cbn [fst] in Hx;
         destruct (proj2 (Hq x)) as [s Hin]; [split; [apply match_terminal; exact Hx|now apply only_iff]|];
         subst q0; pose proof (Hnm _ Hin) as Hf; pose proof (proj2 (is_match_thread_iff A (x, s)) Hx) as Ht; congruence.
    - inversion H; subst r. destruct last1 as [l|] eqn:E; [exact Hl1|].
      intros e Hpe. apply (Hhist eq_refl e); [|exact Hpe].
      pose proof (nfa_path_pos A h Hwf _ _ _ Hpe ltac:(lia)). lia.
    - destruct (nth_error h p) as [b|] eqn:Hb.
      2:{ apply nth_error_None in Hb. lia. }
      destruct (step_all A h (S p) b q0) as [|[nq vs2]] eqn:ES; [discriminate|].
      assert (Hnext : sa_inv (S p) nq last1).
      { split; [apply (step_sound p b q0 nq vs2 Hq0 ES Hb)|].
        destruct last1 as [l|] eqn:E; [exact Hl1|]. destruct Hl1 as [-> ->]. destruct Hl as [Hq Hh]. subst q0.
        split; [|apply Hhist; reflexivity].
        apply (step_qinv A h Hwf s0 (S s0) p b queue nq vs2 ltac:(lia) Hq ES Hb). }
      destruct nq as [|t nq'].
      + destruct last1 as [l|] eqn:E.
        * inversion H; subst r. exact Hl1.
        * apply (IH (S p) [] None r); auto; lia.
      + apply (IH (S p) (t :: nq') last1 r); auto; lia.
  Qed.

  Lemma sa_total : forall k p queue last, sa_loop A h k p queue last <> OutOfFuel.
  Proof.
    induction k as [|k IH]; intros p queue last; cbn [sa_loop]; destruct (cut A queue) as [q0 m]; [discriminate|].
    destruct (nth_error h p) as [b|]; [|discriminate].
    destruct (closure_list_total A h (S p) (flat_map (targets A b) q0) []) as [nq [vs2 E]].
    unfold step_all. rewrite E. destruct nq; [|apply IH].
    destruct m; destruct last; try discriminate; try apply IH. destruct (n <? p); discriminate.
  Qed.

  Lemma start_closure_qinv T vs' s :
    closure A h (cfuel A) s0 st0 s [] = Done (T, vs') -> qinv A (only s0) T.
  Proof.
    intros ET x. rewrite (closure_fresh A h _ _ _ _ _ _ ET x), only_iff, (reach_same A h Hwf). tauto.
  Qed.

  (* the anchored search: the start is the given one, the end is the end of an accepting
     path from it; no result iff there is no accepting path from it *)
  Theorem search_anchored_valid r :
    s0 <= length h -> search_anchored A h s0 = Done r ->
    match r with
    | Some (s, e) => s = s0 /\ nfa_path A h st0 s0 e
    | None => forall e, ~ nfa_path A h st0 s0 e
    end.
  Proof.
    unfold search_anchored. intros Hs H.
    destruct (closure A h (cfuel A) s0 st0 s0 []) as [|[T vs']] eqn:ET; [discriminate|].
    destruct (sa_loop A h (length h - s0) s0 T None) as [|r0] eqn:EL; [discriminate|].
    assert (Hi : sa_inv s0 T None).
    { pose proof (start_closure_qinv T vs' s0 ET) as Hq. split; [|split; [exact Hq|]].
      - intros x s Hin. apply only_iff. apply (proj1 (Hq x)). eauto.
      - intros e He [x [Hr _]]. apply (reach_mono A h Hwf) in Hr. cbn in Hr. lia. }
    pose proof (sa_spec (length h - s0) s0 T None r0 ltac:(lia) (le_n _) Hi EL) as Hr.
    destruct r0 as [e|]; inversion H; subst; auto.
  Qed.

  Lemma search_anchored_total : search_anchored A h s0 <> OutOfFuel.
  Proof.
    unfold search_anchored. destruct (closure_total A h s0 st0 s0 []) as [T [vs' ->]].
    destruct (sa_loop A h (length h - s0) s0 T None) as [|[e|]] eqn:E; try discriminate.
    exfalso. now apply (sa_total _ _ _ _ E).
  Qed.
End Anchored.

Section IsMatchAnchored.
  Variable A : nfa.
  Variable h : hay.
  Hypothesis Hwf : wf_nfa A = true.
  Notation st0 := (start_anch A).

  Lemma im_an_spec : forall k p queue b,
    p + k = length h -> qinv A (only A h 0 p) queue -> im_an A h k p queue = Done b ->
    (b = true <-> exists e, p <= e /\ nfa_path A h st0 0 e).
  Proof.
    induction k as [|k IH]; intros p queue b Hk Hq H; cbn [im_an] in H;
      destruct (existsb (is_match_thread A) queue) eqn:Ex.
    1,3: inversion H; subst; split; [intros _|reflexivity];
         apply existsb_match in Ex; destruct Ex as [[x s] [Hin Hm]]; cbn [fst] in Hm;
         destruct (proj1 (Hq x) (ex_intro _ s Hin)) as [_ Ho]; apply (proj1 (only_iff A h Hwf 0 _ _)) in Ho;
         exists p; split; [lia|]; exists x; split; [exact Ho|exact Hm].
    all: assert (Hnm : forall e, p <= e -> nfa_path A h st0 0 e -> S p <= e /\ queue <> []).
    1,3: intros e He [x [Hr Hx]]; unfold accepting in Hx; cbn [fst] in Hx;
         destruct (path_cross A h Hwf (st0, 0) p e x Hr (match_terminal A x Hx)) as [y [Hy Hry]]; [cbn; lia|];
         destruct (proj2 (Hq y)) as [sy Hiny]; [split; [exact Hy|now apply (proj2 (only_iff A h Hwf 0 _ _))]|];
         split; [|intros E; rewrite E in Hiny; destruct Hiny];
         destruct (Nat.eq_dec e p) as [->|Hne]; [exfalso|lia];
         destruct (proj2 (Hq x)) as [s1 Hin]; [split; [apply match_terminal; exact Hx|now apply (proj2 (only_iff A h Hwf 0 _ _))]|];
         assert (Ht : existsb (is_match_thread A) queue = true) by (apply existsb_match; exists (x, s1); auto);
         congruence.
    - assert (Hf : b = false) by (destruct queue; inversion H; reflexivity). subst b.
      split; [discriminate|]. intros [e [He Hp]]. exfalso.
      destruct (Hnm e He Hp) as [Hlt _]. pose proof (nfa_path_pos A h Hwf _ _ _ Hp ltac:(lia)). lia.
    - destruct queue as [|t queue'].
      { inversion H; subst b. split; [discriminate|]. intros [e [He Hp]]. destruct (Hnm e He Hp) as [_ Hne]. congruence. }
      destruct (nth_error h p) as [b0|] eqn:Hb.
      2:{ apply nth_error_None in Hb. lia. }
      destruct (step_all A h (S p) b0 (t :: queue')) as [|[nq vs2]] eqn:ES; [discriminate|].
      pose proof (step_qinv A h Hwf 0 1 p b0 _ nq vs2 ltac:(lia) Hq ES Hb) as Hq2.
      rewrite (IH (S p) nq b ltac:(lia) Hq2 H). split.
      + intros [e [H1 H2]]. exists e. split; [lia|exact H2].
      + intros [e [H1 H2]]. exists e. split; [apply (Hnm e H1 H2)|exact H2].
  Qed.

  (* IsMatch on an NFA flagged anchored: true iff the start position 0 has an accepting path *)
  Theorem pike_is_match_anchored_correct b :
    pike_is_match_g A h true = Done b -> (b = true <-> exists e, nfa_path A h st0 0 e).
  Proof.
    unfold pike_is_match_g. destruct (Nat.eqb_spec (length h) 0) as [H0|H0]; intros H.
    - rewrite (matches_empty_path A h Hwf 0 b H). split; [eauto|].
      intros [e Hp]. pose proof (nfa_path_pos A h Hwf _ _ _ Hp ltac:(lia)). assert (e = 0) by lia. now subst.
    - destruct (closure A h (cfuel A) 0 st0 0 []) as [|[T vs']] eqn:ET; [discriminate|].
      rewrite (im_an_spec (length h) 0 T b eq_refl (start_closure_qinv A h Hwf 0 T vs' 0 ET) H). split.
      + intros [e [_ Hp]]. eauto.
      + intros [e Hp]. exists e. split; [lia|exact Hp].
  Qed.
End IsMatchAnchored.

(* ------------------------------------------------------------------ SearchAt *)
(* STATUS OF THE SPAN THEOREM.  The full statement

     Theorem pike_search_is_ref : forall A h at_, wf_nfa A = true ->
       pike_search_at A h at_ = span_of (find_at A h at_).

   (the reported END is the leftmost-first end, i.e. the first success of the priority-ordered
   depth-first search `Nfa.dfs` from the leftmost matching start) is not proved in THIS file:
   it is PikeSpan.pike_search_is_ref (Props_PikeSpan.v), which follows the route below.  It is
   validated by the correspondence run only (`ref_mismatches` of the case files, and `ex_agree`
   below, which includes lazy quantifiers, prioritised alternations and an epsilon cycle).
   Proved instead, for every wf NFA, haystack and offset:
     pike_search_start_leftmost_end_valid_partial : the START is the leftmost start >= at with
        an accepting path, the END is the end of some accepting path from it, None iff no
        start has one;
     pike_search_start_is_ref_partial : same verdict and same START as find_at;
     pike_search_unique_end_is_ref_partial : the spans are EQUAL whenever all accepting paths
        from the reported start end at the same position (literals, fixed-length patterns);
     pike_search_anchored_valid : the anchored loop (searchAt) reports the given start and a
        valid end, None iff that start has no accepting path.
   What is missing for the full statement is the ORDER argument; the set-semantic invariant
   `sinv` used here forgets the order inside one start.  Route (not carried out):
     (K) layering of the reference: for configurations cs at one position p and a visited set
         V, `dfs_list f cs V` equals the sequence of "dives" dfs_list (succs t) over the list
         T = closure_list cs of terminal threads, cut at the first Match thread (needs: slot
         erasure for dfs, monotonicity of dfs in the fuel, invariance of dfs from positions
         > p under changes of V at positions <= p — Backtrack.dfs_sim with R = equality above
         p —, and "dfs from position > p leaves V unchanged at positions <= p");
     (F) by induction on the remaining positions, sa_loop k p T last = the layered search,
         because a later Match recorded by the PikeVM is always earlier in DFS pre-order than
         the Match threads cut before (threads kept by `cut` precede the cut Match thread);
     (G) for the unanchored loop: threads of starts without any accepting path only block
         (never reach Match) and a successor-closed blocked set filters the closure without
         changing the order of the remaining threads.
   (Carried out in PikeSpan.v.) *)
Section Top.
  Variable A : nfa.
  Variable h : hay.
  Hypothesis Hwf : wf_nfa A = true.
  Notation st0 := (start_anch A).

  Theorem pike_search_total at_ : pike_search_at A h at_ <> OutOfFuel.
  Proof.
    unfold pike_search_at, pike_search_at_g. destruct (length h <? at_); [discriminate|].
    destruct (at_ =? length h).
    - destruct (matches_empty_at A h at_) as [|[|]] eqn:E; try discriminate.
      exfalso. now apply (matches_empty_total A h Hwf at_).
    - apply su_total.
  Qed.

  (* C02 for the PikeVM (partial: the END is the end of SOME accepting path from the reported
     start, not yet shown to be the leftmost-first one): the reported start is the leftmost
     start position >= at that has any accepting path; no result iff no start has one *)
  Theorem pike_search_start_leftmost_end_valid_partial at_ r :
    pike_search_at A h at_ = Done r ->
    match r with
    | Some (s, e) => at_ <= s /\ s <= e /\ e <= length h /\ nfa_path A h st0 s e /\
                     forall s' e', at_ <= s' -> s' < s -> ~ nfa_path A h st0 s' e'
    | None => forall s e, at_ <= s -> s <= length h -> ~ nfa_path A h st0 s e
    end.
  Proof.
    unfold pike_search_at, pike_search_at_g.
    destruct (Nat.ltb_spec (length h) at_) as [Hlt|Hle].
    { intros H. inversion H; subst. intros s e H1 H2. lia. }
    destruct (Nat.eqb_spec at_ (length h)) as [He|Hne].
    - destruct (matches_empty_at A h at_) as [|b] eqn:E; [discriminate|].
      pose proof (matches_empty_path A h Hwf at_ b E) as Hb.
      destruct b; intros H; inversion H; subst r.
      + split; [lia|]. split; [lia|]. split; [lia|]. split; [now apply Hb|]. intros; lia.
      + intros s e H1 H2 Hp. assert (s = at_) by lia. subst s.
        pose proof (nfa_path_pos A h Hwf _ _ _ Hp H2). assert (e = at_) by lia. subst e.
        assert (false = true) by now apply Hb. discriminate.
    - intros H. apply (su_spec A h Hwf at_ (length h - at_) at_ [] None r ltac:(lia) (le_n _) (sinv_init A h Hwf at_) H).
  Qed.

  (* against the reference search: same verdict and same START; the end is a valid end *)
  Theorem pike_search_start_is_ref_partial at_ :
    match pike_search_at A h at_, find_at A h at_ with
    | Done None, Done None => True
    | Done (Some (s, e)), Done (Some (s', e', _)) => s = s' /\ nfa_path A h st0 s e
    | _, _ => False
    end.
  Proof.
    destruct (pike_search_at A h at_) as [|r] eqn:EP; [exfalso; now apply (pike_search_total at_)|].
    destruct (find_at A h at_) as [|r'] eqn:ER; [exfalso; now apply (find_at_total A h Hwf at_)|].
    pose proof (pike_search_start_leftmost_end_valid_partial at_ r EP) as HP.
    destruct r as [[s e]|]; destruct r' as [[[s' e'] sl]|].
    - destruct HP as [P1 [P2 [P3 [P4 P5]]]].
      destruct (find_at_some A h Hwf _ _ _ _ ER) as [R1 [R2 [R3 [R4 R5]]]].
      split; [|exact P4]. destruct (lt_eq_lt_dec s s') as [[Hlt|Heq]|Hgt]; [|exact Heq|].
      + exfalso. apply (R5 s ltac:(lia) e P4).
      + exfalso. apply (P5 s' e' R1 Hgt R4).
    - destruct HP as [P1 [P2 [P3 [P4 P5]]]]. apply (find_at_none A h Hwf _ ER s ltac:(lia) e P4).
    - destruct (find_at_some A h Hwf _ _ _ _ ER) as [R1 [R2 [R3 [R4 R5]]]]. apply (HP s' e' R1 ltac:(lia) R4).
    - exact I.
  Qed.

  (* when all accepting paths from the reported start end at the same position, the whole
     span equals the reference's *)
  Theorem pike_search_unique_end_is_ref_partial at_ :
    (forall s e1 e2, nfa_path A h st0 s e1 -> nfa_path A h st0 s e2 -> e1 = e2) ->
    pike_search_at A h at_ = span_of (find_at A h at_).
  Proof.
    intros Hu. pose proof (pike_search_start_is_ref_partial at_) as H.
    destruct (pike_search_at A h at_) as [|[[s e]|]]; destruct (find_at A h at_) as [|[[[s' e'] sl]|]] eqn:ER;
      cbn [span_of]; try contradiction; try reflexivity.
    destruct H as [<- Hp]. destruct (find_at_some A h Hwf _ _ _ _ ER) as [_ [_ [_ [R4 _]]]].
    now rewrite (Hu s e e' Hp R4).
  Qed.

  (* SearchAt on an NFA flagged anchored (at < len(h)): only the start `at` is tried *)
  Theorem pike_search_anchored_valid at_ r :
    at_ < length h -> pike_search_at_g A h true at_ = Done r ->
    match r with
    | Some (s, e) => s = at_ /\ nfa_path A h st0 at_ e
    | None => forall e, ~ nfa_path A h st0 at_ e
    end.
  Proof.
    unfold pike_search_at_g. intros Hlt.
    destruct (Nat.ltb_spec (length h) at_); [lia|]. destruct (Nat.eqb_spec at_ (length h)); [lia|].
    apply search_anchored_valid; [exact Hwf|lia].
  Qed.

  (* the closure fuel |N|+1 is never exhausted: no entry point of the model returns OutOfFuel *)
  Theorem pike_fuel_ok :
    (forall p q s vs, closure A h (cfuel A) p q s vs <> OutOfFuel) /\
    pike_is_match A h <> OutOfFuel /\ (forall at_, pike_search_at A h at_ <> OutOfFuel) /\
    (forall s0, search_anchored A h s0 <> OutOfFuel).
  Proof.
    split; [|split; [|split]].
    - intros p q s vs. destruct (closure_total A h p q s vs) as [T [vs' ->]]. discriminate.
    - apply pike_is_match_total, Hwf.
    - apply pike_search_total.
    - apply search_anchored_total.
  Qed.
End Top.

(* ------------------------------------------------------------------ the explicit-stack closures *)
(* nfa/pikevm.go: addSearchThread / addSearchThreadToNext in mode Find (restore frames are
   no-ops when activeSlots <= 2): pop a frame, Insert, push the epsilon successors so that the
   left branch is on top.  addThreadForMatch / addThreadToNextForMatch are the same traversal
   with the top of the stack kept in a local variable.  The explicit-stack traversal appends
   exactly the threads of the recursive `closure`, in the same order. *)
Section StackClosure.
  Variable A : nfa.
  Variable h : hay.

  Fixpoint sclosure (fuel p : nat) (stack acc : list thread) (vs : vset) {struct fuel} : res (list thread * vset) :=
    match stack with
    | [] => Done (acc, vs)
    | (q, s) :: stk =>
        match fuel with
        | 0 => OutOfFuel
        | S f =>
            if vmem q vs then sclosure f p stk acc vs else
            match nth_error (states A) q with
            | None => sclosure f p stk acc (q :: vs)
            | Some st =>
                if is_terminal st then sclosure f p stk (acc ++ [(q, s)]) (q :: vs)
                else sclosure f p (map (fun x => (x, s)) (eps_succ h p st) ++ stk) acc (q :: vs)
            end
        end
    end.

  Definition runs (p c : nat) (ts : list thread) (vs : vset) (T : list thread) (vs' : vset) : Prop :=
    forall f stk acc, sclosure (c + f) p (ts ++ stk) acc vs = sclosure f p stk (acc ++ T) vs'.

  Lemma sclosure_list_of f1 p :
    (forall q s vs T vs', closure A h f1 p q s vs = Done (T, vs') -> exists c, runs p c [(q, s)] vs T vs') ->
    forall ts vs T vs', closure_list A h f1 p ts vs = Done (T, vs') -> exists c, runs p c ts vs T vs'.
  Proof.
    intros Hc ts. induction ts as [|[q s] ts IH]; intros vs T vs' H.
    - inversion H; subst. exists 0. intros f stk acc. cbn [app Nat.add]. now rewrite app_nil_r.
    - cbn [closure_list] in H.
      destruct (closure A h f1 p q s vs) as [|[T1 vs1]] eqn:E1; [discriminate|].
      destruct (closure_list A h f1 p ts vs1) as [|[T2 vs2]] eqn:E2; [discriminate|].
      inversion H; subst. destruct (Hc _ _ _ _ _ E1) as [c1 R1]. destruct (IH _ _ _ E2) as [c2 R2].
      exists (c1 + c2). intros f stk acc.
      replace (c1 + c2 + f) with (c1 + (c2 + f)) by lia.
      pose proof (R1 (c2 + f) (ts ++ stk) acc) as E1'. cbn [app] in E1' |- *. rewrite E1'.
      rewrite (R2 f stk (acc ++ T1)). now rewrite app_assoc.
  Qed.

  Lemma sclosure_of f1 : forall p q s vs T vs',
    closure A h f1 p q s vs = Done (T, vs') -> exists c, runs p c [(q, s)] vs T vs'.
  Proof.
    induction f1 as [|f1 IH]; intros p q s vs T vs' H; [discriminate|].
    rewrite closure_unfold in H.
    destruct (vmem q vs) eqn:Hv.
    { inversion H; subst. exists 1. intros f stk acc. cbn [app Nat.add sclosure]. rewrite Hv. now rewrite app_nil_r. }
    destruct (nth_error (states A) q) as [st|] eqn:Hst.
    2:{ inversion H; subst. exists 1. intros f stk acc. cbn [app Nat.add sclosure]. rewrite Hv, Hst. now rewrite app_nil_r. }
    destruct (is_terminal st) eqn:Ht.
    { inversion H; subst. exists 1. intros f stk acc. cbn [app Nat.add sclosure]. rewrite Hv, Hst, Ht. reflexivity. }
    destruct (sclosure_list_of f1 p (IH p) _ _ _ _ H) as [c R].
    exists (S c). intros f stk acc. cbn [app Nat.add sclosure]. rewrite Hv, Hst, Ht. apply R.
  Qed.

  (* with enough fuel the explicit-stack closure returns the queue extended by exactly the
     threads of the recursive closure, and the same visited set *)
  Theorem sclosure_is_closure p q s vs T vs' :
    closure A h (cfuel A) p q s vs = Done (T, vs') ->
    exists c, forall f acc, sclosure (c + f) p [(q, s)] acc vs = Done (acc ++ T, vs').
  Proof.
    intros H. destruct (sclosure_of _ _ _ _ _ _ _ H) as [c R]. exists c. intros f acc.
    etransitivity; [exact (R f [] acc)|]. destruct f; reflexivity.
  Qed.
End StackClosure.
(* PROOFS_END *)

(* ------------------------------------------------------------------ case checker *)
(* op 0 = IsMatch(h), op 1 = SearchAt(h, at), op 2 = SearchWithSlotTableAt(h, at, SearchModeFind)
   (nfa/pikevm.go: searchWithSlotTableUnanchored/Anchored — in mode Find the same loops as
   searchUnanchoredAt/searchAt; addSearchThread is the closure written with an explicit stack:
   Insert at pop time, right branch pushed before left, i.e. the same pre-order);
   observed result: found, s, e (0 when unused) *)
Record case := mkCase {
  c_id : N; c_nfa : nfa; c_anch : bool; c_hay : list N; c_at : N; c_op : N;
  c_found : bool; c_s : N; c_e : N }.

Definition enc_bool (r : res bool) : option (bool * N * N) :=
  match r with OutOfFuel => None | Done b => Some (b, 0%N, 0%N) end.
Definition enc_span (r : res (option (nat * nat))) : option (bool * N * N) :=
  match r with
  | OutOfFuel => None
  | Done None => Some (false, 0%N, 0%N)
  | Done (Some (s, e)) => Some (true, N.of_nat s, N.of_nat e)
  end.

Definition obs_eqb (a : option (bool * N * N)) (c : case) : bool :=
  match a with
  | None => false
  | Some (b, s, e) => Bool.eqb b (c_found c) && (s =? c_s c)%N && (e =? c_e c)%N
  end.

Definition run_model (c : case) : option (bool * N * N) :=
  match c_op c with
  | 0%N => enc_bool (pike_is_match_g (c_nfa c) (c_hay c) (c_anch c))
  | _ => enc_span (pike_search_at_g (c_nfa c) (c_hay c) (c_anch c) (N.to_nat (c_at c)))
  end.

Definition run_ref (c : case) : option (bool * N * N) :=
  match c_op c with
  | 0%N => enc_bool (is_match_ref (c_nfa c) (c_hay c))
  | _ => enc_span (span_of (find_at (c_nfa c) (c_hay c) (N.to_nat (c_at c))))
  end.

(* model fidelity: the model reproduces the observed Go result *)
Definition check_case (c : case) : bool := wf_nfa (c_nfa c) && obs_eqb (run_model c) c.
(* the observed Go result equals the reference search *)
Definition check_ref (c : case) : bool := obs_eqb (run_ref c) c.

Definition mismatches (cs : list case) : list N := map c_id (filter (fun c => negb (check_case c)) cs).
Definition ref_mismatches (cs : list case) : list N := map c_id (filter (fun c => negb (check_ref c)) cs).

(* ------------------------------------------------------------------ examples: model = reference *)
Definition ores_eqb (a b : option (bool * N * N)) : bool :=
  match a, b with
  | Some (x, s, e), Some (y, s', e') => Bool.eqb x y && (s =? s')%N && (e =? e')%N
  | _, _ => false
  end.

(* SearchAt for every offset 0..|h| and IsMatch: the Pike model agrees with the reference *)
Definition agrees (A : nfa) (anch : bool) (h : list N) : bool :=
  wf_nfa A &&
  forallb (fun at_ => ores_eqb (enc_span (pike_search_at_g A h anch at_)) (enc_span (span_of (find_at A h at_))))
          (seq 0 (length h + 1)) &&
  ores_eqb (enc_bool (pike_is_match_g A h anch)) (enc_bool (is_match_ref A h)).

(* a+? *)
Definition ex_a_plus_lazy : nfa :=
  mkNfa [SByteRange 97 97 2; SEpsilon 3; SSplit 1 0; SMatch; SByteRange 0 255 5; SSplit 0 4] 0 5 1.
(* (?:a|ab)(?:c|bcd) *)
Definition ex_alt : nfa :=
  mkNfa [SSplit 1 2; SByteRange 97 97 4; SByteRange 97 97 3; SByteRange 98 98 4; SSplit 5 6;
         SByteRange 99 99 9; SByteRange 98 98 7; SByteRange 99 99 8; SByteRange 100 100 9; SMatch] 0 0 1.
(* x* *)
Definition ex_x_star : nfa :=
  mkNfa [SByteRange 120 120 2; SEpsilon 3; SSplit 0 1; SMatch; SByteRange 0 255 5; SSplit 2 4] 2 5 1.
(* ^abc (flagged anchored by the compiler) *)
Definition ex_anch : nfa :=
  mkNfa [SLook LStartText 1; SByteRange 97 97 2; SByteRange 98 98 3; SByteRange 99 99 4; SMatch] 0 0 1.
(* \bfoo\b *)
Definition ex_wordb : nfa :=
  mkNfa [SLook LWordB 1; SByteRange 102 102 2; SByteRange 111 111 3; SByteRange 111 111 4; SLook LWordB 5; SMatch;
         SByteRange 0 255 7; SSplit 0 6] 0 7 1.
(* star of (a or b-star): an epsilon cycle 0 -> 1 -> 3 -> 0 *)
Definition ex_eps_cycle : nfa :=
  mkNfa [SSplit 1 5; SSplit 2 3; SByteRange 97 97 0; SSplit 4 0; SByteRange 98 98 3; SMatch] 0 0 1.

Example ex_lazy_span : pike_search_at ex_a_plus_lazy [98; 97; 97; 97]%N 0 = Done (Some (1, 2)).
Proof. vm_compute. reflexivity. Qed.
Example ex_alt_span : pike_search_at ex_alt [120; 97; 98; 99; 100]%N 0 = Done (Some (1, 5)).
Proof. vm_compute. reflexivity. Qed.
Example ex_star_span : pike_search_at ex_x_star [97; 120; 120]%N 0 = Done (Some (0, 0)).
Proof. vm_compute. reflexivity. Qed.
Example ex_star_span1 : pike_search_at ex_x_star [97; 120; 120]%N 1 = Done (Some (1, 3)).
Proof. vm_compute. reflexivity. Qed.

Example ex_agree :
  forallb (fun Ah => agrees (fst (fst Ah)) (snd (fst Ah)) (snd Ah))
    [ (ex_a_plus_lazy, false, [98; 97; 97; 97]%N); (ex_a_plus_lazy, false, []);
      (ex_alt, false, [120; 97; 98; 99; 100]%N); (ex_alt, false, [97; 98; 99; 97; 99]%N);
      (ex_x_star, false, [97; 120; 120]%N); (ex_x_star, false, [120; 120; 120]%N);
      (ex_anch, true, [97; 98; 99; 97; 98; 99]%N); (ex_anch, true, [32; 97; 98; 99]%N);
      (ex_wordb, false, [32; 102; 111; 111; 32]%N); (ex_wordb, false, [120; 102; 111; 111]%N);
      (ex_wordb, false, [102; 111; 111]%N);
      (ex_eps_cycle, false, [97; 98; 98; 97; 99]%N); (ex_eps_cycle, false, [99; 98]%N) ] = true.
Proof. vm_compute. reflexivity. Qed.
