(* Property C13 (results do not depend on what the value was used for before), for the
   bounded backtracker's reusable BacktrackerState; with the parts of C05 (work bound),
   C20 (visited table never exceeds its cap) and C14 (the engine returns the reference
   answer or declines) that concern this engine.
   Statements only; the model and the proofs are in Backtrack.v.  W is the modulus of the
   generation counter (2^16 in Go: W16). *)
From Coq Require Import List NArith ZArith Bool Arith.
From CV Require Import Nfa Backtrack.
Import ListNotations.

(* ---- the invariant: no cell of the backing array is stamped in the future *)
Theorem C13_bt_inv_fresh : forall W : N, (2 <= W)%N -> bt_inv W bt_fresh.
Proof. exact Backtrack.bt_inv_fresh. Qed.
Print Assumptions C13_bt_inv_fresh.

Theorem C13_bt_inv_preserved : forall (W : N), (2 <= W)%N -> forall (A : nfa) (max_visited : nat),
  wf_nfa A = true -> forall (st : bstate) (h : hay) (at_ : nat),
  bt_inv W st ->
  bt_inv W (snd (bt_is_match W A max_visited st h)) /\
  bt_inv W (snd (bt_is_match_anchored W A max_visited st h)) /\
  bt_inv W (snd (bt_search_at W A max_visited st h at_)).
Proof. exact Backtrack.bt_inv_preserved. Qed.
Print Assumptions C13_bt_inv_preserved.

(* ---- after reset the table is an empty set on the domain of the search *)
Theorem C13_bt_reset_empty : forall (W : N), (2 <= W)%N -> forall (A : nfa) (st : bstate) (h : hay) (at_ q p : nat),
  bt_inv W st -> at_ <= length h ->
  let st' := set_span (reset W A false st (length h - at_)) at_ in
  bt_ok A h at_ st' /\ (dom A h at_ (q, p) -> vmem q p st' = false).
Proof. exact Backtrack.bt_reset_empty. Qed.
Print Assumptions C13_bt_reset_empty.

Theorem C13_bt_idx_in_bounds : forall (W : N), (2 <= W)%N -> forall (A : nfa) (h : hay) (lo : nat) (st : bstate) (q p : nat),
  bt_ok A h lo st -> dom A h lo (q, p) -> idx st q p < vlen st.
Proof. exact Backtrack.bt_idx_in_bounds. Qed.
Print Assumptions C13_bt_idx_in_bounds.

Theorem C13_bt_vadd_same : forall (W : N), (2 <= W)%N -> forall (A : nfa) (h : hay) (lo : nat) (st : bstate) (q p : nat),
  bt_ok A h lo st -> dom A h lo (q, p) -> vmem q p (vadd q p st) = true.
Proof. exact Backtrack.bt_vadd_same. Qed.
Print Assumptions C13_bt_vadd_same.

Theorem C13_bt_vadd_other : forall (W : N), (2 <= W)%N -> forall (A : nfa) (h : hay) (lo : nat) (st : bstate) (q p q' p' : nat),
  bt_ok A h lo st -> dom A h lo (q, p) -> dom A h lo (q', p') -> (q, p) <> (q', p') ->
  vmem q' p' (vadd q p st) = vmem q' p' st.
Proof. exact Backtrack.bt_vadd_other. Qed.
Print Assumptions C13_bt_vadd_other.

(* ---- C14 (part): the answers are the reference answers *)
Theorem C13_bt_search_at_is_ref : forall (W : N), (2 <= W)%N -> forall (A : nfa) (max_visited : nat),
  wf_nfa A = true -> forall (st : bstate) (h : hay) (at_ : nat),
  bt_inv W st -> longest st = false -> at_ <= length h ->
  can_handle A max_visited (length h - at_) = true ->
  fst (bt_search_at W A max_visited st h at_) = span_of (find_at A h at_).
Proof. exact Backtrack.bt_search_at_is_ref. Qed.
Print Assumptions C13_bt_search_at_is_ref.

Theorem C13_bt_search_at_is_ref_any_mode : forall (W : N), (2 <= W)%N -> forall (A : nfa) (max_visited : nat),
  wf_nfa A = true -> forall (st : bstate) (h : hay) (at_ : nat),
  bt_inv W st -> at_ <= length h -> can_handle A max_visited (length h - at_) = true ->
  fst (bt_search_at W A max_visited st h at_) = ref_search_at A (longest st) h at_.
Proof. exact Backtrack.bt_search_at_is_ref_any_mode. Qed.
Print Assumptions C13_bt_search_at_is_ref_any_mode.

Theorem C13_bt_is_match_correct : forall (W : N), (2 <= W)%N -> forall (A : nfa) (max_visited : nat),
  wf_nfa A = true -> forall (st : bstate) (h : hay),
  bt_inv W st -> can_handle A max_visited (length h) = true ->
  (fst (bt_is_match W A max_visited st h) = Done true <->
   exists s e, s <= length h /\ nfa_path A h (start_anch A) s e).
Proof. exact Backtrack.bt_is_match_correct. Qed.
Print Assumptions C13_bt_is_match_correct.

Theorem C13_bt_is_match_false : forall (W : N), (2 <= W)%N -> forall (A : nfa) (max_visited : nat),
  wf_nfa A = true -> forall (st : bstate) (h : hay),
  bt_inv W st -> can_handle A max_visited (length h) = true ->
  (fst (bt_is_match W A max_visited st h) = Done false <->
   forall s e, s <= length h -> ~ nfa_path A h (start_anch A) s e).
Proof. exact Backtrack.bt_is_match_false. Qed.
Print Assumptions C13_bt_is_match_false.

Theorem C13_bt_is_match_anchored_is_ref : forall (W : N), (2 <= W)%N -> forall (A : nfa) (max_visited : nat),
  wf_nfa A = true -> forall (st : bstate) (h : hay),
  bt_inv W st -> can_handle A max_visited (length h) = true ->
  fst (bt_is_match_anchored W A max_visited st h) = ref_is_match_anchored A h.
Proof. exact Backtrack.bt_is_match_anchored_is_ref. Qed.
Print Assumptions C13_bt_is_match_anchored_is_ref.

(* the out-of-fuel value of the model is never produced *)
Theorem C13_bt_total : forall (W : N), (2 <= W)%N -> forall (A : nfa) (max_visited : nat),
  wf_nfa A = true -> forall (st : bstate) (h : hay) (at_ : nat),
  bt_inv W st ->
  fst (bt_is_match W A max_visited st h) <> OutOfFuel /\
  fst (bt_is_match_anchored W A max_visited st h) <> OutOfFuel /\
  fst (bt_search_at W A max_visited st h at_) <> OutOfFuel.
Proof. exact Backtrack.bt_total. Qed.
Print Assumptions C13_bt_total.

(* when CanHandle is false the engine declines and leaves the state alone *)
Theorem C13_bt_is_match_declines : forall (W : N) (A : nfa) (max_visited : nat) (st : bstate) (h : hay),
  can_handle A max_visited (length h) = false -> bt_is_match W A max_visited st h = (Done false, st).
Proof. exact Backtrack.bt_is_match_declines. Qed.
Print Assumptions C13_bt_is_match_declines.

Theorem C13_bt_is_match_anchored_declines : forall (W : N) (A : nfa) (max_visited : nat) (st : bstate) (h : hay),
  can_handle A max_visited (length h) = false -> bt_is_match_anchored W A max_visited st h = (Done false, st).
Proof. exact Backtrack.bt_is_match_anchored_declines. Qed.
Print Assumptions C13_bt_is_match_anchored_declines.

(* ---- C13: history independence *)
Theorem C13_bt_search_history_independent : forall (W : N), (2 <= W)%N -> forall (A : nfa) (max_visited : nat),
  wf_nfa A = true -> forall (st st' : bstate) (h : hay) (at_ : nat),
  bt_inv W st -> bt_inv W st' -> longest st = longest st' ->
  fst (bt_search_at W A max_visited st h at_) = fst (bt_search_at W A max_visited st' h at_).
Proof. exact Backtrack.bt_search_history_independent. Qed.
Print Assumptions C13_bt_search_history_independent.

Theorem C13_bt_is_match_history_independent : forall (W : N), (2 <= W)%N -> forall (A : nfa) (max_visited : nat),
  wf_nfa A = true -> forall (st st' : bstate) (h : hay),
  bt_inv W st -> bt_inv W st' ->
  fst (bt_is_match W A max_visited st h) = fst (bt_is_match W A max_visited st' h).
Proof. exact Backtrack.bt_is_match_history_independent. Qed.
Print Assumptions C13_bt_is_match_history_independent.

Theorem C13_bt_is_match_anchored_history_independent : forall (W : N), (2 <= W)%N -> forall (A : nfa) (max_visited : nat),
  wf_nfa A = true -> forall (st st' : bstate) (h : hay),
  bt_inv W st -> bt_inv W st' ->
  fst (bt_is_match_anchored W A max_visited st h) = fst (bt_is_match_anchored W A max_visited st' h).
Proof. exact Backtrack.bt_is_match_anchored_history_independent. Qed.
Print Assumptions C13_bt_is_match_anchored_history_independent.

(* after ANY sequence of calls on one state, a call returns what it returns on a fresh state *)
Theorem C13_bt_history_independent : forall (W : N), (2 <= W)%N -> forall (A : nfa) (max_visited : nat),
  wf_nfa A = true -> forall (calls : list call) (c : call),
  fst (run_call W A max_visited (run_calls W A max_visited bt_fresh calls) c) =
  fst (run_call W A max_visited bt_fresh c).
Proof. exact Backtrack.bt_history_independent. Qed.
Print Assumptions C13_bt_history_independent.

(* ... in particular at the width of the Go counter *)
Theorem C13_bt_history_independent_16 : forall (A : nfa) (max_visited : nat),
  wf_nfa A = true -> forall (calls : list call) (c : call),
  fst (run_call W16 A max_visited (run_calls W16 A max_visited bt_fresh calls) c) =
  fst (run_call W16 A max_visited bt_fresh c).
Proof. exact (Backtrack.bt_history_independent W16 Backtrack.HW16). Qed.
Print Assumptions C13_bt_history_independent_16.

(* the result is the state-free function call_ref of the pattern, the mode and the arguments *)
Theorem C13_bt_call_is_function_of_arguments : forall (W : N), (2 <= W)%N -> forall (A : nfa) (max_visited : nat),
  wf_nfa A = true -> forall (st : bstate) (c : call),
  bt_inv W st ->
  fst (run_call W A max_visited st c) = call_ref A max_visited c /\
  bt_inv W (snd (run_call W A max_visited st c)) /\
  length (cells (snd (run_call W A max_visited st c))) =
    Nat.max (length (cells st)) (call_need A max_visited c).
Proof. exact Backtrack.run_call_spec. Qed.
Print Assumptions C13_bt_call_is_function_of_arguments.

(* the wrap code before the repair (clear Visited[:len] only) violates it *)
Theorem C13_bt_wrap_refuted_original :
  exists (A : nfa) (calls : list call) (c : call),
    wf_nfa A = true /\
    fst (run_call_g 4 A 1000 true (run_calls_g 4 A 1000 true bt_fresh calls) c) = RSpan (Done (Some (1, 4))) /\
    fst (run_call_g 4 A 1000 true bt_fresh c) = RSpan (Done (Some (0, 4))) /\
    fst (run_call 4 A 1000 (run_calls 4 A 1000 bt_fresh calls) c) = RSpan (Done (Some (0, 4))).
Proof. exact Backtrack.bt_wrap_refuted_original. Qed.
Print Assumptions C13_bt_wrap_refuted_original.

Theorem C13_bt_wrap_refuted_original_16 :
  let c0 := CSearchAt false [120; 97; 97; 98]%N 0 in
  let st1 := snd (run_call_g W16 nfa_aplusb 1000 true bt_fresh c0) in
  fst (run_call_g W16 nfa_aplusb 1000 true (age16 true nfa_aplusb 65534 st1) wrap_final) = RSpan (Done (Some (1, 4))) /\
  fst (run_call_g W16 nfa_aplusb 1000 true bt_fresh wrap_final) = RSpan (Done (Some (0, 4))) /\
  let st1' := snd (run_call W16 nfa_aplusb 1000 bt_fresh c0) in
  fst (run_call W16 nfa_aplusb 1000 (age16 false nfa_aplusb 65534 st1') wrap_final) = RSpan (Done (Some (0, 4))).
Proof. exact Backtrack.bt_wrap_refuted_original_16. Qed.
Print Assumptions C13_bt_wrap_refuted_original_16.

(* ---- C05 (part): cells written (successful shouldVisit calls) *)
Theorem C13_bt_is_match_visits_bound : forall (W : N), (2 <= W)%N -> forall (A : nfa) (max_visited : nat),
  wf_nfa A = true -> forall (st : bstate) (h : hay),
  bt_inv W st ->
  writes (snd (bt_is_match W A max_visited st h)) <= writes st + nstates A * (length h + 1).
Proof. exact Backtrack.bt_is_match_visits_bound. Qed.
Print Assumptions C13_bt_is_match_visits_bound.

Theorem C13_bt_start_visits_bound : forall (W : N), (2 <= W)%N -> forall (A : nfa),
  wf_nfa A = true -> forall (st : bstate) (h : hay) (lo s : nat),
  bt_ok A h lo st -> bt_inv W st -> bt_empty st -> lo <= s <= length h ->
  writes (snd (one_search A h (fuel_for A h) s st)) <= writes st + nstates A * (length h - lo + 1).
Proof. exact Backtrack.bt_start_visits_bound. Qed.
Print Assumptions C13_bt_start_visits_bound.

Theorem C13_bt_search_visits_bound : forall (W : N), (2 <= W)%N -> forall (A : nfa) (max_visited : nat),
  wf_nfa A = true -> forall (st : bstate) (h : hay) (at_ : nat),
  bt_inv W st ->
  writes (snd (bt_search_at W A max_visited st h at_)) <=
  writes st + (length h - at_ + 1) * (nstates A * (length h - at_ + 1)).
Proof. exact Backtrack.bt_search_visits_bound. Qed.
Print Assumptions C13_bt_search_visits_bound.

(* observation on two sizes, not a theorem about all n: SearchAtWithState is quadratic on
   a*b against a^n (3(n+1)(n+2)/2 cells), IsMatchWithState is linear (3(n+1)) *)
Theorem C13_bt_search_quadratic_witness :
  3 * search_writes 16 < search_writes 32 /\ 3 * search_writes 32 < search_writes 64 /\
  is_match_writes 64 <= 2 * is_match_writes 32 + 4 /\
  search_writes 64 = 3 * (65 * 66 / 2) /\ is_match_writes 64 = 3 * 65.
Proof. exact Backtrack.bt_search_quadratic_witness. Qed.
Print Assumptions C13_bt_search_quadratic_witness.

(* ---- C20 (part): the visited table never exceeds its cap *)
Theorem C13_visited_cap_bound : forall (W : N), (2 <= W)%N -> forall (A : nfa) (max_visited : nat),
  wf_nfa A = true -> forall (cs : list call) (st : bstate),
  bt_inv W st -> length (cells st) <= max_visited ->
  length (cells (run_calls W A max_visited st cs)) <= max_visited.
Proof. exact Backtrack.visited_cap_bound. Qed.
Print Assumptions C13_visited_cap_bound.

Theorem C13_visited_cap_exact : forall (W : N), (2 <= W)%N -> forall (A : nfa) (max_visited : nat),
  wf_nfa A = true -> forall (cs : list call) (st : bstate),
  bt_inv W st ->
  length (cells (run_calls W A max_visited st cs)) =
  fold_left (fun m c => Nat.max m (call_need A max_visited c)) cs (length (cells st)).
Proof. exact Backtrack.visited_cap_exact. Qed.
Print Assumptions C13_visited_cap_exact.
