(* Replace.v -- property C08: Replace*, Expand* and Split of /repo/regex.go produce
   what Go's regexp produces.

   Contents
     1. UTF-8 decoding exactly as unicode/utf8.DecodeRune (rune value and width)
     2. the template language: word runes, names, Go's [extract]
     3. [expand_scan_std]   Gallina copy of regexp.go:expand + extract
        [expand_spec]       declarative reading: tokenise, then concatenate
        [expand_scan_std_eq_spec]
     4. [expand_cx]         model of the current /repo/regex.go:expand + extract (after fix
                            6e1b8e6), = std for all inputs;
        [expand_original]   the code before that fix, refuted
     5. replace loops: [std_replace_all] (regexp.replaceAll); [cx_replace_loop],
        [cx_ReplaceAll*] the current loops (after fix 407f360: emptyMatchStep), = std;
        [replace_loop_original], [ReplaceAll*_original] the byte-stepping loops, refuted
     6. Split: [std_split]; [cx_split] the current code (after fix 0455b8d), = std;
        [split_original], refuted
     7. case checker for the correspondence run (harness c08)

   "original" always means: the code of /repo before the fixes 6e1b8e6 (expand),
   0455b8d (Split), 407f360 (step after an empty match).  The [_refuted] lemmas about
   the original code are kept as the record of what was wrong.

   Conventions: bytes are N, texts list N, a match is a list Z with two entries per
   group (-1 = unset), names is SubexpNames() as list (list N).

   unicode.IsLetter / unicode.IsDigit above U+007F are a parameter [uni] of every
   definition and theorem (the theorems hold for every table); the checker
   instantiates it with [go_uni_word], generated from Go 1.25.4 (Unicode 15.0.0). *)

From Coq Require Import List NArith ZArith Lia Bool Arith.
From Coq Require Import ZifyBool ZifyNat ZifyN.
Import ListNotations.
Open Scope N_scope.

(* ------------------------------------------------------------------------- *)
(** * 0. Small list facts                                                      *)
(* ------------------------------------------------------------------------- *)

Lemma skipn_add : forall (A : Type) (a b : nat) (l : list A),
  skipn (a + b) l = skipn b (skipn a l).
Proof.
  intros A a; induction a as [|a IH]; intros b l; [reflexivity|].
  destruct l as [|x l]; cbn [Nat.add skipn].
  - now rewrite skipn_nil.
  - apply IH.
Qed.

Fixpoint list_eqb (a b : list N) : bool :=
  match a, b with
  | [], [] => true
  | x :: a', y :: b' => (x =? y) && list_eqb a' b'
  | _, _ => false
  end.

Lemma list_eqb_eq : forall a b, list_eqb a b = true <-> a = b.
Proof.
  induction a as [|x a IH]; intros [|y b]; cbn [list_eqb]; split; intro H;
    try reflexivity; try discriminate.
  - apply andb_true_iff in H as [H1 H2]. apply N.eqb_eq in H1. apply IH in H2. congruence.
  - inversion H; subst. rewrite N.eqb_refl. cbn. now apply IH.
Qed.

Fixpoint lists_eqb (a b : list (list N)) : bool :=
  match a, b with
  | [], [] => true
  | x :: a', y :: b' => list_eqb x y && lists_eqb a' b'
  | _, _ => false
  end.

Definition in_rng (lo hi b : N) : bool := (lo <=? b) && (b <=? hi).

Definition zlen {A : Type} (l : list A) : Z := Z.of_nat (length l).
Definition zget (m : list Z) (i : nat) : Z := nth i m (-1)%Z.

(* ------------------------------------------------------------------------- *)
(** * 1. unicode/utf8.DecodeRune                                               *)
(* ------------------------------------------------------------------------- *)

(* unicode/utf8/utf8.go: first[256] and acceptRanges[]: for a leading byte, the
   sequence length and the accepted range of the second byte; None = as/xx entries
   handled by the callers (ASCII is tested before). *)
Definition lead_class (b0 : N) : option (nat * N * N) :=
  if in_rng 194 223 b0 then Some (2%nat, 128, 191)
  else if b0 =? 224 then Some (3%nat, 160, 191)
  else if in_rng 225 236 b0 then Some (3%nat, 128, 191)
  else if b0 =? 237 then Some (3%nat, 128, 159)
  else if in_rng 238 239 b0 then Some (3%nat, 128, 191)
  else if b0 =? 240 then Some (4%nat, 144, 191)
  else if in_rng 241 243 b0 then Some (4%nat, 128, 191)
  else if b0 =? 244 then Some (4%nat, 128, 143)
  else None.

Definition rune_error : N := 65533.

(* unicode/utf8/utf8.go:DecodeRune (= DecodeRuneInString): (rune, width). *)
Definition decode_rune (p : list N) : N * nat :=
  match p with
  | [] => (rune_error, 0%nat)
  | b0 :: r =>
    if b0 <? 128 then (b0, 1%nat)
    else match lead_class b0 with
    | None => (rune_error, 1%nat)
    | Some (sz, lo, hi) =>
      match r with
      | [] => (rune_error, 1%nat)
      | b1 :: r1 =>
        if negb (in_rng lo hi b1) then (rune_error, 1%nat)
        else match sz with
        | 2%nat => ((b0 mod 32) * 64 + b1 mod 64, 2%nat)
        | _ =>
          match r1 with
          | [] => (rune_error, 1%nat)
          | b2 :: r2 =>
            if negb (in_rng 128 191 b2) then (rune_error, 1%nat)
            else match sz with
            | 3%nat => ((b0 mod 16) * 4096 + (b1 mod 64) * 64 + b2 mod 64, 3%nat)
            | _ =>
              match r2 with
              | [] => (rune_error, 1%nat)
              | b3 :: _ =>
                if negb (in_rng 128 191 b3) then (rune_error, 1%nat)
                else ((b0 mod 8) * 262144 + (b1 mod 64) * 4096 + (b2 mod 64) * 64 + b3 mod 64, 4%nat)
              end
            end
          end
        end
      end
    end
  end.

Definition decode_width (p : list N) : nat := snd (decode_rune p).

Lemma decode_width_bounds : forall p,
  (decode_width p <= length p)%nat /\ (p <> [] -> 1 <= decode_width p)%nat.
Proof.
  intros p. unfold decode_width, decode_rune.
  repeat match goal with
  | |- context [match ?x with _ => _ end] => destruct x
  end; cbn [snd length]; (split; [lia|intros; try congruence; lia]).
Qed.

Lemma decode_width_le : forall p, (decode_width p <= length p)%nat.
Proof. intro p. apply decode_width_bounds. Qed.

Lemma decode_width_pos : forall p, p <> [] -> (1 <= decode_width p)%nat.
Proof. intro p. apply decode_width_bounds. Qed.

(* sanity: the four encodings of 'a', U+00E9, U+4E16, U+1F600 and three malformed inputs *)
Example decode_examples :
  map decode_rune [[97]; [195;169]; [228;184;150]; [240;159;152;128];
                   [255]; [195]; [237;160;128]; [192;128]; [228;184]]
  = [(97, 1%nat); (233, 2%nat); (19990, 3%nat); (128512, 4%nat);
     (rune_error, 1%nat); (rune_error, 1%nat); (rune_error, 1%nat); (rune_error, 1%nat);
     (rune_error, 1%nat)].
Proof. reflexivity. Qed.

(* ------------------------------------------------------------------------- *)
(** * 2. Names in templates; Go's extract                                      *)
(* ------------------------------------------------------------------------- *)

Section Expand.
Variable uni : N -> bool.   (* unicode.IsLetter(r) || unicode.IsDigit(r) for r >= 128 *)

(* regexp.go:extract: !unicode.IsLetter(rune) && !unicode.IsDigit(rune) && rune != '_' *)
Definition is_word_rune (r : N) : bool :=
  if r <? 128 then in_rng 48 57 r || in_rng 65 90 r || in_rng 97 122 r || (r =? 95)
  else uni r.

(* regexp.go:extract, the loop
     i := 0; for i < len(str) { rune, size := utf8.DecodeRuneInString(str[i:]);
                                if !word(rune) { break }; i += size }
   returns i.  Fuel: one unit per rune; [length l] always suffices (name_len_fuel). *)
Fixpoint name_len (fuel : nat) (l : list N) : nat :=
  match fuel with
  | O => O
  | S f =>
    match l with
    | [] => O
    | _ :: _ =>
      if is_word_rune (fst (decode_rune l))
      then (decode_width l + name_len f (skipn (decode_width l) l))%nat
      else O
    end
  end.

Definition word_prefix_len (l : list N) : nat := name_len (length l) l.

Lemma name_len_le : forall fuel l, (name_len fuel l <= length l)%nat.
Proof.
  induction fuel as [|f IH]; intros l; cbn [name_len]; [lia|].
  destruct l as [|c l']; [cbn; lia|].
  destruct (is_word_rune _); [|lia].
  set (w := decode_width (c :: l')).
  pose proof (decode_width_le (c :: l')) as Hw. fold w in Hw.
  specialize (IH (skipn w (c :: l'))). rewrite skipn_length in IH. lia.
Qed.

Lemma name_len_fuel : forall f1 f2 l, (length l <= f1)%nat -> (length l <= f2)%nat ->
  name_len f1 l = name_len f2 l.
Proof.
  induction f1 as [|f1 IH]; intros f2 l H1 H2.
  - destruct l; [|cbn in H1; lia]. destruct f2; reflexivity.
  - destruct f2 as [|f2].
    + destruct l; [reflexivity|cbn in H2; lia].
    + cbn [name_len]. destruct l as [|c l']; [reflexivity|].
      destruct (is_word_rune _); [|reflexivity].
      f_equal. apply IH; rewrite skipn_length;
        pose proof (decode_width_pos (c :: l') ltac:(discriminate)); cbn [length] in *; lia.
Qed.

(* regexp.go:extract, "Parse number" loop:
     num = 0; for i := 0; i < len(name); i++ {
       if name[i] < '0' || '9' < name[i] || num >= 1e8 { num = -1; break }
       num = num*10 + int(name[i]) - '0' } *)
Fixpoint parse_num_loop (name : list N) (num : Z) : Z :=
  match name with
  | [] => num
  | c :: r =>
    if (c <? 48) || (57 <? c) || (100000000 <=? num)%Z then (-1)%Z
    else parse_num_loop r (num * 10 + Z.of_N c - 48)%Z
  end.

(* regexp.go:extract, from "Parse number" to "Disallow leading zeros" *)
Definition go_num (name : list N) : Z :=
  if (hd 0 name =? 48) && (1 <? length name)%nat then (-1)%Z else parse_num_loop name 0%Z.

(* regexp.go:extract.  None = !ok; Some (name, num, rest). *)
Definition extract (str : list N) : option (list N * Z * list N) :=
  match str with
  | [] => None
  | c0 :: tl =>
    let brace := c0 =? 123 in
    let str' := if brace then tl else str in
    let i := word_prefix_len str' in
    if (i =? 0)%nat then None                           (* empty name is not okay *)
    else
      let name := firstn i str' in
      let num := go_num name in
      if brace then
        match skipn i str' with
        | c :: rest => if c =? 125 then Some (name, num, rest) else None
        | [] => None                                     (* missing closing brace *)
        end
      else Some (name, num, skipn i str')
  end.

(* ------------------------------------------------------------------------- *)
(** * 3. stdlib's scanner and the declarative specification                    *)
(* ------------------------------------------------------------------------- *)

Variable src : list N.
Variable m : list Z.
Variable names : list (list N).

(* Go's src[a:b] *)
Definition slice (a b : Z) : list N := skipn (Z.to_nat a) (firstn (Z.to_nat b) src).

(* regexp.go:expand
     if 2*num+1 < len(match) && match[2*num] >= 0 { dst = append(dst, src[match[2*num]:match[2*num+1]]...) }
   (nested ifs rather than && so that vm_compute never converts a huge num to nat) *)
Definition group_bytes (num : Z) : list N :=
  if (2 * num + 1 <? zlen m)%Z then
    if (0 <=? zget m (Z.to_nat (2 * num)))%Z
    then slice (zget m (Z.to_nat (2 * num))) (zget m (Z.to_nat (2 * num + 1)))
    else []
  else [].

(* regexp.go:expand
     for i, namei := range re.subexpNames {
       if name == namei && 2*i+1 < len(match) && match[2*i] >= 0 { append ...; break } } *)
Fixpoint name_lookup (name : list N) (nms : list (list N)) (i : nat) : list N :=
  match nms with
  | [] => []
  | nm :: rest =>
    if list_eqb name nm && (2 * i + 1 <? length m)%nat && (0 <=? zget m (2 * i))%Z
    then slice (zget m (2 * i)) (zget m (2 * i + 1))
    else name_lookup name rest (S i)
  end.

(* strings.Cut(template, "$") *)
Fixpoint cut_dollar (t : list N) : option (list N * list N) :=
  match t with
  | [] => None
  | c :: r =>
    if c =? 36 then Some ([], r)
    else match cut_dollar r with
         | None => None
         | Some (b, a) => Some (c :: b, a)
         end
  end.

(* regexp.go:expand, the loop; returns what is appended to dst.  Every iteration
   shortens the template, fuel [S (length template)] never runs out. *)
Fixpoint expand_std_loop (fuel : nat) (t : list N) : list N :=
  match fuel with
  | O => []
  | S f =>
    match cut_dollar t with
    | None => t                                    (* break; dst = append(dst, template...) *)
    | Some (before, after) =>
      before ++
      match after with
      | c :: after' =>
        if c =? 36 then 36 :: expand_std_loop f after'       (* Treat $$ as $. *)
        else match extract after with
             | None => 36 :: expand_std_loop f after         (* Malformed; treat $ as raw text. *)
             | Some (name, num, rest) =>
               (if (0 <=? num)%Z then group_bytes num else name_lookup name names 0)
               ++ expand_std_loop f rest
             end
      | [] => 36 :: expand_std_loop f after                  (* extract("") is !ok *)
      end
    end
  end.

Definition expand_scan_std (dst tmpl : list N) : list N :=
  dst ++ expand_std_loop (S (length tmpl)) tmpl.

(* ---- the declarative side ---- *)

Inductive tok : Type :=
| TLit (bs : list N)      (* literal bytes *)
| TGroup (n : Z)          (* $n / ${n}: purely numeric name *)
| TName (s : list N).     (* $name / ${name} *)

Definition all_digits (s : list N) : bool := forallb (in_rng 48 57) s.
Definition dec_value (s : list N) : Z :=
  fold_left (fun a c => (a * 10 + (Z.of_N c - 48))%Z) s 0%Z.

(* "A purely numeric name like $1 refers to the submatch with the corresponding
   index".  What regexp implements: decimal digits only, no leading zero ("01" is
   a name, "0" is a number), at most nine digits (a longer digit string is looked up
   as a group *name*; (?P<1234567890>x) is a legal group name). *)
Definition numeric_name (s : list N) : bool :=
  all_digits s && (length s <=? 9)%nat && negb ((hd 0 s =? 48) && (1 <? length s)%nat).

Definition tok_of_name (s : list N) : tok :=
  if numeric_name s then TGroup (dec_value s) else TName s.

(* Tokens of a template, one pass, left to right; [skip] = number of bytes still to be
   ignored because they belong to the token just emitted.
     $$            -> "$"
     ${name}       -> variable, name = the longest run of letters, digits, _ ; must be
                      non-empty and directly followed by }
     $name         -> variable, name as long as possible, non-empty
     any other $   -> the byte "$"
     other bytes   -> themselves *)
Fixpoint tokenise (t : list N) (skip : nat) : list tok :=
  match t with
  | [] => []
  | c :: t' =>
    match skip with
    | S k => tokenise t' k
    | O =>
      if c =? 36 then
        match t' with
        | [] => [TLit [36]]
        | d :: body =>
          if d =? 36 then TLit [36] :: tokenise t' 1
          else if d =? 123 then
            let n := word_prefix_len body in
            if (0 <? n)%nat && (hd 0 (skipn n body) =? 125)
            then tok_of_name (firstn n body) :: tokenise t' (n + 2)
            else TLit [36] :: tokenise t' 0
          else
            let n := word_prefix_len t' in
            if (0 <? n)%nat then tok_of_name (firstn n t') :: tokenise t' n
            else TLit [36] :: tokenise t' 0
        end
      else TLit [c] :: tokenise t' 0
    end
  end.

(* the text of group i: start + length reading *)
Definition sub (a b : Z) : list N := firstn (Z.to_nat (b - a)) (skipn (Z.to_nat a) src).

Definition group_set (i : nat) : bool :=
  (2 * i + 1 <? length m)%nat && (0 <=? zget m (2 * i))%Z.

Definition group_text (i : nat) : list N :=
  if group_set i then sub (zget m (2 * i)) (zget m (2 * i + 1)) else [].

(* "A reference to an out of range or unmatched index or a name that is not present
   in the regular expression is replaced with an empty slice."  A name refers to the
   first *matched* group carrying it. *)
Definition expand_tok (t : tok) : list N :=
  match t with
  | TLit bs => bs
  | TGroup n => if (n <? zlen m)%Z then group_text (Z.to_nat n) else []
  | TName s =>
    match find (fun p => list_eqb s (snd p) && group_set (fst p))
               (combine (seq 0 (length names)) names) with
    | Some p => group_text (fst p)
    | None => []
    end
  end.

Definition expand_spec (dst tmpl : list N) : list N :=
  dst ++ flat_map expand_tok (tokenise tmpl 0).

(* each group is (-1,-1) or 0 <= s <= e <= len src: the domain on which Go's slice
   expressions do not panic *)
Definition wf_pairb (i : nat) : bool :=
  ((zget m (2 * i) =? -1)%Z && (zget m (2 * i + 1) =? -1)%Z)
  || ((0 <=? zget m (2 * i))%Z && (zget m (2 * i) <=? zget m (2 * i + 1))%Z
      && (zget m (2 * i + 1) <=? zlen src)%Z).
Definition wf_matchb : bool := forallb wf_pairb (seq 0 (length m / 2)).
Definition wf_match : Prop :=
  forall i, (2 * i + 1 < length m)%nat ->
    (zget m (2 * i) = -1 /\ zget m (2 * i + 1) = -1)%Z
    \/ (0 <= zget m (2 * i) <= zget m (2 * i + 1) /\ zget m (2 * i + 1) <= zlen src)%Z.

Lemma wf_matchb_ok : wf_matchb = true -> wf_match.
Proof.
  unfold wf_matchb, wf_match. intros H i Hi.
  rewrite forallb_forall in H.
  assert (Hin : In i (seq 0 (length m / 2))).
  { apply in_seq. split; [lia|]. cbn.
    apply Nat.div_le_lower_bound with (b := 2%nat) (q := S i); lia. }
  specialize (H i Hin). unfold wf_pairb in H. lia.
Qed.

(* ---- scanner = specification ---- *)

Lemma tokenise_skip : forall t k, tokenise t k = tokenise (skipn k t) 0.
Proof.
  induction t as [|c t IH]; intros k.
  - now rewrite skipn_nil.
  - destruct k as [|k]; [reflexivity|]. cbn [tokenise skipn]. apply IH.
Qed.

Lemma cut_dollar_some : forall t b a, cut_dollar t = Some (b, a) ->
  t = b ++ 36 :: a /\ Forall (fun c => (c =? 36) = false) b.
Proof.
  induction t as [|c t IH]; intros b a H; cbn [cut_dollar] in H; [discriminate|].
  destruct (c =? 36) eqn:E.
  - inversion H; subst. apply N.eqb_eq in E. subst. split; [reflexivity|constructor].
  - destruct (cut_dollar t) as [[b' a']|]; [|discriminate].
    inversion H; subst. destruct (IH b' a eq_refl) as [-> HF].
    split; [reflexivity|]. constructor; assumption.
Qed.

Lemma cut_dollar_none : forall t, cut_dollar t = None -> Forall (fun c => (c =? 36) = false) t.
Proof.
  induction t as [|c t IH]; intros H; cbn [cut_dollar] in H; [constructor|].
  destruct (c =? 36) eqn:E; [discriminate|].
  destruct (cut_dollar t) as [[b' a']|]; [discriminate|].
  constructor; auto.
Qed.

Lemma tokenise_lits : forall b r, Forall (fun c => (c =? 36) = false) b ->
  flat_map expand_tok (tokenise (b ++ r) 0) = b ++ flat_map expand_tok (tokenise r 0).
Proof.
  induction b as [|c b IH]; intros r HF; [reflexivity|].
  inversion HF as [|? ? Hc HF']; subst.
  cbn [app tokenise]. rewrite Hc. cbn [flat_map expand_tok app]. f_equal. now apply IH.
Qed.

(* the number parser *)
Fixpoint pow10 (j : nat) : Z := match j with O => 1%Z | S j' => (10 * pow10 j')%Z end.

Lemma pow10_pos : forall j, (0 < pow10 j)%Z.
Proof. induction j; cbn [pow10]; lia. Qed.

Lemma pow10_mono : forall i j, (i <= j)%nat -> (pow10 i <= pow10 j)%Z.
Proof.
  intros i j H. induction H as [|j H IH]; [lia|]. cbn [pow10]. pose proof (pow10_pos j). lia.
Qed.

Lemma pow10_8 : pow10 8 = 100000000%Z.
Proof. reflexivity. Qed.

Lemma fold_dec_shift : forall s a,
  fold_left (fun a c => (a * 10 + (Z.of_N c - 48))%Z) s a
  = parse_num_loop [] (fold_left (fun a c => (a * 10 + (Z.of_N c - 48))%Z) s a).
Proof. reflexivity. Qed.

(* digits only, num < 10^j, j + |s| <= 9: the guard never fires *)
Lemma parse_num_digits : forall s num j,
  all_digits s = true -> (0 <= num < pow10 j)%Z -> (j + length s <= 9)%nat ->
  parse_num_loop s num = fold_left (fun a c => (a * 10 + (Z.of_N c - 48))%Z) s num
  /\ (0 <= parse_num_loop s num)%Z.
Proof.
  induction s as [|c s IH]; intros num j Hd Hn Hj; cbn [parse_num_loop fold_left].
  - split; [reflexivity|lia].
  - cbn [all_digits forallb] in Hd. apply andb_true_iff in Hd as [Hc Hd].
    unfold in_rng in Hc. cbn [length] in Hj.
    assert (Hp : (pow10 j <= pow10 8)%Z) by (apply pow10_mono; lia).
    rewrite pow10_8 in Hp.
    replace ((c <? 48) || (57 <? c) || (100000000 <=? num)%Z) with false by lia.
    replace (num * 10 + Z.of_N c - 48)%Z with (num * 10 + (Z.of_N c - 48))%Z by lia.
    apply (IH _ (S j)); [exact Hd| cbn [pow10]; lia | lia].
Qed.

(* a non-digit anywhere gives -1 *)
Lemma parse_num_nondigit : forall s num, all_digits s = false -> parse_num_loop s num = (-1)%Z.
Proof.
  induction s as [|c s IH]; intros num Hd; cbn [all_digits forallb] in Hd; [discriminate|].
  cbn [parse_num_loop].
  destruct ((c <? 48) || (57 <? c) || (100000000 <=? num)%Z) eqn:E; [reflexivity|].
  apply IH. apply andb_false_iff in Hd as [Hd|Hd]; [unfold in_rng in Hd; exfalso; lia|exact Hd].
Qed.

(* 10^j <= num, j <= 8 and at least 9 - j more characters: the guard fires (or a
   non-digit is met) *)
Lemma parse_num_long : forall s num j,
  (pow10 j <= num)%Z -> (j <= 8)%nat -> (9 <= j + length s)%nat ->
  parse_num_loop s num = (-1)%Z.
Proof.
  induction s as [|c s IH]; intros num j Hn Hj8 H9; [cbn [length] in H9; lia|].
  cbn [parse_num_loop].
  destruct ((c <? 48) || (57 <? c) || (100000000 <=? num)%Z) eqn:E; [reflexivity|].
  cbn [length] in H9.
  destruct (Nat.eq_dec j 8) as [->|Hj].
  - rewrite pow10_8 in Hn. exfalso. lia.
  - apply (IH _ (S j)); [cbn [pow10]; lia|lia|lia].
Qed.

Lemma go_num_spec : forall name, name <> [] ->
  let num := if (hd 0 name =? 48) && (1 <? length name)%nat then (-1)%Z
             else parse_num_loop name 0%Z in
  if numeric_name name then num = dec_value name /\ (0 <= num)%Z else num = (-1)%Z.
Proof.
  intros name Hne num. subst num. unfold numeric_name.
  destruct ((hd 0 name =? 48) && (1 <? length name)%nat) eqn:Hz.
  - rewrite andb_false_r. reflexivity.
  - rewrite andb_true_r.
    destruct (all_digits name) eqn:Hd; cbn [andb].
    + destruct (length name <=? 9)%nat eqn:Hl.
      * apply (parse_num_digits name 0%Z 0%nat Hd); cbn [pow10]; lia.
      * (* ten or more digits, first digit not 0 *)
        destruct name as [|c s]; [congruence|].
        cbn [hd length] in *. cbn [all_digits forallb] in Hd. unfold in_rng in Hd.
        cbn [parse_num_loop].
        replace ((c <? 48) || (57 <? c) || (100000000 <=? 0)%Z) with false by lia.
        apply (parse_num_long s _ 0%nat); cbn [pow10]; lia.
    + cbn [andb]. now apply parse_num_nondigit.
Qed.

Lemma slice_sub : forall a b, (0 <= a <= b)%Z -> slice a b = sub a b.
Proof.
  intros a b H. unfold slice, sub.
  rewrite firstn_skipn_comm. do 2 f_equal. lia.
Qed.

Lemma group_bytes_text : wf_match -> forall n, (0 <= n)%Z ->
  group_bytes n = if (n <? zlen m)%Z then group_text (Z.to_nat n) else [].
Proof.
  intros Hwf n Hn. unfold group_bytes, group_text, group_set, zlen.
  destruct (2 * n + 1 <? Z.of_nat (length m))%Z eqn:E1.
  - replace (n <? Z.of_nat (length m))%Z with true by lia.
    replace (2 * Z.to_nat n + 1 <? length m)%nat with true by lia.
    replace (Z.to_nat (2 * n)) with (2 * Z.to_nat n)%nat by lia.
    replace (Z.to_nat (2 * n + 1)) with (2 * Z.to_nat n + 1)%nat by lia.
    cbn [andb].
    destruct (0 <=? zget m (2 * Z.to_nat n))%Z eqn:E2; [|reflexivity].
    apply slice_sub. specialize (Hwf (Z.to_nat n)). lia.
  - destruct (n <? Z.of_nat (length m))%Z; [|reflexivity].
    replace (2 * Z.to_nat n + 1 <? length m)%nat with false by lia. reflexivity.
Qed.

Lemma name_lookup_find : wf_match -> forall name nms i,
  name_lookup name nms i =
  match find (fun p => list_eqb name (snd p) && group_set (fst p))
             (combine (seq i (length nms)) nms) with
  | Some p => group_text (fst p)
  | None => []
  end.
Proof.
  intros Hwf name nms. induction nms as [|nm rest IH]; intros i; [reflexivity|].
  cbn [name_lookup length seq combine find fst snd].
  unfold group_set at 1. rewrite andb_assoc.
  destruct (list_eqb name nm && (2 * i + 1 <? length m)%nat && (0 <=? zget m (2 * i))%Z) eqn:E.
  - apply andb_true_iff in E as [E E3]. apply andb_true_iff in E as [E1 E2].
    unfold group_text, group_set. cbn [fst]. rewrite E2, E3. cbn [andb].
    apply slice_sub. specialize (Hwf i). lia.
  - apply IH.
Qed.

Lemma firstn_nonnil : forall (n : nat) (l : list N), (0 < n)%nat -> (n <= length l)%nat -> firstn n l <> [].
Proof. intros n l H1 H2. destruct n; [lia|]. destruct l; cbn in *; [lia|discriminate]. Qed.

Lemma expand_var : wf_match -> forall name : list N, name <> [] ->
  (if (0 <=? go_num name)%Z then group_bytes (go_num name) else name_lookup name names 0)
  = expand_tok (tok_of_name name).
Proof.
  intros Hwf name Hne. pose proof (go_num_spec name Hne) as H. cbv zeta in H.
  fold (go_num name) in H. unfold tok_of_name. destruct (numeric_name name).
  - destruct H as [Hv Hp]. rewrite Hv in *.
    replace (0 <=? dec_value name)%Z with true by lia.
    cbn [expand_tok]. now apply group_bytes_text.
  - rewrite H. cbn [Z.leb Z.compare expand_tok]. now apply name_lookup_find.
Qed.

Lemma tokenise_dollar_cons : forall d body,
  tokenise (36 :: d :: body) 0 =
  if d =? 36 then TLit [36] :: tokenise (d :: body) 1
  else if d =? 123 then
    let n := word_prefix_len body in
    if (0 <? n)%nat && (hd 0 (skipn n body) =? 125)
    then tok_of_name (firstn n body) :: tokenise (d :: body) (n + 2)
    else TLit [36] :: tokenise (d :: body) 0
  else
    let n := word_prefix_len (d :: body) in
    if (0 <? n)%nat then tok_of_name (firstn n (d :: body)) :: tokenise (d :: body) n
    else TLit [36] :: tokenise (d :: body) 0.
Proof. reflexivity. Qed.

Lemma expand_std_loop_spec : wf_match -> forall fuel t, (length t < fuel)%nat ->
  expand_std_loop fuel t = flat_map expand_tok (tokenise t 0).
Proof.
  intros Hwf. induction fuel as [|f IH]; intros t Hf; [lia|].
  cbn [expand_std_loop].
  destruct (cut_dollar t) as [[before after]|] eqn:Hc.
  2:{ apply cut_dollar_none in Hc.
      rewrite <- (app_nil_r t) at 2. rewrite tokenise_lits by assumption.
      cbn. now rewrite app_nil_r. }
  apply cut_dollar_some in Hc as [-> HF].
  rewrite tokenise_lits by assumption. f_equal.
  rewrite app_length in Hf. cbn [length] in Hf.
  destruct after as [|c after'].
  - cbn. rewrite IH by (cbn; lia). reflexivity.
  - rewrite tokenise_dollar_cons.
    destruct (c =? 36) eqn:E36.
    + cbn [flat_map expand_tok app]. f_equal.
      rewrite tokenise_skip. cbn [skipn]. apply IH. cbn [length] in Hf. lia.
    + unfold extract.
      destruct (c =? 123) eqn:E123.
      * (* ${ *)
        set (n := word_prefix_len after').
        assert (Hn : (n <= length after')%nat) by apply name_len_le.
        destruct (n =? 0)%nat eqn:En.
        { replace (0 <? n)%nat with false by lia. cbn [andb flat_map expand_tok app].
          f_equal. apply IH. lia. }
        replace (0 <? n)%nat with true by lia. cbn [andb].
        destruct (skipn n after') as [|c2 rest] eqn:Esk.
        { cbn [hd]. cbn [N.eqb flat_map expand_tok app]. f_equal. apply IH. lia. }
        cbn [hd]. destruct (c2 =? 125) eqn:E125.
        2:{ cbn [flat_map expand_tok app]. f_equal. apply IH. lia. }
        cbn [flat_map]. rewrite tokenise_skip.
        replace (n + 2)%nat with (1 + (n + 1))%nat by lia.
        cbn [skipn Nat.add]. rewrite skipn_add, Esk. cbn [skipn].
        rewrite (expand_var Hwf) by (apply firstn_nonnil; lia).
        f_equal. apply IH.
        assert (length (skipn n after') = S (length rest)) by (now rewrite Esk).
        rewrite skipn_length in H. cbn [length] in Hf. lia.
      * (* $name *)
        set (n := word_prefix_len (c :: after')).
        assert (Hn : (n <= length (c :: after'))%nat) by apply name_len_le.
        destruct (n =? 0)%nat eqn:En.
        { replace (0 <? n)%nat with false by lia. cbn [flat_map expand_tok app].
          f_equal. apply IH. lia. }
        replace (0 <? n)%nat with true by lia.
        cbn [flat_map]. rewrite tokenise_skip.
        rewrite (expand_var Hwf) by (apply firstn_nonnil; lia).
        f_equal. apply IH. rewrite skipn_length. lia.
Qed.

Theorem expand_scan_std_eq_spec : wf_match -> forall dst tmpl,
  expand_scan_std dst tmpl = expand_spec dst tmpl.
Proof.
  intros Hwf dst tmpl. unfold expand_scan_std, expand_spec. f_equal.
  apply expand_std_loop_spec; [assumption|lia].
Qed.

(* a template without '$' expands to itself: this is what licenses ReplaceAll's
   "no $ in repl -> ReplaceAllLiteral" dispatch in /repo/regex.go *)
Definition has_dollar (t : list N) : bool := existsb (fun c => c =? 36) t.

Lemma expand_no_dollar : forall dst tmpl, has_dollar tmpl = false ->
  expand_scan_std dst tmpl = dst ++ tmpl.
Proof.
  intros dst tmpl H. unfold expand_scan_std. f_equal. cbn [expand_std_loop].
  assert (Hc : cut_dollar tmpl = None).
  { induction tmpl as [|c t IH]; [reflexivity|].
    cbn [has_dollar existsb] in H. apply orb_false_iff in H as [H1 H2].
    cbn [cut_dollar]. rewrite H1. now rewrite (IH H2). }
  now rewrite Hc.
Qed.

(* ------------------------------------------------------------------------- *)
(** * 4. coregex's expand: the original code (refuted) and the current code   *)
(* ------------------------------------------------------------------------- *)

(* ORIGINAL code before fix 6e1b8e6 -- /repo/regex.go:expand as it was.  i walks the
   template:
     template[i] != '$' || i+1 >= len  -> copy the byte
     next in '0'..'9'                  -> group next-'0' (one digit), i += 2
     next == '{'                       -> copy '$', i++     ("not supported yet")
     next == '$'                       -> copy '$', i += 2
     otherwise                         -> copy '$', i++ *)
Fixpoint expand_original_loop (t : list N) : list N :=
  match t with
  | [] => []
  | c :: t' =>
    match t' with
    | [] => [c]
    | next :: t'' =>
      if negb (c =? 36) then c :: expand_original_loop t'
      else if in_rng 48 57 next then group_bytes (Z.of_N next - 48) ++ expand_original_loop t''
      else if next =? 123 then 36 :: expand_original_loop t'
      else if next =? 36 then 36 :: expand_original_loop t''
      else 36 :: expand_original_loop t'
    end
  end.

Definition expand_original (dst tmpl : list N) : list N := dst ++ expand_original_loop tmpl.

(* CURRENT code: /repo/regex.go:expand (commit 6e1b8e6), stdlib's algorithm on byte
   slices, with /repo/regex.go:extract = [extract] above (same statements as regexp's,
   utf8.DecodeRune instead of DecodeRuneInString):
     i := bytes.IndexByte(template, '$'); if i < 0 { break }
     dst = append(dst, template[:i]...); template = template[i+1:]
     if len(template) > 0 && template[0] == '$' { dst = append(dst, '$'); template = template[1:]; continue }
     name, num, rest, ok := extract(template); if !ok { dst = append(dst, '$'); continue }
     template = rest; num >= 0 ? group num : first i with string(name) == SubexpNames()[i], set *)
Fixpoint index_byte (t : list N) (c : N) : option nat :=
  match t with
  | [] => None
  | x :: r => if x =? c then Some O
              else match index_byte r c with Some i => Some (S i) | None => None end
  end.

Fixpoint expand_cx_loop (fuel : nat) (t : list N) : list N :=
  match fuel with
  | O => []
  | S f =>
    match index_byte t 36 with
    | None => t
    | Some i =>
      let after := skipn (S i) t in
      firstn i t ++
      match after with
      | c :: after' =>
        if c =? 36 then 36 :: expand_cx_loop f after'
        else match extract after with
             | None => 36 :: expand_cx_loop f after
             | Some (name, num, rest) =>
               (if (0 <=? num)%Z then group_bytes num else name_lookup name names 0)
               ++ expand_cx_loop f rest
             end
      | [] => 36 :: expand_cx_loop f after
      end
    end
  end.

Definition expand_cx (dst tmpl : list N) : list N :=
  dst ++ expand_cx_loop (S (length tmpl)) tmpl.

Lemma index_byte_cut : forall t,
  cut_dollar t = match index_byte t 36 with
                 | Some i => Some (firstn i t, skipn (S i) t)
                 | None => None
                 end.
Proof.
  induction t as [|c t IH]; [reflexivity|].
  cbn [cut_dollar index_byte]. destruct (c =? 36); [reflexivity|].
  rewrite IH. destruct (index_byte t 36); reflexivity.
Qed.

Lemma expand_cx_loop_eq : forall fuel t, expand_cx_loop fuel t = expand_std_loop fuel t.
Proof.
  induction fuel as [|f IH]; intros t; [reflexivity|].
  cbn [expand_cx_loop expand_std_loop]. rewrite index_byte_cut.
  destruct (index_byte t 36) as [i|]; [|reflexivity].
  f_equal. destruct (skipn (S i) t) as [|c after']; [now rewrite IH|].
  destruct (c =? 36); [now rewrite IH|].
  destruct (extract (c :: after')) as [[[name num] rest]|]; now rewrite IH.
Qed.

Theorem expand_cx_eq_std : forall dst tmpl, expand_cx dst tmpl = expand_scan_std dst tmpl.
Proof. intros. unfold expand_cx, expand_scan_std. now rewrite expand_cx_loop_eq. Qed.

Theorem expand_cx_eq_spec : wf_match -> forall dst tmpl, expand_cx dst tmpl = expand_spec dst tmpl.
Proof. intros Hwf dst tmpl. rewrite expand_cx_eq_std. now apply expand_scan_std_eq_spec. Qed.

End Expand.

(* ---- witnesses against the ORIGINAL expand (before fix 6e1b8e6) ---- *)

Definition no_uni : N -> bool := fun _ => false.

(* pattern (?P<n>a)(b)? on "xaby": match [1,3, 1,2, 2,3], names ["", "n", ""] *)
Definition w_src : list N := [120; 97; 98; 121].
Definition w_m : list Z := [1; 3; 1; 2; 2; 3]%Z.
Definition w_names : list (list N) := [[]; [110]; []].

Ltac refute_expand :=
  split; [apply wf_matchb_ok; reflexivity | vm_compute; discriminate].

(* template  ${n}-$2-$10-$$   std "a-b--$"   coregex "${n}-b-a0-$" *)
Theorem expand_original_refuted : exists uni tmpl src m names,
  wf_match src m /\ expand_original src m [] tmpl <> expand_scan_std uni src m names [] tmpl.
Proof.
  exists no_uni, [36;123;110;125;45;36;50;45;36;49;48;45;36;36], w_src, w_m, w_names.
  refute_expand.
Qed.

(* one witness per distinct deviation *)
(* ${1}: braces are copied literally *)
Theorem expand_original_refuted_brace : exists tmpl,
  wf_match w_src w_m /\ expand_original w_src w_m [] tmpl <> expand_scan_std no_uni w_src w_m w_names [] tmpl.
Proof. exists [36;123;49;125]. refute_expand. Qed.

(* $n: named groups are not looked up *)
Theorem expand_original_refuted_name : exists tmpl,
  wf_match w_src w_m /\ expand_original w_src w_m [] tmpl <> expand_scan_std no_uni w_src w_m w_names [] tmpl.
Proof. exists [36;110]. refute_expand. Qed.

(* $10: read as ${1}0 instead of ${10} *)
Theorem expand_original_refuted_multidigit : exists tmpl,
  wf_match w_src w_m /\ expand_original w_src w_m [] tmpl <> expand_scan_std no_uni w_src w_m w_names [] tmpl.
Proof. exists [36;49;48]. refute_expand. Qed.

(* $1x: read as ${1}x instead of ${1x} *)
Theorem expand_original_refuted_longest_name : exists tmpl,
  wf_match w_src w_m /\ expand_original w_src w_m [] tmpl <> expand_scan_std no_uni w_src w_m w_names [] tmpl.
Proof. exists [36;49;120]. refute_expand. Qed.

(* $01: stdlib treats a leading-zero number as a (missing) name *)
Theorem expand_original_refuted_leading_zero : exists tmpl,
  wf_match w_src w_m /\ expand_original w_src w_m [] tmpl <> expand_scan_std no_uni w_src w_m w_names [] tmpl.
Proof. exists [36;48;49]. refute_expand. Qed.

(* $é with é a letter: a (missing) name for stdlib, literal text for coregex *)
Theorem expand_original_refuted_unicode_name : exists tmpl,
  wf_match w_src w_m /\
  expand_original w_src w_m [] tmpl <> expand_scan_std (fun r => r =? 233) w_src w_m w_names [] tmpl.
Proof. exists [36;195;169]. refute_expand. Qed.

(* ------------------------------------------------------------------------- *)
(** * 5. The replace loops                                                     *)
(* ------------------------------------------------------------------------- *)

Definition mstart (a : list Z) : nat := Z.to_nat (zget a 0).
Definition mend (a : list Z) : nat := Z.to_nat (zget a 1).

Section ReplaceLoops.
Variable h : list N.                              (* src *)
Variable submatch_at : nat -> option (list Z).    (* leftmost match searching from pos *)
Variable repl : list Z -> list N.                 (* what is inserted for a match *)

Definition hlen : nat := length h.
Definition seg (a b : nat) : list N := skipn a (firstn b h).     (* h[a:b] *)

(* regexp.go:replaceAll.  L = lastMatchEnd, P = searchPos.  searchPos grows by at least
   one per iteration, fuel hlen + 2 suffices. *)
Fixpoint std_loop (fuel L P : nat) : list N :=
  match fuel with
  | O => []
  | S f =>
    if (hlen <? P)%nat then skipn L h                       (* for searchPos <= endPos *)
    else match submatch_at P with
    | None => skipn L h                                     (* no more matches *)
    | Some a =>
      seg L (mstart a)
      ++ (if (L <? mend a)%nat || (mstart a =? 0)%nat then repl a else [])
      ++ std_loop f (mend a)
           (if (mend a <? P + decode_width (skipn P h))%nat then (P + decode_width (skipn P h))%nat
            else if (mend a <? P + 1)%nat then (P + 1)%nat
            else mend a)
    end
  end.

Definition std_replace_all : list N := std_loop (S (S hlen)) 0 0.

(* how the loops move past an empty match *)
(* ORIGINAL code before fix 407f360: pos++ / pos = end + 1 *)
Definition step_byte (p : nat) : nat := (p + 1)%nat.
(* CURRENT code, /repo/regex.go:emptyMatchStep (commit 407f360):
     if pos >= len(b) || b[pos] < utf8.RuneSelf { return 1 }
     _, size := utf8.DecodeRune(b[pos:]); return size
   used as pos = pos + emptyMatchStep(src, pos) and pos = end + emptyMatchStep(src, end) *)
Definition empty_match_step (p : nat) : nat :=
  if (hlen <=? p)%nat || (nth p h 0 <? 128) then 1%nat else decode_width (skipn p h).
Definition step_cx (p : nat) : nat := (p + empty_match_step p)%nat.
(* the same thing said in one line: one rune, or one byte at the end *)
Definition step_rune (p : nat) : nat :=
  if (p <? hlen)%nat then (p + decode_width (skipn p h))%nat else (p + 1)%nat.

Lemma skipn_nth_cons : forall (p : nat) (l : list N), (p < length l)%nat ->
  skipn p l = nth p l 0 :: skipn (S p) l.
Proof using Type.
  clear h submatch_at repl.
  induction p as [|p IH]; intros l Hp; destruct l as [|x l]; cbn [length] in Hp; try lia.
  - reflexivity.
  - cbn [skipn nth]. rewrite IH by lia. reflexivity.
Qed.

Lemma step_cx_eq : forall p, step_cx p = step_rune p.
Proof using Type.
  clear submatch_at repl.
  intros p. unfold step_cx, empty_match_step, step_rune.
  destruct (p <? hlen)%nat eqn:E.
  - replace (hlen <=? p)%nat with false by lia. cbn [orb].
    destruct (nth p h 0 <? 128) eqn:Ea; [|reflexivity].
    rewrite (skipn_nth_cons p h) by (unfold hlen in E; lia).
    unfold decode_width, decode_rune. rewrite Ea. reflexivity.
  - replace (hlen <=? p)%nat with true by lia. reflexivity.
Qed.

(* /repo/regex.go:ReplaceAll, the loop ($-template path), parametric in the step so that
   the current and the original code share the text.  LN = lastNonEmptyMatchEnd.
   The Go code tests pos > len(src) after each update; pos starts at 0, so testing at
   the loop head is the same. *)
Fixpoint cx_loop (step : nat -> nat) (fuel lastEnd pos : nat) (LN : Z) : list N :=
  match fuel with
  | O => []
  | S f =>
    if (hlen <? pos)%nat then skipn lastEnd h
    else match submatch_at pos with
    | None => skipn lastEnd h
    | Some a =>
      if (mstart a =? mend a)%nat && (Z.of_nat (mstart a) =? LN)%Z
      then cx_loop step f lastEnd (step pos) LN
      else
        seg lastEnd (mstart a) ++ repl a
        ++ cx_loop step f (mend a)
             (if (mstart a =? mend a)%nat then step (mend a)
              else if (pos <? mend a)%nat then mend a else (pos + 1)%nat)
             (if (mstart a =? mend a)%nat then LN else Z.of_nat (mend a))
    end
  end.

(* /repo/regex.go:ReplaceAllLiteral, ReplaceAllFunc (and the String variants): the
   same loop with the lazily allocated result; with no match at all a copy of src (the
   String variants return src itself) *)
Fixpoint cx_loop_m (step : nat -> nat) (fuel lastEnd pos : nat) (LN : Z) (matched : bool) : list N :=
  match fuel with
  | O => []
  | S f =>
    if (hlen <? pos)%nat then (if matched then skipn lastEnd h else h)
    else match submatch_at pos with
    | None => if matched then skipn lastEnd h else h
    | Some a =>
      if (mstart a =? mend a)%nat && (Z.of_nat (mstart a) =? LN)%Z
      then cx_loop_m step f lastEnd (step pos) LN matched
      else
        seg lastEnd (mstart a) ++ repl a
        ++ cx_loop_m step f (mend a)
             (if (mstart a =? mend a)%nat then step (mend a)
              else if (pos <? mend a)%nat then mend a else (pos + 1)%nat)
             (if (mstart a =? mend a)%nat then LN else Z.of_nat (mend a))
             true
    end
  end.

Lemma cx_loop_m_eq : forall step fuel lastEnd pos LN matched,
  (matched = false -> lastEnd = 0%nat) ->
  cx_loop_m step fuel lastEnd pos LN matched = cx_loop step fuel lastEnd pos LN.
Proof.
  intros step. induction fuel as [|f IH]; intros lastEnd pos LN matched Hm; [reflexivity|].
  cbn [cx_loop_m cx_loop].
  assert (Hex : (if matched then skipn lastEnd h else h) = skipn lastEnd h).
  { destruct matched; [reflexivity|]. now rewrite (Hm eq_refl). }
  rewrite Hex. destruct (hlen <? pos)%nat; [reflexivity|].
  destruct (submatch_at pos) as [a|]; [|reflexivity].
  destruct ((mstart a =? mend a)%nat && (Z.of_nat (mstart a) =? LN)%Z).
  - now apply IH.
  - do 2 f_equal. apply IH. discriminate.
Qed.

Lemma cx_loop_step_ext : forall s1 s2, (forall p, s1 p = s2 p) ->
  forall fuel lastEnd pos LN, cx_loop s1 fuel lastEnd pos LN = cx_loop s2 fuel lastEnd pos LN.
Proof.
  intros s1 s2 Hs. induction fuel as [|f IH]; intros lastEnd pos LN; [reflexivity|].
  cbn [cx_loop]. destruct (hlen <? pos)%nat; [reflexivity|].
  destruct (submatch_at pos) as [a|]; [|reflexivity].
  rewrite !Hs. destruct ((mstart a =? mend a)%nat && (Z.of_nat (mstart a) =? LN)%Z); [apply IH|].
  now rewrite IH.
Qed.

(* CURRENT code (after fix 407f360) *)
Definition cx_replace_loop : list N := cx_loop step_cx (S (S hlen)) 0 0 (-1).
Definition cx_replace_loop_m : list N := cx_loop_m step_cx (S (S hlen)) 0 0 (-1) false.
(* ORIGINAL code before fix 407f360 *)
Definition replace_loop_original : list N := cx_loop step_byte (S (S hlen)) 0 0 (-1).
Definition replace_loop_m_original : list N := cx_loop_m step_byte (S (S hlen)) 0 0 (-1) false.

(* "a fresh copy when nothing matches": the bytes (freshness is checked by harness c08) *)
Lemma replace_no_match_copy : (forall p, submatch_at p = None) ->
  std_replace_all = h /\ replace_loop_original = h /\ replace_loop_m_original = h
  /\ cx_replace_loop = h /\ cx_replace_loop_m = h.
Proof.
  intros Hn. unfold std_replace_all, replace_loop_original, replace_loop_m_original, cx_replace_loop,
    cx_replace_loop_m.
  cbn [std_loop cx_loop cx_loop_m]. rewrite Hn.
  replace (hlen <? 0)%nat with false by lia. repeat split; reflexivity.
Qed.

(* ---- the current loop = stdlib's loop ---- *)

(* what the engine's FindSubmatchAt / FindIndicesAt must satisfy (leftmost search from
   p with the whole text as context) *)
Hypothesis find_at_ok : forall p a, submatch_at p = Some a ->
  (p <= mstart a)%nat /\ (mstart a <= mend a)%nat /\ (mend a <= hlen)%nat.
(* searching again from anywhere up to the start of the match found gives the same span *)
Hypothesis find_at_stable : forall p a q, submatch_at p = Some a -> (p <= q)%nat -> (q <= mstart a)%nat ->
  exists a', submatch_at q = Some a' /\ mstart a' = mstart a /\ mend a' = mend a.
(* a match that ends after p ends no earlier than the end of the rune at p *)
Hypothesis find_at_aligned : forall p a, submatch_at p = Some a -> (p < mend a)%nat ->
  (p + decode_width (skipn p h) <= mend a)%nat.

Lemma seg_same : forall a, seg a a = [].
Proof.
  intros a. unfold seg. apply length_zero_iff_nil. rewrite skipn_length, firstn_length. lia.
Qed.

Lemma width_at : forall p, (p <= hlen)%nat -> (p + decode_width (skipn p h) <= hlen)%nat
  /\ (p < hlen -> 1 <= decode_width (skipn p h))%nat.
Proof.
  intros p Hle. pose proof (decode_width_le (skipn p h)) as H1. rewrite skipn_length in H1.
  fold hlen in H1. split; [lia|].
  intros Hp. apply decode_width_pos. intro E.
  apply (f_equal (@length N)) in E. rewrite skipn_length in E. cbn in E. unfold hlen in Hp. lia.
Qed.

Lemma width_at_end : forall p, (hlen <= p)%nat -> decode_width (skipn p h) = 0%nat.
Proof. intros p Hp. unfold hlen in Hp. rewrite skipn_all2 by lia. reflexivity. Qed.

(* searchPos after an empty match at searchPos *)
Lemma std_next_empty : forall P, (P <= hlen)%nat ->
  (if (P <? P + decode_width (skipn P h))%nat then (P + decode_width (skipn P h))%nat
   else if (P <? P + 1)%nat then (P + 1)%nat else P) = step_rune P.
Proof.
  intros P HP. unfold step_rune. destruct (width_at P HP) as [H1 H2].
  destruct (P <? hlen)%nat eqn:E.
  - replace (P <? P + decode_width (skipn P h))%nat with true by lia. reflexivity.
  - rewrite width_at_end by lia.
    replace (P <? P + 0)%nat with false by lia. replace (P <? P + 1)%nat with true by lia.
    reflexivity.
Qed.

Lemma step_rune_bounds : forall p, (p <= hlen)%nat -> (p < step_rune p)%nat /\ (step_rune p <= hlen + 1)%nat.
Proof.
  intros p Hp. unfold step_rune. destruct (width_at p Hp) as [H1 H2].
  destruct (p <? hlen)%nat eqn:E; lia.
Qed.

(* one iteration of stdlib's loop on an empty match at searchPos that is not replaced *)
Lemma std_step_empty_here : forall f L P a,
  (P <= hlen)%nat -> submatch_at P = Some a -> mstart a = P -> mend a = P ->
  L = P -> P <> 0%nat ->
  std_loop (S f) L P = std_loop f P (step_rune P).
Proof.
  intros f L P a HP Ha Hs He HL H0. cbn [std_loop].
  replace (hlen <? P)%nat with false by lia. rewrite Ha, Hs, He. subst L.
  rewrite seg_same. replace ((P <? P)%nat || (P =? 0)%nat) with false by lia.
  cbn [app]. now rewrite std_next_empty.
Qed.

Definition loop_inv (L P : nat) (LN : Z) : Prop :=
  (L <= P)%nat /\ (LN <= Z.of_nat L)%Z /\ LN <> 0%Z /\
  (L = P -> LN = Z.of_nat L \/ P = 0%nat).

Lemma replace_sim : forall n fc fs L P LN,
  (hlen + 2 - P <= n)%nat -> (hlen + 2 - P <= fc)%nat -> (hlen + 2 - P <= fs)%nat ->
  (P <= hlen + 1)%nat -> loop_inv L P LN ->
  std_loop fs L P = cx_loop step_rune fc L P LN.
Proof.
  induction n as [|n IH]; intros fc fs L P LN Hn Hfc Hfs HP Hinv; [lia|].
  destruct fc as [|fc]; [lia|]. destruct fs as [|fs]; [lia|].
  cbn [std_loop cx_loop].
  destruct (hlen <? P)%nat eqn:EP; [reflexivity|].
  destruct (submatch_at P) as [a|] eqn:Ha; [|reflexivity].
  destruct (find_at_ok _ _ Ha) as (Hs & Hse & He).
  destruct Hinv as (HLP & HLN & HLN0 & HLeq).
  destruct (width_at P ltac:(lia)) as [HwP1 HwP2].
  destruct (mstart a =? mend a)%nat eqn:Eemp.
  - (* empty match *)
    assert (Ese : mend a = mstart a) by lia.
    destruct (Z.of_nat (mstart a) =? LN)%Z eqn:Eskip; cbn [andb].
    + (* coregex skips it: it sits where the last non-empty match ended *)
      assert (L = P /\ mstart a = P /\ P <> 0%nat) as (-> & HsP & HP0) by lia.
      rewrite Ese, HsP. rewrite seg_same.
      replace ((P <? P)%nat || (P =? 0)%nat) with false by lia. cbn [app].
      rewrite std_next_empty by lia.
      destruct (step_rune_bounds P ltac:(lia)) as [Hb1 Hb2].
      apply IH; try lia. unfold loop_inv. repeat split; lia.
    + (* replaced by both *)
      assert (Hrep : ((L <? mend a)%nat || (mstart a =? 0)%nat) = true).
      { destruct (Nat.eq_dec L (mstart a)) as [HLs|HLs]; [|lia].
        assert (L = P) by lia. destruct (HLeq H) as [HH|HH]; lia. }
      rewrite Hrep. do 2 f_equal. rewrite Ese.
      destruct (step_rune_bounds (mstart a) ltac:(lia)) as [Hb1 Hb2].
      destruct (Nat.eq_dec (mstart a) P) as [HsP|HsP].
      * rewrite HsP. rewrite std_next_empty by lia. rewrite HsP in *.
        apply IH; try lia. unfold loop_inv. repeat split; lia.
      * (* the empty match lies ahead: stdlib finds it a second time from its start *)
        assert (HPs : (P < mstart a)%nat) by lia.
        pose proof (find_at_aligned _ _ Ha ltac:(lia)) as Hal.
        replace (mstart a <? P + decode_width (skipn P h))%nat with false by lia.
        replace (mstart a <? P + 1)%nat with false by lia.
        destruct (find_at_stable _ _ (mstart a) Ha ltac:(lia) ltac:(lia)) as (a' & Ha' & Hs' & He').
        destruct fs as [|fs]; [lia|].
        rewrite (std_step_empty_here fs (mstart a) (mstart a) a'); try lia; try assumption.
        apply IH; try lia. unfold loop_inv. repeat split; lia.
  - (* non-empty match *)
    cbn [andb].
    replace ((L <? mend a)%nat || (mstart a =? 0)%nat) with true by lia.
    do 2 f_equal.
    pose proof (find_at_aligned _ _ Ha ltac:(lia)) as Hal.
    replace (mend a <? P + decode_width (skipn P h))%nat with false by lia.
    replace (mend a <? P + 1)%nat with false by lia.
    replace (P <? mend a)%nat with true by lia.
    apply IH; try lia. unfold loop_inv. repeat split; lia.
Qed.

Theorem replace_eq_std : cx_replace_loop = std_replace_all.
Proof.
  unfold cx_replace_loop, std_replace_all.
  rewrite (cx_loop_step_ext step_cx step_rune step_cx_eq). symmetry.
  apply (replace_sim (S (S hlen))); try lia. unfold loop_inv. repeat split; lia.
Qed.

Theorem replace_m_eq_std : cx_replace_loop_m = std_replace_all.
Proof.
  unfold cx_replace_loop_m. rewrite cx_loop_m_eq by reflexivity. apply replace_eq_std.
Qed.

End ReplaceLoops.

(* ---- the public functions ---- *)

(* the three assumptions on the engine, named (they are the hypotheses of
   replace_eq_std) *)
Definition find_at_ok (h : list N) (sub : nat -> option (list Z)) : Prop :=
  forall p a, sub p = Some a ->
    (p <= mstart a)%nat /\ (mstart a <= mend a)%nat /\ (mend a <= hlen h)%nat.
Definition find_at_stable (sub : nat -> option (list Z)) : Prop :=
  forall p a q, sub p = Some a -> (p <= q)%nat -> (q <= mstart a)%nat ->
    exists a', sub q = Some a' /\ mstart a' = mstart a /\ mend a' = mend a.
Definition find_at_aligned (h : list N) (sub : nat -> option (list Z)) : Prop :=
  forall p a, sub p = Some a -> (p < mend a)%nat ->
    (p + decode_width (skipn p h) <= mend a)%nat.

Lemma std_loop_ext : forall h sub r1 r2, (forall a, r1 a = r2 a) ->
  forall fuel L P, std_loop h sub r1 fuel L P = std_loop h sub r2 fuel L P.
Proof.
  intros h sub r1 r2 Hr. induction fuel as [|f IH]; intros L P; [reflexivity|].
  cbn [std_loop]. destruct (hlen h <? P)%nat; [reflexivity|].
  destruct (sub P) as [a|]; [|reflexivity]. now rewrite Hr, IH.
Qed.

Lemma cx_loop_ext : forall h sub r1 r2 step, (forall a, r1 a = r2 a) ->
  forall fuel L P LN, cx_loop h sub r1 step fuel L P LN = cx_loop h sub r2 step fuel L P LN.
Proof.
  intros h sub r1 r2 step Hr. induction fuel as [|f IH]; intros L P LN; [reflexivity|].
  cbn [cx_loop]. destruct (hlen h <? P)%nat; [reflexivity|].
  destruct (sub P) as [a|]; [|reflexivity].
  destruct ((mstart a =? mend a)%nat && (Z.of_nat (mstart a) =? LN)%Z); [apply IH|].
  now rewrite Hr, IH.
Qed.

Section Api.
Variable uni : N -> bool.
Variable names : list (list N).
Variable h : list N.
Variable sub : nat -> option (list Z).

(* regexp.go: ReplaceAll / ReplaceAllString *)
Definition std_ReplaceAll (tmpl : list N) : list N :=
  std_replace_all h sub (fun a => expand_scan_std uni h a names [] tmpl).
(* regexp.go: ReplaceAllLiteral / ReplaceAllLiteralString *)
Definition std_ReplaceAllLiteral (r : list N) : list N := std_replace_all h sub (fun _ => r).
(* regexp.go: ReplaceAllFunc / ReplaceAllStringFunc *)
Definition std_ReplaceAllFunc (f : list N -> list N) : list N :=
  std_replace_all h sub (fun a => f (seg h (mstart a) (mend a))).

(* ORIGINAL code before fixes 6e1b8e6 / 407f360: ReplaceAllLiteral(String),
   ReplaceAllFunc / ReplaceAllStringFunc with the byte step *)
Definition ReplaceAllLiteral_original (r : list N) : list N := replace_loop_m_original h sub (fun _ => r).
Definition ReplaceAllFunc_original (f : list N -> list N) : list N :=
  replace_loop_m_original h sub (fun a => f (seg h (mstart a) (mend a))).
(* ORIGINAL ReplaceAll: byte step and the original expand *)
Definition ReplaceAll_original (tmpl : list N) : list N :=
  if has_dollar tmpl then replace_loop_original h sub (fun a => expand_original h a [] tmpl)
  else ReplaceAllLiteral_original tmpl.

(* CURRENT code.  /repo/regex.go: ReplaceAllLiteral / ReplaceAllLiteralString,
   ReplaceAllFunc / ReplaceAllStringFunc (loops with the lazily allocated result), and
   ReplaceAll (ReplaceAllString converts and calls it): without '$' in repl it is
   ReplaceAllLiteral, otherwise the FindSubmatchAt loop with expand *)
Definition cx_ReplaceAllLiteral (r : list N) : list N := cx_replace_loop_m h sub (fun _ => r).
Definition cx_ReplaceAllFunc (f : list N -> list N) : list N :=
  cx_replace_loop_m h sub (fun a => f (seg h (mstart a) (mend a))).
Definition cx_ReplaceAll (tmpl : list N) : list N :=
  if has_dollar tmpl then cx_replace_loop h sub (fun a => expand_cx uni h a names [] tmpl)
  else cx_ReplaceAllLiteral tmpl.

Hypothesis find_at_ok : forall p a, sub p = Some a ->
  (p <= mstart a)%nat /\ (mstart a <= mend a)%nat /\ (mend a <= hlen h)%nat.
Hypothesis find_at_stable : forall p a q, sub p = Some a -> (p <= q)%nat -> (q <= mstart a)%nat ->
  exists a', sub q = Some a' /\ mstart a' = mstart a /\ mend a' = mend a.
Hypothesis find_at_aligned : forall p a, sub p = Some a -> (p < mend a)%nat ->
  (p + decode_width (skipn p h) <= mend a)%nat.

Theorem ReplaceAllLiteral_eq_std : forall r, cx_ReplaceAllLiteral r = std_ReplaceAllLiteral r.
Proof. intros r. now apply replace_m_eq_std. Qed.

Theorem ReplaceAllFunc_eq_std : forall f, cx_ReplaceAllFunc f = std_ReplaceAllFunc f.
Proof. intros f. now apply replace_m_eq_std. Qed.

Theorem ReplaceAll_eq_std : forall tmpl, cx_ReplaceAll tmpl = std_ReplaceAll tmpl.
Proof.
  intros tmpl. unfold cx_ReplaceAll, std_ReplaceAll. destruct (has_dollar tmpl) eqn:Hd.
  - unfold cx_replace_loop.
    rewrite (cx_loop_ext h sub _ (fun a => expand_scan_std uni h a names [] tmpl))
      by (intro a; apply expand_cx_eq_std).
    now apply replace_eq_std.
  - rewrite ReplaceAllLiteral_eq_std. unfold std_ReplaceAllLiteral, std_replace_all.
    apply std_loop_ext. intro a. now rewrite expand_no_dollar.
Qed.

(* ReplaceAllLiteral inserts repl verbatim, whatever it contains: its model does not
   mention expand at all (it is the plain loop with the constant replacement), and the
   template functions agree with it exactly on the templates without '$' *)
Theorem replace_literal_no_dollar : forall r,
  cx_ReplaceAllLiteral r = cx_replace_loop h sub (fun _ => r)
  /\ (has_dollar r = false -> cx_ReplaceAll r = cx_ReplaceAllLiteral r)
  /\ (has_dollar r = false -> std_ReplaceAll r = std_ReplaceAllLiteral r).
Proof.
  intros r. split; [|split].
  - unfold cx_ReplaceAllLiteral, cx_replace_loop_m, cx_replace_loop. now apply cx_loop_m_eq.
  - intros Hd. unfold cx_ReplaceAll. now rewrite Hd.
  - intros Hd. unfold std_ReplaceAll, std_ReplaceAllLiteral, std_replace_all.
    apply std_loop_ext. intro a. now rewrite expand_no_dollar.
Qed.

End Api.

(* ---- witnesses against the ORIGINAL loops (before fix 407f360): the byte step ---- *)

(* pattern a* on "é" (195 169): an empty match at every search position *)
Definition w_e : list N := [195; 169].
Definition w_sub (p : nat) : option (list Z) :=
  if (p <=? 2)%nat then Some [Z.of_nat p; Z.of_nat p] else None.

Lemma w_sub_ok : forall p a, w_sub p = Some a ->
  (p <= mstart a)%nat /\ (mstart a <= mend a)%nat /\ (mend a <= hlen w_e)%nat.
Proof.
  intros p a H. unfold w_sub in H. destruct (p <=? 2)%nat eqn:E; [|discriminate].
  inversion H; subst. unfold mstart, mend, zget, hlen. cbn [nth length w_e]. lia.
Qed.

(* std "-é-", coregex "-\xc3-\xa9-" *)
Theorem ReplaceAll_original_refuted : exists h sub tmpl,
  (forall p a, sub p = Some a -> (p <= mstart a)%nat /\ (mstart a <= mend a)%nat /\ (mend a <= hlen h)%nat)
  /\ ReplaceAll_original h sub tmpl <> std_ReplaceAll no_uni [[]] h sub tmpl.
Proof.
  exists w_e, w_sub, [45]. split; [exact w_sub_ok|]. vm_compute. discriminate.
Qed.

(* the same through the $-template loop: template "$0" *)
Theorem ReplaceAll_original_template_refuted : exists h sub tmpl,
  (forall p a, sub p = Some a -> (p <= mstart a)%nat /\ (mstart a <= mend a)%nat /\ (mend a <= hlen h)%nat)
  /\ has_dollar tmpl = true
  /\ ReplaceAll_original h sub tmpl <> std_ReplaceAll no_uni [[]] h sub tmpl.
Proof.
  exists w_e, w_sub, [45;36;48]. split; [exact w_sub_ok|]. split; [reflexivity|].
  vm_compute. discriminate.
Qed.

Theorem ReplaceAllLiteral_original_refuted : exists h sub r,
  (forall p a, sub p = Some a -> (p <= mstart a)%nat /\ (mstart a <= mend a)%nat /\ (mend a <= hlen h)%nat)
  /\ ReplaceAllLiteral_original h sub r <> std_ReplaceAllLiteral h sub r.
Proof.
  exists w_e, w_sub, [45]. split; [exact w_sub_ok|]. vm_compute. discriminate.
Qed.

Definition bracket (x : list N) : list N := 91 :: x ++ [93].

Theorem ReplaceAllFunc_original_refuted : exists h sub f,
  (forall p a, sub p = Some a -> (p <= mstart a)%nat /\ (mstart a <= mend a)%nat /\ (mend a <= hlen h)%nat)
  /\ ReplaceAllFunc_original h sub f <> std_ReplaceAllFunc h sub f.
Proof.
  exists w_e, w_sub, bracket. split; [exact w_sub_ok|]. vm_compute. discriminate.
Qed.

(* stdlib's output expressed over the list of all matches (FindAllSubmatchIndex(src, -1)):
   what the checker below uses, since "submatch at offset" is not a public function *)
Fixpoint replace_from_matches (src : list N) (repl : list Z -> list N) (ms : list (list Z))
    (last : nat) : list N :=
  match ms with
  | [] => skipn last src
  | a :: r => seg src last (mstart a) ++ repl a ++ replace_from_matches src repl r (mend a)
  end.
Definition std_replace_from_matches (ms : list (list Z)) (src : list N) (repl : list Z -> list N) :=
  replace_from_matches src repl ms 0.

(* ------------------------------------------------------------------------- *)
(** * 6. Split                                                                 *)
(* ------------------------------------------------------------------------- *)

Section Split.
Variable s : list N.

Definition sseg (a b : nat) : list N := skipn a (firstn b s).    (* s[a:b] *)

Definition split_finish (acc : list (list N)) (beg end_ : nat) : list (list N) :=
  if (end_ =? length s)%nat then acc else acc ++ [skipn beg s].   (* if end != len(s) *)

(* regexp.go:Split, the loop over matches (acc = strings, in order) *)
Fixpoint std_split_loop (n : Z) (ms : list (nat * nat)) (acc : list (list N)) (beg end_ : nat)
    : list (list N) :=
  match ms with
  | [] => split_finish acc beg end_
  | (m0, m1) :: r =>
    if (0 <? n)%Z && (n - 1 <=? zlen acc)%Z then split_finish acc beg end_    (* break *)
    else std_split_loop n r (if (m1 =? 0)%nat then acc else acc ++ [sseg beg m0]) m1 m0
  end.

(* FindAllStringIndex(s, n) in terms of FindAllStringIndex(s, -1): allMatches delivers
   the first n *)
Definition find_all_n (ms : list (nat * nat)) (n : Z) : list (nat * nat) :=
  if (0 <? n)%Z then firstn (Z.to_nat n) ms else ms.

(* regexp.go:Split.  None = nil.  [expr_nonempty] = len(re.expr) > 0; ms = all matches *)
Definition std_split (expr_nonempty : bool) (ms : list (nat * nat)) (n : Z) : option (list (list N)) :=
  if (n =? 0)%Z then None
  else if expr_nonempty && (length s =? 0)%nat then Some [[]]
  else Some (std_split_loop n (find_all_n ms n) [] 0 0).

(* ORIGINAL code before fix 0455b8d -- /repo/regex.go:Split as it was, the loop *)
Fixpoint split_original_loop (n : Z) (ms : list (nat * nat)) (acc : list (list N)) (lastEnd : nat)
    : list (list N) :=
  match ms with
  | [] => acc ++ [skipn lastEnd s]
  | (i0, i1) :: r =>
    if (lastEnd =? 0)%nat && (i0 =? 0)%nat && (i1 =? 0)%nat then split_original_loop n r acc lastEnd
    else if (i0 =? length s)%nat && (i1 =? length s)%nat then acc ++ [skipn lastEnd s]
    else
      if (0 <? n)%Z && (n - 1 <=? zlen (acc ++ [sseg lastEnd i0]))%Z
      then (acc ++ [sseg lastEnd i0]) ++ [skipn i1 s]
      else split_original_loop n r (acc ++ [sseg lastEnd i0]) i1
  end.

(* ORIGINAL Split; indices = FindAllStringIndex(s, -1) *)
Definition split_original (ms : list (nat * nat)) (n : Z) : option (list (list N)) :=
  if (n =? 0)%Z then None
  else match ms with
       | [] => Some [s]
       | _ :: _ => Some (split_original_loop n ms [] 0)
       end.

(* CURRENT code: /repo/regex.go:Split (commit 0455b8d), regexp's function statement by
   statement, with len(r.pattern) > 0 for len(re.expr) > 0 and
   matches := r.FindAllStringIndex(s, n) *)
Definition cx_split (pattern_nonempty : bool) (ms : list (nat * nat)) (n : Z)
    : option (list (list N)) :=
  if (n =? 0)%Z then None
  else if pattern_nonempty && (length s =? 0)%nat then Some [[]]
  else Some (std_split_loop n (if (0 <? n)%Z then firstn (Z.to_nat n) ms else ms) [] 0 0).

(* matches as FindAll delivers them: in order, not overlapping, ends strictly increasing *)
Fixpoint sd_from (prev_end : nat) (ms : list (nat * nat)) : Prop :=
  match ms with
  | [] => True
  | (a, b) :: r => (prev_end <= a)%nat /\ (a <= b)%nat /\ (prev_end < b)%nat /\ sd_from b r
  end.
Definition sorted_disjoint (ms : list (nat * nat)) : Prop :=
  match ms with
  | [] => True
  | (a, b) :: r => (a <= b)%nat /\ sd_from b r
  end.

Lemma sd_from_ends_pos : forall ms p, sd_from p ms -> Forall (fun x => (0 < snd x)%nat) ms.
Proof.
  induction ms as [|[a b] r IH]; intros p H; [constructor|].
  cbn [sd_from] in H. destruct H as (H1 & H2 & H3 & H4).
  constructor; [cbn; lia|]. now apply (IH b).
Qed.

(* the n passed to FindAllStringIndex is only an optimisation *)
Lemma split_loop_firstn : forall n ms k acc beg end_,
  (0 < n)%Z -> Forall (fun x => (0 < snd x)%nat) ms ->
  (n - 1 - zlen acc <= Z.of_nat k)%Z ->
  std_split_loop n (firstn k ms) acc beg end_ = std_split_loop n ms acc beg end_.
Proof.
  intros n. induction ms as [|[m0 m1] r IH]; intros k acc beg end_ Hn HF Hk.
  - now rewrite firstn_nil.
  - inversion HF as [|? ? Hm HF']; subst. cbn [snd] in Hm.
    destruct k as [|k].
    + cbn [firstn std_split_loop].
      replace ((0 <? n)%Z && (n - 1 <=? zlen acc)%Z) with true by lia. reflexivity.
    + cbn [firstn std_split_loop].
      destruct ((0 <? n)%Z && (n - 1 <=? zlen acc)%Z); [reflexivity|].
      replace (m1 =? 0)%nat with false by lia.
      apply IH; [assumption|assumption|].
      unfold zlen in *. rewrite app_length. cbn [length]. lia.
Qed.

Theorem split_limit_irrelevant : forall ms n, sorted_disjoint ms ->
  std_split_loop n (find_all_n ms n) [] 0 0 = std_split_loop n ms [] 0 0.
Proof.
  intros ms n Hsd. unfold find_all_n. destruct (0 <? n)%Z eqn:Hn; [|reflexivity].
  destruct ms as [|[a b] r]; [now rewrite firstn_nil|].
  destruct Hsd as [Hab Hr]. apply sd_from_ends_pos in Hr.
  destruct (Z.to_nat n) as [|k] eqn:Ek; [lia|].
  cbn [firstn std_split_loop].
  destruct ((0 <? n)%Z && (n - 1 <=? zlen (@nil (list N)))%Z); [reflexivity|].
  apply split_loop_firstn; [lia|assumption|].
  unfold zlen. destruct (b =? 0)%nat; [|rewrite app_length]; cbn [length]; lia.
Qed.

(* the committed Split is regexp's Split statement for statement, the equality holds by
   computation (sorted_disjoint is kept for uniformity with split_limit_irrelevant) *)
Theorem split_eq_std : forall e ms, sorted_disjoint ms ->
  forall n, cx_split e ms n = std_split e ms n.
Proof. reflexivity. Qed.

End Split.

(* Split("xay", 1) on a: stdlib ["xay"], coregex ["x" "y"] *)
Theorem split_original_n1_refuted : exists s ms n, sorted_disjoint ms /\ split_original s ms n <> std_split s true ms n.
Proof.
  exists [120;97;121], [(1%nat, 2%nat)], 1%Z. split; [cbn; lia|]. vm_compute. discriminate.
Qed.

(* empty pattern on "": stdlib [] (empty, not nil), coregex [""] *)
Theorem split_original_empty_refuted : exists s ms n, sorted_disjoint ms /\ split_original s ms n <> std_split s false ms n.
Proof.
  exists [], [(0%nat, 0%nat)], (-1)%Z. split; [cbn; lia|]. vm_compute. discriminate.
Qed.

(* ------------------------------------------------------------------------- *)
(** * 7. Case checker (harness c08)                                            *)
(* ------------------------------------------------------------------------- *)

(* unicode.IsLetter(r) || unicode.IsDigit(r) for r >= 128, as maximal ranges; generated
   from the unicode package of Go 1.25.4 (unicode.Version 15.0.0), 702 ranges *)
Definition go_uni_ranges : list (N * N) := [
(170,170);(181,181);(186,186);(192,214);(216,246);(248,705);
(710,721);(736,740);(748,748);(750,750);(880,884);(886,887);
(890,893);(895,895);(902,902);(904,906);(908,908);(910,929);
(931,1013);(1015,1153);(1162,1327);(1329,1366);(1369,1369);(1376,1416);
(1488,1514);(1519,1522);(1568,1610);(1632,1641);(1646,1647);(1649,1747);
(1749,1749);(1765,1766);(1774,1788);(1791,1791);(1808,1808);(1810,1839);
(1869,1957);(1969,1969);(1984,2026);(2036,2037);(2042,2042);(2048,2069);
(2074,2074);(2084,2084);(2088,2088);(2112,2136);(2144,2154);(2160,2183);
(2185,2190);(2208,2249);(2308,2361);(2365,2365);(2384,2384);(2392,2401);
(2406,2415);(2417,2432);(2437,2444);(2447,2448);(2451,2472);(2474,2480);
(2482,2482);(2486,2489);(2493,2493);(2510,2510);(2524,2525);(2527,2529);
(2534,2545);(2556,2556);(2565,2570);(2575,2576);(2579,2600);(2602,2608);
(2610,2611);(2613,2614);(2616,2617);(2649,2652);(2654,2654);(2662,2671);
(2674,2676);(2693,2701);(2703,2705);(2707,2728);(2730,2736);(2738,2739);
(2741,2745);(2749,2749);(2768,2768);(2784,2785);(2790,2799);(2809,2809);
(2821,2828);(2831,2832);(2835,2856);(2858,2864);(2866,2867);(2869,2873);
(2877,2877);(2908,2909);(2911,2913);(2918,2927);(2929,2929);(2947,2947);
(2949,2954);(2958,2960);(2962,2965);(2969,2970);(2972,2972);(2974,2975);
(2979,2980);(2984,2986);(2990,3001);(3024,3024);(3046,3055);(3077,3084);
(3086,3088);(3090,3112);(3114,3129);(3133,3133);(3160,3162);(3165,3165);
(3168,3169);(3174,3183);(3200,3200);(3205,3212);(3214,3216);(3218,3240);
(3242,3251);(3253,3257);(3261,3261);(3293,3294);(3296,3297);(3302,3311);
(3313,3314);(3332,3340);(3342,3344);(3346,3386);(3389,3389);(3406,3406);
(3412,3414);(3423,3425);(3430,3439);(3450,3455);(3461,3478);(3482,3505);
(3507,3515);(3517,3517);(3520,3526);(3558,3567);(3585,3632);(3634,3635);
(3648,3654);(3664,3673);(3713,3714);(3716,3716);(3718,3722);(3724,3747);
(3749,3749);(3751,3760);(3762,3763);(3773,3773);(3776,3780);(3782,3782);
(3792,3801);(3804,3807);(3840,3840);(3872,3881);(3904,3911);(3913,3948);
(3976,3980);(4096,4138);(4159,4169);(4176,4181);(4186,4189);(4193,4193);
(4197,4198);(4206,4208);(4213,4225);(4238,4238);(4240,4249);(4256,4293);
(4295,4295);(4301,4301);(4304,4346);(4348,4680);(4682,4685);(4688,4694);
(4696,4696);(4698,4701);(4704,4744);(4746,4749);(4752,4784);(4786,4789);
(4792,4798);(4800,4800);(4802,4805);(4808,4822);(4824,4880);(4882,4885);
(4888,4954);(4992,5007);(5024,5109);(5112,5117);(5121,5740);(5743,5759);
(5761,5786);(5792,5866);(5873,5880);(5888,5905);(5919,5937);(5952,5969);
(5984,5996);(5998,6000);(6016,6067);(6103,6103);(6108,6108);(6112,6121);
(6160,6169);(6176,6264);(6272,6276);(6279,6312);(6314,6314);(6320,6389);
(6400,6430);(6470,6509);(6512,6516);(6528,6571);(6576,6601);(6608,6617);
(6656,6678);(6688,6740);(6784,6793);(6800,6809);(6823,6823);(6917,6963);
(6981,6988);(6992,7001);(7043,7072);(7086,7141);(7168,7203);(7232,7241);
(7245,7293);(7296,7304);(7312,7354);(7357,7359);(7401,7404);(7406,7411);
(7413,7414);(7418,7418);(7424,7615);(7680,7957);(7960,7965);(7968,8005);
(8008,8013);(8016,8023);(8025,8025);(8027,8027);(8029,8029);(8031,8061);
(8064,8116);(8118,8124);(8126,8126);(8130,8132);(8134,8140);(8144,8147);
(8150,8155);(8160,8172);(8178,8180);(8182,8188);(8305,8305);(8319,8319);
(8336,8348);(8450,8450);(8455,8455);(8458,8467);(8469,8469);(8473,8477);
(8484,8484);(8486,8486);(8488,8488);(8490,8493);(8495,8505);(8508,8511);
(8517,8521);(8526,8526);(8579,8580);(11264,11492);(11499,11502);(11506,11507);
(11520,11557);(11559,11559);(11565,11565);(11568,11623);(11631,11631);(11648,11670);
(11680,11686);(11688,11694);(11696,11702);(11704,11710);(11712,11718);(11720,11726);
(11728,11734);(11736,11742);(11823,11823);(12293,12294);(12337,12341);(12347,12348);
(12353,12438);(12445,12447);(12449,12538);(12540,12543);(12549,12591);(12593,12686);
(12704,12735);(12784,12799);(13312,19903);(19968,42124);(42192,42237);(42240,42508);
(42512,42539);(42560,42606);(42623,42653);(42656,42725);(42775,42783);(42786,42888);
(42891,42954);(42960,42961);(42963,42963);(42965,42969);(42994,43009);(43011,43013);
(43015,43018);(43020,43042);(43072,43123);(43138,43187);(43216,43225);(43250,43255);
(43259,43259);(43261,43262);(43264,43301);(43312,43334);(43360,43388);(43396,43442);
(43471,43481);(43488,43492);(43494,43518);(43520,43560);(43584,43586);(43588,43595);
(43600,43609);(43616,43638);(43642,43642);(43646,43695);(43697,43697);(43701,43702);
(43705,43709);(43712,43712);(43714,43714);(43739,43741);(43744,43754);(43762,43764);
(43777,43782);(43785,43790);(43793,43798);(43808,43814);(43816,43822);(43824,43866);
(43868,43881);(43888,44002);(44016,44025);(44032,55203);(55216,55238);(55243,55291);
(63744,64109);(64112,64217);(64256,64262);(64275,64279);(64285,64285);(64287,64296);
(64298,64310);(64312,64316);(64318,64318);(64320,64321);(64323,64324);(64326,64433);
(64467,64829);(64848,64911);(64914,64967);(65008,65019);(65136,65140);(65142,65276);
(65296,65305);(65313,65338);(65345,65370);(65382,65470);(65474,65479);(65482,65487);
(65490,65495);(65498,65500);(65536,65547);(65549,65574);(65576,65594);(65596,65597);
(65599,65613);(65616,65629);(65664,65786);(66176,66204);(66208,66256);(66304,66335);
(66349,66368);(66370,66377);(66384,66421);(66432,66461);(66464,66499);(66504,66511);
(66560,66717);(66720,66729);(66736,66771);(66776,66811);(66816,66855);(66864,66915);
(66928,66938);(66940,66954);(66956,66962);(66964,66965);(66967,66977);(66979,66993);
(66995,67001);(67003,67004);(67072,67382);(67392,67413);(67424,67431);(67456,67461);
(67463,67504);(67506,67514);(67584,67589);(67592,67592);(67594,67637);(67639,67640);
(67644,67644);(67647,67669);(67680,67702);(67712,67742);(67808,67826);(67828,67829);
(67840,67861);(67872,67897);(67968,68023);(68030,68031);(68096,68096);(68112,68115);
(68117,68119);(68121,68149);(68192,68220);(68224,68252);(68288,68295);(68297,68324);
(68352,68405);(68416,68437);(68448,68466);(68480,68497);(68608,68680);(68736,68786);
(68800,68850);(68864,68899);(68912,68921);(69248,69289);(69296,69297);(69376,69404);
(69415,69415);(69424,69445);(69488,69505);(69552,69572);(69600,69622);(69635,69687);
(69734,69743);(69745,69746);(69749,69749);(69763,69807);(69840,69864);(69872,69881);
(69891,69926);(69942,69951);(69956,69956);(69959,69959);(69968,70002);(70006,70006);
(70019,70066);(70081,70084);(70096,70106);(70108,70108);(70144,70161);(70163,70187);
(70207,70208);(70272,70278);(70280,70280);(70282,70285);(70287,70301);(70303,70312);
(70320,70366);(70384,70393);(70405,70412);(70415,70416);(70419,70440);(70442,70448);
(70450,70451);(70453,70457);(70461,70461);(70480,70480);(70493,70497);(70656,70708);
(70727,70730);(70736,70745);(70751,70753);(70784,70831);(70852,70853);(70855,70855);
(70864,70873);(71040,71086);(71128,71131);(71168,71215);(71236,71236);(71248,71257);
(71296,71338);(71352,71352);(71360,71369);(71424,71450);(71472,71481);(71488,71494);
(71680,71723);(71840,71913);(71935,71942);(71945,71945);(71948,71955);(71957,71958);
(71960,71983);(71999,71999);(72001,72001);(72016,72025);(72096,72103);(72106,72144);
(72161,72161);(72163,72163);(72192,72192);(72203,72242);(72250,72250);(72272,72272);
(72284,72329);(72349,72349);(72368,72440);(72704,72712);(72714,72750);(72768,72768);
(72784,72793);(72818,72847);(72960,72966);(72968,72969);(72971,73008);(73030,73030);
(73040,73049);(73056,73061);(73063,73064);(73066,73097);(73112,73112);(73120,73129);
(73440,73458);(73474,73474);(73476,73488);(73490,73523);(73552,73561);(73648,73648);
(73728,74649);(74880,75075);(77712,77808);(77824,78895);(78913,78918);(82944,83526);
(92160,92728);(92736,92766);(92768,92777);(92784,92862);(92864,92873);(92880,92909);
(92928,92975);(92992,92995);(93008,93017);(93027,93047);(93053,93071);(93760,93823);
(93952,94026);(94032,94032);(94099,94111);(94176,94177);(94179,94179);(94208,100343);
(100352,101589);(101632,101640);(110576,110579);(110581,110587);(110589,110590);(110592,110882);
(110898,110898);(110928,110930);(110933,110933);(110948,110951);(110960,111355);(113664,113770);
(113776,113788);(113792,113800);(113808,113817);(119808,119892);(119894,119964);(119966,119967);
(119970,119970);(119973,119974);(119977,119980);(119982,119993);(119995,119995);(119997,120003);
(120005,120069);(120071,120074);(120077,120084);(120086,120092);(120094,120121);(120123,120126);
(120128,120132);(120134,120134);(120138,120144);(120146,120485);(120488,120512);(120514,120538);
(120540,120570);(120572,120596);(120598,120628);(120630,120654);(120656,120686);(120688,120712);
(120714,120744);(120746,120770);(120772,120779);(120782,120831);(122624,122654);(122661,122666);
(122928,122989);(123136,123180);(123191,123197);(123200,123209);(123214,123214);(123536,123565);
(123584,123627);(123632,123641);(124112,124139);(124144,124153);(124896,124902);(124904,124907);
(124909,124910);(124912,124926);(124928,125124);(125184,125251);(125259,125259);(125264,125273);
(126464,126467);(126469,126495);(126497,126498);(126500,126500);(126503,126503);(126505,126514);
(126516,126519);(126521,126521);(126523,126523);(126530,126530);(126535,126535);(126537,126537);
(126539,126539);(126541,126543);(126545,126546);(126548,126548);(126551,126551);(126553,126553);
(126555,126555);(126557,126557);(126559,126559);(126561,126562);(126564,126564);(126567,126570);
(126572,126578);(126580,126583);(126585,126588);(126590,126590);(126592,126601);(126603,126619);
(126625,126627);(126629,126633);(126635,126651);(130032,130041);(131072,173791);(173824,177977);
(177984,178205);(178208,183969);(183984,191456);(194560,195101);(196608,201546);(201552,205743)
].

Definition go_uni_word (r : N) : bool :=
  existsb (fun p => (fst p <=? r) && (r <=? snd p)) go_uni_ranges.

(* The correspondence run isolates the C08 layer from the match engine: the match
   lists of a case are the ones COREGEX's own FindAllSubmatchIndex / FindAllStringIndex
   returned (not regexp's), and the harness only emits cases for which coregex's
   single-match functions agree with that list.  The verdict of a case therefore says:
   "the observed Replace / Split / Expand output is regexp's algorithm applied to
   coregex's own matches"; whether those matches are regexp's is C02-C04's business.

   capi: 1 Expand/ExpandString           cdst, ctmpl, csrc, match = hd cms, cnames
         2 ReplaceAll/ReplaceAllString   ctmpl, csrc, cms = coregex FindAllSubmatchIndex(src,-1)
         3 ReplaceAllLiteral(String)     ctmpl = repl
         4 ReplaceAll(String)Func        with the function "bracket the match"
         5 Split                         cms = coregex FindAllStringIndex(src,-1), cn,
                                         cflag = (pattern <> "")
   cobs = what coregex returned (one element for 1-4, the pieces for 5), cobs_nil = the
   result was a nil slice (Split). *)
Record case := mk_case {
  cid : N; capi : N; cdst : list N; ctmpl : list N; csrc : list N;
  cms : list (list Z); cnames : list (list N); cn : Z; cflag : bool;
  cobs : list (list N); cobs_nil : bool }.

Definition spans (ms : list (list Z)) : list (nat * nat) := map (fun a => (mstart a, mend a)) ms.

(* the specification side: regexp's functions *)
Definition spec_out (c : case) : option (option (list (list N))) :=
  let src := csrc c in
  match capi c with
  | 1 => Some (Some [expand_scan_std go_uni_word src (hd [] (cms c)) (cnames c) (cdst c) (ctmpl c)])
  | 2 => Some (Some [std_replace_from_matches (cms c) src
                       (fun a => expand_scan_std go_uni_word src a (cnames c) [] (ctmpl c))])
  | 3 => Some (Some [std_replace_from_matches (cms c) src (fun _ => ctmpl c)])
  | 4 => Some (Some [std_replace_from_matches (cms c) src
                       (fun a => bracket (seg src (mstart a) (mend a)))])
  | 5 => Some (std_split src (cflag c) (spans (cms c)) (cn c))
  | _ => None
  end.

(* the model of the CURRENT code.  1 and 5 are the models themselves; for 2-4 the loops
   need the engine's find-at function, which a case does not carry: the model side is
   the loop's result over the match list (replace_eq_std) with the current expand_cx /
   the ReplaceAll dispatch on has_dollar *)
Definition model_out (c : case) : option (option (list (list N))) :=
  let src := csrc c in
  match capi c with
  | 1 => Some (Some [expand_cx go_uni_word src (hd [] (cms c)) (cnames c) (cdst c) (ctmpl c)])
  | 2 => Some (Some [std_replace_from_matches (cms c) src
                       (fun a => if has_dollar (ctmpl c)
                                 then expand_cx go_uni_word src a (cnames c) [] (ctmpl c)
                                 else ctmpl c)])
  | 3 => Some (Some [std_replace_from_matches (cms c) src (fun _ => ctmpl c)])
  | 4 => Some (Some [std_replace_from_matches (cms c) src
                       (fun a => bracket (seg src (mstart a) (mend a)))])
  | 5 => Some (cx_split src (cflag c) (spans (cms c)) (cn c))
  | _ => None
  end.

(* informational: the models of the ORIGINAL code (before 6e1b8e6 / 0455b8d / 407f360)
   where they need nothing but the case data: expand (1, and inside 2) and Split (5) *)
Definition original_out (c : case) : option (option (list (list N))) :=
  let src := csrc c in
  match capi c with
  | 1 => Some (Some [expand_original src (hd [] (cms c)) (cdst c) (ctmpl c)])
  | 2 => Some (Some [std_replace_from_matches (cms c) src
                       (fun a => if has_dollar (ctmpl c)
                                 then expand_original src a [] (ctmpl c) else ctmpl c)])
  | 5 => Some (split_original src (spans (cms c)) (cn c))
  | _ => None
  end.

Definition obs_eqb (c : case) (o : option (list (list N))) : bool :=
  match o with
  | None => cobs_nil c
  | Some l => negb (cobs_nil c) && lists_eqb l (cobs c)
  end.

(* observed coregex output = the specification side *)
Definition check_case (c : case) : bool :=
  match spec_out c with
  | Some o => obs_eqb c o
  | None => false
  end.

(* observed coregex output = the model of the current code *)
Definition check_model (c : case) : bool :=
  match model_out c with
  | Some o => obs_eqb c o
  | None => false
  end.

Definition check_original (c : case) : bool :=
  match original_out c with
  | Some o => obs_eqb c o
  | None => true
  end.

(* every match array of the case is inside the domain of the theorems *)
Definition case_wf (c : case) : bool := forallb (wf_matchb (csrc c)) (cms c).

Definition mismatches (cs : list case) : list N :=
  map cid (filter (fun c => negb (check_case c)) cs).
Definition model_mismatches (cs : list case) : list N :=
  map cid (filter (fun c => negb (check_model c)) cs).
(* informational: cases the original code would have got wrong show up here once the
   implementation is right *)
Definition mismatches_original (cs : list case) : list N :=
  map cid (filter (fun c => negb (check_original c)) cs).
Definition ill_formed (cs : list case) : list N :=
  map cid (filter (fun c => negb (case_wf c)) cs).

(* the reproducers recorded in the brief, as checker cases *)
Definition selftest_cases : list case := [
    (* ReplaceAllString((?P<n>a)(b)?, "xaby", "${n}-$2-$10-$$") as regexp and the current
       code answer *)
    mk_case 1 2 [] [36;123;110;125;45;36;50;45;36;49;48;45;36;36] w_src [w_m] w_names 0%Z true
            [[120;97;45;98;45;45;36;121]] false;
    (* ... as the original code answered *)
    mk_case 2 2 [] [36;123;110;125;45;36;50;45;36;49;48;45;36;36] w_src [w_m] w_names 0%Z true
            [[120;36;123;110;125;45;98;45;97;48;45;36;121]] false;
    (* Split("xay", 1): regexp and current / original *)
    mk_case 3 5 [] [] [120;97;121] [[1;2]%Z] [[]] 1%Z true [[120;97;121]] false;
    mk_case 4 5 [] [] [120;97;121] [[1;2]%Z] [[]] 1%Z true [[120];[121]] false;
    (* Expand with dst "D" and $é *)
    mk_case 5 1 [68] [36;195;169;124] w_src [w_m] w_names 0%Z true [[68;124]] false;
    (* Expand $10 as the original code answered *)
    mk_case 6 1 [] [36;49;48] w_src [w_m] w_names 0%Z true [[97;48]] false ].

Example checker_selftest :
  mismatches selftest_cases = [2; 4; 6]
  /\ model_mismatches selftest_cases = [2; 4; 6]
  /\ mismatches_original selftest_cases = [1; 3; 5].
Proof. vm_compute. repeat split; reflexivity. Qed.
