(* Swar.v -- property C18: the byte-search primitives of /repo/simd equal their
   one-line scalar definitions.

   Contents
     1. scalar specifications (find_first and friends)
     2. 64-bit word operations as used by the Go code (N with explicit mod 2^64)
     3. faithful models of the pure-Go (SWAR) code paths
     4. lane machinery: a little-endian word is the list of its bytes; bitwise
        operations and the borrowing subtraction decompose lane by lane
     5. the key lemma has_zero_byte_first (all 2^64 words, no enumeration: the
        per-lane fact is checked by vm_compute over 256 x 2 (byte, borrow-in) cases)
     6. correctness of the models for all haystacks
     7. case checker for the correspondence run

   The AVX2 assembly (the .s files) is NOT modelled; it is exercised by the Go harness
   (harness c18) against the same scalar specifications. *)

From Coq Require Import List NArith ZArith Lia Bool Arith.
From Coq Require Import ZifyBool ZifyNat ZifyN.
Import ListNotations.
Open Scope N_scope.

(* ------------------------------------------------------------------------- *)
(** * 1. Scalar specifications                                                 *)
(* ------------------------------------------------------------------------- *)

Definition byte (b : N) : Prop := b < 256.
Definition bytes (h : list N) : Prop := Forall byte h.

(* index (counted from [i]) of the first element satisfying [p], or -1 *)
Fixpoint find_from (p : N -> bool) (h : list N) (i : Z) : Z :=
  match h with
  | [] => (-1)%Z
  | b :: t => if p b then i else find_from p t (i + 1)%Z
  end.

Definition find_first (p : N -> bool) (h : list N) : Z := find_from p h 0%Z.

Definition memchr_spec (h : list N) (c : N) : Z := find_first (fun b => b =? c) h.
Definition memchr2_spec (h : list N) (c1 c2 : N) : Z :=
  find_first (fun b => (b =? c1) || (b =? c2)) h.
Definition memchr3_spec (h : list N) (c1 c2 c3 : N) : Z :=
  find_first (fun b => (b =? c1) || (b =? c2) || (b =? c3)) h.

Definition is_digit (b : N) : bool := (48 <=? b) && (b <=? 57).
Definition is_word (b : N) : bool :=
  ((65 <=? b) && (b <=? 90)) || ((97 <=? b) && (b <=? 122)) ||
  ((48 <=? b) && (b <=? 57)) || (b =? 95).
Definition non_ascii (b : N) : bool := 128 <=? b.

Definition memchr_digit_spec (h : list N) : Z := find_first is_digit h.
Definition memchr_word_spec (h : list N) : Z := find_first is_word h.
Definition memchr_not_word_spec (h : list N) : Z := find_first (fun b => negb (is_word b)) h.
Definition memchr_in_table_spec (tbl : N -> bool) (h : list N) : Z := find_first tbl h.
Definition memchr_not_in_table_spec (tbl : N -> bool) (h : list N) : Z :=
  find_first (fun b => negb (tbl b)) h.

Definition is_ascii_spec (h : list N) : bool := forallb (fun b => negb (non_ascii b)) h.
Definition count_non_ascii_spec (h : list N) : Z := Z.of_nat (length (filter non_ascii h)).
Definition first_non_ascii_spec (h : list N) : Z := find_first non_ascii h.

(* digit search starting at [at]: absolute index, -1 when [at] is out of range *)
Definition memchr_digit_at_spec (h : list N) (at_ : Z) : Z :=
  if ((at_ <? 0) || (Z.of_nat (length h) <=? at_))%Z then (-1)%Z
  else find_from is_digit (skipn (Z.to_nat at_) h) at_.

(* byte1 at position i and byte2 at position i+off *)
Definition pair_at (h : list N) (b1 b2 : N) (off : nat) : bool :=
  match h with
  | [] => false
  | b :: _ => (b =? b1) && match nth_error h off with Some b' => b' =? b2 | None => false end
  end.

Fixpoint pair_from (h : list N) (b1 b2 : N) (off : nat) (i : Z) : Z :=
  match h with
  | [] => (-1)%Z
  | _ :: t => if pair_at h b1 b2 off then i else pair_from t b1 b2 off (i + 1)%Z
  end.

Definition memchr_pair_spec (h : list N) (b1 b2 : N) (off : Z) : Z :=
  if (off <? 0)%Z then (-1)%Z else pair_from h b1 b2 (Z.to_nat off) 0%Z.

(* substring search: first i such that needle is a prefix of h[i:].  The empty
   needle matches at 0 (memmem.go:Memmem returns 0 for it, also on an empty haystack). *)
Fixpoint prefixb (n h : list N) : bool :=
  match n, h with
  | [], _ => true
  | x :: n', y :: h' => (x =? y) && prefixb n' h'
  | _ :: _, [] => false
  end.

Fixpoint memmem_from (h n : list N) (i : Z) : Z :=
  if prefixb n h then i
  else match h with
       | [] => (-1)%Z
       | _ :: t => memmem_from t n (i + 1)%Z
       end.

Definition memmem_spec (h n : list N) : Z := memmem_from h n 0%Z.

(* ------------------------------------------------------------------------- *)
(** * 2. Word operations                                                       *)
(* ------------------------------------------------------------------------- *)

Definition W64 : N := 0x10000000000000000.      (* 2^64 *)
Definition lo8 : N := 0x0101010101010101.
Definition hi8 : N := 0x8080808080808080.

(* uint64 subtraction, complement, multiplication *)
Definition sub64 (a b : N) : N := (a + W64 - b) mod W64.
Definition not64 (a : N) : N := N.lxor a (W64 - 1).
Definition mul64 (a b : N) : N := (a * b) mod W64.

(* the zero-byte detector  (v - lo8) & ^v & hi8  of memchr_generic_impl.go *)
Definition haszero (x : N) : N := N.land (N.land (sub64 x lo8) (not64 x)) hi8.

(* math/bits.TrailingZeros64 *)
Fixpoint ptz (p : positive) : nat :=
  match p with
  | xO q => S (ptz q)
  | _ => O
  end.
Definition tz64 (x : N) : nat :=
  match x with
  | N0 => 64%nat
  | Npos p => ptz p
  end.

(* little-endian value of a byte list; binary.LittleEndian.Uint64(h) reads the
   first 8 bytes of h *)
Fixpoint le (bs : list N) : N :=
  match bs with
  | [] => 0
  | b :: t => b + 256 * le t
  end.
Definition le64 (h : list N) : N := le (firstn 8 h).

(* ------------------------------------------------------------------------- *)
(** * 3. Models of the pure-Go code paths                                      *)
(* ------------------------------------------------------------------------- *)

(* Out-of-fuel / would-panic values.  The theorems show they never occur. *)
Definition OUT_OF_FUEL : Z := (-2)%Z.
Definition PANIC : Z := (-3)%Z.

(* The common shape of memchrGeneric / memchr2Generic / memchr3Generic after
   the short-input test (memchr_generic_impl.go):

     for idx+8 <= haystackLen {
        chunk := LittleEndian.Uint64(haystack[idx:]); hasZero := flags(chunk)
        if hasZero != 0 { return idx + TrailingZeros64(hasZero)/8 }
        idx += 8 }
     for idx < haystackLen { if p(haystack[idx]) { return idx }; idx++ }
     return -1

   The loop state is (remaining suffix haystack[idx:], idx).  [fuel] bounds the
   number of chunk iterations. *)
Fixpoint swar_loop (fuel : nat) (flags : N -> N) (p : N -> bool) (h : list N) (idx : Z) : Z :=
  if (8 <=? length h)%nat then
    match fuel with
    | O => OUT_OF_FUEL
    | S f =>
        let hz := flags (le64 h) in
        if hz =? 0 then swar_loop f flags p (skipn 8 h) (idx + 8)%Z
        else (idx + Z.of_nat (tz64 hz / 8))%Z
    end
  else find_from p h idx.

Definition bcast (c : N) : N := mul64 c lo8.

(* memchr_generic_impl.go:memchrGeneric *)
Definition memchr_swar (h : list N) (c : N) : Z :=
  let p := fun b => b =? c in
  if (length h =? 0)%nat then (-1)%Z
  else if (length h <? 8)%nat then find_from p h 0%Z
  else
    let mask := bcast c in
    swar_loop (length h) (fun chunk => haszero (N.lxor chunk mask)) p h 0%Z.

(* memchr_generic_impl.go:memchr2Generic *)
Definition memchr2_swar (h : list N) (c1 c2 : N) : Z :=
  let p := fun b => (b =? c1) || (b =? c2) in
  if (length h =? 0)%nat then (-1)%Z
  else if (length h <? 8)%nat then find_from p h 0%Z
  else
    let m1 := bcast c1 in
    let m2 := bcast c2 in
    swar_loop (length h)
      (fun chunk => N.lor (haszero (N.lxor chunk m1)) (haszero (N.lxor chunk m2))) p h 0%Z.

(* memchr_generic_impl.go:memchr3Generic *)
Definition memchr3_swar (h : list N) (c1 c2 c3 : N) : Z :=
  let p := fun b => (b =? c1) || (b =? c2) || (b =? c3) in
  if (length h =? 0)%nat then (-1)%Z
  else if (length h <? 8)%nat then find_from p h 0%Z
  else
    let m1 := bcast c1 in
    let m2 := bcast c2 in
    let m3 := bcast c3 in
    swar_loop (length h)
      (fun chunk => N.lor (N.lor (haszero (N.lxor chunk m1)) (haszero (N.lxor chunk m2)))
                          (haszero (N.lxor chunk m3))) p h 0%Z.

(* memchr_generic_impl.go:memchrDigitGeneric; memchr_class_generic.go:
   memchrWordGeneric, memchrNotWordGeneric, memchrInTableGeneric,
   memchrNotInTableGeneric; ascii_generic.go:FirstNonASCII -- all are the plain
   "for i, b := range haystack { if p(b) { return i } }; return -1" loop. *)
Fixpoint range_loop (p : N -> bool) (h : list N) (i : Z) : Z :=
  match h with
  | [] => (-1)%Z
  | b :: t => if p b then i else range_loop p t (i + 1)%Z
  end.

Definition memchr_digit_model (h : list N) : Z :=
  range_loop (fun b => (48 <=? b) && (b <=? 57)) h 0%Z.
Definition memchr_word_model (h : list N) : Z := range_loop is_word h 0%Z.
Definition memchr_not_word_model (h : list N) : Z := range_loop (fun b => negb (is_word b)) h 0%Z.
Definition memchr_in_table_model (tbl : N -> bool) (h : list N) : Z := range_loop tbl h 0%Z.
Definition memchr_not_in_table_model (tbl : N -> bool) (h : list N) : Z :=
  range_loop (fun b => negb (tbl b)) h 0%Z.
Definition first_non_ascii_model (h : list N) : Z := range_loop (fun b => 128 <=? b) h 0%Z.

(* memchr_digit_amd64.go / memchr_digit_fallback.go:MemchrDigitAt *)
Definition memchr_digit_at_model (h : list N) (at_ : Z) : Z :=
  if ((at_ <? 0) || (Z.of_nat (length h) <=? at_))%Z then (-1)%Z
  else
    let pos := memchr_digit_model (skipn (Z.to_nat at_) h) in
    if (pos <? 0)%Z then (-1)%Z else (pos + at_)%Z.

(* ascii_generic.go:CountNonASCII *)
Fixpoint count_loop (h : list N) (count : Z) : Z :=
  match h with
  | [] => count
  | b :: t => count_loop t (if 128 <=? b then (count + 1)%Z else count)
  end.
Definition count_non_ascii_model (h : list N) : Z := count_loop h 0%Z.

(* ascii_generic.go:isASCIIGeneric.  Byte loops return false at the first byte
   >= 0x80; the chunk loop returns false when chunk & hi8 != 0. *)
Fixpoint ascii_bytes (h : list N) : bool :=
  match h with
  | [] => true
  | b :: t => if 128 <=? b then false else ascii_bytes t
  end.

Fixpoint ascii_loop (fuel : nat) (h : list N) : option bool :=
  if (8 <=? length h)%nat then
    match fuel with
    | O => None
    | S f =>
        if negb (N.land (le64 h) hi8 =? 0) then Some false
        else ascii_loop f (skipn 8 h)
    end
  else Some (ascii_bytes h).

Definition is_ascii_swar (h : list N) : option bool :=
  if (length h =? 0)%nat then Some true
  else if (length h <? 8)%nat then Some (ascii_bytes h)
  else ascii_loop (length h) h.

(* memchr_generic_impl.go:memchrPairGeneric.
   [get h i] is the bounds-checked read haystack[i]. *)
Definition get (h : list N) (i : nat) : option N := nth_error h i.

(* the candidate verification loop
     for hasZero != 0 { pos := tz(hasZero)/8
        if haystack[idx+pos]==byte1 && haystack[idx+pos+offset]==byte2 { return idx+pos }
        hasZero &^= 0x80 << (pos*8) }
   [rem] is haystack[idx:].  Result: Some r = returned r; None = fell through. *)
Fixpoint pair_verify (fuel : nat) (hz : N) (rem : list N) (b1 b2 : N) (off : nat) (idx : Z)
  : option Z :=
  if hz =? 0 then None
  else
    match fuel with
    | O => Some OUT_OF_FUEL
    | S f =>
        let pos := (tz64 hz / 8)%nat in
        match get rem pos, get rem (pos + off) with
        | Some x, Some y =>
            if (x =? b1) && (y =? b2) then Some (idx + Z.of_nat pos)%Z
            else pair_verify f (N.ldiff hz (N.shiftl 128 (N.of_nat (pos * 8)))) rem b1 b2 off idx
        | Some x, None =>
            (* Go evaluates the right operand of && only when the left one holds *)
            if x =? b1 then Some PANIC
            else pair_verify f (N.ldiff hz (N.shiftl 128 (N.of_nat (pos * 8)))) rem b1 b2 off idx
        | None, _ => Some PANIC
        end
    end.

(* the byte-by-byte loops  for i := idx; i+offset < len; i++  *)
Fixpoint pair_bytes (rem : list N) (b1 b2 : N) (off : nat) (idx : Z) : Z :=
  if (off <? length rem)%nat then
    match rem with
    | [] => (-1)%Z
    | x :: t =>
        match get rem off with
        | Some y => if (x =? b1) && (y =? b2) then idx else pair_bytes t b1 b2 off (idx + 1)%Z
        | None => PANIC
        end
    end
  else (-1)%Z.

Fixpoint pair_loop (fuel : nat) (rem : list N) (m1 m2 b1 b2 : N) (off : nat) (idx : Z) : Z :=
  if (8 + off <=? length rem)%nat then
    match fuel with
    | O => OUT_OF_FUEL
    | S f =>
        let chunk1 := le64 rem in
        let chunk2 := le64 (skipn off rem) in
        let hz := N.land (haszero (N.lxor chunk1 m1)) (haszero (N.lxor chunk2 m2)) in
        match pair_verify 9 hz rem b1 b2 off idx with
        | Some r => r
        | None => pair_loop f (skipn 8 rem) m1 m2 b1 b2 off (idx + 8)%Z
        end
    end
  else pair_bytes rem b1 b2 off idx.

Definition memchr_pair_swar (h : list N) (b1 b2 : N) (offset : Z) : Z :=
  if ((length h =? 0)%nat || (offset <? 0)%Z || (Z.of_nat (length h) <=? offset)%Z)%bool
  then (-1)%Z
  else
    let off := Z.to_nat offset in
    if (length h <? 8 + off)%nat then pair_bytes h b1 b2 off 0%Z
    else pair_loop (length h) h (bcast b1) (bcast b2) b1 b2 off 0%Z.

(* ------------------------------------------------------------------------- *)
(** * 4. Lane machinery                                                        *)
(* ------------------------------------------------------------------------- *)

Lemma cons_mod a x : a < 256 -> (a + 256 * x) mod 256 = a.
Proof. intros Ha. lia. Qed.

Lemma cons_div a x : a < 256 -> (a + 256 * x) / 256 = x.
Proof. intros Ha. lia. Qed.

Lemma split256 z : z = z mod 256 + 256 * (z / 256).
Proof. lia. Qed.

Lemma mod256_lt z : z mod 256 = z -> z < 256.
Proof. intros Hz. lia. Qed.

Lemma land_mod a b : (N.land a b) mod 256 = N.land (a mod 256) (b mod 256).
Proof.
  change 256 with (2 ^ 8). rewrite <- !N.land_ones.
  apply N.bits_inj. intros n. rewrite !N.land_spec.
  destruct (N.testbit a n), (N.testbit b n), (N.testbit (N.ones 8) n); reflexivity.
Qed.

Lemma lor_mod a b : (N.lor a b) mod 256 = N.lor (a mod 256) (b mod 256).
Proof.
  change 256 with (2 ^ 8). rewrite <- !N.land_ones.
  apply N.bits_inj. intros n. rewrite !N.land_spec, !N.lor_spec, !N.land_spec.
  destruct (N.testbit a n), (N.testbit b n), (N.testbit (N.ones 8) n); reflexivity.
Qed.

Lemma lxor_mod a b : (N.lxor a b) mod 256 = N.lxor (a mod 256) (b mod 256).
Proof.
  change 256 with (2 ^ 8). rewrite <- !N.land_ones.
  apply N.bits_inj. intros n. rewrite !N.land_spec, !N.lxor_spec, !N.land_spec.
  destruct (N.testbit a n), (N.testbit b n), (N.testbit (N.ones 8) n); reflexivity.
Qed.

Lemma ldiff_mod a b : (N.ldiff a b) mod 256 = N.ldiff (a mod 256) (b mod 256).
Proof.
  change 256 with (2 ^ 8). rewrite <- !N.land_ones.
  apply N.bits_inj. intros n. rewrite !N.land_spec, !N.ldiff_spec, !N.land_spec.
  destruct (N.testbit a n), (N.testbit b n), (N.testbit (N.ones 8) n); reflexivity.
Qed.

Lemma land_div a b : (N.land a b) / 256 = N.land (a / 256) (b / 256).
Proof. change 256 with (2 ^ 8). rewrite <- !N.shiftr_div_pow2. apply N.shiftr_land. Qed.

Lemma lor_div a b : (N.lor a b) / 256 = N.lor (a / 256) (b / 256).
Proof. change 256 with (2 ^ 8). rewrite <- !N.shiftr_div_pow2. apply N.shiftr_lor. Qed.

Lemma lxor_div a b : (N.lxor a b) / 256 = N.lxor (a / 256) (b / 256).
Proof. change 256 with (2 ^ 8). rewrite <- !N.shiftr_div_pow2. apply N.shiftr_lxor. Qed.

Lemma ldiff_div a b : (N.ldiff a b) / 256 = N.ldiff (a / 256) (b / 256).
Proof. change 256 with (2 ^ 8). rewrite <- !N.shiftr_div_pow2. apply N.shiftr_ldiff. Qed.

Lemma land_cons a x b y : a < 256 -> b < 256 ->
  N.land (a + 256 * x) (b + 256 * y) = N.land a b + 256 * N.land x y.
Proof.
  intros Ha Hb. rewrite (split256 (N.land _ _)).
  rewrite land_mod, land_div, !cons_mod, !cons_div by assumption. reflexivity.
Qed.

Lemma lor_cons a x b y : a < 256 -> b < 256 ->
  N.lor (a + 256 * x) (b + 256 * y) = N.lor a b + 256 * N.lor x y.
Proof.
  intros Ha Hb. rewrite (split256 (N.lor _ _)).
  rewrite lor_mod, lor_div, !cons_mod, !cons_div by assumption. reflexivity.
Qed.

Lemma lxor_cons a x b y : a < 256 -> b < 256 ->
  N.lxor (a + 256 * x) (b + 256 * y) = N.lxor a b + 256 * N.lxor x y.
Proof.
  intros Ha Hb. rewrite (split256 (N.lxor _ _)).
  rewrite lxor_mod, lxor_div, !cons_mod, !cons_div by assumption. reflexivity.
Qed.

Lemma ldiff_cons a x b y : a < 256 -> b < 256 ->
  N.ldiff (a + 256 * x) (b + 256 * y) = N.ldiff a b + 256 * N.ldiff x y.
Proof.
  intros Ha Hb. rewrite (split256 (N.ldiff _ _)).
  rewrite ldiff_mod, ldiff_div, !cons_mod, !cons_div by assumption. reflexivity.
Qed.

Lemma land_lt256 a b : a < 256 -> N.land a b < 256.
Proof.
  intros Ha. apply mod256_lt.
  change 256 with (2 ^ 8). rewrite <- N.land_ones.
  rewrite <- N.land_assoc, (N.land_comm b), N.land_assoc, N.land_ones.
  change (2 ^ 8) with 256. rewrite N.mod_small by assumption. reflexivity.
Qed.

Lemma lor_lt256 a b : a < 256 -> b < 256 -> N.lor a b < 256.
Proof. intros Ha Hb. apply mod256_lt. rewrite lor_mod, !N.mod_small by assumption. reflexivity. Qed.

Lemma lxor_lt256 a b : a < 256 -> b < 256 -> N.lxor a b < 256.
Proof. intros Ha Hb. apply mod256_lt. rewrite lxor_mod, !N.mod_small by assumption. reflexivity. Qed.

Lemma ldiff_lt256 a b : a < 256 -> N.ldiff a b < 256.
Proof.
  intros Ha. apply mod256_lt. rewrite ldiff_mod, (N.mod_small a 256 Ha).
  apply N.bits_inj. intros n. rewrite !N.ldiff_spec.
  destruct (N.testbit a n) eqn:Ea; [| reflexivity]. cbn [andb]. f_equal.
  change 256 with (2 ^ 8).
  assert (Hn : n < 8).
  { destruct (N.ltb_spec n 8) as [Hlt | Hge]; [assumption |].
    assert (Hf : N.testbit a n = false); [| congruence].
    rewrite <- (N.mod_small a (2 ^ 8)) by (change (2 ^ 8) with 256; assumption).
    apply N.mod_pow2_bits_high. assumption. }
  apply N.mod_pow2_bits_low. assumption.
Qed.

(* n-lane versions of 2^(8n) and of the constant 0x01..01 *)
Fixpoint pw (n : nat) : N := match n with O => 1 | S k => 256 * pw k end.
Fixpoint lo (n : nat) : N := match n with O => 0 | S k => 1 + 256 * lo k end.

Lemma pw_pos n : 1 <= pw n.
Proof. induction n as [|n IH]; cbn [pw]; lia. Qed.

Lemma lo_pw n : 255 * lo n + 1 = pw n.
Proof. induction n as [|n IH]; cbn [pw lo]; lia. Qed.

Lemma le_lt bs : bytes bs -> le bs < pw (length bs).
Proof.
  intros Hb. induction Hb as [|b t Hb1 Hb2 IH]; cbn [le pw length]; unfold byte in *; lia.
Qed.

Lemma bytes_firstn n h : bytes h -> bytes (firstn n h).
Proof.
  revert h. induction n as [|n IH]; intros h Hb; cbn [firstn]; [constructor|].
  destruct h as [|b t]; [constructor|]. inversion Hb; subst. constructor; auto. apply IH; assumption.
Qed.

Lemma bytes_skipn n h : bytes h -> bytes (skipn n h).
Proof.
  revert h. induction n as [|n IH]; intros h Hb; cbn [skipn]; [assumption|].
  destruct h as [|b t]; [constructor|]. inversion Hb; subst. apply IH; assumption.
Qed.

(* one lane of  (v - lo8) & ^v & hi8  with borrow-in [bw]; borrow-out [bout] *)
Definition bout (b bw : N) : N := if b <? 1 + bw then 1 else 0.
Definition flane (b bw : N) : N :=
  N.land (N.land ((b + 256 - 1 - bw) mod 256) (N.lxor b 255)) 128.

Lemma bout_le1 b bw : bout b bw <= 1.
Proof. unfold bout. destruct (b <? 1 + bw); lia. Qed.

Lemma mod_lane r S P : r < 256 -> P <> 0 -> (r + 256 * S) mod (256 * P) = r + 256 * (S mod P).
Proof.
  intros Hr HP. rewrite N.mod_mul_r by lia.
  rewrite cons_mod, cons_div by assumption. reflexivity.
Qed.

Lemma sub_lane b X P L bw : b < 256 -> bw <= 1 -> L + 1 <= P ->
  (b + 256 * X + 256 * P - (1 + 256 * L) - bw) mod (256 * P)
  = (b + 256 - 1 - bw) mod 256 + 256 * ((X + P - L - bout b bw) mod P).
Proof.
  intros Hb Hbw HL. unfold bout. destruct (N.ltb_spec b (1 + bw)) as [Hlt | Hge].
  - replace (b + 256 * X + 256 * P - (1 + 256 * L) - bw)
      with ((b + 256 - 1 - bw) + 256 * (X + P - L - 1)) by lia.
    rewrite mod_lane by lia.
    rewrite (N.mod_small (b + 256 - 1 - bw)) by lia. reflexivity.
  - replace (b + 256 * X + 256 * P - (1 + 256 * L) - bw)
      with ((b - 1 - bw) + 256 * (X + P - L - 0)) by lia.
    rewrite mod_lane by lia.
    replace ((b + 256 - 1 - bw) mod 256) with (b - 1 - bw) by lia. reflexivity.
Qed.

(* the detector on an n-lane word with borrow-in *)
Definition hz_n (n : nat) (x bw : N) : N :=
  N.land (N.land ((x + pw n - lo n - bw) mod pw n) (N.lxor x (pw n - 1))) (128 * lo n).

Fixpoint hz_lanes (bs : list N) (bw : N) : list N :=
  match bs with
  | [] => []
  | b :: t => flane b bw :: hz_lanes t (bout b bw)
  end.

Lemma hz_n_lanes : forall bs bw, bytes bs -> bw <= 1 ->
  hz_n (length bs) (le bs) bw = le (hz_lanes bs bw).
Proof.
  induction bs as [|b t IH]; intros bw Hb Hbw.
  - unfold hz_n. cbn [length lo le hz_lanes]. rewrite N.mul_0_r, N.land_0_r. reflexivity.
  - inversion Hb as [|? ? Hb1 Hb2]; subst. unfold byte in Hb1.
    cbn [length le hz_lanes]. rewrite <- (IH (bout b bw) Hb2 (bout_le1 b bw)).
    unfold hz_n, flane. cbn [pw lo].
    pose proof (pw_pos (length t)) as Hp. pose proof (lo_pw (length t)) as Hl.
    rewrite sub_lane by lia.
    replace (256 * pw (length t) - 1) with (255 + 256 * (pw (length t) - 1)) by lia.
    replace (128 * (1 + 256 * lo (length t))) with (128 + 256 * (128 * lo (length t))) by lia.
    rewrite lxor_cons by lia.
    assert (Hs : (b + 256 - 1 - bw) mod 256 < 256) by lia.
    assert (Hx : N.lxor b 255 < 256) by (apply lxor_lt256; lia).
    rewrite land_cons by assumption.
    rewrite land_cons by (try apply land_lt256; lia).
    reflexivity.
Qed.

Lemma haszero_hz_n x : haszero x = hz_n 8 x 0.
Proof.
  unfold haszero, hz_n, sub64, not64.
  replace (pw 8) with W64 by (vm_compute; reflexivity).
  replace (lo 8) with lo8 by (vm_compute; reflexivity).
  replace (128 * lo8) with hi8 by (vm_compute; reflexivity).
  rewrite N.sub_0_r. reflexivity.
Qed.

(* --- the per-lane fact, checked over the 256 x 2 (byte, borrow-in) cases --- *)

Definition all_bytes : list N := map N.of_nat (seq 0 256).

Lemma in_all_bytes b : b < 256 -> In b all_bytes.
Proof.
  intros Hb. unfold all_bytes. rewrite <- (N2Nat.id b). apply in_map. apply in_seq. lia.
Qed.

Definition lane_ok (b bw : N) : bool :=
  let v := flane b bw in
  ((v =? 0) || (v =? 128))
  && (negb (b =? 0) || (v =? 128))
  && (negb ((bw =? 0) && negb (b =? 0)) || ((v =? 0) && (bout b bw =? 0))).

Lemma lane_all : forallb (fun b => lane_ok b 0 && lane_ok b 1) all_bytes = true.
Proof. vm_compute. reflexivity. Qed.

Lemma lane_facts b bw : b < 256 -> bw <= 1 -> lane_ok b bw = true.
Proof.
  intros Hb Hbw. pose proof lane_all as H. rewrite forallb_forall in H.
  specialize (H b (in_all_bytes b Hb)). apply andb_true_iff in H. destruct H as [H0 H1].
  assert (Hc : bw = 0 \/ bw = 1) by lia. destruct Hc; subst; assumption.
Qed.

Definition flag (l : N) : Prop := l = 0 \/ l = 128.

Lemma flane_flag b bw : b < 256 -> bw <= 1 -> flag (flane b bw).
Proof.
  intros Hb Hbw. pose proof (lane_facts b bw Hb Hbw) as H. unfold lane_ok in H. unfold flag.
  lia.
Qed.

Lemma flane_zero b bw : b < 256 -> bw <= 1 -> b = 0 -> flane b bw = 128.
Proof.
  intros Hb Hbw Hz. pose proof (lane_facts b bw Hb Hbw) as H. unfold lane_ok in H. lia.
Qed.

Lemma flane_nonzero b : b < 256 -> b <> 0 -> flane b 0 = 0 /\ bout b 0 = 0.
Proof.
  intros Hb Hz. assert (Hbw : 0 <= 1) by lia.
  pose proof (lane_facts b 0 Hb Hbw) as H. unfold lane_ok in H. lia.
Qed.

Lemma flag_byte l : flag l -> byte l.
Proof. unfold flag, byte. lia. Qed.

Lemma flags_bytes L : Forall flag L -> bytes L.
Proof. intros H. eapply Forall_impl; [| exact H]. exact flag_byte. Qed.

(* --- lanes versus the positions of the matching bytes --- *)

Fixpoint findb (zs : list bool) : option nat :=
  match zs with
  | [] => None
  | z :: t => if z then Some O else option_map S (findb t)
  end.

Fixpoint first_index (p : N -> bool) (l : list N) : option nat :=
  match l with
  | [] => None
  | b :: t => if p b then Some O else option_map S (first_index p t)
  end.

Lemma first_index_findb p l : first_index p l = findb (map p l).
Proof. induction l as [|b t IH]; cbn; [reflexivity|]. rewrite IH. reflexivity. Qed.

(* [exact L zs]: lanes are 0 before the first true of zs, 128 at it, and 0/128 after *)
Fixpoint exact (L : list N) (zs : list bool) : Prop :=
  match L, zs with
  | [], [] => True
  | l :: L', z :: zs' =>
      if z then l = 128 /\ Forall flag L' /\ length L' = length zs'
      else l = 0 /\ exact L' zs'
  | _, _ => False
  end.

(* [complete L zs]: lanes are 0/128 and every true of zs is marked 128 *)
Definition complete (L : list N) (zs : list bool) : Prop :=
  Forall2 (fun l z => flag l /\ (z = true -> l = 128)) L zs.

Lemma exact_flags : forall L zs, exact L zs -> Forall flag L /\ length L = length zs.
Proof.
  induction L as [|l L IH]; intros [|z zs] H; cbn [exact] in H; try contradiction.
  - split; [constructor | reflexivity].
  - destruct z.
    + destruct H as (Hl & Hf & Hlen). split; [constructor; [right; assumption | assumption]|].
      cbn [length]. congruence.
    + destruct H as (Hl & He). destruct (IH _ He) as [Hf Hlen].
      split; [constructor; [left; assumption | assumption]|]. cbn [length]. congruence.
Qed.

Lemma hz_lanes_flags : forall bs bw, bytes bs -> bw <= 1 -> Forall flag (hz_lanes bs bw).
Proof.
  induction bs as [|b t IH]; intros bw Hb Hbw; cbn [hz_lanes]; [constructor|].
  inversion Hb; subst. constructor.
  - apply flane_flag; assumption.
  - apply IH; [assumption | apply bout_le1].
Qed.

Lemma hz_lanes_length : forall bs bw, length (hz_lanes bs bw) = length bs.
Proof. induction bs as [|b t IH]; intros bw; cbn [hz_lanes length]; [reflexivity|]. rewrite IH. reflexivity. Qed.

Lemma hz_lanes_exact : forall bs, bytes bs ->
  exact (hz_lanes bs 0) (map (fun b => b =? 0) bs).
Proof.
  induction bs as [|b t IH]; intros Hb; cbn [hz_lanes map exact]; [exact I|].
  inversion Hb as [|? ? Hb1 Hb2]; subst. unfold byte in Hb1.
  destruct (N.eqb_spec b 0) as [Hz | Hnz].
  - split; [apply flane_zero; lia|]. split.
    + apply hz_lanes_flags; [assumption | apply bout_le1].
    + rewrite hz_lanes_length, map_length. reflexivity.
  - destruct (flane_nonzero b Hb1 Hnz) as [Hf Hbo]. rewrite Hbo.
    split; [assumption | apply IH; assumption].
Qed.

Lemma hz_lanes_complete : forall bs bw, bytes bs -> bw <= 1 ->
  complete (hz_lanes bs bw) (map (fun b => b =? 0) bs).
Proof.
  induction bs as [|b t IH]; intros bw Hb Hbw; cbn [hz_lanes map]; [constructor|].
  inversion Hb as [|? ? Hb1 Hb2]; subst. unfold byte in Hb1. constructor.
  - split; [apply flane_flag; assumption|]. intros Hz. apply flane_zero; try assumption. lia.
  - apply IH; [assumption | apply bout_le1].
Qed.

Lemma tz_cons0 y : y <> 0 -> tz64 (0 + 256 * y) = (8 + tz64 y)%nat.
Proof. destruct y as [|p]; [congruence | reflexivity]. Qed.

Lemma tz_cons128 y : tz64 (128 + 256 * y) = 7%nat.
Proof. destruct y as [|p]; reflexivity. Qed.

Lemma exact_tz : forall L zs, exact L zs ->
  match findb zs with
  | Some i => le L <> 0 /\ tz64 (le L) = (7 + 8 * i)%nat
  | None => le L = 0
  end.
Proof.
  induction L as [|l L IH]; intros [|z zs] H; cbn [exact] in H; try contradiction.
  - reflexivity.
  - cbn [findb le]. destruct z.
    + destruct H as (Hl & _ & _). subst l. split; [lia | apply tz_cons128].
    + destruct H as (Hl & He). subst l. specialize (IH _ He).
      destruct (findb zs) as [i|]; cbn [option_map].
      * destruct IH as [Hnz Htz]. split; [lia|]. rewrite tz_cons0 by assumption. lia.
      * rewrite IH. reflexivity.
Qed.

(* word [w] marks the bytes of [bs] satisfying [p], exactly up to the first one *)
Definition marks (w : N) (bs : list N) (p : N -> bool) : Prop :=
  exists L, w = le L /\ exact L (map p bs).

Lemma marks_first w bs p : marks w bs p ->
  match first_index p bs with
  | Some i => w <> 0 /\ (tz64 w / 8)%nat = i
  | None => w = 0
  end.
Proof.
  intros (L & Hw & He). subst w. rewrite first_index_findb.
  pose proof (exact_tz _ _ He) as H. destruct (findb (map p bs)) as [i|]; [| assumption].
  destruct H as [Hnz Htz]. split; [assumption|]. rewrite Htz. lia.
Qed.

Fixpoint zipw {A B C : Type} (f : A -> B -> C) (l1 : list A) (l2 : list B) : list C :=
  match l1, l2 with
  | a :: t1, b :: t2 => f a b :: zipw f t1 t2
  | _, _ => []
  end.

Lemma zipw_length {A B C} (f : A -> B -> C) : forall l1 l2, length l1 = length l2 ->
  length (zipw f l1 l2) = length l1.
Proof.
  induction l1 as [|a t IH]; intros [|b t2] H; cbn in *; try reflexivity; try discriminate.
  f_equal. apply IH. congruence.
Qed.

Lemma zipw_map {A B C D} (f : B -> C -> D) (g1 : A -> B) (g2 : A -> C) : forall l,
  zipw f (map g1 l) (map g2 l) = map (fun a => f (g1 a) (g2 a)) l.
Proof. induction l as [|a t IH]; cbn; [reflexivity|]. rewrite IH. reflexivity. Qed.

Lemma le_zip_lor : forall L1 L2, bytes L1 -> bytes L2 -> length L1 = length L2 ->
  N.lor (le L1) (le L2) = le (zipw N.lor L1 L2).
Proof.
  induction L1 as [|a t IH]; intros [|b t2] H1 H2 Hl; cbn in Hl; try discriminate.
  - reflexivity.
  - inversion H1; inversion H2; subst. cbn [le zipw]. unfold byte in *.
    rewrite lor_cons by assumption. rewrite IH by (auto; congruence). reflexivity.
Qed.

Lemma le_zip_land : forall L1 L2, bytes L1 -> bytes L2 -> length L1 = length L2 ->
  N.land (le L1) (le L2) = le (zipw N.land L1 L2).
Proof.
  induction L1 as [|a t IH]; intros [|b t2] H1 H2 Hl; cbn in Hl; try discriminate.
  - reflexivity.
  - inversion H1; inversion H2; subst. cbn [le zipw]. unfold byte in *.
    rewrite land_cons by assumption. rewrite IH by (auto; congruence). reflexivity.
Qed.

Lemma flag_lor a b : flag a -> flag b -> flag (N.lor a b).
Proof. unfold flag. intros [-> | ->] [-> | ->]; cbn; auto. Qed.

Lemma flags_zip_lor : forall L1 L2, Forall flag L1 -> Forall flag L2 ->
  Forall flag (zipw N.lor L1 L2).
Proof.
  induction L1 as [|a t IH]; intros [|b t2] H1 H2; cbn [zipw]; try constructor.
  - inversion H1; inversion H2; subst. apply flag_lor; assumption.
  - inversion H1; inversion H2; subst. apply IH; assumption.
Qed.

Lemma exact_or : forall L1 L2 z1 z2, exact L1 z1 -> exact L2 z2 -> length z1 = length z2 ->
  exact (zipw N.lor L1 L2) (zipw orb z1 z2).
Proof.
  induction L1 as [|a L1 IH]; intros L2 z1 z2 H1 H2 Hlen.
  - destruct z1; cbn [exact] in H1; try contradiction.
    destruct z2; cbn in Hlen; try discriminate. destruct L2; cbn [exact] in H2; try contradiction.
    exact I.
  - destruct z1 as [|x1 z1]; cbn [exact] in H1; try contradiction.
    destruct z2 as [|x2 z2]; cbn in Hlen; try discriminate.
    destruct L2 as [|b L2]; cbn [exact] in H2; try contradiction.
    cbn [zipw exact].
    destruct x1, x2; cbn [orb].
    + destruct H1 as (-> & Hf1 & Hl1). destruct H2 as (-> & Hf2 & Hl2).
      split; [reflexivity|]. split; [apply flags_zip_lor; assumption|].
      rewrite !zipw_length; congruence.
    + destruct H1 as (-> & Hf1 & Hl1). destruct H2 as (-> & He2).
      destruct (exact_flags _ _ He2) as [Hf2 Hl2].
      split; [reflexivity|]. split; [apply flags_zip_lor; assumption|].
      rewrite !zipw_length; congruence.
    + destruct H1 as (-> & He1). destruct H2 as (-> & Hf2 & Hl2).
      destruct (exact_flags _ _ He1) as [Hf1 Hl1].
      split; [reflexivity|]. split; [apply flags_zip_lor; assumption|].
      rewrite !zipw_length; congruence.
    + destruct H1 as (-> & He1). destruct H2 as (-> & He2).
      split; [reflexivity|]. apply IH; [assumption | assumption | congruence].
Qed.

Lemma marks_or w1 w2 bs p1 p2 : marks w1 bs p1 -> marks w2 bs p2 ->
  marks (N.lor w1 w2) bs (fun b => p1 b || p2 b).
Proof.
  intros (L1 & -> & H1) (L2 & -> & H2).
  destruct (exact_flags _ _ H1) as [Hf1 Hl1]. destruct (exact_flags _ _ H2) as [Hf2 Hl2].
  rewrite map_length in Hl1, Hl2.
  exists (zipw N.lor L1 L2). split.
  - apply le_zip_lor; [apply flags_bytes | apply flags_bytes | congruence]; assumption.
  - rewrite <- zipw_map. apply exact_or; [assumption | assumption |]. rewrite !map_length. reflexivity.
Qed.

(* xor with the broadcast needle, lane by lane *)
Lemma bcast_le c : c < 256 -> bcast c = le (repeat c 8).
Proof.
  intros Hc. unfold bcast, mul64, lo8, W64. rewrite N.mod_small by lia.
  cbn [repeat le]. lia.
Qed.

Lemma lxor_le_repeat : forall bs c, bytes bs -> c < 256 ->
  N.lxor (le bs) (le (repeat c (length bs))) = le (map (fun b => N.lxor b c) bs).
Proof.
  induction bs as [|b t IH]; intros c Hb Hc; cbn [length repeat le map]; [reflexivity|].
  inversion Hb; subst. unfold byte in *. rewrite lxor_cons by assumption.
  rewrite IH by assumption. reflexivity.
Qed.

Lemma bytes_map_lxor bs c : bytes bs -> c < 256 -> bytes (map (fun b => N.lxor b c) bs).
Proof.
  intros Hb Hc. induction Hb as [|b t Hb1 Hb2 IH]; cbn [map]; constructor; [|assumption].
  unfold byte in *. apply lxor_lt256; assumption.
Qed.

Lemma lxor_eqb0 b c : (N.lxor b c =? 0) = (b =? c).
Proof.
  destruct (N.eqb_spec b c) as [-> | Hne].
  - rewrite N.lxor_nilpotent. reflexivity.
  - destruct (N.eqb_spec (N.lxor b c) 0) as [Hz | Hnz]; [| reflexivity].
    apply N.lxor_eq in Hz. contradiction.
Qed.

(* ------------------------------------------------------------------------- *)
(** * 5. The key lemma                                                         *)
(* ------------------------------------------------------------------------- *)

Lemma haszero_marks bs : length bs = 8%nat -> bytes bs ->
  marks (haszero (le bs)) bs (fun b => b =? 0).
Proof.
  intros Hlen Hb. exists (hz_lanes bs 0). split.
  - rewrite haszero_hz_n, <- Hlen. apply hz_n_lanes; [assumption | lia].
  - apply hz_lanes_exact. assumption.
Qed.

(* For every 64-bit word x, given as its 8 little-endian bytes: if x has a zero
   byte then  tz((x - lo8) & ^x & hi8) / 8  is the index of the first zero byte
   (and the expression is non-zero); if x has no zero byte the expression is 0. *)
Theorem has_zero_byte_first : forall bs, length bs = 8%nat -> bytes bs ->
  match first_index (fun b => b =? 0) bs with
  | Some i => haszero (le bs) <> 0 /\ (tz64 (haszero (le bs)) / 8)%nat = i
  | None => haszero (le bs) = 0
  end.
Proof. intros bs Hlen Hb. apply marks_first. apply haszero_marks; assumption. Qed.

(* the same statement quantified over the word *)
Fixpoint bytes_of (n : nat) (x : N) : list N :=
  match n with
  | O => []
  | S k => x mod 256 :: bytes_of k (x / 256)
  end.

Lemma bytes_of_length n : forall x, length (bytes_of n x) = n.
Proof. induction n as [|n IH]; intros x; cbn; [reflexivity|]. rewrite IH. reflexivity. Qed.

Lemma bytes_of_bytes n : forall x, bytes (bytes_of n x).
Proof.
  induction n as [|n IH]; intros x; cbn [bytes_of]; constructor; [unfold byte; lia | apply IH].
Qed.

Lemma le_bytes_of n : forall x, le (bytes_of n x) = x mod pw n.
Proof.
  induction n as [|n IH]; intros x; cbn [bytes_of le pw].
  - rewrite N.mod_1_r. reflexivity.
  - rewrite IH. pose proof (pw_pos n). rewrite N.mod_mul_r by lia. reflexivity.
Qed.

Theorem has_zero_byte_first_word : forall x, x < W64 ->
  match first_index (fun b => b =? 0) (bytes_of 8 x) with
  | Some i => haszero x <> 0 /\ (tz64 (haszero x) / 8)%nat = i
  | None => haszero x = 0
  end.
Proof.
  intros x Hx.
  pose proof (has_zero_byte_first (bytes_of 8 x) (bytes_of_length 8 x) (bytes_of_bytes 8 x)) as H.
  rewrite le_bytes_of in H. replace (pw 8) with W64 in H by (vm_compute; reflexivity).
  rewrite N.mod_small in H by assumption. exact H.
Qed.

Lemma memchr_marks bs c : length bs = 8%nat -> bytes bs -> c < 256 ->
  marks (haszero (N.lxor (le bs) (bcast c))) bs (fun b => b =? c).
Proof.
  intros Hlen Hb Hc. rewrite bcast_le by assumption. rewrite <- Hlen.
  rewrite lxor_le_repeat by assumption.
  set (xs := map (fun b => N.lxor b c) bs).
  assert (Hxl : length xs = 8%nat) by (unfold xs; rewrite map_length; assumption).
  assert (Hxb : bytes xs) by (apply bytes_map_lxor; assumption).
  destruct (haszero_marks xs Hxl Hxb) as (L & Hw & He).
  exists L. split; [assumption|].
  unfold xs in He. rewrite map_map in He.
  rewrite (map_ext (fun x => N.lxor x c =? 0) (fun b => b =? c)) in He
    by (intros b; apply lxor_eqb0).
  exact He.
Qed.

(* ------------------------------------------------------------------------- *)
(** * 6. Correctness of the models                                             *)
(* ------------------------------------------------------------------------- *)

Definition flags_ok (flags : N -> N) (p : N -> bool) : Prop :=
  forall bs, length bs = 8%nat -> bytes bs ->
    match first_index p bs with
    | Some i => flags (le bs) <> 0 /\ (tz64 (flags (le bs)) / 8)%nat = i
    | None => flags (le bs) = 0
    end.

Lemma find_from_app p : forall l t idx,
  find_from p (l ++ t) idx =
  match first_index p l with
  | Some i => (idx + Z.of_nat i)%Z
  | None => find_from p t (idx + Z.of_nat (length l))%Z
  end.
Proof.
  induction l as [|b l IH]; intros t idx; cbn [app find_from first_index length].
  - f_equal. lia.
  - destruct (p b); [lia|]. rewrite IH.
    destruct (first_index p l) as [i|]; cbn [option_map]; [lia | f_equal; lia].
Qed.

Lemma swar_loop_correct flags p : flags_ok flags p ->
  forall fuel h idx, bytes h -> (length h <= fuel)%nat ->
    swar_loop fuel flags p h idx = find_from p h idx.
Proof.
  intros Hok. induction fuel as [|f IH]; intros h idx Hb Hlen; cbn [swar_loop].
  - destruct (Nat.leb_spec 8 (length h)); [lia | reflexivity].
  - destruct (Nat.leb_spec 8 (length h)) as [H8 | H8]; [| reflexivity].
    assert (E : find_from p h idx = find_from p (firstn 8 h ++ skipn 8 h) idx)
      by (rewrite firstn_skipn; reflexivity).
    rewrite E, find_from_app. unfold le64.
    assert (Hfl : length (firstn 8 h) = 8%nat) by (apply firstn_length_le; assumption).
    specialize (Hok (firstn 8 h) Hfl (bytes_firstn 8 h Hb)).
    destruct (first_index p (firstn 8 h)) as [i|].
    + destruct Hok as [Hnz Htz]. destruct (N.eqb_spec (flags (le (firstn 8 h))) 0); [contradiction|].
      rewrite Htz. reflexivity.
    + rewrite Hok. cbn [N.eqb]. rewrite Hfl. apply IH.
      * apply bytes_skipn; assumption.
      * rewrite skipn_length. lia.
Qed.

Lemma find_first_range p h i : range_loop p h i = find_from p h i.
Proof. revert i. induction h as [|b t IH]; intros i; cbn; [reflexivity|]. rewrite IH. reflexivity. Qed.

Theorem memchr_swar_correct : forall h c, c < 256 -> bytes h ->
  memchr_swar h c = memchr_spec h c.
Proof.
  intros h c Hc Hb. unfold memchr_swar, memchr_spec, find_first.
  destruct (length h =? 0)%nat eqn:E0.
  - destruct h; [reflexivity | discriminate].
  - destruct (length h <? 8)%nat; [reflexivity|].
    apply swar_loop_correct; [| assumption | lia].
    intros bs Hl Hbs. apply marks_first. apply memchr_marks; assumption.
Qed.

Theorem memchr2_swar_correct : forall h c1 c2, c1 < 256 -> c2 < 256 -> bytes h ->
  memchr2_swar h c1 c2 = memchr2_spec h c1 c2.
Proof.
  intros h c1 c2 Hc1 Hc2 Hb. unfold memchr2_swar, memchr2_spec, find_first.
  destruct (length h =? 0)%nat eqn:E0.
  - destruct h; [reflexivity | discriminate].
  - destruct (length h <? 8)%nat; [reflexivity|].
    apply swar_loop_correct; [| assumption | lia].
    intros bs Hl Hbs. apply marks_first.
    apply (marks_or _ _ bs (fun b => b =? c1) (fun b => b =? c2)); apply memchr_marks; assumption.
Qed.

Theorem memchr3_swar_correct : forall h c1 c2 c3, c1 < 256 -> c2 < 256 -> c3 < 256 -> bytes h ->
  memchr3_swar h c1 c2 c3 = memchr3_spec h c1 c2 c3.
Proof.
  intros h c1 c2 c3 Hc1 Hc2 Hc3 Hb. unfold memchr3_swar, memchr3_spec, find_first.
  destruct (length h =? 0)%nat eqn:E0.
  - destruct h; [reflexivity | discriminate].
  - destruct (length h <? 8)%nat; [reflexivity|].
    apply swar_loop_correct; [| assumption | lia].
    intros bs Hl Hbs. apply marks_first.
    apply (marks_or _ _ bs (fun b => (b =? c1) || (b =? c2)) (fun b => b =? c3)).
    + apply (marks_or _ _ bs (fun b => b =? c1) (fun b => b =? c2)); apply memchr_marks; assumption.
    + apply memchr_marks; assumption.
Qed.

(* --- the plain range loops --- *)

Theorem memchr_digit_model_correct : forall h, memchr_digit_model h = memchr_digit_spec h.
Proof. intros h. apply find_first_range. Qed.

Theorem memchr_word_model_correct : forall h, memchr_word_model h = memchr_word_spec h.
Proof. intros h. apply find_first_range. Qed.

Theorem memchr_not_word_model_correct : forall h,
  memchr_not_word_model h = memchr_not_word_spec h.
Proof. intros h. apply find_first_range. Qed.

Theorem memchr_in_table_model_correct : forall tbl h,
  memchr_in_table_model tbl h = memchr_in_table_spec tbl h.
Proof. intros tbl h. apply find_first_range. Qed.

Theorem memchr_not_in_table_model_correct : forall tbl h,
  memchr_not_in_table_model tbl h = memchr_not_in_table_spec tbl h.
Proof. intros tbl h. apply find_first_range. Qed.

Theorem first_non_ascii_model_correct : forall h,
  first_non_ascii_model h = first_non_ascii_spec h.
Proof. intros h. apply find_first_range. Qed.

Lemma find_from_shift p : forall h i k, (0 <= i)%Z ->
  find_from p h (i + k)%Z =
  if (find_from p h i <? 0)%Z then (-1)%Z else (find_from p h i + k)%Z.
Proof.
  induction h as [|b t IH]; intros i k Hi; cbn [find_from].
  - reflexivity.
  - destruct (p b).
    + destruct (Z.ltb_spec i 0); [lia | reflexivity].
    + replace (i + k + 1)%Z with (i + 1 + k)%Z by lia. apply IH. lia.
Qed.

Theorem memchr_digit_at_model_correct : forall h at_,
  memchr_digit_at_model h at_ = memchr_digit_at_spec h at_.
Proof.
  intros h at_. unfold memchr_digit_at_model, memchr_digit_at_spec.
  destruct (at_ <? 0)%Z eqn:Eneg; cbn [orb]; [reflexivity|].
  destruct (Z.of_nat (length h) <=? at_)%Z; [reflexivity|].
  unfold memchr_digit_model. rewrite find_first_range.
  fold is_digit. set (l := skipn (Z.to_nat at_) h).
  assert (E : find_from is_digit l at_ = find_from is_digit l (0 + at_)%Z) by (f_equal; lia).
  rewrite E, find_from_shift by lia. reflexivity.
Qed.

Lemma count_loop_spec : forall h c,
  count_loop h c = (c + Z.of_nat (length (filter non_ascii h)))%Z.
Proof.
  induction h as [|b t IH]; intros c; cbn [count_loop filter]; [cbn; lia|].
  rewrite IH. unfold non_ascii. destruct (128 <=? b); cbn [length]; lia.
Qed.

Theorem count_non_ascii_model_correct : forall h,
  count_non_ascii_model h = count_non_ascii_spec h.
Proof. intros h. unfold count_non_ascii_model, count_non_ascii_spec. rewrite count_loop_spec. lia. Qed.

(* --- isASCIIGeneric --- *)

Lemma ascii_bytes_spec h : ascii_bytes h = forallb (fun b => negb (non_ascii b)) h.
Proof.
  induction h as [|b t IH]; cbn [ascii_bytes forallb]; [reflexivity|].
  unfold non_ascii at 1. destruct (128 <=? b); cbn [negb andb]; [reflexivity | assumption].
Qed.

Lemma land_le_repeat : forall bs c, bytes bs -> c < 256 ->
  N.land (le bs) (le (repeat c (length bs))) = le (map (fun b => N.land b c) bs).
Proof.
  induction bs as [|b t IH]; intros c Hb Hc; cbn [length repeat le map]; [reflexivity|].
  inversion Hb; subst. unfold byte in *. rewrite land_cons by assumption.
  rewrite IH by assumption. reflexivity.
Qed.

Lemma le_eq0 : forall L, (le L =? 0) = forallb (fun l => l =? 0) L.
Proof.
  induction L as [|l L IH]; cbn [le forallb]; [reflexivity|].
  rewrite <- IH. destruct (N.eqb_spec l 0), (N.eqb_spec (le L) 0), (N.eqb_spec (l + 256 * le L) 0);
    cbn [andb]; try reflexivity; lia.
Qed.

Lemma land128_all :
  forallb (fun b => Bool.eqb (N.land b 128 =? 0) (negb (128 <=? b))) all_bytes = true.
Proof. vm_compute. reflexivity. Qed.

Lemma land128 b : b < 256 -> (N.land b 128 =? 0) = negb (non_ascii b).
Proof.
  intros Hb. pose proof land128_all as H. rewrite forallb_forall in H.
  specialize (H b (in_all_bytes b Hb)). apply Bool.eqb_prop in H. exact H.
Qed.

Lemma ascii_chunk bs : length bs = 8%nat -> bytes bs ->
  (N.land (le bs) hi8 =? 0) = forallb (fun b => negb (non_ascii b)) bs.
Proof.
  intros Hlen Hb.
  replace hi8 with (le (repeat 128 (length bs))) by (rewrite Hlen; vm_compute; reflexivity).
  rewrite land_le_repeat by (assumption || lia).
  rewrite le_eq0.
  clear Hlen. induction Hb as [|b t Hb1 Hb2 IH]; cbn [forallb map]; [reflexivity|].
  rewrite IH. rewrite land128 by exact Hb1. reflexivity.
Qed.

Lemma ascii_loop_correct : forall fuel h, bytes h -> (length h <= fuel)%nat ->
  ascii_loop fuel h = Some (is_ascii_spec h).
Proof.
  unfold is_ascii_spec.
  induction fuel as [|f IH]; intros h Hb Hlen; cbn [ascii_loop].
  - destruct (Nat.leb_spec 8 (length h)); [lia|]. rewrite ascii_bytes_spec. reflexivity.
  - destruct (Nat.leb_spec 8 (length h)) as [H8 | H8]; [| rewrite ascii_bytes_spec; reflexivity].
    rewrite <- (firstn_skipn 8 h) at 3. rewrite forallb_app.
    unfold le64.
    assert (Hfl : length (firstn 8 h) = 8%nat) by (apply firstn_length_le; assumption).
    rewrite (ascii_chunk (firstn 8 h) Hfl (bytes_firstn 8 h Hb)).
    destruct (forallb (fun b => negb (non_ascii b)) (firstn 8 h)); cbn [negb andb]; [| reflexivity].
    apply IH; [apply bytes_skipn; assumption | rewrite skipn_length; lia].
Qed.

Theorem is_ascii_swar_correct : forall h, bytes h -> is_ascii_swar h = Some (is_ascii_spec h).
Proof.
  intros h Hb. unfold is_ascii_swar.
  destruct (length h =? 0)%nat eqn:E0.
  - destruct h; [reflexivity | discriminate].
  - destruct (length h <? 8)%nat; [unfold is_ascii_spec; rewrite ascii_bytes_spec; reflexivity|].
    apply ascii_loop_correct; [assumption | lia].
Qed.

(* --- memchrPairGeneric --- *)

Lemma pair_from_short b1 b2 off : forall rem idx, (length rem <= off)%nat ->
  pair_from rem b1 b2 off idx = (-1)%Z.
Proof.
  induction rem as [|x t IH]; intros idx Hlen; cbn [pair_from]; [reflexivity|].
  assert (Hn : nth_error (x :: t) off = None) by (apply nth_error_None; assumption).
  unfold pair_at. rewrite Hn, andb_false_r. apply IH. cbn [length] in Hlen. lia.
Qed.

Lemma pair_bytes_correct b1 b2 off : forall rem idx,
  pair_bytes rem b1 b2 off idx = pair_from rem b1 b2 off idx.
Proof.
  induction rem as [|x t IH]; intros idx.
  - cbn. destruct off; reflexivity.
  - cbn [pair_bytes]. destruct (Nat.ltb_spec off (length (x :: t))) as [Hlt | Hge].
    + unfold get. destruct (nth_error (x :: t) off) as [y|] eqn:En.
      * cbn [pair_from]. unfold pair_at. rewrite En. rewrite IH. reflexivity.
      * apply nth_error_None in En. lia.
    + symmetry. apply pair_from_short. assumption.
Qed.

(* the candidate booleans of the first n positions *)
Fixpoint cands (b1 b2 : N) (off n : nat) (rem : list N) : list bool :=
  match n with
  | O => []
  | S n' => match rem with
            | [] => []
            | _ :: t => pair_at rem b1 b2 off :: cands b1 b2 off n' t
            end
  end.

Lemma pair_from_steps b1 b2 off : forall n rem idx, (n <= length rem)%nat ->
  pair_from rem b1 b2 off idx =
  match findb (cands b1 b2 off n rem) with
  | Some j => (idx + Z.of_nat j)%Z
  | None => pair_from (skipn n rem) b1 b2 off (idx + Z.of_nat n)%Z
  end.
Proof.
  induction n as [|n IH]; intros rem idx Hlen.
  - cbn [cands findb skipn]. f_equal. lia.
  - destruct rem as [|x t]; [cbn in Hlen; lia|].
    cbn [cands findb skipn pair_from]. destruct (pair_at (x :: t) b1 b2 off); [lia|].
    rewrite (IH t (idx + 1)%Z) by (cbn in Hlen; lia).
    destruct (findb (cands b1 b2 off n t)) as [j|]; cbn [option_map]; [lia | f_equal; lia].
Qed.

Lemma skipn_nth_cons {A} : forall (l : list A) k y, nth_error l k = Some y ->
  skipn k l = y :: skipn (S k) l.
Proof.
  induction l as [|x t IH]; intros k y H; destruct k; cbn in *; try discriminate.
  - congruence.
  - apply IH. assumption.
Qed.

Lemma cands_zip b1 b2 off : forall n rem, (n + off <= length rem)%nat ->
  cands b1 b2 off n rem =
  zipw andb (map (fun b => b =? b1) (firstn n rem)) (map (fun b => b =? b2) (firstn n (skipn off rem))).
Proof.
  induction n as [|n IH]; intros rem Hlen; [reflexivity|].
  destruct rem as [|x t]; [cbn in Hlen; lia|].
  destruct (nth_error (x :: t) off) as [y|] eqn:En;
    [| apply nth_error_None in En; cbn [length] in *; lia].
  rewrite (skipn_nth_cons _ _ _ En).
  cbn [cands firstn map zipw skipn]. unfold pair_at at 1. rewrite En. f_equal.
  apply IH. cbn [length] in Hlen. lia.
Qed.

Lemma nth_cands b1 b2 off : forall n rem j, (j < n)%nat -> (n + off <= length rem)%nat ->
  exists x y, nth_error rem j = Some x /\ nth_error rem (j + off) = Some y /\
              nth j (cands b1 b2 off n rem) false = ((x =? b1) && (y =? b2)).
Proof.
  induction n as [|n IH]; intros rem j Hj Hlen; [lia|].
  destruct rem as [|x t]; [cbn in Hlen; lia|].
  destruct j as [|j].
  - destruct (nth_error (x :: t) off) as [y|] eqn:En;
      [| apply nth_error_None in En; cbn [length] in *; lia].
    exists x, y. cbn [cands nth nth_error Nat.add]. unfold pair_at. rewrite En. auto.
  - cbn [length] in Hlen. destruct (IH t j ltac:(lia) ltac:(lia)) as (x' & y' & H1 & H2 & H3).
    exists x', y'. cbn [cands nth nth_error Nat.add]. auto.
Qed.

(* lanes below position k are zero *)
Lemma le_zeros_app : forall k L, le (repeat 0 k ++ L) = pw k * le L.
Proof.
  induction k as [|k IH]; intros L; cbn [repeat app le pw]; [lia|]. rewrite IH. lia.
Qed.

Lemma tz_pw : forall k y, y <> 0 -> tz64 (pw k * y) = (8 * k + tz64 y)%nat.
Proof.
  induction k as [|k IH]; intros y Hy; cbn [pw].
  - rewrite N.mul_1_l. reflexivity.
  - replace (256 * pw k * y) with (0 + 256 * (pw k * y)) by lia.
    pose proof (pw_pos k).
    rewrite tz_cons0 by (apply N.neq_mul_0; split; lia). rewrite IH by assumption. lia.
Qed.

Lemma pw_shift k : N.shiftl 128 (N.of_nat (k * 8)) = pw k * 128.
Proof.
  rewrite N.shiftl_mul_pow2. rewrite N.mul_comm. f_equal.
  induction k as [|k IH]; [reflexivity|].
  replace (N.of_nat (S k * 8)) with (8 + N.of_nat (k * 8)) by lia.
  rewrite N.pow_add_r, IH. reflexivity.
Qed.

Lemma ldiff_pw : forall k a b, N.ldiff (pw k * a) (pw k * b) = pw k * N.ldiff a b.
Proof.
  induction k as [|k IH]; intros a b; cbn [pw].
  - rewrite !N.mul_1_l. reflexivity.
  - replace (256 * pw k * a) with (0 + 256 * (pw k * a)) by lia.
    replace (256 * pw k * b) with (0 + 256 * (pw k * b)) by lia.
    rewrite ldiff_cons by lia. rewrite IH. change (N.ldiff 0 0) with 0.
    rewrite N.add_0_l, !N.mul_assoc. reflexivity.
Qed.

Fixpoint find_lane (L : list N) (zs : list bool) (k : nat) : option nat :=
  match L, zs with
  | l :: L', z :: zs' => if (l =? 128) && z then Some k else find_lane L' zs' (S k)
  | _, _ => None
  end.

Lemma find_lane_complete : forall L zs k, complete L zs ->
  find_lane L zs k = option_map (fun j => (k + j)%nat) (findb zs).
Proof.
  intros L zs k H. revert k. induction H as [|l z L zs [Hf Hz] H IH]; intros k; cbn [find_lane findb].
  - reflexivity.
  - destruct z.
    + rewrite (Hz eq_refl). cbn. f_equal. lia.
    + rewrite andb_false_r. rewrite IH. destruct (findb zs) as [j|]; cbn [option_map]; [f_equal; lia | reflexivity].
Qed.

Lemma repeat_snoc0 k (L : list N) : repeat 0 k ++ 0 :: L = repeat 0 (S k) ++ L.
Proof.
  induction k as [|k IH]; [reflexivity|]. cbn [repeat app]. f_equal. exact IH.
Qed.

Section Verify.
  Variables (b1 b2 : N) (off : nat) (rem : list N) (idx : Z) (zs_all : list bool).
  Hypothesis Hzlen : length zs_all = 8%nat.
  Hypothesis Hzs : forall j, (j < 8)%nat ->
    exists x y, nth_error rem j = Some x /\ nth_error rem (j + off) = Some y /\
                nth j zs_all false = ((x =? b1) && (y =? b2)).

  Lemma pair_verify_lanes : forall L' k fuel, Forall flag L' -> (k + length L' = 8)%nat ->
    (length L' < fuel)%nat ->
    pair_verify fuel (le (repeat 0 k ++ L')) rem b1 b2 off idx =
    match find_lane L' (skipn k zs_all) k with
    | Some j => Some (idx + Z.of_nat j)%Z
    | None => None
    end.
  Proof.
    induction L' as [|l L' IH]; intros k fuel Hf Hlen Hfuel.
    - rewrite le_zeros_app. cbn [le]. rewrite N.mul_0_r.
      destruct fuel; cbn [pair_verify N.eqb find_lane]; reflexivity.
    - inversion Hf as [|? ? Hl HfL]; subst. cbn [length] in Hlen, Hfuel.
      destruct (nth_error zs_all k) as [z|] eqn:En;
        [| apply nth_error_None in En; lia].
      rewrite (skipn_nth_cons _ _ _ En). cbn [find_lane].
      destruct Hl as [-> | ->].
      + (* lane already zero *)
        rewrite repeat_snoc0. cbn [N.eqb andb]. apply IH; [assumption | lia | lia].
      + (* lane k is marked: the loop looks at position k *)
        destruct fuel as [|f]; [lia|].
        rewrite le_zeros_app. cbn [le].
        pose proof (pw_pos k) as Hpk.
        cbn [pair_verify].
        destruct (N.eqb_spec (pw k * (128 + 256 * le L')) 0) as [He | _];
          [apply N.eq_mul_0 in He; lia|].
        rewrite tz_pw by lia. rewrite tz_cons128.
        replace ((8 * k + 7) / 8)%nat with k by lia.
        destruct (Hzs k ltac:(lia)) as (x & y & Hx & Hy & Hzk).
        unfold get. rewrite Hx, Hy.
        rewrite (nth_error_nth _ _ false En) in Hzk. subst z.
        rewrite N.eqb_refl. cbn [andb].
        destruct ((x =? b1) && (y =? b2)); [reflexivity|].
        rewrite pw_shift.
        replace (pw k * 128) with (pw k * (128 + 256 * 0)) by lia.
        rewrite ldiff_pw, ldiff_cons by lia.
        rewrite N.ldiff_0_r. change (N.ldiff 128 128) with 0.
        rewrite <- (IH (S k) f HfL) by lia.
        rewrite <- repeat_snoc0, le_zeros_app. reflexivity.
  Qed.
End Verify.

Lemma complete_flags : forall L zs, complete L zs -> Forall flag L /\ length L = length zs.
Proof.
  intros L zs H. induction H as [|l z L zs [Hf _] H [IH1 IH2]]; [split; [constructor | reflexivity]|].
  split; [constructor; assumption | cbn [length]; congruence].
Qed.

Lemma complete_and : forall L1 z1, complete L1 z1 -> forall L2 z2, complete L2 z2 ->
  complete (zipw N.land L1 L2) (zipw andb z1 z2).
Proof.
  intros L1 z1 H1. induction H1 as [|l1 x1 L1 z1 [Hf1 Hz1] H1 IH]; intros L2 z2 H2.
  - cbn [zipw]. constructor.
  - destruct H2 as [|l2 x2 L2 z2 [Hf2 Hz2] H2]; cbn [zipw]; constructor.
    + split.
      * destruct Hf1 as [-> | ->], Hf2 as [-> | ->]; cbn; unfold flag; auto.
      * intros Hz. apply andb_true_iff in Hz. destruct Hz as [Ha Hb].
        rewrite (Hz1 Ha), (Hz2 Hb). reflexivity.
    + apply IH. assumption.
Qed.

Lemma pair_marks bs c : length bs = 8%nat -> bytes bs -> c < 256 ->
  exists L, haszero (N.lxor (le bs) (bcast c)) = le L /\ complete L (map (fun b => b =? c) bs).
Proof.
  intros Hlen Hb Hc. rewrite bcast_le by assumption. rewrite <- Hlen.
  rewrite lxor_le_repeat by assumption.
  set (xs := map (fun b => N.lxor b c) bs).
  assert (Hxl : length xs = 8%nat) by (unfold xs; rewrite map_length; assumption).
  assert (Hxb : bytes xs) by (apply bytes_map_lxor; assumption).
  exists (hz_lanes xs 0). split.
  - rewrite haszero_hz_n, <- Hxl. apply hz_n_lanes; [assumption | lia].
  - pose proof (hz_lanes_complete xs 0 Hxb ltac:(lia)) as H.
    unfold xs in H at 2. rewrite map_map in H.
    rewrite (map_ext (fun x => N.lxor x c =? 0) (fun b => b =? c)) in H
      by (intros b; apply lxor_eqb0).
    exact H.
Qed.

Lemma pair_chunk b1 b2 off rem idx : b1 < 256 -> b2 < 256 -> bytes rem ->
  (8 + off <= length rem)%nat ->
  pair_verify 9
    (N.land (haszero (N.lxor (le64 rem) (bcast b1)))
            (haszero (N.lxor (le64 (skipn off rem)) (bcast b2)))) rem b1 b2 off idx =
  match findb (cands b1 b2 off 8 rem) with
  | Some j => Some (idx + Z.of_nat j)%Z
  | None => None
  end.
Proof.
  intros H1 H2 Hb Hlen. unfold le64.
  assert (Hl1 : length (firstn 8 rem) = 8%nat) by (apply firstn_length_le; lia).
  assert (Hl2 : length (firstn 8 (skipn off rem)) = 8%nat)
    by (apply firstn_length_le; rewrite skipn_length; lia).
  destruct (pair_marks (firstn 8 rem) b1 Hl1 (bytes_firstn _ _ Hb) H1) as (L1 & E1 & C1).
  destruct (pair_marks (firstn 8 (skipn off rem)) b2 Hl2
              (bytes_firstn _ _ (bytes_skipn _ _ Hb)) H2) as (L2 & E2 & C2).
  rewrite E1, E2.
  destruct (complete_flags _ _ C1) as [F1 Len1]. destruct (complete_flags _ _ C2) as [F2 Len2].
  rewrite map_length in Len1, Len2.
  rewrite le_zip_land by (try apply flags_bytes; try assumption; congruence).
  pose proof (complete_and _ _ C1 _ _ C2) as C. rewrite <- cands_zip in C by lia.
  destruct (complete_flags _ _ C) as [F Len].
  assert (Hzl : length (cands b1 b2 off 8 rem) = 8%nat).
  { rewrite <- Len. rewrite zipw_length by congruence. congruence. }
  pose proof (pair_verify_lanes b1 b2 off rem idx (cands b1 b2 off 8 rem) Hzl
                (fun j Hj => nth_cands b1 b2 off 8 rem j Hj Hlen)
                (zipw N.land L1 L2) 0%nat 9%nat F) as HV.
  cbn [repeat app skipn] in HV. rewrite HV by (rewrite Len, Hzl; lia).
  rewrite (find_lane_complete _ _ 0%nat C).
  destruct (findb (cands b1 b2 off 8 rem)); reflexivity.
Qed.

Lemma pair_loop_correct b1 b2 off : b1 < 256 -> b2 < 256 ->
  forall fuel rem idx, bytes rem -> (length rem <= fuel)%nat ->
    pair_loop fuel rem (bcast b1) (bcast b2) b1 b2 off idx = pair_from rem b1 b2 off idx.
Proof.
  intros H1 H2. induction fuel as [|f IH]; intros rem idx Hb Hlen; cbn [pair_loop].
  - destruct (Nat.leb_spec (8 + off) (length rem)); [lia | apply pair_bytes_correct].
  - destruct (Nat.leb_spec (8 + off) (length rem)) as [H8 | H8]; [| apply pair_bytes_correct].
    rewrite pair_chunk by assumption.
    rewrite (pair_from_steps b1 b2 off 8 rem idx) by lia.
    destruct (findb (cands b1 b2 off 8 rem)) as [j|]; [reflexivity|].
    apply IH; [apply bytes_skipn; assumption | rewrite skipn_length; lia].
Qed.

Theorem memchr_pair_swar_correct : forall h b1 b2 offset, b1 < 256 -> b2 < 256 -> bytes h ->
  memchr_pair_swar h b1 b2 offset = memchr_pair_spec h b1 b2 offset.
Proof.
  intros h b1 b2 offset H1 H2 Hb. unfold memchr_pair_swar, memchr_pair_spec.
  destruct (Z.ltb_spec offset 0) as [Hneg | Hpos].
  - rewrite orb_true_r. reflexivity.
  - rewrite orb_false_r.
    destruct (length h =? 0)%nat eqn:E0; cbn [orb].
    + destruct h; [reflexivity | discriminate].
    + destruct (Z.leb_spec (Z.of_nat (length h)) offset) as [Hle | Hgt].
      * symmetry. apply pair_from_short. lia.
      * destruct (length h <? 8 + Z.to_nat offset)%nat.
        -- apply pair_bytes_correct.
        -- apply pair_loop_correct; try assumption. lia.
Qed.

(* swar_reads_in_bounds: the bounds-checked reads of the model never fail *)
Lemma find_from_ge p : forall h i, (0 <= i)%Z -> (-1 <= find_from p h i)%Z.
Proof.
  induction h as [|b t IH]; intros i Hi; cbn [find_from]; [lia|].
  destruct (p b); [lia|]. apply IH. lia.
Qed.

Lemma pair_from_ge b1 b2 off : forall h i, (0 <= i)%Z -> (-1 <= pair_from h b1 b2 off i)%Z.
Proof.
  induction h as [|b t IH]; intros i Hi; cbn [pair_from]; [lia|].
  destruct (pair_at (b :: t) b1 b2 off); [lia|]. apply IH. lia.
Qed.

Theorem swar_reads_in_bounds : forall h b1 b2 offset, b1 < 256 -> b2 < 256 -> bytes h ->
  memchr_pair_swar h b1 b2 offset <> PANIC /\ memchr_pair_swar h b1 b2 offset <> OUT_OF_FUEL.
Proof.
  intros h b1 b2 offset H1 H2 Hb. rewrite memchr_pair_swar_correct by assumption.
  unfold memchr_pair_spec, PANIC, OUT_OF_FUEL.
  destruct (offset <? 0)%Z; [split; discriminate|].
  pose proof (pair_from_ge b1 b2 (Z.to_nat offset) h 0%Z ltac:(lia)). lia.
Qed.


(* ------------------------------------------------------------------------- *)
(** * Memmem (memmem.go, byte_frequencies.go)                                  *)
(* ------------------------------------------------------------------------- *)

(* byte_frequencies.go:ByteFrequencies *)
Definition byte_freq_table : list N :=
  [0; 0; 0; 0; 0; 0; 0; 0; 0; 1; 1; 0; 0; 1; 0; 0;
   0; 0; 0; 0; 0; 0; 0; 0; 0; 0; 0; 0; 0; 0; 0; 0;
   255; 60; 140; 50; 40; 35; 30; 160; 130; 130; 80; 55; 200; 140; 210; 100;
   180; 190; 170; 150; 140; 140; 130; 120; 120; 120; 150; 100; 70; 160; 70; 50;
   25; 120; 80; 90; 85; 130; 75; 70; 80; 115; 30; 35; 90; 85; 100; 105;
   80; 15; 100; 110; 115; 70; 45; 55; 20; 50; 10; 90; 60; 90; 20; 110;
   30; 225; 140; 170; 165; 245; 135; 130; 150; 200; 25; 65; 175; 155; 195; 205;
   145; 15; 195; 200; 215; 150; 75; 95; 45; 120; 20; 85; 40; 85; 15; 0;
   5; 5; 5; 5; 5; 5; 5; 5; 5; 5; 5; 5; 5; 5; 5; 5;
   5; 5; 5; 5; 5; 5; 5; 5; 5; 5; 5; 5; 5; 5; 5; 5;
   5; 5; 5; 5; 5; 5; 5; 5; 5; 5; 5; 5; 5; 5; 5; 5;
   5; 5; 5; 5; 5; 5; 5; 5; 5; 5; 5; 5; 5; 5; 5; 5;
   5; 5; 5; 5; 5; 5; 5; 5; 5; 5; 5; 5; 5; 5; 5; 5;
   5; 5; 5; 5; 5; 5; 5; 5; 5; 5; 5; 5; 5; 5; 5; 5;
   5; 5; 5; 5; 5; 5; 5; 5; 5; 5; 5; 5; 5; 5; 5; 5;
   5; 5; 5; 5; 5; 5; 5; 5; 5; 5; 5; 5; 5; 5; 5; 5].

Definition freq (b : N) : N := nth (N.to_nat b) byte_freq_table 0.

Record rare := mk_rare { rb1 : N; ri1 : nat; rb2 : N; ri2 : nat }.

(* byte_frequencies.go:SelectRareBytes, the loop  for i := 2; i < n; i++ *)
Fixpoint rare_scan (l : list N) (i : nat) (b1 : N) (i1 : nat) (b2 : N) (i2 : nat) : rare :=
  match l with
  | [] => mk_rare b1 i1 b2 i2
  | b :: t =>
      let rank := freq b in
      if rank <? freq b1 then rare_scan t (S i) b i b1 i1
      else if negb (b =? b1) && (rank <? freq b2) then rare_scan t (S i) b1 i1 b i
      else rare_scan t (S i) b1 i1 b2 i2
  end.

(* byte_frequencies.go:SelectRareBytes *)
Definition select_rare (n : list N) : rare :=
  match n with
  | [] => mk_rare 0 0 0 0
  | [x] => mk_rare x 0 x 0
  | x :: y :: t =>
      if freq y <? freq x then rare_scan t 2 y 1 x 0 else rare_scan t 2 x 0 y 1
  end.

Fixpoint list_eqb (a b : list N) : bool :=
  match a, b with
  | [], [] => true
  | x :: a', y :: b' => (x =? y) && list_eqb a' b'
  | _, _ => false
  end.

(* The candidate loops of memmem.go:memmemSingle and memmem.go:memmemPaired are
   textually the same except for the candidate finder (Memchr of the rare byte,
   resp. MemchrPair of the two rare bytes) and the give-up bound
   (haystackLen, resp. haystackLen-offset).  [find] is applied to
   haystack[searchStart:]; calls to Memchr / MemchrPair are modelled by their
   SPECS (memchr_spec, memchr_pair_spec), which is what C18 establishes for them. *)
Fixpoint cand_loop (fuel : nat) (find : list N -> Z) (limit : Z) (h n : list N) (ri : nat)
  (start : nat) : Z :=
  match fuel with
  | O => OUT_OF_FUEL
  | S f =>
      if (length h <? start)%nat then PANIC            (* haystack[searchStart:] *)
      else
        let c := find (skipn start h) in
        if (c =? -1)%Z then (-1)%Z
        else
          let cp := (c + Z.of_nat start)%Z in          (* candidatePos *)
          let ns := (cp - Z.of_nat ri)%Z in            (* needleStartPos *)
          if ((ns <? 0) || (Z.of_nat (length h) <? ns + Z.of_nat (length n)))%Z then
            if (limit <=? cp + 1)%Z then (-1)%Z
            else cand_loop f find limit h n ri (Z.to_nat (cp + 1))
          else if list_eqb (firstn (length n) (skipn (Z.to_nat ns) h)) n then ns
          else if (limit <=? cp + 1)%Z then (-1)%Z
          else cand_loop f find limit h n ri (Z.to_nat (cp + 1))
  end.

(* memmem.go:memmemSingle *)
Definition memmem_single (h n : list N) (rb : N) (ri : nat) : Z :=
  cand_loop (S (length h)) (fun l => memchr_spec l rb) (Z.of_nat (length h)) h n ri 0.

(* memmem.go:memmemPaired *)
Definition memmem_paired (h n : list N) (r : rare) : Z :=
  let '(b1, i1, b2, i2) :=
    if (ri2 r <? ri1 r)%nat then (rb2 r, ri2 r, rb1 r, ri1 r) else (rb1 r, ri1 r, rb2 r, ri2 r) in
  let offset := (Z.of_nat i2 - Z.of_nat i1)%Z in
  cand_loop (S (length h)) (fun l => memchr_pair_spec l b1 b2 offset)
            (Z.of_nat (length h) - offset)%Z h n i1 0.

(* memmem.go:memmemShort (memmemLong just calls it) *)
Definition memmem_short (h n : list N) : Z :=
  let r := select_rare n in
  let use_pair := negb (rb1 r =? rb2 r) && negb (ri1 r =? ri2 r)%nat in
  if use_pair && (length n <=? 6)%nat then memmem_paired h n r
  else memmem_single h n (rb1 r) (ri1 r).

(* memmem.go:Memmem *)
Definition memmem_model (h n : list N) : Z :=
  if (length n =? 0)%nat then 0%Z
  else if ((length h =? 0)%nat || (length h <? length n)%nat) then (-1)%Z
  else if (length n =? 1)%nat then memchr_spec h (hd 0 n)
  else if (length n <=? 32)%nat then memmem_short h n
  else memmem_short h n.

(* --- occurrences --- *)

Lemma memmem_from_eq h n i :
  memmem_from h n i =
  if prefixb n h then i
  else match h with [] => (-1)%Z | _ :: t => memmem_from t n (i + 1)%Z end.
Proof. destruct h; reflexivity. Qed.

Lemma skipn_S_tl {A} : forall s (l : list A), skipn (S s) l = tl (skipn s l).
Proof.
  induction s as [|s IH]; intros l.
  - destruct l; reflexivity.
  - destruct l as [|x t]; [reflexivity|]. cbn [skipn] in *. apply IH.
Qed.

Lemma nth_error_skipn {A} : forall s (l : list A) i, nth_error (skipn s l) i = nth_error l (s + i).
Proof.
  induction s as [|s IH]; intros l i; [reflexivity|].
  destruct l as [|x t]; cbn [skipn Nat.add nth_error]; [destruct i; reflexivity | apply IH].
Qed.

Lemma skipn_add {A} : forall b a (l : list A), skipn a (skipn b l) = skipn (b + a) l.
Proof.
  induction b as [|b IH]; intros a l; [reflexivity|].
  destruct l as [|x t]; cbn [skipn Nat.add]; [destruct a; reflexivity | apply IH].
Qed.

Lemma prefixb_nil_r n : n <> [] -> prefixb n [] = false.
Proof. destruct n; [congruence | reflexivity]. Qed.

Lemma prefixb_short : forall n l, (length l < length n)%nat -> prefixb n l = false.
Proof.
  induction n as [|x n IH]; intros l H; [cbn in H; lia|].
  destruct l as [|y l]; [reflexivity|]. cbn [prefixb]. rewrite IH by (cbn in H; lia).
  apply andb_false_r.
Qed.

Lemma prefixb_nth : forall n l, prefixb n l = true ->
  forall i x, nth_error n i = Some x -> nth_error l i = Some x.
Proof.
  induction n as [|a n IH]; intros l H i x Hi; [destruct i; discriminate|].
  destruct l as [|b l]; [discriminate|]. cbn [prefixb] in H.
  apply andb_true_iff in H. destruct H as [Hab Hp]. apply N.eqb_eq in Hab. subst b.
  destruct i; cbn [nth_error] in *; [assumption | eapply IH; eassumption].
Qed.

Lemma list_eqb_prefixb : forall n l, list_eqb (firstn (length n) l) n = prefixb n l.
Proof.
  induction n as [|x n IH]; intros l; [reflexivity|].
  destruct l as [|y l]; [reflexivity|].
  cbn [length firstn list_eqb prefixb]. rewrite IH, N.eqb_sym. reflexivity.
Qed.

Lemma memmem_from_step n h s : n <> [] -> prefixb n (skipn s h) = false ->
  memmem_from (skipn s h) n (Z.of_nat s) = memmem_from (skipn (S s) h) n (Z.of_nat (S s)).
Proof.
  intros Hn Hf. rewrite memmem_from_eq, Hf. rewrite skipn_S_tl.
  destruct (skipn s h) as [|x t]; cbn [tl].
  - rewrite memmem_from_eq, prefixb_nil_r by assumption. reflexivity.
  - f_equal. lia.
Qed.

Lemma memmem_from_advance n h : n <> [] -> forall d k,
  (forall s, (k <= s < k + d)%nat -> prefixb n (skipn s h) = false) ->
  memmem_from (skipn k h) n (Z.of_nat k) = memmem_from (skipn (k + d) h) n (Z.of_nat (k + d)).
Proof.
  intros Hn. induction d as [|d IH]; intros k H.
  - rewrite Nat.add_0_r. reflexivity.
  - rewrite memmem_from_step by (try assumption; apply H; lia).
    rewrite (IH (S k)) by (intros s Hs; apply H; lia).
    replace (S k + d)%nat with (k + S d)%nat by lia. reflexivity.
Qed.

Lemma memmem_from_none n h k : n <> [] ->
  (forall s, (k <= s)%nat -> prefixb n (skipn s h) = false) ->
  memmem_from (skipn k h) n (Z.of_nat k) = (-1)%Z.
Proof.
  intros Hn H. rewrite (memmem_from_advance n h Hn (length h) k) by (intros s Hs; apply H; lia).
  rewrite skipn_all2 by lia. rewrite memmem_from_eq, prefixb_nil_r by assumption. reflexivity.
Qed.

Lemma memmem_from_hit n l i : prefixb n l = true -> memmem_from l n i = i.
Proof. intros H. rewrite memmem_from_eq, H. reflexivity. Qed.

(* --- the candidate loop, for an abstract candidate finder --- *)

Section CandLoop.
  Variables (h n : list N) (ri : nat) (find : list N -> Z) (limit : Z) (cand : nat -> Prop).
  Hypothesis Hn : n <> [].
  Hypothesis Hocc : forall s, prefixb n (skipn s h) = true -> cand (s + ri).
  Hypothesis Hnone : forall start, find (skipn start h) = (-1)%Z ->
    forall p, (start <= p)%nat -> ~ cand p.
  Hypothesis Hsome : forall start, find (skipn start h) <> (-1)%Z ->
    (0 <= find (skipn start h))%Z /\
    forall p, (start <= p)%nat -> (Z.of_nat p < Z.of_nat start + find (skipn start h))%Z -> ~ cand p.
  Hypothesis Hlimit : forall p, (limit <= Z.of_nat p)%Z -> ~ cand p.
  Hypothesis Hlim_le : (limit <= Z.of_nat (length h))%Z.

  Lemma cand_loop_correct : forall fuel start,
    (Z.of_nat start < limit)%Z -> (limit - Z.of_nat start < Z.of_nat fuel)%Z ->
    cand_loop fuel find limit h n ri start =
    memmem_from (skipn (start - ri) h) n (Z.of_nat (start - ri)).
  Proof.
    assert (Hnl : (0 < length n)%nat) by (destruct n; [congruence | cbn; lia]).
    induction fuel as [|f IH]; intros start Hlt Hfuel; [lia|].
    cbn [cand_loop].
    destruct (Nat.ltb_spec (length h) start) as [Hbad | _]; [lia|].
    set (c := find (skipn start h)).
    destruct (Z.eqb_spec c (-1)) as [Hc | Hc].
    - (* no further candidate *)
      symmetry. apply memmem_from_none; [assumption|].
      intros s Hs. destruct (prefixb n (skipn s h)) eqn:E; [| reflexivity].
      exfalso. apply (Hnone start Hc (s + ri)%nat); [lia | apply Hocc; assumption].
    - destruct (Hsome start Hc) as [Hc0 Hbefore]. fold c in Hc0, Hbefore.
      set (cp := (c + Z.of_nat start)%Z).
      set (ns := (cp - Z.of_nat ri)%Z).
      set (k := (start - ri)%nat).
      (* no occurrence whose rare position lies before the candidate *)
      assert (Hno : forall s, (k <= s)%nat -> (Z.of_nat (s + ri) < cp)%Z ->
                               prefixb n (skipn s h) = false).
      { intros s Hs Hs2. destruct (prefixb n (skipn s h)) eqn:E; [| reflexivity].
        exfalso. apply (Hbefore (s + ri)%nat); [lia | lia | apply Hocc; assumption]. }
      (* what happens when the candidate is rejected *)
      assert (Hcont : (forall s, (k <= s)%nat -> Z.of_nat (s + ri) = cp ->
                                 prefixb n (skipn s h) = false) ->
        (if (limit <=? cp + 1)%Z then (-1)%Z
         else cand_loop f find limit h n ri (Z.to_nat (cp + 1))) =
        memmem_from (skipn k h) n (Z.of_nat k)).
      { intros Hat.
        set (k' := (Z.to_nat (cp + 1) - ri)%nat).
        assert (Hkk : (k <= k')%nat) by lia.
        assert (Hadv : memmem_from (skipn k h) n (Z.of_nat k) =
                       memmem_from (skipn k' h) n (Z.of_nat k')).
        { replace k' with (k + (k' - k))%nat by lia. apply memmem_from_advance; [assumption|].
          intros s Hs. destruct (Z.eq_dec (Z.of_nat (s + ri)) cp) as [He | Hne].
          - apply Hat; [lia | assumption].
          - apply Hno; lia. }
        rewrite Hadv.
        destruct (Z.leb_spec limit (cp + 1)) as [Hl | Hl].
        - symmetry. apply memmem_from_none; [assumption|].
          intros s Hs. destruct (prefixb n (skipn s h)) eqn:E; [| reflexivity].
          exfalso. apply (Hlimit (s + ri)%nat); [lia | apply Hocc; assumption].
        - apply IH; lia. }
      destruct ((ns <? 0)%Z || (Z.of_nat (length h) <? ns + Z.of_nat (length n))%Z) eqn:Eskip.
      + apply Hcont. intros s Hs He. apply prefixb_short. rewrite skipn_length.
        apply orb_true_iff in Eskip. lia.
      + apply orb_false_iff in Eskip. destruct Eskip as [E1 E2].
        rewrite list_eqb_prefixb.
        destruct (prefixb n (skipn (Z.to_nat ns) h)) eqn:Ep.
        * (* verified: first occurrence *)
          assert (Hks : (k <= Z.to_nat ns)%nat) by lia.
          assert (Hadv : memmem_from (skipn k h) n (Z.of_nat k) =
                         memmem_from (skipn (k + (Z.to_nat ns - k)) h) n
                                     (Z.of_nat (k + (Z.to_nat ns - k)))).
          { apply memmem_from_advance; [assumption|]. intros s Hs. apply Hno; lia. }
          replace (k + (Z.to_nat ns - k))%nat with (Z.to_nat ns) in Hadv by lia.
          rewrite Hadv, memmem_from_hit by exact Ep. lia.
        * apply Hcont. intros s Hs He.
          replace s with (Z.to_nat ns) by lia. assumption.
  Qed.
End CandLoop.

(* --- facts about the two candidate finders (the SPECS of Memchr / MemchrPair) --- *)

Lemma find_from_none p : forall l i, find_from p l i = (-1)%Z -> (0 <= i)%Z ->
  forall j x, nth_error l j = Some x -> p x = false.
Proof.
  induction l as [|b t IH]; intros i H Hi j x Hj; [destruct j; discriminate|].
  cbn [find_from] in H. destruct (p b) eqn:Eb; [lia|].
  destruct j; cbn [nth_error] in Hj; [congruence|]. apply (IH (i + 1)%Z H ltac:(lia) j x Hj).
Qed.

Lemma find_from_some p : forall l i, find_from p l i <> (-1)%Z -> (0 <= i)%Z ->
  (i <= find_from p l i)%Z /\
  forall j x, (i + Z.of_nat j < find_from p l i)%Z -> nth_error l j = Some x -> p x = false.
Proof.
  induction l as [|b t IH]; intros i H Hi; cbn [find_from] in *; [congruence|].
  destruct (p b) eqn:Eb.
  - split; [lia|]. intros j x Hj. lia.
  - destruct (IH (i + 1)%Z H ltac:(lia)) as [H1 H2]. split; [lia|].
    intros j x Hj Hx. destruct j; cbn [nth_error] in Hx; [congruence|].
    apply (H2 j x); [lia | assumption].
Qed.

Lemma pair_from_none b1 b2 off : forall l i, pair_from l b1 b2 off i = (-1)%Z -> (0 <= i)%Z ->
  forall j, pair_at (skipn j l) b1 b2 off = false.
Proof.
  induction l as [|b t IH]; intros i H Hi j; [destruct j; reflexivity|].
  cbn [pair_from] in H. destruct (pair_at (b :: t) b1 b2 off) eqn:Eb; [lia|].
  destruct j; cbn [skipn]; [assumption|]. apply (IH (i + 1)%Z H ltac:(lia)).
Qed.

Lemma pair_from_some b1 b2 off : forall l i, pair_from l b1 b2 off i <> (-1)%Z -> (0 <= i)%Z ->
  (i <= pair_from l b1 b2 off i)%Z /\
  forall j, (i + Z.of_nat j < pair_from l b1 b2 off i)%Z -> pair_at (skipn j l) b1 b2 off = false.
Proof.
  induction l as [|b t IH]; intros i H Hi; cbn [pair_from] in *; [congruence|].
  destruct (pair_at (b :: t) b1 b2 off) eqn:Eb.
  - split; [lia|]. intros j Hj. lia.
  - destruct (IH (i + 1)%Z H ltac:(lia)) as [H1 H2]. split; [lia|].
    intros j Hj. destruct j; cbn [skipn]; [assumption|]. apply H2. lia.
Qed.

Lemma pair_at_cand h b1 b2 off p :
  nth_error h p = Some b1 -> nth_error h (p + off) = Some b2 ->
  pair_at (skipn p h) b1 b2 off = true.
Proof.
  intros H1 H2. unfold pair_at.
  assert (E0 : nth_error (skipn p h) 0 = Some b1) by (rewrite nth_error_skipn, Nat.add_0_r; assumption).
  destruct (skipn p h) as [|x t] eqn:E; [discriminate|].
  cbn [nth_error] in E0. injection E0 as ->.
  rewrite <- E, nth_error_skipn, H2, !N.eqb_refl. reflexivity.
Qed.

(* --- memmemSingle --- *)

Lemma memmem_single_correct h n rb ri : nth_error n ri = Some rb -> (0 < length h)%nat ->
  memmem_single h n rb ri = memmem_spec h n.
Proof.
  intros Hri Hh. unfold memmem_single, memmem_spec.
  assert (Hn : n <> []) by (intros ->; destruct ri; discriminate).
  rewrite (cand_loop_correct h n ri (fun l => memchr_spec l rb) (Z.of_nat (length h))
             (fun p => nth_error h p = Some rb) Hn).
  - reflexivity.
  - intros s Hs. rewrite <- nth_error_skipn. eapply prefixb_nth; eassumption.
  - intros start Hf p Hp Hc. unfold memchr_spec, find_first in Hf.
    pose proof (find_from_none _ _ _ Hf ltac:(lia) (p - start)%nat rb) as H.
    rewrite nth_error_skipn in H. replace (start + (p - start))%nat with p in H by lia.
    specialize (H Hc). cbn beta in H. rewrite N.eqb_refl in H. discriminate.
  - intros start Hf. unfold memchr_spec, find_first in *.
    destruct (find_from_some _ _ _ Hf ltac:(lia)) as [H0 Hb]. split; [assumption|].
    intros p Hp Hlt Hc.
    pose proof (Hb (p - start)%nat rb ltac:(lia)) as H.
    rewrite nth_error_skipn in H. replace (start + (p - start))%nat with p in H by lia.
    specialize (H Hc). cbn beta in H. rewrite N.eqb_refl in H. discriminate.
  - intros p Hp Hc. assert (Hnone : nth_error h p = None) by (apply nth_error_None; lia).
    congruence.
  - lia.
  - lia.
  - lia.
Qed.

(* --- memmemPaired --- *)

Lemma memmem_paired_loop_correct h n b1 i1 b2 i2 :
  nth_error n i1 = Some b1 -> nth_error n i2 = Some b2 -> (i1 < i2)%nat ->
  (length n <= length h)%nat ->
  cand_loop (S (length h)) (fun l => memchr_pair_spec l b1 b2 (Z.of_nat i2 - Z.of_nat i1))
            (Z.of_nat (length h) - (Z.of_nat i2 - Z.of_nat i1)) h n i1 0 = memmem_spec h n.
Proof.
  intros H1 H2 Hlt Hlen. unfold memmem_spec.
  assert (Hn : n <> []) by (intros ->; destruct i1; discriminate).
  assert (Hi2 : (i2 < length n)%nat) by (apply nth_error_Some; congruence).
  set (off := (i2 - i1)%nat).
  assert (Hoff : (Z.of_nat i2 - Z.of_nat i1)%Z = Z.of_nat off) by lia.
  rewrite Hoff.
  assert (Hspec : forall l, memchr_pair_spec l b1 b2 (Z.of_nat off) = pair_from l b1 b2 off 0%Z).
  { intros l. unfold memchr_pair_spec. destruct (Z.ltb_spec (Z.of_nat off) 0); [lia|].
    rewrite Nat2Z.id. reflexivity. }
  rewrite (cand_loop_correct h n i1 (fun l => memchr_pair_spec l b1 b2 (Z.of_nat off))
             (Z.of_nat (length h) - Z.of_nat off)
             (fun p => nth_error h p = Some b1 /\ nth_error h (p + off) = Some b2) Hn).
  - reflexivity.
  - intros s Hs. split.
    + rewrite <- nth_error_skipn. eapply prefixb_nth; eassumption.
    + replace (s + i1 + off)%nat with (s + i2)%nat by lia.
      rewrite <- nth_error_skipn. eapply prefixb_nth; eassumption.
  - intros start Hf p Hp [Hc1 Hc2]. rewrite Hspec in Hf.
    pose proof (pair_from_none _ _ _ _ _ Hf ltac:(lia) (p - start)%nat) as H.
    rewrite skipn_add in H. replace (start + (p - start))%nat with p in H by lia.
    rewrite (pair_at_cand h b1 b2 off p Hc1 Hc2) in H. discriminate.
  - intros start Hf. rewrite Hspec in *.
    destruct (pair_from_some _ _ _ _ _ Hf ltac:(lia)) as [H0 Hb]. split; [assumption|].
    intros p Hp Hlt' [Hc1 Hc2].
    pose proof (Hb (p - start)%nat ltac:(lia)) as H.
    rewrite skipn_add in H. replace (start + (p - start))%nat with p in H by lia.
    rewrite (pair_at_cand h b1 b2 off p Hc1 Hc2) in H. discriminate.
  - intros p Hp [_ Hc2].
    assert (Hnone : nth_error h (p + off) = None) by (apply nth_error_None; lia).
    congruence.
  - lia.
  - lia.
  - lia.
Qed.

(* --- SelectRareBytes returns positions of the needle holding the returned bytes --- *)

Definition rare_ok (n : list N) (r : rare) : Prop :=
  nth_error n (ri1 r) = Some (rb1 r) /\ nth_error n (ri2 r) = Some (rb2 r).

Lemma rare_scan_ok n : forall l pre i b1 i1 b2 i2,
  n = pre ++ l -> i = length pre ->
  nth_error n i1 = Some b1 -> nth_error n i2 = Some b2 ->
  rare_ok n (rare_scan l i b1 i1 b2 i2).
Proof.
  induction l as [|b t IH]; intros pre i b1 i1 b2 i2 Hn Hi H1 H2; cbn [rare_scan].
  - split; assumption.
  - assert (Hb : nth_error n i = Some b).
    { subst n i. rewrite nth_error_app2 by lia. rewrite Nat.sub_diag. reflexivity. }
    assert (Hn' : n = (pre ++ [b]) ++ t) by (rewrite <- app_assoc; exact Hn).
    assert (Hi' : S i = length (pre ++ [b])) by (rewrite app_length; cbn; lia).
    destruct (freq b <? freq b1).
    + apply (IH (pre ++ [b])); assumption.
    + destruct (negb (b =? b1) && (freq b <? freq b2)).
      * apply (IH (pre ++ [b])); assumption.
      * apply (IH (pre ++ [b])); assumption.
Qed.

Lemma select_rare_ok n : (2 <= length n)%nat -> rare_ok n (select_rare n).
Proof.
  intros Hlen. destruct n as [|x [|y t]]; cbn in Hlen; try lia.
  unfold select_rare. destruct (freq y <? freq x).
  - apply (rare_scan_ok (x :: y :: t) t [x; y]); reflexivity.
  - apply (rare_scan_ok (x :: y :: t) t [x; y]); reflexivity.
Qed.

(* --- memmemShort, Memmem --- *)

Lemma memmem_short_correct h n : (2 <= length n)%nat -> (length n <= length h)%nat ->
  memmem_short h n = memmem_spec h n.
Proof.
  intros H2 Hle. unfold memmem_short.
  destruct (select_rare_ok n H2) as [Hr1 Hr2].
  set (r := select_rare n) in *.
  destruct (negb (rb1 r =? rb2 r) && negb (ri1 r =? ri2 r)%nat && (length n <=? 6)%nat) eqn:Euse.
  - apply andb_true_iff in Euse. destruct Euse as [Euse _].
    apply andb_true_iff in Euse. destruct Euse as [_ Eidx].
    apply negb_true_iff in Eidx. apply Nat.eqb_neq in Eidx.
    unfold memmem_paired. destruct (Nat.ltb_spec (ri2 r) (ri1 r)) as [Hlt | Hge].
    + apply memmem_paired_loop_correct; try assumption.
    + apply memmem_paired_loop_correct; try assumption. lia.
  - apply memmem_single_correct; [assumption | lia].
Qed.

Lemma memchr_memmem1 x : forall h i, find_from (fun b => b =? x) h i = memmem_from h [x] i.
Proof.
  induction h as [|b t IH]; intros i; [reflexivity|].
  cbn [find_from memmem_from prefixb]. rewrite andb_true_r, (N.eqb_sym x b).
  destruct (b =? x); [reflexivity | apply IH].
Qed.

(* Memmem = first occurrence, for ALL haystacks and needles; the calls to
   Memchr / MemchrPair inside it are taken at their specifications. *)
Theorem memmem_model_correct : forall h n, memmem_model h n = memmem_spec h n.
Proof.
  intros h n. unfold memmem_model.
  destruct (length n =? 0)%nat eqn:E0.
  - destruct n; [| discriminate]. unfold memmem_spec. rewrite memmem_from_eq. reflexivity.
  - apply Nat.eqb_neq in E0.
    assert (Hn : n <> []) by (intros ->; apply E0; reflexivity).
    destruct ((length h =? 0)%nat || (length h <? length n)%nat) eqn:E1.
    + unfold memmem_spec. symmetry.
      apply (memmem_from_none n h 0 Hn). intros s _. apply prefixb_short.
      rewrite skipn_length. apply orb_true_iff in E1. lia.
    + apply orb_false_iff in E1. destruct E1 as [E1 E2].
      apply Nat.eqb_neq in E1. apply Nat.ltb_ge in E2.
      destruct (length n =? 1)%nat eqn:E3.
      * destruct n as [|x [|y t]]; try discriminate. cbn [hd].
        unfold memchr_spec, find_first, memmem_spec. apply memchr_memmem1.
      * apply Nat.eqb_neq in E3.
        destruct (length n <=? 32)%nat; apply memmem_short_correct; lia.
Qed.

(* corollary: the model never runs out of fuel and never slices out of range *)
Lemma memmem_from_ge n : forall h i, (0 <= i)%Z -> (-1 <= memmem_from h n i)%Z.
Proof.
  induction h as [|b t IH]; intros i Hi; rewrite memmem_from_eq; destruct (prefixb n _); try lia.
  apply IH. lia.
Qed.

Theorem memmem_model_total : forall h n,
  memmem_model h n <> OUT_OF_FUEL /\ memmem_model h n <> PANIC.
Proof.
  intros h n. rewrite memmem_model_correct. unfold memmem_spec, OUT_OF_FUEL, PANIC.
  pose proof (memmem_from_ge n h 0%Z ltac:(lia)). lia.
Qed.


(* ------------------------------------------------------------------------- *)
(** * 7. Case checker                                                          *)
(* ------------------------------------------------------------------------- *)

(* cfun (mod 100; 100+k = the unexported generic function driven through the
   verif hook, k = the public function):
     1 Memchr [c]          2 Memchr2 [c1;c2]       3 Memchr3 [c1;c2;c3]
     4 MemchrPair [b1;b2;|offset|;1 if offset<0]   5 Memmem (cargs = needle)
     6 MemchrDigit         7 MemchrDigitAt [|at|;1 if at<0]
     8 MemchrWord          9 MemchrNotWord
    10 MemchrInTable (cargs = the bytes whose table entry is true)
    11 MemchrNotInTable (same)
    12 IsASCII (cobs 1/0)  13 CountNonASCII        14 FirstNonASCII *)
Record case := mk_case { cid : N; cfun : N; chay : list N; cargs : list N; cobs : Z }.

Definition arg (c : case) (i : nat) : N := nth i (cargs c) 0.
Definition sarg (c : case) (i : nat) : Z :=
  if arg c (S i) =? 1 then (- Z.of_N (arg c i))%Z else Z.of_N (arg c i).
Definition tbl_of (members : list N) (b : N) : bool := existsb (N.eqb b) members.
Definition b2z (b : bool) : Z := if b then 1%Z else 0%Z.

Definition spec_out (c : case) : option Z :=
  let h := chay c in
  match cfun c mod 100 with
  | 1 => Some (memchr_spec h (arg c 0))
  | 2 => Some (memchr2_spec h (arg c 0) (arg c 1))
  | 3 => Some (memchr3_spec h (arg c 0) (arg c 1) (arg c 2))
  | 4 => Some (memchr_pair_spec h (arg c 0) (arg c 1) (sarg c 2))
  | 5 => Some (memmem_spec h (cargs c))
  | 6 => Some (memchr_digit_spec h)
  | 7 => Some (memchr_digit_at_spec h (sarg c 0))
  | 8 => Some (memchr_word_spec h)
  | 9 => Some (memchr_not_word_spec h)
  | 10 => Some (memchr_in_table_spec (tbl_of (cargs c)) h)
  | 11 => Some (memchr_not_in_table_spec (tbl_of (cargs c)) h)
  | 12 => Some (b2z (is_ascii_spec h))
  | 13 => Some (count_non_ascii_spec h)
  | 14 => Some (first_non_ascii_spec h)
  | _ => None
  end.

Definition model_out (c : case) : option Z :=
  let h := chay c in
  match cfun c mod 100 with
  | 1 => Some (memchr_swar h (arg c 0))
  | 2 => Some (memchr2_swar h (arg c 0) (arg c 1))
  | 3 => Some (memchr3_swar h (arg c 0) (arg c 1) (arg c 2))
  | 4 => Some (memchr_pair_swar h (arg c 0) (arg c 1) (sarg c 2))
  | 5 => Some (memmem_model h (cargs c))
  | 6 => Some (memchr_digit_model h)
  | 7 => Some (memchr_digit_at_model h (sarg c 0))
  | 8 => Some (memchr_word_model h)
  | 9 => Some (memchr_not_word_model h)
  | 10 => Some (memchr_in_table_model (tbl_of (cargs c)) h)
  | 11 => Some (memchr_not_in_table_model (tbl_of (cargs c)) h)
  | 12 => Some (match is_ascii_swar h with Some b => b2z b | None => OUT_OF_FUEL end)
  | 13 => Some (count_non_ascii_model h)
  | 14 => Some (first_non_ascii_model h)
  | _ => None
  end.

(* observed Go output = scalar spec, and = the model of the pure-Go path *)
Definition check_case (c : case) : bool :=
  match spec_out c, model_out c with
  | Some s, Some m => ((s =? cobs c)%Z && (m =? cobs c)%Z)%bool
  | _, _ => false
  end.

Definition mismatches (cs : list case) : list N :=
  map cid (filter (fun c => negb (check_case c)) cs).
