(* Regex.v — layer L0: the regular-expression AST that nfa/compile.go consumes, and its
   declarative semantics.

   coregex never calls Simplify: nfa.Compiler.Compile is `syntax.Parse(pattern, syntax.Perl)`
   followed by compileRegexp on the parser's output (nfa/compile.go: Compile, CompileRegexp),
   so the AST below mirrors the syntax.Op cases of compileRegexp one for one, OpRepeat
   included (it is compiled natively by compileRepeat).  OpNoMatch has no case in
   compileRegexp (compile error) and is therefore not part of the fragment.

   Semantics: `re_match AS r h i j` — r matches the haystack h from byte offset i to byte
   offset j (i <= j <= |h|).  Look-around assertions are evaluated against the whole
   haystack with Nfa.look_ok, i.e. exactly as the Look states of the automaton are.  The
   semantics is denotational: one combinator on position relations per constructor.

   Rune-level atoms (character classes, dot) get their byte-string language from a record
   `atom_sem`, so that the same definition yields
     - the SPECIFICATION  (spec_atoms): a class matches the UTF-8 encoding of a scalar value
       of the class, dot the encoding of any scalar value (other than \n), and
     - the language AS BUILT (code_atoms, Compile.v): what the byte automata produced by
       compileCharClass / compileUTF8Any accept — they differ on ill-formed UTF-8. *)
From Coq Require Import List NArith Lia Bool Arith PeanoNat.
From CV Require Import Nfa Utf8 ClassAuto.
Import ListNotations.

(* ------------------------------------------------------------------ the AST *)
Inductive re :=
| REmpty                                             (* OpEmptyMatch *)
| RLit (items : list (N * list N))                   (* OpLiteral: one item per rune = the rune
                                                        (c, []) or, under FoldCase when the simple
                                                        case-folding orbit has more than one member,
                                                        the orbit in increasing order (head, tail)
                                                        (nfa/compile.go: foldOrbit) *)
| RClass (ranges : list (N * N))                     (* OpCharClass: inclusive code point ranges *)
| RAnyChar                                           (* OpAnyChar *)
| RAnyCharNotNL                                      (* OpAnyCharNotNL *)
| RCat (rs : list re)                                (* OpConcat *)
| RAlt (rs : list re)                                (* OpAlternate *)
| RStar (greedy : bool) (r : re)                     (* OpStar; greedy = (Flags&NonGreedy == 0) *)
| RPlus (greedy : bool) (r : re)                     (* OpPlus *)
| RQuest (greedy : bool) (r : re)                    (* OpQuest *)
| RRepeat (greedy : bool) (mn : nat) (mx : option nat) (r : re)   (* OpRepeat; Max = -1 is None *)
| RCap (idx : nat) (r : re)                          (* OpCapture *)
| RLook (lk : look).                                 (* OpBeginText/EndText/BeginLine/EndLine/
                                                        WordBoundary/NoWordBoundary *)

(* induction principle with the list cases *)
Section ReInd.
  Variable P : re -> Prop.
  Hypothesis HEmpty : P REmpty.
  Hypothesis HLit : forall items, P (RLit items).
  Hypothesis HClass : forall ranges, P (RClass ranges).
  Hypothesis HAny : P RAnyChar.
  Hypothesis HAnyN : P RAnyCharNotNL.
  Hypothesis HCat : forall rs, Forall P rs -> P (RCat rs).
  Hypothesis HAlt : forall rs, Forall P rs -> P (RAlt rs).
  Hypothesis HStar : forall g r, P r -> P (RStar g r).
  Hypothesis HPlus : forall g r, P r -> P (RPlus g r).
  Hypothesis HQuest : forall g r, P r -> P (RQuest g r).
  Hypothesis HRepeat : forall g mn mx r, P r -> P (RRepeat g mn mx r).
  Hypothesis HCap : forall idx r, P r -> P (RCap idx r).
  Hypothesis HLook : forall lk, P (RLook lk).

  Fixpoint re_ind' (r : re) : P r :=
    match r with
    | REmpty => HEmpty
    | RLit items => HLit items
    | RClass ranges => HClass ranges
    | RAnyChar => HAny
    | RAnyCharNotNL => HAnyN
    | RCat rs => HCat rs ((fix go (l : list re) : Forall P l :=
                             match l with [] => Forall_nil P | x :: t => Forall_cons x (re_ind' x) (go t) end) rs)
    | RAlt rs => HAlt rs ((fix go (l : list re) : Forall P l :=
                             match l with [] => Forall_nil P | x :: t => Forall_cons x (re_ind' x) (go t) end) rs)
    | RStar g r => HStar g r (re_ind' r)
    | RPlus g r => HPlus g r (re_ind' r)
    | RQuest g r => HQuest g r (re_ind' r)
    | RRepeat g mn mx r => HRepeat g mn mx r (re_ind' r)
    | RCap idx r => HCap idx r (re_ind' r)
    | RLook lk => HLook lk
    end.
End ReInd.

(* ------------------------------------------------------------------ encodeRune *)
(* nfa/compile.go: encodeRune — no surrogate / range check (the `|` of Go is `+` here: the
   operands have disjoint bits, as in Utf8.encode) *)
Definition encode_rune (r : N) : list N :=
  if (r <? 0x80)%N then [r]
  else if (r <? 0x800)%N then [192 + N.shiftr r 6; cbyte r]%N
  else if (r <? 0x10000)%N then [224 + N.shiftr r 12; cbyte (N.shiftr r 6); cbyte r]%N
  else [240 + N.shiftr r 18; cbyte (N.shiftr r 12); cbyte (N.shiftr r 6); cbyte r]%N.

(* encodeRune is the UTF-8 encoding on scalar values *)
Lemma encode_rune_scalar r : is_scalar r = true -> encode_rune r = encode r.
Proof.
  unfold is_scalar, encode_rune, encode. intros H.
  apply andb_prop in H as [H1 H2]. apply negb_true_iff in H2. rewrite H2, H1.
  destruct (r <? 128)%N; [reflexivity|]. destruct (r <? 2048)%N; [reflexivity|].
  destruct (r <? 65536)%N; reflexivity.
Qed.

(* ------------------------------------------------------------------ position relations *)
Definition lang := nat -> nat -> Prop.

Section Lang.
  Variable h : hay.

  Definition slice (i j : nat) : list N := firstn (j - i) (skipn i h).

  Definition l_eps : lang := fun i j => i = j /\ i <= length h.
  Definition l_none : lang := fun _ _ => False.
  (* the bytes h[i..j) belong to a set of byte strings *)
  Definition l_bytes (P : list N -> Prop) : lang := fun i j => i <= j <= length h /\ P (slice i j).
  Definition l_cat (L1 L2 : lang) : lang := fun i j => exists k, L1 i k /\ L2 k j.
  Fixpoint l_cats (Ls : list lang) : lang :=
    match Ls with [] => l_eps | L :: t => l_cat L (l_cats t) end.
  Definition l_alts (Ls : list lang) : lang := fun i j => exists L, In L Ls /\ L i j.
  Inductive l_star (L : lang) : lang :=
  | star_nil i : i <= length h -> l_star L i i
  | star_cons i k j : L i k -> l_star L k j -> l_star L i j.
  Definition l_plus (L : lang) : lang := l_cat L (l_star L).
  Definition l_quest (L : lang) : lang := fun i j => l_eps i j \/ L i j.
  Fixpoint l_pow (L : lang) (n : nat) : lang :=
    match n with 0 => l_eps | S n' => l_cat L (l_pow L n') end.
  Definition l_repeat (L : lang) (mn : nat) (mx : option nat) : lang :=
    fun i j => exists n, mn <= n /\ (match mx with None => True | Some m => n <= m end) /\ l_pow L n i j.
  Definition l_look (lk : look) : lang := fun i j => i = j /\ i <= length h /\ look_ok lk h i = true.
End Lang.

(* ------------------------------------------------------------------ atoms *)
Record atom_sem := mkAtomSem {
  as_class : list (N * N) -> list N -> Prop;    (* byte strings matched by a class *)
  as_any : bool -> list N -> Prop               (* dot; the flag says whether \n is included *)
}.

(* ClassAuto.in_ranges r ranges: the code point r lies in one of the inclusive ranges *)

(* the specification: well-formed UTF-8 only *)
Definition spec_atoms : atom_sem :=
  mkAtomSem
    (fun ranges bs => exists c, in_ranges c ranges = true /\ is_scalar c = true /\ bs = encode c)
    (fun nl bs => exists c, is_scalar c = true /\ (nl = true \/ c <> 10%N) /\ bs = encode c).

(* one literal rune: the encoding (encodeRune) of a member of its case-folding orbit *)
Definition item_bytes (it : N * list N) (bs : list N) : Prop :=
  exists m, In m (fst it :: snd it) /\ bs = encode_rune m.

(* ------------------------------------------------------------------ the semantics *)
Section Sem.
  Variable AS : atom_sem.
  Variable h : hay.

  Fixpoint re_lang (r : re) : lang :=
    match r with
    | REmpty => l_eps h
    | RLit items => l_cats h (map (fun it => l_bytes h (item_bytes it)) items)
    | RClass ranges => l_bytes h (as_class AS ranges)
    | RAnyChar => l_bytes h (as_any AS true)
    | RAnyCharNotNL => l_bytes h (as_any AS false)
    | RCat rs => l_cats h (map re_lang rs)
    | RAlt rs => l_alts (map re_lang rs)
    | RStar _ r => l_star h (re_lang r)
    | RPlus _ r => l_plus h (re_lang r)
    | RQuest _ r => l_quest h (re_lang r)
    | RRepeat _ mn mx r => l_repeat h (re_lang r) mn mx
    | RCap _ r => re_lang r
    | RLook lk => l_look h lk
    end.
End Sem.

(* r matches h from i to j *)
Definition re_match (AS : atom_sem) (r : re) (h : hay) (i j : nat) : Prop := re_lang AS h r i j.

(* ------------------------------------------------------------------ the rules, for the reader *)
Section Rules.
  Variable AS : atom_sem.
  Variable h : hay.
  Notation "r @ i ~> j" := (re_match AS r h i j) (at level 70, i at next level, j at next level).

  Lemma m_empty i j : REmpty @ i ~> j <-> i = j /\ i <= length h.
  Proof. reflexivity. Qed.
  Lemma m_look lk i j : RLook lk @ i ~> j <-> i = j /\ i <= length h /\ look_ok lk h i = true.
  Proof. reflexivity. Qed.
  Lemma m_class ranges i j :
    RClass ranges @ i ~> j <-> i <= j <= length h /\ as_class AS ranges (slice h i j).
  Proof. reflexivity. Qed.
  Lemma m_cat_nil i j : RCat [] @ i ~> j <-> i = j /\ i <= length h.
  Proof. reflexivity. Qed.
  Lemma m_cat_cons r rs i j : RCat (r :: rs) @ i ~> j <-> exists k, r @ i ~> k /\ RCat rs @ k ~> j.
  Proof. reflexivity. Qed.
  Lemma m_alt rs i j : RAlt rs @ i ~> j <-> exists r, In r rs /\ r @ i ~> j.
  Proof.
    unfold re_match. cbn [re_lang]. unfold l_alts. split.
    - intros [L [HL Hm]]. apply in_map_iff in HL as [r [<- Hr]]. eauto.
    - intros [r [Hr Hm]]. exists (re_lang AS h r). split; [now apply in_map|exact Hm].
  Qed.
  Lemma m_star g r i j :
    RStar g r @ i ~> j <-> (i = j /\ i <= length h) \/ exists k, r @ i ~> k /\ RStar g r @ k ~> j.
  Proof.
    unfold re_match. cbn [re_lang]. split.
    - intros H. inversion H; subst; [left; auto|right; eauto].
    - intros [[-> H]|[k [H1 H2]]]; [now constructor|econstructor; eauto].
  Qed.
  Lemma m_plus g r i j : RPlus g r @ i ~> j <-> exists k, r @ i ~> k /\ RStar g r @ k ~> j.
  Proof. reflexivity. Qed.
  Lemma m_quest g r i j : RQuest g r @ i ~> j <-> (i = j /\ i <= length h) \/ r @ i ~> j.
  Proof. reflexivity. Qed.
  Lemma m_repeat g mn mx r i j :
    RRepeat g mn mx r @ i ~> j <->
    exists n, mn <= n /\ (match mx with None => True | Some m => n <= m end) /\
              RCat (repeat r n) @ i ~> j.
  Proof.
    unfold re_match. cbn [re_lang]. unfold l_repeat.
    assert (E : forall n i j, l_pow h (re_lang AS h r) n i j <-> l_cats h (map (re_lang AS h) (repeat r n)) i j).
    { induction n as [|n IH]; intros i' j'; cbn [l_pow repeat map l_cats]; [reflexivity|].
      unfold l_cat. split; intros [k [H1 H2]]; exists k; (split; [exact H1|now apply IH]). }
    split; intros [n [H1 [H2 H3]]]; exists n; (split; [exact H1|split; [exact H2|now apply E]]).
  Qed.
  Lemma m_cap idx r i j : RCap idx r @ i ~> j <-> r @ i ~> j.
  Proof. reflexivity. Qed.
End Rules.

(* ------------------------------------------------------------------ basic facts *)
Section Facts.
  Variable AS : atom_sem.
  Variable h : hay.

  Definition bounded (L : lang) : Prop := forall i j, L i j -> i <= j <= length h.

  Lemma l_cats_bounded Ls : Forall bounded Ls -> bounded (l_cats h Ls).
  Proof.
    induction 1 as [|L t HL Ht IH]; cbn [l_cats].
    - intros i j [-> H]. lia.
    - intros i j [k [H1 H2]]. apply HL in H1. apply IH in H2. lia.
  Qed.

  Lemma l_star_bounded L : bounded L -> bounded (l_star h L).
  Proof. intros HL i j H. induction H as [i Hi|i k j H1 _ IH]; [lia|apply HL in H1; lia]. Qed.

  Lemma l_pow_bounded L n : bounded L -> bounded (l_pow h L n).
  Proof.
    intros HL. induction n as [|n IH]; cbn [l_pow].
    - intros i j [-> H]. lia.
    - intros i j [k [H1 H2]]. apply HL in H1. apply IH in H2. lia.
  Qed.

  (* a match lies inside the haystack *)
  Theorem re_match_bounds r i j : re_match AS r h i j -> i <= j <= length h.
  Proof.
    unfold re_match. revert i j. induction r using re_ind'; cbn [re_lang]; intros i j Hm.
    - destruct Hm as [-> H]. lia.
    - revert Hm. apply l_cats_bounded. apply Forall_forall. intros L HL.
      apply in_map_iff in HL as [it [<- _]]. intros a b [Hab _]. exact Hab.
    - destruct Hm as [H _]. exact H.
    - destruct Hm as [H _]. exact H.
    - destruct Hm as [H _]. exact H.
    - revert Hm. apply l_cats_bounded. apply Forall_forall. intros L HL.
      apply in_map_iff in HL as [r [<- Hr]]. rewrite Forall_forall in H. intros a b. apply H, Hr.
    - destruct Hm as [L [HL Hm]]. apply in_map_iff in HL as [r [<- Hr]].
      rewrite Forall_forall in H. apply (H r Hr), Hm.
    - revert Hm. apply l_star_bounded. intros a b. apply IHr.
    - destruct Hm as [k [H1 H2]]. apply IHr in H1.
      apply (l_star_bounded _ (fun a b => IHr a b)) in H2. lia.
    - destruct Hm as [[-> H]|Hm]; [lia|now apply IHr].
    - destruct Hm as [n [_ [_ Hm]]]. revert Hm. apply l_pow_bounded. intros a b. apply IHr.
    - now apply IHr.
    - destruct Hm as [-> [H _]]. lia.
  Qed.
End Facts.

(* the semantics is monotone in the atoms *)
Section Mono.
  Variables AS1 AS2 : atom_sem.
  Variable h : hay.

  Lemma l_cats_mono Ls1 Ls2 :
    Forall2 (fun L1 L2 : lang => forall i j, L1 i j -> L2 i j) Ls1 Ls2 ->
    forall i j, l_cats h Ls1 i j -> l_cats h Ls2 i j.
  Proof.
    induction 1 as [|L1 L2 t1 t2 HL _ IH]; cbn [l_cats]; intros i j Hm; [exact Hm|].
    destruct Hm as [k [H1 H2]]. exists k. split; [now apply HL|now apply IH].
  Qed.

  Lemma l_star_mono (L1 L2 : lang) : (forall i j, L1 i j -> L2 i j) ->
    forall i j, l_star h L1 i j -> l_star h L2 i j.
  Proof. intros HL i j H. induction H; [now constructor|econstructor; eauto]. Qed.

  Lemma l_pow_mono (L1 L2 : lang) n : (forall i j, L1 i j -> L2 i j) ->
    forall i j, l_pow h L1 n i j -> l_pow h L2 n i j.
  Proof.
    intros HL. induction n as [|n IH]; cbn [l_pow]; intros i j Hm; [exact Hm|].
    destruct Hm as [k [H1 H2]]. exists k. split; [now apply HL|now apply IH].
  Qed.

  (* every atom of r satisfies Q *)
  Fixpoint atoms_all (Q : re -> Prop) (r : re) : Prop :=
    match r with
    | RClass _ | RAnyChar | RAnyCharNotNL => Q r
    | RCat rs | RAlt rs => (fix go (l : list re) : Prop := match l with [] => True | x :: t => atoms_all Q x /\ go t end) rs
    | RStar _ r | RPlus _ r | RQuest _ r | RRepeat _ _ _ r | RCap _ r => atoms_all Q r
    | _ => True
    end.

  Lemma atoms_all_list Q rs :
    (fix go (l : list re) : Prop := match l with [] => True | x :: t => atoms_all Q x /\ go t end) rs <->
    Forall (atoms_all Q) rs.
  Proof.
    induction rs as [|x t IH]; [split; constructor|].
    split; [intros [H1 H2]; constructor; [exact H1|now apply IH]|].
    intros H. inversion H; subst. split; [assumption|now apply IH].
  Qed.

  Definition atom_incl (r : re) : Prop :=
    match r with
    | RClass ranges => forall bs, as_class AS1 ranges bs -> as_class AS2 ranges bs
    | RAnyChar => forall bs, as_any AS1 true bs -> as_any AS2 true bs
    | RAnyCharNotNL => forall bs, as_any AS1 false bs -> as_any AS2 false bs
    | _ => True
    end.

  Theorem re_match_mono r : atoms_all atom_incl r ->
    forall i j, re_match AS1 r h i j -> re_match AS2 r h i j.
  Proof.
    unfold re_match. induction r using re_ind'; cbn [re_lang atoms_all]; intros Ha i j Hm; try exact Hm.
    - destruct Hm as [Hb Hm]. split; [exact Hb|now apply Ha].
    - destruct Hm as [Hb Hm]. split; [exact Hb|now apply Ha].
    - destruct Hm as [Hb Hm]. split; [exact Hb|now apply Ha].
    - apply atoms_all_list in Ha. revert i j Hm. apply l_cats_mono.
      induction rs as [|x t IHt]; cbn [map]; constructor.
      + inversion H; inversion Ha; subst. auto.
      + inversion H; inversion Ha; subst. auto.
    - apply atoms_all_list in Ha. destruct Hm as [L [HL Hm]]. apply in_map_iff in HL as [r [<- Hr]].
      rewrite Forall_forall in H, Ha. exists (re_lang AS2 h r). split; [now apply in_map|].
      apply H; auto.
    - revert i j Hm. apply l_star_mono. auto.
    - destruct Hm as [k [H1 H2]]. exists k. split; [auto|]. revert H2. apply l_star_mono. auto.
    - destruct Hm as [Hm|Hm]; [now left|right; auto].
    - destruct Hm as [n [H1 [H2 H3]]]. exists n. split; [exact H1|]. split; [exact H2|].
      revert H3. apply l_pow_mono. auto.
    - auto.
  Qed.
End Mono.

