(* Pool.v — property C06 "a compiled Regex is safe for concurrent use".

   Model of the ownership hand-off of per-search state (meta.SearchState) between
   goroutines:

     /repo/meta/engine.go:Engine.getSearchState   Swap(nil) on the single-slot cache
                                                     `localState`, else statePool.get()
     /repo/meta/engine.go:Engine.putSearchState   state.reset(); CompareAndSwap(nil,state),
                                                     else statePool.put(state)
     /repo/meta/search_state.go:searchStatePool.get   p.pool.Get()  (sync.Pool, New allocates)
     /repo/meta/search_state.go:searchStatePool.put   state.reset(); p.pool.Put(state)

   Small-step interleaving semantics over ATOMIC actions, any number of goroutines,
   any call lists, any schedule.  What a search does to the state it holds is an
   arbitrary function [use]; the Engine is immutable and therefore not represented.

   NOT modelled: the Go memory model (the atomics are taken to be sequentially
   consistent, sync.Pool's Put/Get to be a release/acquire pair), sync.Pool's per-P
   caches (covered by the non-deterministic Get), the scheduler.  The theorems are
   about THIS protocol; whether every search method actually confines its writes to
   the state it obtained from getSearchState is NOT proved here (see the extractor
   go/harness/c06_protocol.go and the shared-call-site obligation of DESIGN.md). *)

From Coq Require Import List NArith ZArith Lia Bool Arith Permutation.
Require Import ZifyBool ZifyNat ZifyN.
Import ListNotations.

(* ------------------------------------------------------------------------- *)
(* Generic list facts                                                         *)
(* ------------------------------------------------------------------------- *)

Fixpoint remove_nth {A} (k : nat) (l : list A) : list A :=
  match l, k with
  | [], _ => []
  | _ :: t, O => t
  | x :: t, S k' => x :: remove_nth k' t
  end.

Lemma remove_nth_perm {A} (l : list A) : forall k s,
  nth_error l k = Some s -> Permutation l (s :: remove_nth k l).
Proof.
  induction l as [|x t IH]; intros k s Hn.
  - destruct k; discriminate.
  - destruct k as [|k]; cbn in *.
    + inversion Hn; subst. apply Permutation_refl.
    + apply IH in Hn. eapply perm_trans; [apply perm_skip, Hn|apply perm_swap].
Qed.

Lemma nodup_app_l {A} (l1 l2 : list A) : NoDup (l1 ++ l2) -> NoDup l1.
Proof.
  induction l1 as [|x t IH]; cbn; intros H; [constructor|].
  inversion H as [|? ? Hx Ht]; subst. constructor; [|auto].
  intros Hin. apply Hx. apply in_or_app. now left.
Qed.

Lemma nodup_app_disj {A} (l1 l2 : list A) x :
  NoDup (l1 ++ l2) -> In x l2 -> ~ In x l1.
Proof.
  induction l1 as [|y t IH]; cbn; intros H Hx2; [tauto|].
  inversion H as [|? ? Hy Ht]; subst. intros [->|Hin].
  - apply Hy. apply in_or_app. now right.
  - now apply IH.
Qed.

Lemma forall_perm {A} (P : A -> Prop) l1 l2 :
  Permutation l1 l2 -> Forall P l1 -> Forall P l2.
Proof.
  intros Hp H. rewrite Forall_forall in *. intros x Hx. apply H.
  eapply Permutation_in; [apply Permutation_sym, Hp|exact Hx].
Qed.

(* ------------------------------------------------------------------------- *)
(* Identifiers, events, ownership read off a trace                            *)
(* ------------------------------------------------------------------------- *)

Definition id := nat.    (* identity of one *SearchState *)
Definition gid := nat.   (* goroutine *)

Definition updf {A} (f : nat -> A) (k : nat) (v : A) : nat -> A :=
  fun k' => if k' =? k then v else f k'.

(* Trace events.  EvAcq: the goroutine obtained the pointer (Swap returned it,
   pool.Get returned it, or New allocated it).  EvAcc: one read/write access to the
   memory of that SearchState (a search step or reset()).  EvRel: the goroutine
   published the pointer (successful CAS into the slot, or pool.Put). *)
Inductive event :=
| EvAcq (g : gid) (s : id)
| EvAcc (g : gid) (s : id)
| EvRel (g : gid) (s : id).

(* Traces are stored newest first. [owner l s]: who holds [s] after trace [l]. *)
Fixpoint owner (l : list event) (s : id) : option gid :=
  match l with
  | [] => None
  | EvAcq g s' :: l' => if s' =? s then Some g else owner l' s
  | EvRel g s' :: l' => if s' =? s then None else owner l' s
  | EvAcc _ _ :: l' => owner l' s
  end.

(* Well-bracketed trace: a state is acquired only when nobody owns it, accessed and
   released only by its current owner.  An access by a non-owner is exactly a pair of
   accesses not ordered by a release/acquire chain, i.e. a data race on the state. *)
Fixpoint wb (l : list event) : Prop :=
  match l with
  | [] => True
  | e :: l' =>
      wb l' /\
      match e with
      | EvAcq g s => owner l' s = None
      | EvAcc g s => owner l' s = Some g
      | EvRel g s => owner l' s = Some g
      end
  end.

Definition opt_gid_eqb (a b : option gid) : bool :=
  match a, b with
  | None, None => true
  | Some x, Some y => x =? y
  | _, _ => false
  end.

Fixpoint wbb (l : list event) : bool :=
  match l with
  | [] => true
  | e :: l' =>
      wbb l' &&
      match e with
      | EvAcq g s => opt_gid_eqb (owner l' s) None
      | EvAcc g s => opt_gid_eqb (owner l' s) (Some g)
      | EvRel g s => opt_gid_eqb (owner l' s) (Some g)
      end
  end.

Lemma opt_gid_eqb_eq a b : opt_gid_eqb a b = true <-> a = b.
Proof.
  destruct a, b; cbn; split; intros H; try discriminate; try reflexivity.
  - apply Nat.eqb_eq in H. now subst.
  - inversion H; subst. apply Nat.eqb_refl.
Qed.

Lemma wbb_wb l : wbb l = true <-> wb l.
Proof.
  induction l as [|e l IH]; cbn; [tauto|].
  rewrite andb_true_iff, IH. destruct e; rewrite opt_gid_eqb_eq; tauto.
Qed.

(* held-table manipulation *)
Definition remove_pair (g : gid) (s : id) (h : list (gid * id)) : list (gid * id) :=
  filter (fun p => negb ((fst p =? g) && (snd p =? s))) h.

Lemma in_remove_pair g s h g' s' :
  In (g', s') (remove_pair g s h) <-> In (g', s') h /\ ~ (g' = g /\ s' = s).
Proof.
  unfold remove_pair. rewrite filter_In. cbn [fst snd].
  split; intros [H1 H2]; split; auto.
  - intros [-> ->]. rewrite !Nat.eqb_refl in H2. discriminate.
  - destruct (g' =? g) eqn:E1; destruct (s' =? s) eqn:E2; cbn; auto.
    apply Nat.eqb_eq in E1, E2. tauto.
Qed.

Lemma remove_pair_notin g s h : ~ In s (map snd h) -> remove_pair g s h = h.
Proof.
  induction h as [|[a b] t IH]; cbn; intros Hn; [reflexivity|].
  destruct (b =? s) eqn:E.
  - apply Nat.eqb_eq in E. subst. tauto.
  - rewrite andb_false_r. cbn. f_equal. apply IH. tauto.
Qed.

Lemma remove_pair_perm g s h :
  NoDup (map snd h) -> In (g, s) h ->
  Permutation (map snd h) (s :: map snd (remove_pair g s h)).
Proof.
  induction h as [|[a b] t IH]; cbn; intros Hnd Hin; [tauto|].
  inversion Hnd as [|? ? Hb Ht]; subst.
  destruct ((a =? g) && (b =? s)) eqn:E; cbn.
  - apply andb_true_iff in E. destruct E as [E1 E2].
    apply Nat.eqb_eq in E1, E2. subst.
    fold (remove_pair g s t). rewrite remove_pair_notin by assumption.
    apply Permutation_refl.
  - destruct Hin as [Heq|Hin].
    + inversion Heq; subst. rewrite !Nat.eqb_refl in E. discriminate.
    + fold (remove_pair g s t).
      eapply perm_trans; [apply perm_skip, IH; assumption|apply perm_swap].
Qed.

Lemma held_unique (h : list (gid * id)) a b s :
  NoDup (map snd h) -> In (a, s) h -> In (b, s) h -> a = b.
Proof.
  induction h as [|[x y] t IH]; cbn; intros Hnd Ha Hb; [tauto|].
  inversion Hnd as [|? ? Hy Ht]; subst.
  destruct Ha as [Ha|Ha], Hb as [Hb|Hb].
  - congruence.
  - inversion Ha; subst. exfalso. apply Hy. apply (in_map snd) in Hb. exact Hb.
  - inversion Hb; subst. exfalso. apply Hy. apply (in_map snd) in Ha. exact Ha.
  - auto.
Qed.

(* ------------------------------------------------------------------------- *)
(* Protocol variants (the good one and the controls)                           *)
(* ------------------------------------------------------------------------- *)

Inductive get_mode :=
| GetSwap   (* state := e.localState.Swap(nil)           — the source *)
| GetLoad.  (* state := e.localState.Load()              — control: slot not emptied *)

Inductive put_mode :=
| PutCas        (* if e.localState.CompareAndSwap(nil,state) {return}; pool.put — the source *)
| PutStoreRet   (* e.localState.Store(state); return     — control: overwrites the slot *)
| PutStoreFall. (* e.localState.Store(state); pool.put   — control: CAS result not consulted *)

(* Scheduler choices.  [Go g k]: goroutine g performs its next atomic action; k is
   used only by PoolGet (k < length pool: sync.Pool.Get returns the k-th pooled
   state; otherwise it calls New).  [Gc k]: the garbage collector drops the k-th
   pooled state (sync.Pool is emptied by GC at arbitrary moments). *)
Inductive choice :=
| Go (g : gid) (k : nat)
| Gc (k : nat).

Section Pool.

Variables data input output : Type.
Variable init : data.                                (* search_state.go:newSearchState *)
Variable use : data -> input -> data * output.       (* one search on the held state *)
Variable reset : data -> data.                       (* search_state.go:SearchState.reset *)

(* One API call = the searches it performs with the ONE state it acquired
   (e.g. FindAll performs many, IsMatch one). *)
Definition call := list input.

(* Program counter of a goroutine inside a call.
   engine.go:getSearchState / putSearchState, one constructor per atomic action
   still to be executed. *)
Inductive pcT :=
| PIdle                                                    (* next: Swap(nil) of the next call *)
| PNeedPool (c : call)                                     (* Swap returned nil; next: pool.Get *)
| PUse (s : id) (c : call) (r : list input) (acc : list output)
                                                           (* holds s; next: search r's head, or reset() *)
| PCas (s : id) (c : call) (acc : list output)             (* reset done; next: CompareAndSwap(nil,s) *)
| PReset2 (s : id) (c : call) (acc : list output)          (* CAS failed; next: searchStatePool.put's reset() *)
| PPut (s : id) (c : call) (acc : list output).            (* next: pool.Put(s) *)

Definition pc_id (p : pcT) : option id :=
  match p with
  | PIdle | PNeedPool _ => None
  | PUse s _ _ _ | PCas s _ _ | PReset2 s _ _ | PPut s _ _ => Some s
  end.

Record gstate := mkG {
  pc : pcT;
  todo : list call;                       (* calls not yet started *)
  fin : list (call * list output)         (* completed calls with their outputs, newest first *)
}.

Record state := mkS {
  slot : option id;          (* engine.go:Engine.localState *)
  pool : list id;            (* engine.go:Engine.statePool (sync.Pool) as a multiset *)
  next_fresh : id;           (* allocation counter: ids >= next_fresh do not exist yet *)
  held : list (gid * id);    (* ghost: which goroutine holds which state *)
  store : id -> data;        (* contents of each SearchState *)
  gst : gid -> gstate;       (* goroutines *)
  log : list event           (* ghost: trace, newest first *)
}.

Definition init_state (prog : gid -> list call) : state :=
  mkS None [] 0 [] (fun _ => init) (fun g => mkG PIdle (prog g) []) [].

(* One atomic action.  Disabled choices stutter. *)
Definition step (gm : get_mode) (pm : put_mode) (ch : choice) (σ : state) : state :=
  match ch with
  | Gc k =>
      match nth_error (pool σ) k with
      | Some _ => mkS (slot σ) (remove_nth k (pool σ)) (next_fresh σ) (held σ)
                      (store σ) (gst σ) (log σ)
      | None => σ
      end
  | Go g k =>
      let G := gst σ g in
      match pc G with
      | PIdle =>
          match todo G with
          | [] => σ
          | c :: t =>
              (* engine.go:getSearchState  state := e.localState.Swap(nil) *)
              match slot σ with
              | Some s =>
                  mkS (match gm with GetSwap => None | GetLoad => Some s end)
                      (pool σ) (next_fresh σ) ((g, s) :: held σ) (store σ)
                      (updf (gst σ) g (mkG (PUse s c c []) t (fin G)))
                      (EvAcq g s :: log σ)
              | None =>
                  mkS None (pool σ) (next_fresh σ) (held σ) (store σ)
                      (updf (gst σ) g (mkG (PNeedPool c) t (fin G)))
                      (log σ)
              end
          end
      | PNeedPool c =>
          (* search_state.go:searchStatePool.get  p.pool.Get() *)
          match nth_error (pool σ) k with
          | Some s =>
              mkS (slot σ) (remove_nth k (pool σ)) (next_fresh σ) ((g, s) :: held σ)
                  (store σ)
                  (updf (gst σ) g (mkG (PUse s c c []) (todo G) (fin G)))
                  (EvAcq g s :: log σ)
          | None =>
              (* sync.Pool.New: newSearchState(p.cfg) *)
              let s := next_fresh σ in
              mkS (slot σ) (pool σ) (S s) ((g, s) :: held σ)
                  (updf (store σ) s init)
                  (updf (gst σ) g (mkG (PUse s c c []) (todo G) (fin G)))
                  (EvAcq g s :: log σ)
          end
      | PUse s c (i :: r) acc =>
          (* the search: reads the immutable Engine, reads/writes store[s] only.
             engine.go:getSearchState's own writes after the acquisition
             (state.backtracker.Longest = e.longest; state.pikevm.SetLongest) are
             accesses of this kind: by the holder, to the held state. *)
          mkS (slot σ) (pool σ) (next_fresh σ) (held σ)
              (updf (store σ) s (fst (use (store σ s) i)))
              (updf (gst σ) g (mkG (PUse s c r (snd (use (store σ s) i) :: acc)) (todo G) (fin G)))
              (EvAcc g s :: log σ)
      | PUse s c [] acc =>
          (* engine.go:putSearchState  state.reset() *)
          mkS (slot σ) (pool σ) (next_fresh σ) (held σ)
              (updf (store σ) s (reset (store σ s)))
              (updf (gst σ) g (mkG (PCas s c acc) (todo G) (fin G)))
              (EvAcc g s :: log σ)
      | PCas s c acc =>
          let released_to_slot :=
            mkS (Some s) (pool σ) (next_fresh σ) (remove_pair g s (held σ)) (store σ)
                (updf (gst σ) g (mkG PIdle (todo G) ((c, rev acc) :: fin G)))
                (EvRel g s :: log σ) in
          let fall_through (sl : option id) :=
            mkS sl (pool σ) (next_fresh σ) (held σ) (store σ)
                (updf (gst σ) g (mkG (PReset2 s c acc) (todo G) (fin G)))
                (log σ) in
          match pm with
          | PutCas =>
              (* engine.go:putSearchState  if e.localState.CompareAndSwap(nil, state) { return } *)
              match slot σ with
              | None => released_to_slot
              | Some _ => fall_through (slot σ)
              end
          | PutStoreRet => released_to_slot
          | PutStoreFall => fall_through (Some s)
          end
      | PReset2 s c acc =>
          (* search_state.go:searchStatePool.put  state.reset() (second reset) *)
          mkS (slot σ) (pool σ) (next_fresh σ) (held σ)
              (updf (store σ) s (reset (store σ s)))
              (updf (gst σ) g (mkG (PPut s c acc) (todo G) (fin G)))
              (EvAcc g s :: log σ)
      | PPut s c acc =>
          (* search_state.go:searchStatePool.put  p.pool.Put(state) *)
          mkS (slot σ) (s :: pool σ) (next_fresh σ) (remove_pair g s (held σ)) (store σ)
              (updf (gst σ) g (mkG PIdle (todo G) ((c, rev acc) :: fin G)))
              (EvRel g s :: log σ)
      end
  end.

Definition run (gm : get_mode) (pm : put_mode) (sched : list choice) (σ : state) : state :=
  fold_left (fun σ ch => step gm pm ch σ) sched σ.

(* The protocol of the source. *)
Definition gstep := step GetSwap PutCas.
Definition grun := run GetSwap PutCas.

Definition reachable (prog : gid -> list call) (σ : state) : Prop :=
  exists sched, σ = grun sched (init_state prog).

Lemma run_invariant gm pm (P : state -> Prop) :
  (forall ch σ, P σ -> P (step gm pm ch σ)) ->
  forall sched σ, P σ -> P (run gm pm sched σ).
Proof.
  intros Hstep sched. induction sched as [|ch t IH]; intros σ H; cbn; [exact H|].
  apply IH. apply Hstep. exact H.
Qed.

(* ------------------------------------------------------------------------- *)
(* Invariant A: exclusive ownership                                           *)
(* ------------------------------------------------------------------------- *)

Definition slot_ids (o : option id) : list id :=
  match o with Some s => [s] | None => [] end.

Definition all_ids (σ : state) : list id :=
  map snd (held σ) ++ slot_ids (slot σ) ++ pool σ.

Definition good_ids (n : id) (l : list id) : Prop :=
  NoDup l /\ Forall (fun s => s < n) l.

Lemma good_ids_perm n l1 l2 : Permutation l1 l2 -> good_ids n l1 -> good_ids n l2.
Proof.
  intros Hp [H1 H2]. split.
  - eapply Permutation_NoDup; eauto.
  - eapply forall_perm; eauto.
Qed.

Record InvA (σ : state) : Prop := {
  ia_ids : good_ids (next_fresh σ) (all_ids σ);
  ia_pc : forall g s, pc_id (pc (gst σ g)) = Some s -> In (g, s) (held σ)
}.

Lemma pc_link_upd (f : gid -> gstate) (h h' : list (gid * id)) g G' :
  (forall g' s', pc_id (pc (f g')) = Some s' -> In (g', s') h) ->
  (forall s', pc_id (pc G') = Some s' -> In (g, s') h') ->
  (forall g' s', g' <> g -> In (g', s') h -> In (g', s') h') ->
  forall g' s', pc_id (pc (updf f g G' g')) = Some s' -> In (g', s') h'.
Proof.
  intros Hold Hnew Hmono g' s'. unfold updf.
  destruct (g' =? g) eqn:E.
  - apply Nat.eqb_eq in E. subst. apply Hnew.
  - apply Nat.eqb_neq in E. intros H. apply Hmono; auto.
Qed.

Lemma init_InvA prog : InvA (init_state prog).
Proof.
  constructor; cbn.
  - split; constructor.
  - intros g s H. discriminate.
Qed.

Ltac pc_tac Hpc :=
  eapply pc_link_upd;
  [ exact Hpc
  | cbn; let s' := fresh "s'" in let Hs' := fresh "Hs'" in
    intros s' Hs'; try discriminate; try (inversion Hs'; subst; cbn; auto)
  | let g' := fresh "g'" in let s' := fresh "s'" in
    let Hne := fresh "Hne" in let Hin0 := fresh "Hin0" in
    intros g' s' Hne Hin0; try exact Hin0; try (right; exact Hin0);
    try (apply in_remove_pair; split; [exact Hin0|intros [? ?]; contradiction]) ].

Lemma step_InvA ch σ : InvA σ -> InvA (gstep ch σ).
Proof.
  intros [Hids Hpc]. unfold gstep.
  destruct ch as [g k|k]; unfold step.
  2:{ (* GC drop *)
    destruct (nth_error (pool σ) k) as [s|] eqn:En; [|constructor; assumption].
    constructor; cbn [slot pool next_fresh held store gst log]; [|exact Hpc].
    unfold all_ids in *; cbn.
    pose proof (remove_nth_perm _ _ _ En) as Hp.
    assert (Hq : Permutation (map snd (held σ) ++ slot_ids (slot σ) ++ pool σ)
                   (s :: map snd (held σ) ++ slot_ids (slot σ) ++ remove_nth k (pool σ))).
    { rewrite !app_assoc. eapply perm_trans;
        [apply Permutation_app_head, Hp|apply Permutation_sym, Permutation_middle]. }
    apply (good_ids_perm _ _ _ Hq) in Hids. destruct Hids as [H1 H2].
    inversion H1; subst. inversion H2; subst. split; assumption. }
  destruct (pc (gst σ g)) as [|c|s c r acc|s c acc|s c acc|s c acc] eqn:Epc.
  - (* PIdle: Swap *)
    destruct (todo (gst σ g)) as [|c t]; [constructor; assumption|].
    destruct (slot σ) as [s|] eqn:Eslot.
    + constructor; cbn [slot pool next_fresh held store gst log].
      * unfold all_ids in *; cbn. rewrite Eslot in Hids. cbn in Hids.
        eapply good_ids_perm; [|exact Hids].
        apply Permutation_sym, Permutation_middle.
      * pc_tac Hpc.
    + constructor; cbn [slot pool next_fresh held store gst log].
      * unfold all_ids in *; cbn. rewrite Eslot in Hids. exact Hids.
      * pc_tac Hpc.
  - (* PNeedPool: pool.Get *)
    destruct (nth_error (pool σ) k) as [s|] eqn:En.
    + constructor; cbn [slot pool next_fresh held store gst log].
      * unfold all_ids in *; cbn.
        pose proof (remove_nth_perm _ _ _ En) as Hp.
        eapply good_ids_perm; [|exact Hids].
        rewrite !app_assoc. eapply perm_trans;
          [apply Permutation_app_head, Hp|apply Permutation_sym, Permutation_middle].
      * pc_tac Hpc.
    + constructor; cbn [slot pool next_fresh held store gst log].
      * unfold all_ids in *; cbn. destruct Hids as [H1 H2]. split.
        -- constructor; [|exact H1]. intros Hin.
           rewrite Forall_forall in H2. apply H2 in Hin. lia.
        -- constructor; [lia|]. eapply Forall_impl; [|exact H2]. cbn. intros; lia.
      * pc_tac Hpc.
  - (* PUse *)
    assert (Hin : In (g, s) (held σ)) by (apply Hpc; rewrite Epc; reflexivity).
    destruct r as [|i r]; constructor; cbn [slot pool next_fresh held store gst log]; try exact Hids; pc_tac Hpc.
  - (* PCas *)
    assert (Hin : In (g, s) (held σ)) by (apply Hpc; rewrite Epc; reflexivity).
    destruct (slot σ) as [s0|] eqn:Eslot.
    + constructor; cbn [slot pool next_fresh held store gst log].
      * unfold all_ids in *; cbn. rewrite Eslot in Hids. exact Hids.
      * pc_tac Hpc.
    + constructor; cbn [slot pool next_fresh held store gst log].
      * unfold all_ids in *; cbn. rewrite Eslot in Hids. cbn in Hids.
        pose proof Hids as [Hnd _]. apply nodup_app_l in Hnd.
        pose proof (remove_pair_perm g s _ Hnd Hin) as Hp.
        eapply good_ids_perm; [|exact Hids].
        eapply perm_trans; [apply Permutation_app_tail, Hp|].
        cbn. apply Permutation_middle.
      * pc_tac Hpc.
  - (* PReset2 *)
    assert (Hin : In (g, s) (held σ)) by (apply Hpc; rewrite Epc; reflexivity).
    constructor; cbn [slot pool next_fresh held store gst log]; try exact Hids; pc_tac Hpc.
  - (* PPut *)
    assert (Hin : In (g, s) (held σ)) by (apply Hpc; rewrite Epc; reflexivity).
    constructor; cbn [slot pool next_fresh held store gst log].
    + unfold all_ids in *; cbn.
      pose proof Hids as [Hnd _]. apply nodup_app_l in Hnd.
      pose proof (remove_pair_perm g s _ Hnd Hin) as Hp.
      eapply good_ids_perm; [|exact Hids].
      eapply perm_trans; [apply Permutation_app_tail, Hp|].
      cbn. rewrite !app_assoc. apply Permutation_middle.
    + pc_tac Hpc.
Qed.

Lemma run_InvA sched σ : InvA σ -> InvA (grun sched σ).
Proof. apply run_invariant. intros; now apply step_InvA. Qed.

(* THEOREM pool_exclusive_ownership *)
Theorem pool_exclusive_ownership :
  forall (prog : gid -> list call) (sched : list choice),
    let σ := grun sched (init_state prog) in
    NoDup (map snd (held σ) ++ slot_ids (slot σ) ++ pool σ) /\
    Forall (fun s => s < next_fresh σ) (map snd (held σ) ++ slot_ids (slot σ) ++ pool σ) /\
    (forall g s, pc_id (pc (gst σ g)) = Some s -> In (g, s) (held σ)).
Proof.
  intros prog sched σ.
  destruct (run_InvA sched _ (init_InvA prog)) as [[H1 H2] H3].
  split; [exact H1|split; [exact H2|exact H3]].
Qed.

(* THEOREM no_shared_state: no two goroutines ever hold the same SearchState. *)
Theorem no_shared_state :
  forall (prog : gid -> list call) (sched : list choice) (g1 g2 : gid) (s : id),
    let σ := grun sched (init_state prog) in
    pc_id (pc (gst σ g1)) = Some s ->
    pc_id (pc (gst σ g2)) = Some s ->
    g1 = g2.
Proof.
  intros prog sched g1 g2 s σ H1 H2.
  destruct (run_InvA sched _ (init_InvA prog)) as [[Hnd _] Hpc].
  apply nodup_app_l in Hnd.
  eapply held_unique; [exact Hnd|apply Hpc; exact H1|apply Hpc; exact H2].
Qed.

(* ------------------------------------------------------------------------- *)
(* Invariant B: the trace is well bracketed                                   *)
(* ------------------------------------------------------------------------- *)

Record InvB (σ : state) : Prop := {
  ib_wb : wb (log σ);
  ib_owner : forall s g, owner (log σ) s = Some g <-> In (g, s) (held σ)
}.

Lemma init_InvB prog : InvB (init_state prog).
Proof.
  constructor; cbn; [exact I|]. intros s g. split; [discriminate|tauto].
Qed.

Lemma owner_none_of (l : list event) (h : list (gid * id)) s :
  (forall s g, owner l s = Some g <-> In (g, s) h) ->
  ~ In s (map snd h) -> owner l s = None.
Proof.
  intros Ho Hn. destruct (owner l s) as [g0|] eqn:E; [|reflexivity].
  exfalso. apply Hn. apply Ho in E. apply (in_map snd) in E. exact E.
Qed.

(* acquiring a state nobody holds *)
Lemma InvB_acquire (l : list event) (h : list (gid * id)) g s :
  wb l -> (forall s g, owner l s = Some g <-> In (g, s) h) ->
  ~ In s (map snd h) ->
  wb (EvAcq g s :: l) /\
  (forall s' g', owner (EvAcq g s :: l) s' = Some g' <-> In (g', s') ((g, s) :: h)).
Proof.
  intros Hwb Ho Hn. split.
  - cbn. split; [exact Hwb|]. eapply owner_none_of; eauto.
  - intros s' g'. cbn. destruct (s =? s') eqn:E.
    + apply Nat.eqb_eq in E. subst s'. split.
      * intros H; inversion H; subst. now left.
      * intros [H|H]; [inversion H; reflexivity|].
        exfalso. apply Hn. apply (in_map snd) in H. exact H.
    + apply Nat.eqb_neq in E. rewrite Ho. split; [tauto|].
      intros [H|H]; [inversion H; subst; congruence|exact H].
Qed.

Lemma InvB_access (l : list event) (h : list (gid * id)) g s :
  wb l -> (forall s g, owner l s = Some g <-> In (g, s) h) ->
  In (g, s) h ->
  wb (EvAcc g s :: l) /\
  (forall s' g', owner (EvAcc g s :: l) s' = Some g' <-> In (g', s') h).
Proof.
  intros Hwb Ho Hin. split.
  - cbn. split; [exact Hwb|]. now apply Ho.
  - intros s' g'. cbn. apply Ho.
Qed.

Lemma InvB_release (l : list event) (h : list (gid * id)) g s :
  wb l -> (forall s g, owner l s = Some g <-> In (g, s) h) ->
  NoDup (map snd h) -> In (g, s) h ->
  wb (EvRel g s :: l) /\
  (forall s' g', owner (EvRel g s :: l) s' = Some g' <-> In (g', s') (remove_pair g s h)).
Proof.
  intros Hwb Ho Hnd Hin. split.
  - cbn. split; [exact Hwb|]. now apply Ho.
  - intros s' g'. cbn. rewrite in_remove_pair. destruct (s =? s') eqn:E.
    + apply Nat.eqb_eq in E. subst s'. split; [discriminate|].
      intros [H1 H2]. exfalso. apply H2. split; [|reflexivity].
      eapply held_unique; eauto.
    + apply Nat.eqb_neq in E. rewrite Ho. split; [|tauto].
      intros H. split; [exact H|]. intros [_ H2]. congruence.
Qed.

Lemma step_InvB ch σ : InvA σ -> InvB σ -> InvB (gstep ch σ).
Proof.
  intros [[Hnd Hfr] Hpc] [Hwb Ho]. unfold gstep.
  destruct ch as [g k|k]; unfold step.
  2:{ destruct (nth_error (pool σ) k); constructor; cbn; assumption. }
  unfold all_ids in *.
  pose proof (nodup_app_l _ _ Hnd) as HndH.
  destruct (pc (gst σ g)) as [|c|s c r acc|s c acc|s c acc|s c acc] eqn:Epc.
  - destruct (todo (gst σ g)) as [|c t]; [constructor; assumption|].
    destruct (slot σ) as [s|] eqn:Eslot.
    + assert (Hn : ~ In s (map snd (held σ))).
      { eapply nodup_app_disj; [exact Hnd|]. cbn. now left. }
      destruct (InvB_acquire _ _ g s Hwb Ho Hn). constructor; cbn; assumption.
    + constructor; cbn; assumption.
  - destruct (nth_error (pool σ) k) as [s|] eqn:En.
    + assert (Hn : ~ In s (map snd (held σ))).
      { eapply nodup_app_disj; [exact Hnd|]. apply in_or_app. right.
        eapply nth_error_In; eauto. }
      destruct (InvB_acquire _ _ g s Hwb Ho Hn). constructor; cbn; assumption.
    + assert (Hn : ~ In (next_fresh σ) (map snd (held σ))).
      { intros Hin. rewrite Forall_forall in Hfr.
        specialize (Hfr (next_fresh σ)). rewrite in_app_iff in Hfr.
        specialize (Hfr (or_introl Hin)). lia. }
      destruct (InvB_acquire _ _ g _ Hwb Ho Hn). constructor; cbn; assumption.
  - assert (Hin : In (g, s) (held σ)) by (apply Hpc; rewrite Epc; reflexivity).
    destruct (InvB_access _ _ g s Hwb Ho Hin).
    destruct r as [|i r]; constructor; cbn; assumption.
  - assert (Hin : In (g, s) (held σ)) by (apply Hpc; rewrite Epc; reflexivity).
    destruct (slot σ) as [s0|] eqn:Eslot.
    + constructor; cbn; assumption.
    + destruct (InvB_release _ _ g s Hwb Ho HndH Hin). constructor; cbn; assumption.
  - assert (Hin : In (g, s) (held σ)) by (apply Hpc; rewrite Epc; reflexivity).
    destruct (InvB_access _ _ g s Hwb Ho Hin). constructor; cbn; assumption.
  - assert (Hin : In (g, s) (held σ)) by (apply Hpc; rewrite Epc; reflexivity).
    destruct (InvB_release _ _ g s Hwb Ho HndH Hin). constructor; cbn; assumption.
Qed.

Lemma run_InvAB sched : forall σ, InvA σ /\ InvB σ -> InvA (grun sched σ) /\ InvB (grun sched σ).
Proof.
  apply (run_invariant GetSwap PutCas (fun σ => InvA σ /\ InvB σ)).
  intros ch σ [HA HB]. split; [now apply step_InvA|now apply step_InvB].
Qed.

(* THEOREM log_well_bracketed: every access event is performed by the goroutine that
   currently owns the state; every acquisition takes a state nobody owns. *)
Theorem log_well_bracketed :
  forall (prog : gid -> list call) (sched : list choice),
    wb (log (grun sched (init_state prog))).
Proof.
  intros prog sched.
  destruct (run_InvAB sched _ (conj (init_InvA prog) (init_InvB prog))) as [_ [H _]].
  exact H.
Qed.

Lemma wb_app l1 l2 : wb (l1 ++ l2) -> wb l2.
Proof. induction l1 as [|e t IH]; cbn; [tauto|]. intros [H _]. auto. Qed.

Lemma owner_kept (t2 : list event) : forall t1 g s,
  wb (t2 ++ EvAcq g s :: t1) ->
  ~ In (EvRel g s) t2 ->
  owner (t2 ++ EvAcq g s :: t1) s = Some g.
Proof.
  induction t2 as [|e t IH]; intros t1 g s Hwb Hn; cbn.
  - now rewrite Nat.eqb_refl.
  - cbn in Hwb. destruct Hwb as [Hwb He].
    assert (IH' : owner (t ++ EvAcq g s :: t1) s = Some g).
    { apply IH; [exact Hwb|]. intros H. apply Hn. now right. }
    destruct e as [g0 s0|g0 s0|g0 s0].
    + destruct (s0 =? s) eqn:E; [|exact IH'].
      apply Nat.eqb_eq in E. subst. congruence.
    + exact IH'.
    + destruct (s0 =? s) eqn:E; [|exact IH'].
      apply Nat.eqb_eq in E. subst. rewrite IH' in He. inversion He; subst.
      exfalso. apply Hn. now left.
Qed.

(* THEOREM no_conflicting_access: between the acquisition of state s by goroutine g
   and g's release of it, no other goroutine performs an access on s.  (The trace is
   newest-first: t1 is the past, t3 the future.)  Two accesses to the same state by
   different goroutines are therefore always separated by a release of the first and
   an acquisition by the second, i.e. ordered through the atomic slot / the pool. *)
Theorem no_conflicting_access :
  forall (prog : gid -> list call) (sched : list choice)
         (t1 t2 t3 : list event) (g g' : gid) (s : id),
    log (grun sched (init_state prog)) = t3 ++ EvAcc g' s :: t2 ++ EvAcq g s :: t1 ->
    ~ In (EvRel g s) t2 ->
    g' = g.
Proof.
  intros prog sched t1 t2 t3 g g' s Hlog Hn.
  pose proof (log_well_bracketed prog sched) as Hwb. rewrite Hlog in Hwb.
  apply wb_app in Hwb. cbn in Hwb. destruct Hwb as [Hwb Hacc].
  rewrite (owner_kept t2 t1 g s Hwb Hn) in Hacc. now inversion Hacc.
Qed.

(* A step of goroutine g writes only the SearchState g holds (or the one it has just
   allocated): the frame of every step. *)
Theorem step_touches_only_own :
  forall (g : gid) (k : nat) (σ : state) (s : id),
    store (gstep (Go g k) σ) s = store σ s \/
    pc_id (pc (gst σ g)) = Some s \/
    (s = next_fresh σ /\ next_fresh (gstep (Go g k) σ) = S s).
Proof.
  intros g k σ s. unfold gstep, step.
  destruct (pc (gst σ g)) as [|c|s0 c r acc|s0 c acc|s0 c acc|s0 c acc] eqn:Epc; cbn.
  - destruct (todo (gst σ g)); [now left|]. destruct (slot σ); now left.
  - destruct (nth_error (pool σ) k); cbn; [now left|].
    unfold updf. destruct (s =? next_fresh σ) eqn:E; [|now left].
    apply Nat.eqb_eq in E. right. right. now subst.
  - destruct r; cbn; unfold updf; (destruct (s =? s0) eqn:E; [|now left]);
      apply Nat.eqb_eq in E; subst; right; now left.
  - destruct (slot σ); now left.
  - unfold updf. destruct (s =? s0) eqn:E; [|now left].
    apply Nat.eqb_eq in E; subst; right; now left.
  - now left.
Qed.

(* The GC never touches any SearchState contents, the slot or the held table. *)
Theorem gc_frame :
  forall (k : nat) (σ : state),
    let σ' := gstep (Gc k) σ in
    (forall s, store σ' s = store σ s) /\ slot σ' = slot σ /\ held σ' = held σ /\
    log σ' = log σ.
Proof.
  intros k σ. unfold gstep, step. destruct (nth_error (pool σ) k); cbn; auto.
Qed.

(* ------------------------------------------------------------------------- *)
(* Invariant C: results                                                       *)
(* ------------------------------------------------------------------------- *)

(* Contents a SearchState can have: anything produced from a fresh one by searches
   and resets. *)
Inductive Reach : data -> Prop :=
| R_init : Reach init
| R_use d i : Reach d -> Reach (fst (use d i))
| R_reset d : Reach d -> Reach (reset d).

(* Property C13 of the project ("results do not depend on history"), as a premise. *)
Definition use_history_independent : Prop :=
  forall d i, Reach d -> snd (use d i) = snd (use init i).

(* A call executed alone on a state with contents d. *)
Fixpoint run_call_alone (d : data) (c : call) : list output :=
  match c with
  | [] => []
  | i :: r => snd (use d i) :: run_call_alone (fst (use d i)) r
  end.

Definition outs_spec (c : call) : list output := map (fun i => snd (use init i)) c.

Lemma run_alone_spec (HI : use_history_independent) c :
  forall d, Reach d -> run_call_alone d c = outs_spec c.
Proof.
  induction c as [|i r IH]; intros d Hd; cbn; [reflexivity|].
  rewrite (HI d i Hd). f_equal. apply IH. now constructor.
Qed.

Definition pc_ok (p : pcT) : Prop :=
  match p with
  | PIdle | PNeedPool _ => True
  | PUse _ c r acc => exists p, c = p ++ r /\ rev acc = outs_spec p
  | PCas _ c acc | PReset2 _ c acc | PPut _ c acc => rev acc = outs_spec c
  end.

Record InvC (σ : state) : Prop := {
  ic_store : forall s, Reach (store σ s);
  ic_fin : forall g c o, In (c, o) (fin (gst σ g)) -> o = outs_spec c;
  ic_pc : forall g, pc_ok (pc (gst σ g))
}.

Lemma init_InvC prog : InvC (init_state prog).
Proof.
  constructor; cbn; [intros; constructor|tauto|intros; exact I].
Qed.

Lemma reach_upd (f : id -> data) s d :
  (forall s', Reach (f s')) -> Reach d -> forall s', Reach (updf f s d s').
Proof. intros Hf Hd s'. unfold updf. destruct (s' =? s); auto. Qed.

Lemma fin_upd (f : gid -> gstate) g G' (P : call -> list output -> Prop) :
  (forall g' c o, In (c, o) (fin (f g')) -> P c o) ->
  (forall c o, In (c, o) (fin G') -> P c o) ->
  forall g' c o, In (c, o) (fin (updf f g G' g')) -> P c o.
Proof.
  intros Hf HG g' c o. unfold updf. destruct (g' =? g); [apply HG|apply Hf].
Qed.

Lemma pcok_upd (f : gid -> gstate) g G' :
  (forall g', pc_ok (pc (f g'))) -> pc_ok (pc G') ->
  forall g', pc_ok (pc (updf f g G' g')).
Proof. intros Hf HG g'. unfold updf. destruct (g' =? g); auto. Qed.

Lemma step_InvC (HI : use_history_independent) ch σ : InvC σ -> InvC (gstep ch σ).
Proof.
  intros [Hst Hfin Hpc]. unfold gstep.
  destruct ch as [g k|k]; unfold step.
  2:{ destruct (nth_error (pool σ) k); constructor; cbn; assumption. }
  pose proof (Hpc g) as Hg. pose proof (Hfin g) as Hfg.
  destruct (pc (gst σ g)) as [|c|s c r acc|s c acc|s c acc|s c acc] eqn:Epc; cbn in Hg.
  - destruct (todo (gst σ g)) as [|c t]; [constructor; assumption|].
    destruct (slot σ) as [s|]; constructor; cbn; try assumption;
      try (apply (fin_upd _ _ _ (fun c o => o = outs_spec c)); [exact Hfin|exact Hfg]);
      apply pcok_upd; try assumption; cbn; auto.
    exists []. split; reflexivity.
  - destruct (nth_error (pool σ) k) as [s|]; constructor; cbn; try assumption;
      try (apply (fin_upd _ _ _ (fun c o => o = outs_spec c)); [exact Hfin|exact Hfg]);
      try (apply pcok_upd; try assumption; cbn; exists []; split; reflexivity).
    apply reach_upd; [assumption|constructor].
  - destruct r as [|i r]; constructor; cbn;
      try (apply (fin_upd _ _ _ (fun c o => o = outs_spec c)); [exact Hfin|exact Hfg]).
    + apply reach_upd; [assumption|]. apply R_reset. apply Hst.
    + apply pcok_upd; try assumption; cbn.
      destruct Hg as [p [Hc Hacc]]. rewrite app_nil_r in Hc. now subst.
    + apply reach_upd; [assumption|]. apply R_use. apply Hst.
    + apply pcok_upd; try assumption; cbn.
      destruct Hg as [p [Hc Hacc]]. exists (p ++ [i]). split.
      * rewrite <- app_assoc. exact Hc.
      * rewrite Hacc. unfold outs_spec. rewrite map_app. cbn.
        rewrite (HI _ i (Hst s)). reflexivity.
  - destruct (slot σ) as [s0|]; constructor; cbn; try assumption.
    + apply (fin_upd _ _ _ (fun c o => o = outs_spec c)); [exact Hfin|exact Hfg].
    + apply pcok_upd; try assumption; cbn; auto.
    + apply (fin_upd _ _ _ (fun c o => o = outs_spec c)); [exact Hfin|].
      cbn. intros c' o' [H|H]; [inversion H; subst; exact Hg|now apply Hfg].
    + apply pcok_upd; try assumption; cbn; auto.
  - constructor; cbn.
    + apply reach_upd; [assumption|]. apply R_reset. apply Hst.
    + apply (fin_upd _ _ _ (fun c o => o = outs_spec c)); [exact Hfin|exact Hfg].
    + apply pcok_upd; try assumption; cbn; auto.
  - constructor; cbn; try assumption.
    + apply (fin_upd _ _ _ (fun c o => o = outs_spec c)); [exact Hfin|].
      cbn. intros c' o' [H|H]; [inversion H; subst; exact Hg|now apply Hfg].
    + apply pcok_upd; try assumption; cbn; auto.
Qed.

(* THEOREM concurrent_eq_sequential: under history independence (C13), every
   completed call of every goroutine, in every interleaving (including GC drops and
   recycled states with arbitrary pasts), returned exactly the outputs the same call
   returns when executed alone on a freshly allocated state. *)
Theorem concurrent_eq_sequential :
  use_history_independent ->
  forall (prog : gid -> list call) (sched : list choice) (g : gid)
         (c : call) (outs : list output),
    In (c, outs) (fin (gst (grun sched (init_state prog)) g)) ->
    outs = run_call_alone init c.
Proof.
  intros HI prog sched g c outs Hin.
  assert (H : InvC (grun sched (init_state prog))).
  { unfold grun. apply (run_invariant GetSwap PutCas InvC);
      [intros; now apply step_InvC|apply init_InvC]. }
  rewrite (run_alone_spec HI c init R_init). eapply ic_fin; eauto.
Qed.

(* Calls are neither lost nor duplicated nor reordered within a goroutine. *)
Definition cur_call (p : pcT) : list call :=
  match p with
  | PIdle => []
  | PNeedPool c | PUse _ c _ _ | PCas _ c _ | PReset2 _ c _ | PPut _ c _ => [c]
  end.

Definition calls_of (G : gstate) : list call :=
  rev (map fst (fin G)) ++ cur_call (pc G) ++ todo G.

Lemma step_calls ch σ g : calls_of (gst (gstep ch σ) g) = calls_of (gst σ g).
Proof.
  unfold gstep. destruct ch as [g0 k|k]; unfold step.
  2:{ destruct (nth_error (pool σ) k); reflexivity. }
  destruct (pc (gst σ g0)) as [|c|s c r acc|s c acc|s c acc|s c acc] eqn:Epc.
  - destruct (todo (gst σ g0)) as [|c t] eqn:Et; [reflexivity|].
    destruct (slot σ); cbn; unfold updf; (destruct (g =? g0) eqn:E; [|reflexivity]);
      apply Nat.eqb_eq in E; subst; unfold calls_of; rewrite Epc, Et; reflexivity.
  - destruct (nth_error (pool σ) k); cbn; unfold updf;
      (destruct (g =? g0) eqn:E; [|reflexivity]);
      apply Nat.eqb_eq in E; subst; unfold calls_of; rewrite Epc; reflexivity.
  - destruct r; cbn; unfold updf; (destruct (g =? g0) eqn:E; [|reflexivity]);
      apply Nat.eqb_eq in E; subst; unfold calls_of; rewrite Epc; reflexivity.
  - destruct (slot σ); cbn; unfold updf; (destruct (g =? g0) eqn:E; [|reflexivity]);
      apply Nat.eqb_eq in E; subst; unfold calls_of; rewrite Epc; cbn;
      rewrite <- ?app_assoc; reflexivity.
  - cbn; unfold updf; (destruct (g =? g0) eqn:E; [|reflexivity]);
      apply Nat.eqb_eq in E; subst; unfold calls_of; rewrite Epc; reflexivity.
  - cbn; unfold updf; (destruct (g =? g0) eqn:E; [|reflexivity]);
      apply Nat.eqb_eq in E; subst; unfold calls_of; rewrite Epc; cbn;
      rewrite <- ?app_assoc; reflexivity.
Qed.

Theorem calls_conserved :
  forall (prog : gid -> list call) (sched : list choice) (g : gid),
    calls_of (gst (grun sched (init_state prog)) g) = prog g.
Proof.
  intros prog sched g. unfold grun.
  apply (run_invariant GetSwap PutCas (fun σ => calls_of (gst σ g) = prog g)).
  - intros ch σ H. fold (gstep ch σ). now rewrite step_calls.
  - reflexivity.
Qed.

(* The protocol is lock-free: a goroutine that has work left is never blocked. *)
Definition has_work (G : gstate) : Prop := pc G <> PIdle \/ todo G <> [].

Theorem step_never_blocks :
  forall (g : gid) (k : nat) (σ : state),
    has_work (gst σ g) ->
    gst (gstep (Go g k) σ) g <> gst σ g.
Proof.
  intros g k σ Hw. unfold gstep, step.
  destruct (gst σ g) as [p td fn] eqn:EG. cbn.
  destruct p as [|c|s c r acc|s c acc|s c acc|s c acc]; cbn.
  - destruct td as [|c t]; [destruct Hw as [H|H]; cbn in H; congruence|].
    destruct (slot σ); cbn; unfold updf; rewrite Nat.eqb_refl; congruence.
  - destruct (nth_error (pool σ) k); cbn; unfold updf; rewrite Nat.eqb_refl; congruence.
  - destruct r; cbn; unfold updf; rewrite Nat.eqb_refl; try congruence.
    intros H. inversion H as [[H1 H2]]. clear -H1.
    assert (Hl : length r = length (i :: r)) by (rewrite <- H1; reflexivity).
    cbn in Hl. lia.
  - destruct (slot σ); cbn; unfold updf; rewrite Nat.eqb_refl; congruence.
  - unfold updf; rewrite Nat.eqb_refl; congruence.
  - unfold updf; rewrite Nat.eqb_refl; congruence.
Qed.

End Pool.

Arguments PIdle {input output}.
Arguments PNeedPool {input output}.
Arguments PUse {input output}.
Arguments PCas {input output}.
Arguments PReset2 {input output}.
Arguments PPut {input output}.

(* ------------------------------------------------------------------------- *)
(* Negative controls: the theorems are sensitive to the protocol               *)
(* ------------------------------------------------------------------------- *)

Section Controls.

Variables data input output : Type.
Variable init : data.
Variable use : data -> input -> data * output.
Variable reset : data -> data.

Let runv := run data input output init use reset.
Let st0 := init_state data input output init.

(* Two calls without any search step each ([] : call), for goroutines 0 and 1. *)
Definition ctl_prog : gid -> list (call input) :=
  fun g => match g with 0 | 1 => [[]; []] | _ => [] end.

Definition holder_of (σ : state data input output) (g : gid) : option id :=
  pc_id input output (pc _ _ (gst _ _ _ σ g)).

(* getSearchState reading the slot with Load() instead of Swap(nil):
   goroutine 0 completes one call (state 0 ends up in the slot), then goroutines 0
   and 1 both Load the slot. *)
Definition ctl_sched_load : list choice :=
  [Go 0 0; Go 0 0; Go 0 0; Go 0 0;   (* g0: Load=nil, New -> 0, reset, CAS ok: slot = 0 *)
   Go 0 0;                            (* g0: Load -> 0 (slot still 0) *)
   Go 1 0].                           (* g1: Load -> 0 *)

Lemma get_without_swap_refuted :
  exists (prog : gid -> list (call input)) (sched : list choice) (g1 g2 : gid) (s : id),
    g1 <> g2 /\
    holder_of (runv GetLoad PutCas sched (st0 prog)) g1 = Some s /\
    holder_of (runv GetLoad PutCas sched (st0 prog)) g2 = Some s.
Proof.
  exists ctl_prog, ctl_sched_load, 0, 1, 0.
  split; [discriminate|]. split; vm_compute; reflexivity.
Qed.

(* putSearchState storing into the slot without consulting a CAS result and then
   ALSO handing the state to the pool (Store instead of `if CompareAndSwap {return}`):
   the state is published twice. *)
Definition ctl_sched_store_fall : list choice :=
  [Go 0 0; Go 0 0; Go 0 0;            (* g0: Swap=nil, New -> 0, reset *)
   Go 0 0;                            (* g0: Store: slot = 0, falls through *)
   Go 0 0; Go 0 0;                    (* g0: reset, pool.Put(0): pool = [0] *)
   Go 0 0;                            (* g0: Swap -> 0 *)
   Go 1 0; Go 1 0].                   (* g1: Swap=nil, pool.Get -> 0 *)

Lemma put_without_cas_refuted :
  exists (prog : gid -> list (call input)) (sched : list choice) (g1 g2 : gid) (s : id),
    g1 <> g2 /\
    holder_of (runv GetSwap PutStoreFall sched (st0 prog)) g1 = Some s /\
    holder_of (runv GetSwap PutStoreFall sched (st0 prog)) g2 = Some s.
Proof.
  exists ctl_prog, ctl_sched_store_fall, 0, 1, 0.
  split; [discriminate|]. split; vm_compute; reflexivity.
Qed.

(* putSearchState as `e.localState.Store(state); return`: NOT an ownership violation
   (a holder publishes its unique state in exactly one place); what is lost is the
   state that was in the slot — it is overwritten and leaks (the single-slot cache no
   longer keeps what it promised).  Recorded so that nobody reads
   [put_without_cas_refuted] as a statement about this variant. *)
Definition ctl_sched_store_ret : list choice :=
  [Go 0 0; Go 0 0; Go 1 0; Go 1 0;    (* g0: New -> 0; g1: New -> 1 *)
   Go 0 0; Go 0 0;                    (* g0: reset; Store: slot = 0 *)
   Go 1 0; Go 1 0].                   (* g1: reset; Store: slot = 1, state 0 dropped *)

Lemma put_store_overwrite_leaks :
  exists (prog : gid -> list (call input)) (sched : list choice) (s : id),
    let σ := runv GetSwap PutStoreRet sched (st0 prog) in
    s < next_fresh _ _ _ σ /\ ~ In s (all_ids _ _ _ σ) /\ pool _ _ _ σ = [] /\
    slot _ _ _ σ = Some 1.
Proof.
  exists ctl_prog, ctl_sched_store_ret, 0. vm_compute.
  split; [lia|]. split; [|split; reflexivity]. intros [H|[]]. discriminate.
Qed.

End Controls.

(* ------------------------------------------------------------------------- *)
(* Non-vacuity: a concrete contended execution                                 *)
(* ------------------------------------------------------------------------- *)

Module Example.

Open Scope N_scope.

(* data: a history-dependent scratch value; output does not depend on it. *)
Definition ex_use (d i : N) : N * N := (d + i + 1, i * i).
Definition ex_reset (d : N) : N := d.   (* reset keeps the scratch (cf. Generation) *)

Lemma ex_history_independent : use_history_independent N N N 0 ex_use ex_reset.
Proof. intros d i _. reflexivity. Qed.

Definition ex_prog : gid -> list (call N) :=
  fun g => match g with
           | 0%nat => [[1; 2]; [3]]
           | 1%nat => [[4]; [5]]
           | 2%nat => [[6]; [7; 8]]
           | _ => []
           end.

Definition G (g : nat) : choice := Go g O.

(* phase 1: three goroutines find the slot empty and allocate 0,1,2; searches interleave *)
Definition ex_sched1 : list choice :=
  [G 0; G 0; G 1; G 1; G 2; G 2;          (* Swap=nil, New   (x3)                 *)
   G 0; G 1; G 2; G 0].                   (* searches 1,4,6,2                      *)

(* phase 2: releases — one CAS succeeds, two fail and go to the pool; GC drops one *)
Definition ex_sched2 : list choice :=
  [G 0; G 0;                              (* g0: reset; CAS ok  -> slot = 0        *)
   G 1; G 1; G 1; G 1;                    (* g1: reset; CAS FAILS; reset; Put(1)   *)
   G 2; G 2; G 2; G 2;                    (* g2: reset; CAS FAILS; reset; Put(2)   *)
   Gc 0%nat].                             (* GC drops state 2: pool = [1]          *)

(* phase 3: second calls — slot contended, pool hit, pool miss *)
Definition ex_sched3 : list choice :=
  [G 1;                                   (* g1: Swap -> 0 (g0's old state)        *)
   G 0; G 0;                              (* g0: Swap=nil; pool.Get -> 1           *)
   G 2; G 2;                              (* g2: Swap=nil; pool empty: New -> 3    *)
   G 1; G 0; G 2; G 2;                    (* searches 5,3,7,8                      *)
   G 2; G 2;                              (* g2: reset; CAS ok -> slot = 3         *)
   G 1; G 1; G 1; G 1;                    (* g1: reset; CAS FAILS; reset; Put(0)   *)
   G 0; G 0; G 0; G 0].                   (* g0: reset; CAS FAILS; reset; Put(1)   *)

Definition ex_run (sched : list choice) :=
  grun N N N 0 ex_use ex_reset sched (init_state N N N 0 ex_prog).

Definition obs (σ : state N N N) :=
  (slot _ _ _ σ, pool _ _ _ σ, next_fresh _ _ _ σ, held _ _ _ σ,
   map (fun g => fin _ _ (gst _ _ _ σ g)) [0; 1; 2]%nat,
   map (fun s => store _ _ _ σ s) [0; 1; 2; 3]%nat,
   wbb (log _ _ _ σ), length (log _ _ _ σ)).

(* after phase 1 all three goroutines hold pairwise distinct states *)
Example ex_phase1 :
  obs (ex_run ex_sched1) =
  (None, [], 3%nat, [(2, 2); (1, 1); (0, 0)]%nat,
   [[]; []; []], [5; 5; 7; 0], true, 7%nat).
Proof. vm_compute. reflexivity. Qed.

(* after phase 2: one state cached in the slot, one pooled, one collected *)
Example ex_phase2 :
  obs (ex_run (ex_sched1 ++ ex_sched2)) =
  (Some 0%nat, [1%nat], 3%nat, [],
   [[([1; 2], [1; 4])]; [([4], [16])]; [([6], [36])]],
   [5; 5; 7; 0], true, 15%nat).
Proof. vm_compute. reflexivity. Qed.

Definition ex_sched := ex_sched1 ++ ex_sched2 ++ ex_sched3.

(* final state: every call returned its sequential outputs although states 0 and 1
   changed hands between goroutines with non-trivial pasts *)
Example ex_final :
  obs (ex_run ex_sched) =
  (Some 3%nat, [1; 0]%nat, 4%nat, [],
   [[([3], [9]); ([1; 2], [1; 4])];
    [([5], [25]); ([4], [16])];
    [([7; 8], [49; 64]); ([6], [36])]],
   [11; 9; 7; 17], true, 30%nat).
Proof. vm_compute. reflexivity. Qed.

Example ex_outputs_sequential :
  forall g, In g [0; 1; 2]%nat ->
    Forall (fun co => snd co = run_call_alone N N N ex_use 0 (fst co))
           (fin _ _ (gst _ _ _ (ex_run ex_sched) g)).
Proof.
  intros g Hg. cbn in Hg.
  destruct Hg as [<-|[<-|[<-|[]]]]; vm_compute; repeat constructor.
Qed.

End Example.

(* ------------------------------------------------------------------------- *)
(* Statistics counters: meta/*.go  atomic.AddUint64(&e.stats.X, n)              *)
(* ------------------------------------------------------------------------- *)

Module Counter.

Open Scope N_scope.

Definition M64 : N := 2 ^ 64.

Definition sumN (l : list N) : N := fold_right N.add 0 l.
Definition total (p : list (list N)) : N := fold_right (fun r a => sumN r + a) 0 p.

(* shared uint64 counter + pending increments of each goroutine *)
Record cstate := mkC { cval : N; pend : list (list N) }.

Fixpoint pop_nth (g : nat) (l : list (list N)) : option (N * list (list N)) :=
  match l with
  | [] => None
  | h :: t =>
      match g with
      | O => match h with
             | [] => None
             | x :: r => Some (x, r :: t)
             end
      | S g' =>
          match pop_nth g' t with
          | Some (x, t') => Some (x, h :: t')
          | None => None
          end
      end
  end.

(* one atomic.AddUint64 by goroutine g *)
Definition cstep (σ : cstate) (g : nat) : cstate :=
  match pop_nth g (pend σ) with
  | Some (x, p') => mkC ((cval σ + x) mod M64) p'
  | None => σ
  end.

Definition crun (sched : list nat) (σ : cstate) : cstate := fold_left cstep sched σ.

Definition finished (σ : cstate) : bool :=
  forallb (fun r => match r with [] => true | _ => false end) (pend σ).

Lemma pop_total l : forall g x l', pop_nth g l = Some (x, l') -> total l = x + total l'.
Proof.
  induction l as [|h t IH]; intros g x l' H; [destruct g; discriminate|].
  destruct g as [|g]; cbn in H.
  - destruct h as [|y r]; [discriminate|]. inversion H; subst.
    unfold total, sumN. cbn [fold_right]. lia.
  - destruct (pop_nth g t) as [[y t']|] eqn:E; [|discriminate].
    inversion H; subst. specialize (IH _ _ _ E).
    unfold total in *. cbn [fold_right]. lia.
Qed.

Lemma finished_total p :
  forallb (fun r => match r with [] => true | _ => false end) p = true -> total p = 0.
Proof.
  induction p as [|r t IH]; cbn; [reflexivity|].
  destruct r; [|discriminate]. cbn. exact IH.
Qed.

Lemma M64_nz : M64 <> 0.
Proof. vm_compute. discriminate. Qed.

Lemma cstep_inv σ g :
  (cval (cstep σ g) + total (pend (cstep σ g))) mod M64 = (cval σ + total (pend σ)) mod M64.
Proof.
  unfold cstep. destruct (pop_nth g (pend σ)) as [[x p']|] eqn:E; [|reflexivity].
  cbn [cval pend]. rewrite (pop_total _ _ _ _ E).
  rewrite N.add_mod_idemp_l by exact M64_nz. f_equal. lia.
Qed.

Lemma cstep_lt σ g : cval σ < M64 -> cval (cstep σ g) < M64.
Proof.
  intros H. unfold cstep. destruct (pop_nth g (pend σ)) as [[x p']|]; [|exact H].
  cbn [cval]. apply N.mod_lt. exact M64_nz.
Qed.

Lemma crun_inv sched : forall σ,
  cval σ < M64 ->
  cval (crun sched σ) < M64 /\
  (cval (crun sched σ) + total (pend (crun sched σ))) mod M64
    = (cval σ + total (pend σ)) mod M64.
Proof.
  unfold crun.
  induction sched as [|g t IH]; intros σ H; cbn [fold_left]; [split; [exact H|reflexivity]|].
  destruct (IH (cstep σ g) (cstep_lt _ _ H)) as [H1 H2].
  split; [exact H1|]. rewrite H2. apply cstep_inv.
Qed.

(* THEOREM atomic_counters_commute: whatever the interleaving of the atomic adds,
   once every goroutine has performed its increments the counter holds the sum of
   the increments (modulo 2^64, as uint64). *)
Theorem atomic_counters_commute :
  forall (sched : list nat) (c0 : N) (incs : list (list N)),
    c0 < M64 ->
    finished (crun sched (mkC c0 incs)) = true ->
    cval (crun sched (mkC c0 incs)) = (c0 + total incs) mod M64.
Proof.
  intros sched c0 incs Hc Hf.
  destruct (crun_inv sched (mkC c0 incs) Hc) as [H1 H2]. cbn in H2.
  unfold finished in Hf. rewrite (finished_total _ Hf), N.add_0_r in H2.
  rewrite N.mod_small in H2 by exact H1. exact H2.
Qed.

Theorem atomic_counters_schedule_independent :
  forall (sched1 sched2 : list nat) (c0 : N) (incs : list (list N)),
    c0 < M64 ->
    finished (crun sched1 (mkC c0 incs)) = true ->
    finished (crun sched2 (mkC c0 incs)) = true ->
    cval (crun sched1 (mkC c0 incs)) = cval (crun sched2 (mkC c0 incs)).
Proof.
  intros s1 s2 c0 incs Hc H1 H2.
  rewrite (atomic_counters_commute s1 c0 incs Hc H1).
  rewrite (atomic_counters_commute s2 c0 incs Hc H2). reflexivity.
Qed.

(* control: a non-atomic `e.stats.X++` (load; add; store) loses updates *)
Record nstate := mkN { nval : N; ngs : list (list N * option N) }.

Fixpoint nstep_at (g : nat) (v : N) (l : list (list N * option N))
  : option (N * list (list N * option N)) :=
  match l with
  | [] => None
  | h :: t =>
      match g with
      | O =>
          match h with
          | (x :: r, None) => Some (v, (x :: r, Some v) :: t)               (* load *)
          | (x :: r, Some w) => Some ((w + x) mod M64, (r, None) :: t)      (* store *)
          | ([], _) => None
          end
      | S g' =>
          match nstep_at g' v t with
          | Some (v', t') => Some (v', h :: t')
          | None => None
          end
      end
  end.

Definition nstep (σ : nstate) (g : nat) : nstate :=
  match nstep_at g (nval σ) (ngs σ) with
  | Some (v', l') => mkN v' l'
  | None => σ
  end.

Definition nrun (sched : list nat) (σ : nstate) : nstate := fold_left nstep sched σ.

Lemma nonatomic_counter_refuted :
  exists (sched : list nat) (incs : list (list N)),
    let σ := nrun sched (mkN 0 (map (fun r => (r, None)) incs)) in
    forallb (fun p => match p with ([], None) => true | _ => false end) (ngs σ) = true /\
    nval σ <> total incs mod M64.
Proof.
  exists [0; 1; 0; 1]%nat, [[1]; [1]]. vm_compute. split; [reflexivity|discriminate].
Qed.

End Counter.

(* ------------------------------------------------------------------------- *)
(* Tie to the source: the action lists the extractor regenerates               *)
(* ------------------------------------------------------------------------- *)

(* go/harness/c06_protocol.go walks the bodies of Engine.getSearchState /
   Engine.putSearchState in source order, inlining the calls e.statePool.get() /
   e.statePool.put(x) (searchStatePool.get / .put of search_state.go) between
   AInline/AEndInline, and emits:

     x := e.localState.Swap(nil)                 ASwapSlot
     x := e.localState.Load()                    ALoadSlot
     e.localState.Store(x)                       AStoreSlot
     e.localState.CompareAndSwap(nil, x)         ACasSlot    (any other arguments: AOther)
     p.pool.Get()                                APoolGet
     p.pool.Put(x)                               APoolPut
     x.reset()                                   AReset
     if x == nil {                               AIfNil      (x: the acquired / passed state)
     if <the CAS call> {                         ACasSlot; AIfCasOk
     if !<the CAS call> {                        ACasSlot; AIfCasFail
     any other `if` whose condition, body or else part contains one of the
       above or a return                         AIfOther
     } else {                                    AElse
     }                                           AEndIf
     return  (inside an if, or at top level
              before the last statement)         AReturn
     for/range/switch/select/go/defer containing
       any of the above, any other method called
       on e.localState / p.pool                  AOther
   `if` statements without any of these (e.g. the Longest flag set-up in
   getSearchState) and the final top-level `return state` are not emitted. *)
Inductive action :=
| ASwapSlot | ALoadSlot | AStoreSlot | ACasSlot
| APoolGet | APoolPut | AReset
| AIfNil | AIfCasOk | AIfCasFail | AIfOther | AElse | AEndIf | AReturn
| AInline | AEndInline
| AOther.

Definition action_eqb (a b : action) : bool :=
  match a, b with
  | ASwapSlot, ASwapSlot | ALoadSlot, ALoadSlot | AStoreSlot, AStoreSlot
  | ACasSlot, ACasSlot | APoolGet, APoolGet | APoolPut, APoolPut | AReset, AReset
  | AIfNil, AIfNil | AIfCasOk, AIfCasOk | AIfCasFail, AIfCasFail | AIfOther, AIfOther
  | AElse, AElse | AEndIf, AEndIf | AReturn, AReturn | AInline, AInline
  | AEndInline, AEndInline | AOther, AOther => true
  | _, _ => false
  end.

Fixpoint actions_eqb (l1 l2 : list action) : bool :=
  match l1, l2 with
  | [], [] => true
  | a :: t1, b :: t2 => action_eqb a b && actions_eqb t1 t2
  | _, _ => false
  end.

Lemma action_eqb_eq a b : action_eqb a b = true <-> a = b.
Proof. destruct a, b; cbn; split; intros H; try discriminate; reflexivity. Qed.

Lemma actions_eqb_eq l1 : forall l2, actions_eqb l1 l2 = true <-> l1 = l2.
Proof.
  induction l1 as [|a t IH]; intros [|b t2]; cbn; split; intros H;
    try discriminate; try reflexivity.
  - apply andb_true_iff in H. destruct H as [H1 H2].
    apply action_eqb_eq in H1. apply IH in H2. now subst.
  - inversion H; subst. apply andb_true_iff. split; [now apply action_eqb_eq|now apply IH].
Qed.

(* engine.go:getSearchState as it is in the pinned tree *)
Definition get_protocol : list action :=
  [ASwapSlot; AIfNil; AInline; APoolGet; AEndInline; AEndIf].

(* engine.go:putSearchState as it is in the pinned tree (searchStatePool.put inlined) *)
Definition put_protocol : list action :=
  [AIfNil; AReturn; AEndIf;
   AReset;
   ACasSlot; AIfCasOk; AReturn; AEndIf;
   AInline; AIfNil; AReturn; AEndIf; AReset; APoolPut; AEndInline].

(* Normalisation: inline markers carry no meaning for the protocol; an early return
   on a nil state (`if state == nil { return }`) is a call without a state and is not
   a call of the model.  Nothing else is forgiven. *)
Fixpoint strip_inline (l : list action) : list action :=
  match l with
  | [] => []
  | AInline :: t | AEndInline :: t => strip_inline t
  | a :: t => a :: strip_inline t
  end.

Fixpoint strip_nil_guard (l : list action) : list action :=
  match l with
  | AIfNil :: AReturn :: AEndIf :: t => strip_nil_guard t
  | a :: t => a :: strip_nil_guard t
  | [] => []
  end.

Definition classify_get (l : list action) : option get_mode :=
  let l := strip_inline l in
  if actions_eqb l [ASwapSlot; AIfNil; APoolGet; AEndIf] then Some GetSwap
  else if actions_eqb l [ALoadSlot; AIfNil; APoolGet; AEndIf] then Some GetLoad
  else None.

Definition classify_put (l : list action) : option put_mode :=
  let l := strip_nil_guard (strip_inline l) in
  if actions_eqb l [AReset; ACasSlot; AIfCasOk; AReturn; AEndIf; AReset; APoolPut]
  then Some PutCas
  else if actions_eqb l [AReset; AStoreSlot; AReset; APoolPut] then Some PutStoreFall
  else match l with
       | [AReset; AStoreSlot] => Some PutStoreRet
       | AReset :: AStoreSlot :: AReturn :: _ => Some PutStoreRet
       | _ => None
       end.

(* Which variant of [step] (if any) the extracted action lists denote. *)
Definition variant_of_protocol (get put : list action) : option (get_mode * put_mode) :=
  match classify_get get, classify_put put with
  | Some gm, Some pm => Some (gm, pm)
  | _, _ => None
  end.

(* true exactly when the lists denote the variant the theorems are about
   ([gstep] = [step GetSwap PutCas]) *)
Definition protocol_ok (get put : list action) : bool :=
  match variant_of_protocol get put with
  | Some (GetSwap, PutCas) => true
  | _ => false
  end.

Lemma protocol_ok_pinned : protocol_ok get_protocol put_protocol = true.
Proof. vm_compute. reflexivity. Qed.

Lemma protocol_ok_sound get put :
  protocol_ok get put = true -> variant_of_protocol get put = Some (GetSwap, PutCas).
Proof.
  unfold protocol_ok. destruct (variant_of_protocol get put) as [[[] []]|];
    intros H; try discriminate; reflexivity.
Qed.

Lemma protocol_ok_exact get put :
  protocol_ok get put = true ->
  strip_inline get = [ASwapSlot; AIfNil; APoolGet; AEndIf] /\
  strip_nil_guard (strip_inline put) =
    [AReset; ACasSlot; AIfCasOk; AReturn; AEndIf; AReset; APoolPut].
Proof.
  intros H. apply protocol_ok_sound in H. unfold variant_of_protocol in H.
  destruct (classify_get get) as [gm|] eqn:Eg; [|discriminate].
  destruct (classify_put put) as [pm|] eqn:Ep; [|discriminate].
  inversion H; subst. split.
  - unfold classify_get in Eg.
    destruct (actions_eqb (strip_inline get) [ASwapSlot; AIfNil; APoolGet; AEndIf]) eqn:E1.
    + now apply actions_eqb_eq in E1.
    + destruct (actions_eqb (strip_inline get) [ALoadSlot; AIfNil; APoolGet; AEndIf]);
        discriminate.
  - unfold classify_put in Ep.
    destruct (actions_eqb (strip_nil_guard (strip_inline put))
                [AReset; ACasSlot; AIfCasOk; AReturn; AEndIf; AReset; APoolPut]) eqn:E1.
    + now apply actions_eqb_eq in E1.
    + destruct (actions_eqb (strip_nil_guard (strip_inline put))
                  [AReset; AStoreSlot; AReset; APoolPut]); [discriminate|].
      destruct (strip_nil_guard (strip_inline put)) as [|[] [|[] [|[] ?]]]; discriminate.
Qed.

(* the mutations of the self-test / of DESIGN.md's mutation table are recognised as
   the refuted / different variants, not as the proved one *)
Example mutated_put_store_ret :
  variant_of_protocol get_protocol
    [AIfNil; AReturn; AEndIf; AReset; AStoreSlot; AReturn] = Some (GetSwap, PutStoreRet)
  /\ protocol_ok get_protocol [AIfNil; AReturn; AEndIf; AReset; AStoreSlot; AReturn] = false.
Proof. vm_compute. split; reflexivity. Qed.

Example mutated_get_load :
  variant_of_protocol [ALoadSlot; AIfNil; AInline; APoolGet; AEndInline; AEndIf] put_protocol
    = Some (GetLoad, PutCas)
  /\ protocol_ok [ALoadSlot; AIfNil; AInline; APoolGet; AEndInline; AEndIf] put_protocol = false.
Proof. vm_compute. split; reflexivity. Qed.

(* ------------------------------------------------------------------------- *)
(* Case checker for the correspondence run                                    *)
(* ------------------------------------------------------------------------- *)

(* A case = the action lists extracted from one pair of source files together with
   the verdict the harness expects (true for the unmodified tree). *)
Record case := mkCase {
  case_id : N;
  case_get : list action;
  case_put : list action;
  case_expect : bool
}.

Definition check_case (c : case) : bool :=
  Bool.eqb (protocol_ok (case_get c) (case_put c)) (case_expect c).

Definition mismatches (cs : list case) : list N :=
  map case_id (filter (fun c => negb (check_case c)) cs).
